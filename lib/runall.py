#!/usr/bin/env python3
"""Run every claimed check's quick command (3 at a time); print one line each. Dev convenience."""
import concurrent.futures, json, os, subprocess, sys, time
ROOT = os.path.dirname(os.path.dirname(os.path.abspath(__file__)))
m = json.load(open(os.path.join(ROOT, "MANIFEST.json")))
only = set(sys.argv[1:])
def one(c):
    t0 = time.time()
    p = subprocess.run(c["quick_cmd"], shell=True, cwd=ROOT, stdout=subprocess.PIPE, stderr=subprocess.STDOUT, text=True)
    lines = [l for l in p.stdout.splitlines() if l.startswith(("VIOLATION", "KNOWN-FINDING", c["property_id"] + " tier"))]
    return c["property_id"], p.returncode, time.time() - t0, lines
with concurrent.futures.ThreadPoolExecutor(max_workers=3) as ex:
    bad = 0
    for pid, rc, wall, lines in ex.map(one, [c for c in m["checks"] if not only or c["property_id"] in only]):
        print("%s rc=%d %.0fs" % (pid, rc, wall)); [print("   " + l) for l in lines]
        bad += rc != 0
sys.exit(1 if bad else 0)
