#!/usr/bin/env python3
"""Regenerates /verif/MANIFEST.json from lib/props.py (so that it is always schema-valid)."""
import json, os, sys
sys.path.insert(0, os.path.dirname(os.path.abspath(__file__)))
from props import PROPS as ALL_PROPS, NOT_APPLICABLE, HOOK_COMMITS
# a props file with "claimed": false is runnable through ./check but not yet registered
PROPS = {k: v for k, v in ALL_PROPS.items() if v.get("claimed", True)}

ROOT = os.path.dirname(os.path.dirname(os.path.abspath(__file__)))
props = [json.loads(l) for l in open(os.path.join(ROOT, "properties.jsonl"))]
ids = [p["id"] for p in props]

BASELINE_OFF = ("cd /repo && GOFLAGS=-mod=mod GOPROXY=off GOSUMDB=off GOTOOLCHAIN=local "
                "go test -json -vet=off -count=1 -timeout 25m ./...")

m = {
    "version": 1,
    "setup_cmd": "./check --setup",
    "hooks": {
        "guard": "verif",
        "enable": "go build -tags unit,verif (harness module with `replace github.com/dapr/kit => /repo`); "
                  "`unit` is the repository's own test-seam tag, `verif` guards the add-only hook files",
        "baseline_off_cmd": BASELINE_OFF,
        "source_commits": HOOK_COMMITS,
        "add_only": True,
    },
    "engines": [
        {"name": "coq", "path": "coq/", "serves_properties": [i for i in ids if i in PROPS],
         "kind_free_text": "Coq 8.16.1 development: models, specs, theorems (Properties/Cxx.v), executable checkers evaluated with vm_compute inside coqc"},
        {"name": "harness", "path": "harness/", "serves_properties": [i for i in ids if i in PROPS],
         "kind_free_text": "Go correspondence harness built against /repo's working tree; emits Coq case files (input + observed behaviour)"},
    ],
    "checks": [],
    "not_applicable": [],
    "notes": "Technique: machine-checked proof in Coq of theorems about hand-written executable models, tied to the code on "
             "every run by a correspondence check (model evaluated inside coqc on the implementation's observed behaviour) "
             "plus a spec oracle proved equivalent to the property predicate. See DESIGN.md.",
}
for i in ids:
    if i in PROPS:
        c = PROPS[i]
        m["checks"].append({
            "property_id": i,
            "quick_cmd": "./check %s --tier quick" % i,
            "thorough_cmd": "./check %s --tier thorough" % i,
            "evidence_file": "/verif/evidence/%s.json" % i,
            "replay_cmd_template": "./check %s --replay {path}" % i,
            "engine": "coq+harness",
            "level_claimed": {"category": "proof", "text": c.get("level_text", ""), "design_ref": c.get("design_ref", "DESIGN.md section 5, " + i)},
            "level_note": c.get("level_note", ""),
            "technique": c.get("technique", "Coq proof over an executable model + correspondence check against the Go code"),
        })
    else:
        m["not_applicable"].append({"property_id": i, "reason": NOT_APPLICABLE.get(i, "check not built yet (work in progress); the property is in scope of the technique, see DESIGN.md section 5")})
json.dump(m, open(os.path.join(ROOT, "MANIFEST.json"), "w"), indent=1)
print("MANIFEST.json: %d checks, %d not_applicable" % (len(m["checks"]), len(m["not_applicable"])))
