#!/usr/bin/env python3
"""Confirm a candidate property-breaking change before it is kept under /verif/seeded/.

  python3 lib/verify_seed.py <candidate-dir> <seeded-id> [--demo-dir <pkg dir>] [--tags unit]

<candidate-dir> holds patch.diff, meta.json and demonstration test file(s) (*_test.go). In a scratch
worktree of /repo's HEAD (never /repo itself):
  1. demo on the unchanged code            -> must PASS
  2. patch applied: go build ./..., the repository's tests (go test -vet=off ./..., baseline: the three
     packages whose tests need -tags unit fail to build) with the demo absent -> must be the baseline
  3. demo with the patch                   -> must FAIL
If all three hold the candidate is copied to /verif/seeded/<seeded-id>/ with the commands and
outcomes recorded in meta.json["confirmed"].
"""
import json, os, re, shutil, subprocess, sys

ROOT = os.path.dirname(os.path.dirname(os.path.abspath(__file__)))
REPO = "/repo"
ENV = dict(os.environ, GOFLAGS="-mod=mod", GOPROXY="off", GOSUMDB="off", GOTOOLCHAIN="local")
BASELINE_FAIL = {"github.com/dapr/kit/concurrency", "github.com/dapr/kit/events/ratelimiting",
                 "github.com/dapr/kit/fswatcher"}


def run(cmd, cwd=None, timeout=1500):
    try:
        p = subprocess.run(cmd, cwd=cwd, env=ENV, stdout=subprocess.PIPE, stderr=subprocess.STDOUT, text=True,
                           timeout=timeout)
        return p.returncode, p.stdout
    except subprocess.TimeoutExpired as e:
        return 124, (e.stdout or b"").decode("utf8", "replace") if isinstance(e.stdout, bytes) else (e.stdout or "")


def main():
    a = sys.argv[1:]
    cand, sid = a[0], a[1]
    demo_dir = a[a.index("--demo-dir") + 1] if "--demo-dir" in a else None
    tags = a[a.index("--tags") + 1] if "--tags" in a else None
    meta = json.load(open(os.path.join(cand, "meta.json")))
    patch = os.path.join(cand, "patch.diff")
    touched = re.findall(r"^\+\+\+ b/(\S+)", open(patch).read(), re.M)
    demo_dir = demo_dir or os.path.dirname(touched[0])
    demos = [f for f in os.listdir(cand) if f.endswith("_test.go")]
    if not demos:
        print("no *_test.go demonstration in", cand)
        return 2
    wt = "/tmp/verify-seed-" + sid
    run(["git", "-C", REPO, "worktree", "remove", "--force", wt])
    rc, out = run(["git", "-C", REPO, "worktree", "add", "--detach", wt, "HEAD"])
    if rc:
        print(out)
        return 2
    log = {}
    try:
        def demo():
            for f in demos:
                shutil.copy(os.path.join(cand, f), os.path.join(wt, demo_dir, f))
            cmd = ["go", "test", "-vet=off", "-count=1", "-timeout", "300s", "-run", "Demo|demo|ZZ"]
            if tags:
                cmd += ["-tags", tags]
            r = run(cmd + ["./" + demo_dir + "/"], cwd=wt, timeout=400)
            for f in demos:
                os.remove(os.path.join(wt, demo_dir, f))
            return r
        rc, out = demo()
        log["demo_unchanged"] = {"rc": rc, "tail": out[-400:]}
        if rc != 0:
            print("REJECT: demo fails on the unchanged code\n" + out[-1500:])
            return 1
        rc, out = run(["git", "apply", "--whitespace=nowarn", patch], cwd=wt)
        if rc:
            print("REJECT: patch does not apply\n" + out)
            return 1
        rc, out = run(["go", "build", "./..."], cwd=wt)
        log["build"] = {"rc": rc}
        if rc:
            print("REJECT: does not build\n" + out[-1500:])
            return 1
        rc, out = run(["go", "test", "-vet=off", "-count=1", "-timeout", "25m", "./..."], cwd=wt)
        failed = set(re.findall(r"^(?:FAIL|---\s*FAIL:?)\s+(github\.com/\S+)", out, re.M))
        test_fail = re.findall(r"^--- FAIL: (\S+)", out, re.M)
        log["suite"] = {"rc": rc, "failed_packages": sorted(failed), "failed_tests": test_fail}
        if failed - BASELINE_FAIL or test_fail:
            # one retry for unrelated flakes
            rc, out2 = run(["go", "test", "-vet=off", "-count=1", "-timeout", "25m"] +
                           ["./" + p[len("github.com/dapr/kit/"):] + "/" for p in sorted(failed - BASELINE_FAIL)], cwd=wt)
            log["suite_retry"] = {"rc": rc, "tail": out2[-400:]}
            if rc:
                print("REJECT: existing tests fail with the change\n" + out2[-1500:])
                return 1
        if tags:
            rc, out = run(["go", "test", "-vet=off", "-count=1", "-tags", tags, "./" + demo_dir + "/"], cwd=wt)
            log["suite_tags_" + tags] = {"rc": rc, "tail": out[-300:]}
            if rc:
                print("REJECT: existing -tags %s tests fail with the change\n" % tags + out[-1500:])
                return 1
        rc, out = demo()
        log["demo_changed"] = {"rc": rc, "tail": out[-600:]}
        if rc == 0:
            print("REJECT: demo passes with the change")
            return 1
    finally:
        run(["git", "-C", REPO, "worktree", "remove", "--force", wt])
    dst = os.path.join(ROOT, "seeded", sid)
    os.makedirs(dst, exist_ok=True)
    shutil.copy(patch, os.path.join(dst, "patch.diff"))
    for f in demos:
        shutil.copy(os.path.join(cand, f), os.path.join(dst, f + ".txt"))   # .txt: not picked up by go tooling
    meta["demo_dir"] = demo_dir
    meta["repo_head"] = run(["git", "-C", REPO, "rev-parse", "--short", "HEAD"])[1].strip()
    meta["confirmed"] = log
    json.dump(meta, open(os.path.join(dst, "meta.json"), "w"), indent=1)
    print("KEPT", sid, "->", dst)
    return 0


if __name__ == "__main__":
    sys.exit(main())
