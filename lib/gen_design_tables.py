#!/usr/bin/env python3
"""Regenerates the generated tables of DESIGN.md (between <!-- GEN:x --> ... <!-- /GEN:x --> markers)
from known_findings.json, seeded/*/{meta,result}.json and props/*.json."""
import glob, json, os, re, subprocess
ROOT = os.path.dirname(os.path.dirname(os.path.abspath(__file__)))
kf = json.load(open(os.path.join(ROOT, "known_findings.json")))["findings"]

def esc(s):
    return str(s).replace("|", "\\|").replace("\n", " ")

fixed = ["| Commit | Property | What failed before the fix | Witness |", "|---|---|---|---|"]
for f in kf:
    if f["status"] == "fixed":
        what = re.sub(r"^fixed: property=\S+ \S+ ", "", f["line"])
        fixed.append("| %s | %s | %s | %s |" % (f.get("commit", ""), f["property"], esc(what), esc(f.get("witness", ""))))
known = ["| Id | Property | What fails (printed as KNOWN-FINDING) | Matcher (facts computed from the input) | Witness |", "|---|---|---|---|---|"]
for f in kf:
    if f["status"] == "known":
        known.append("| %s | %s | %s | `%s` | %s |" % (f["id"], f["property"], esc(f["what"]), esc(json.dumps(f.get("match", {}))), esc(f.get("witness", ""))))
seeded = ["| Seeded change | What it does | Needs | Outcome of `./check` (quick) |", "|---|---|---|---|"]
for d in sorted(glob.glob(os.path.join(ROOT, "seeded", "*", "meta.json"))):
    sid = os.path.basename(os.path.dirname(d))
    m = json.load(open(d))
    rp = os.path.join(os.path.dirname(d), "result.json")
    out = "not run yet"
    if m.get("obsolete"):
        out = "no longer a violation on the current tree: " + m["obsolete"]
    elif os.path.exists(rp):
        r = json.load(open(rp))
        lines = [c["violation_line"] for c in r["checks"].values() if c["violation_line"]]
        out = "MISSED" if not r["caught"] else ("caught, replay names the correspondence (no-failing-input-found)"
              if all("no-failing-input-found" in l for l in lines) else "caught with a concrete failing input")
        hist = m.get("history")
        if hist:
            out = hist + "; now: " + out
    seeded.append("| %s | %s | %s | %s |" % (sid, esc(m.get("title", "")), esc(m.get("needs", ""))[:300], out))
props = ["| Property | Theorems (obligations) | Harness | Quick-tier cases (last run) | Wall (s) |", "|---|---|---|---|---|"]
for p in sorted(glob.glob(os.path.join(ROOT, "props", "C*.json"))):
    pid = os.path.basename(p)[:-5]
    cfg = json.load(open(p))
    ev = os.path.join(ROOT, "evidence", pid + ".json")
    n = cases = wall = "?"
    if os.path.exists(ev):
        e = json.load(open(ev))
        n = "%d/%d" % (e["coverage"]["discharged"], e["coverage"]["obligations"])
        cases = "%d (%d distinct non-trivial)" % (e["coverage"]["evaluations"], e["coverage"]["distinct_nontrivial"])
        wall = e.get("wall_s")
    h = cfg["harness"]
    props.append("| %s | %s | %s | %s | %s |" % (pid, n, ", ".join(h) if isinstance(h, list) else h, cases, wall))
tables = {"fixed": fixed, "known": known, "seeded": seeded, "props": props}
path = os.path.join(ROOT, "DESIGN.md")
s = open(path).read()
for k, rows in tables.items():
    pat = re.compile(r"(<!-- GEN:%s -->\n).*?(<!-- /GEN:%s -->)" % (k, k), re.S)
    if not pat.search(s):
        print("marker GEN:%s missing" % k)
        continue
    s = pat.sub(lambda m: m.group(1) + "\n".join(rows) + "\n" + m.group(2), s)
open(path, "w").write(s)
print("DESIGN.md tables regenerated")
