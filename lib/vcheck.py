"""Orchestrator: proofs (Coq) + correspondence (Go harness vs model evaluated inside coqc)."""
import argparse, concurrent.futures, fcntl, glob, json, os, re, shutil, subprocess, sys, time

ROOT = os.path.dirname(os.path.dirname(os.path.abspath(__file__)))
COQ = os.path.join(ROOT, "coq")
HARNESS = os.path.join(ROOT, "harness")
WORK = os.environ.get("VERIF_WORK") or os.path.join(ROOT, "work")
# The registered checks always run against /repo.  VERIF_REPO=<scratch worktree> is a development aid
# (trying a change to dapr/kit without touching /repo); it never writes evidence/.
REPO = os.environ.get("VERIF_REPO") or "/repo"
SCRATCH = REPO != "/repo"
NCPU = os.cpu_count() or 4
COQC_FILE_TIMEOUT = 1500   # seconds per .v file (the slowest file of the development takes about 40 s)

GOENV = dict(os.environ, GOFLAGS="-mod=mod", GOPROXY="off", GOSUMDB="off", GOTOOLCHAIN="local",
             CGO_ENABLED=os.environ.get("CGO_ENABLED", "0"))

FORBIDDEN = re.compile(r"\b(Admitted|admit|Axiom|Axioms|Parameter|Parameters|Conjecture|Conjectures|"
                       r"Unset\s+Guard|bypass_check|Admit\s+Obligations|Unset\s+Positivity|"
                       r"Unset\s+Universe\s+Checking)\b|type-in-type|impredicative-set")
# standard-library axioms that may appear in Print Assumptions (named in DESIGN.md section 4)
AXIOM_WHITELIST = {
    "functional_extensionality_dep", "FunctionalExtensionality.functional_extensionality_dep",
    "Eqdep.Eq_rect_eq.eq_rect_eq", "eq_rect_eq", "proof_irrelevance", "classic",
    "ProofIrrelevance.proof_irrelevance", "Classical_Prop.classic", "JMeq_eq", "JMeq.JMeq_eq",
    "PropExtensionality.propositional_extensionality", "propositional_extensionality",
}
# registered kernel primitives (Uint63 / PArray / floats) are not declarations of this development
PRIMITIVE_PREFIXES = ("Uint63.", "PrimInt63.", "Sint63.", "PrimFloat.", "PArray.", "Uint63Axioms.",
                      "CarryType.")

from props import PROPS  # noqa: E402  (per-property configuration)


def sh(cmd, cwd=None, env=None, timeout=None, stdin=None):
    t0 = time.time()
    try:
        p = subprocess.run(cmd, cwd=cwd, env=env, timeout=timeout, input=stdin,
                           stdout=subprocess.PIPE, stderr=subprocess.STDOUT, text=True,
                           shell=isinstance(cmd, str))
        return p.returncode, p.stdout, time.time() - t0
    except subprocess.TimeoutExpired as e:
        out = e.stdout if isinstance(e.stdout, str) else (e.stdout or b"").decode("utf8", "replace")
        return 124, (out or "") + "\n[timeout]", time.time() - t0


class Lock:
    def __init__(self, name):
        d = os.path.join(ROOT, "work")   # shared build dirs => one lock file, whatever VERIF_WORK says
        os.makedirs(d, exist_ok=True)
        os.makedirs(WORK, exist_ok=True)
        self.path = os.path.join(d, name + ".lock")

    def __enter__(self):
        self.f = open(self.path, "w")
        fcntl.flock(self.f, fcntl.LOCK_EX)

    def __exit__(self, *a):
        fcntl.flock(self.f, fcntl.LOCK_UN)
        self.f.close()


# ------------------------------------------------------------------------------------------
# Coq side

COQPROJECT_HEADER = ("-Q . Kit\n-arg -w -arg -notation-overridden,-deprecated-hint-without-locality,"
                     "-deprecated-instance-without-locality,-ambiguous-paths\n")


def coq_project():
    """_CoqProject lists every .v file under coq/ (regenerated when the file set changes)."""
    files = sorted(os.path.relpath(p, COQ) for p in glob.glob(os.path.join(COQ, "**", "*.v"), recursive=True))
    text = COQPROJECT_HEADER + "\n".join(files) + "\n"
    cp = os.path.join(COQ, "_CoqProject")
    if not os.path.exists(cp) or open(cp).read() != text:
        open(cp, "w").write(text)


def coq_makefile():
    coq_project()
    mk = os.path.join(COQ, "Makefile")
    cp = os.path.join(COQ, "_CoqProject")
    if not os.path.exists(mk) or os.path.getmtime(mk) < os.path.getmtime(cp):
        rc, out, _ = sh(["coq_makefile", "-f", "_CoqProject", "-o", "Makefile"], cwd=COQ, timeout=120)
        if rc != 0:
            raise RuntimeError("coq_makefile failed:\n" + out)


def coq_build(targets=None, timeout=3600):
    """Full .vo build (never -vos/-vok) of the given targets (default: everything)."""
    with Lock("coq"):
        coq_makefile()
        # every coqc call gets its own time limit: a proof script that diverges must fail, not hang the build
        cmd = ["make", "-j%d" % NCPU, "-k", "COQC=timeout %d coqc" % COQC_FILE_TIMEOUT] + (targets or [])
        rc, out, wall = sh(cmd, cwd=COQ, timeout=timeout)
        return rc, out, wall


def kit_deps(vfile, seen=None):
    """Transitive closure of the development's own files a .v file Requires (regex on Require lines)."""
    seen = seen if seen is not None else set()
    if vfile in seen or not os.path.exists(vfile):
        return seen
    seen.add(vfile)
    src = strip_comments(open(vfile, encoding="utf8", errors="replace").read())
    for m in re.finditer(r"(?:From\s+(\w+)\s+)?Require\s+(?:Import\b|Export\b)?\s*(.*?)\.(?=\s|$)", src, re.S):
        if m.group(1) not in (None, "Kit"):
            continue
        for tok in m.group(2).split():
            tok = tok.strip()
            if tok.startswith("Kit."):
                tok = tok[4:]
            cand = os.path.join(COQ, *tok.split(".")) + ".v"
            if os.path.exists(cand):
                kit_deps(cand, seen)
    return seen


def grep_gate(files):
    """Forbidden tokens in the given files (comments stripped)."""
    hits = []
    for path in sorted(files):
        src = open(path, encoding="utf8", errors="replace").read()
        src = strip_comments(src)
        for m in FORBIDDEN.finditer(src):
            line = src.count("\n", 0, m.start()) + 1
            hits.append("%s:%d:%s" % (os.path.relpath(path, ROOT), line, m.group(0)))
    return hits


def strip_comments(src):
    out, depth, i, n = [], 0, 0, len(src)
    while i < n:
        if src.startswith("(*", i):
            depth += 1
            i += 2
        elif src.startswith("*)", i) and depth > 0:
            depth -= 1
            i += 2
        else:
            if depth == 0:
                out.append(src[i])
            elif src[i] == "\n":
                out.append("\n")
            i += 1
    return "".join(out)


def proof_obligations(pid):
    """Re-check coq/Properties/<pid>.v (and <pid>_*.v): one obligation per Theorem; discharged iff
    the file compiles up to and including it and its Print Assumptions is closed or whitelisted."""
    res = {"obligations": 0, "discharged": 0, "theorems": [], "undischarged": [], "axioms": {},
           "log": "", "files": []}
    vfiles = sorted(glob.glob(os.path.join(COQ, "Properties", pid + ".v")) +
                    glob.glob(os.path.join(COQ, "Properties", pid + "_*.v")))
    if not vfiles:
        res["undischarged"].append("Properties/%s.v missing" % pid)
        return res
    targets = ["Properties/%s.vo" % os.path.basename(v)[:-2] for v in vfiles]
    # source-table tie (BUILDING.md): Cxx/SrcTab.v is needed by the srctabXX shards only
    # everything the case shards of this property import must be fresh as well: all of coq/<pid>/ (Check.v is
    # not always a dependency of Properties/<pid>.v) plus what the property's config names
    for v in sorted(glob.glob(os.path.join(COQ, pid, "*.v"))):
        t = "%s/%so" % (pid, os.path.basename(v))
        if t not in targets:
            targets.append(t)
    for t in PROPS.get(pid, {}).get("coq_extra_targets", []):
        if t not in targets:
            targets.append(t)
    srctab = os.path.join(COQ, pid, "SrcTab.v")
    if os.path.exists(srctab):
        targets.append("%s/SrcTab.vo" % pid)
    rc, out, wall = coq_build(targets)
    res["build_wall_s"] = round(wall, 1)
    if rc != 0:
        res["log"] += out[-3000:]
    os.makedirs(os.path.join(WORK, "props"), exist_ok=True)
    deps = set()
    for vfile in vfiles:
        base = os.path.basename(vfile)[:-2]
        res["files"].append("Properties/%s.v" % base)
        kit_deps(vfile, deps)
        src = strip_comments(open(vfile).read())
        thms = [m.group(1) for m in re.finditer(r"^\s*Theorem\s+([A-Za-z0-9_']+)", src, re.M)]
        res["obligations"] += len(thms)
        res["theorems"] += thms
        # Print Assumptions output is only produced when the file is (re)compiled; run it directly.
        rc2, out2, _ = sh(["coqc", "-Q", ".", "Kit", "-o", os.path.join(WORK, "props", base + ".vo"),
                           "Properties/%s.v" % base], cwd=COQ, timeout=1800)
        if rc2 != 0:
            res["log"] += out2[-3000:]
        blocks = re.split(r"^(?=Closed under the global context|Axioms:)", out2, flags=re.M)
        blocks = [b for b in blocks if b.startswith("Closed under") or b.startswith("Axioms:")]
        for idx, name in enumerate(thms):
            if idx >= len(blocks):
                res["undischarged"].append(name + (" (does not compile)" if rc2 != 0 else " (no Print Assumptions output)"))
                continue
            b = blocks[idx]
            if b.startswith("Closed under"):
                res["discharged"] += 1
                res["axioms"][name] = []
                continue
            axs = re.findall(r"^([A-Za-z_][\w.']*)\s*:", b, re.M)
            axs = [a for a in axs if a != "Axioms"]   # the block's own heading line
            bad = [a for a in axs if a not in AXIOM_WHITELIST and not a.startswith(PRIMITIVE_PREFIXES)
                   and a.split(".")[-1] not in AXIOM_WHITELIST]
            res["axioms"][name] = axs
            if bad:
                res["undischarged"].append("%s (assumes %s)" % (name, ", ".join(bad)))
            else:
                res["discharged"] += 1
    if os.path.exists(srctab):
        kit_deps(srctab, deps)
    gate = grep_gate(deps)
    res["dep_files"] = len(deps)
    if gate:
        res["undischarged"].append("forbidden tokens: " + "; ".join(gate[:5]))
        res["discharged"] = 0
    return res


def coqchk(pid, ob):
    """Independent re-check of the compiled property files (and everything they depend on) with
    coqchk; -o prints the axioms the whole context relies on."""
    mods = ["Kit.Properties." + f[len("Properties/"):-2] for f in ob["files"]]
    with Lock("coq"):
        rc, out, wall = sh(["coqchk", "-silent", "-o", "-Q", ".", "Kit"] + mods, cwd=COQ, timeout=3 * 3600)
    m = re.search(r"\* Axioms:(.*?)\n\s*\n\* Constants", out, re.S)
    axioms = [l.strip() for l in (m.group(1) if m else "").splitlines() if l.strip() and l.strip() != "<none>"]
    res = {"rc": rc, "wall_s": round(wall, 1), "axioms": axioms, "tail": out[-800:]}
    bad = [a for a in axioms if a.split(".")[-1] not in AXIOM_WHITELIST and a not in AXIOM_WHITELIST
           and not any(a.startswith(p) or ("." + p) in ("." + a) for p in PRIMITIVE_PREFIXES)]
    if rc != 0:
        ob["undischarged"].append("coqchk failed (rc=%d)" % rc)
        ob["discharged"] = 0
    elif bad:
        ob["undischarged"].append("coqchk reports non-whitelisted axioms: " + ", ".join(bad[:5]))
        ob["discharged"] = 0
    return res


def run_shards(outdir, timeout=1800):
    """coqc every cases_*.v shard in parallel; return (failures {idx: verdict}, errors)."""
    shards = sorted(glob.glob(os.path.join(outdir, "cases_*.v")))
    failures, errors = {}, []

    def one(path):
        vo = path[:-2] + ".vo"
        rc, out, wall = sh(["coqc", "-Q", COQ, "Kit", "-o", vo, path], cwd=outdir, timeout=timeout)
        return path, rc, out, wall

    t0 = time.time()

    def take(path, rc, out):
        if rc != 0 or "R =" not in out:
            return False
        body = out[out.index("R ="):]
        for m in re.finditer(r"\(\s*(-?\d+)(?:%Z)?\s*,\s*(-?\d+)(?:%Z)?\s*\)", body):
            failures[int(m.group(1))] = int(m.group(2))
        return True

    killed = []
    with concurrent.futures.ThreadPoolExecutor(max_workers=NCPU) as ex:
        for path, rc, out, wall in ex.map(one, shards):
            if take(path, rc, out):
                continue
            if rc < 0 or rc == 137:
                # coqc was killed by a signal (the kernel's OOM killer when the machine is short of
                # memory): that says nothing about the property; evaluate the shard again, alone.
                killed.append(path)
            else:
                errors.append("%s: rc=%d %s" % (os.path.basename(path), rc, out[-600:]))
    for path in killed:
        path, rc, out, wall = one(path)
        if not take(path, rc, out):
            errors.append("%s: rc=%d (after a serial retry) %s" % (os.path.basename(path), rc, out[-600:]))
    for f in glob.glob(os.path.join(outdir, "cases_*.vo")) + glob.glob(os.path.join(outdir, "cases_*.glob")) \
            + glob.glob(os.path.join(outdir, ".cases_*.aux")) + glob.glob(os.path.join(outdir, "cases_*.vok")) \
            + glob.glob(os.path.join(outdir, "cases_*.vos")):
        try:
            os.remove(f)
        except OSError:
            pass
    return failures, errors, time.time() - t0


# ------------------------------------------------------------------------------------------
# Go side

def harness_names(cfg):
    h = cfg["harness"]
    return h if isinstance(h, list) else [h]


def bin_dir():
    return os.path.join(WORK, "bin") if SCRATCH else os.path.join(HARNESS, "bin")


def harness_build(name):
    with Lock("go"):
        os.makedirs(bin_dir(), exist_ok=True)
        cmd = ["go", "build", "-tags", "unit,verif"]
        if SCRATCH:
            # same module, but `replace github.com/dapr/kit => $VERIF_REPO` through an alternate go.mod
            mod = open(os.path.join(HARNESS, "go.mod")).read().replace("=> /repo", "=> " + REPO)
            modfile = os.path.join(WORK, "scratch.mod")
            open(modfile, "w").write(mod)
            shutil.copyfile(os.path.join(REPO, "go.sum"), os.path.join(WORK, "scratch.sum"))
            cmd += ["-modfile", modfile]
        else:
            try:
                shutil.copyfile(os.path.join(REPO, "go.sum"), os.path.join(HARNESS, "go.sum"))
            except OSError:
                pass
        rc, out, wall = sh(cmd + ["-o", os.path.join(bin_dir(), name), "./" + name],
                           cwd=HARNESS, env=GOENV, timeout=1200)
        return rc, out, wall


def harness_run(name, pid, tier, seed, outdir, inputs=None, timeout=3600):
    if os.path.isdir(outdir):
        shutil.rmtree(outdir)
    os.makedirs(outdir)
    cmd = [os.path.join(bin_dir(), name), "-tier", tier, "-seed", str(seed),
           "-out", outdir]
    if inputs:
        cmd += ["-inputs", inputs]
    else:
        corpus = os.path.join(ROOT, "corpus", pid)
        if len(name) > 3 and os.path.isdir(os.path.join(ROOT, "corpus", pid, name)):
            corpus = os.path.join(ROOT, "corpus", pid, name)
        if os.path.isdir(corpus):
            cmd += ["-corpus", corpus]
    # VERIF_REPO_DIR: the tree the harness was built against (read as TEXT by the srctabXX binaries)
    return sh(cmd, cwd=HARNESS, env=dict(GOENV, VERIF_REPO_DIR=REPO), timeout=timeout)


# ------------------------------------------------------------------------------------------
# Known findings

def load_findings(pid):
    path = os.path.join(ROOT, "known_findings.json")
    if not os.path.exists(path):
        return []
    data = json.load(open(path))
    return [f for f in data.get("findings", []) if f.get("property") == pid and f.get("status") == "known"]


def finding_matches(f, case):
    """A finding matches a failing case iff every key of its matcher equals the case's fact
    (facts are computed by the harness from the INPUT of the case, never from the verdict)."""
    m = f.get("match", {})
    if m.get("kind") and m["kind"] != case.get("kind"):
        return False
    facts = case.get("facts") or {}
    for k, v in (m.get("facts") or {}).items():
        if facts.get(k) != v:
            return False
    return bool(m)


# ------------------------------------------------------------------------------------------

def load_cases(outdir):
    cases = []
    p = os.path.join(outdir, "cases.jsonl")
    if os.path.exists(p):
        for line in open(p):
            line = line.strip()
            if line:
                cases.append(json.loads(line))
    return cases


def write_replay(pid, seed, n, payload):
    d = os.path.join(WORK, "replays") if SCRATCH else os.path.join(ROOT, "replays")
    os.makedirs(d, exist_ok=True)
    path = os.path.join(d, "%s-%s-%d.json" % (pid, seed, n))
    json.dump(payload, open(path, "w"), indent=1)
    return path


def trusted_base():
    return [
        "Coq 8.16.1 kernel (coqc, full .vo builds; vm_compute used, native_compute not used)",
        "no axioms declared by the development (grep gate + Print Assumptions per theorem)",
        "hand-written Gallina models tied to /repo by the correspondence check (differential testing: bounds, does not prove, model fidelity)",
        "Go harness (generators, scripted readers, virtual clocks, recorders), Python orchestrator",
        "Go runtime, standard library and third-party packages: modelled by their documented behaviour, not verified",
    ]


def check_property(pid, tier, seed, replay=None):
    t0 = time.time()
    cfg = PROPS[pid]
    outdir = os.path.join(WORK, pid + ("-replay" if replay else ""))
    lines, violations = [], []
    # 1. proof obligations
    ob = proof_obligations(pid)
    if tier == "thorough" and not replay and not ob["undischarged"]:
        ob["coqchk"] = coqchk(pid, ob)
    # 2. harnesses against /repo's working tree
    replay_case = None
    if replay:
        rp = json.load(open(replay))
        replay_case = rp.get("case")
        if not replay_case:
            print("replay file names no concrete case (kind=%s): re-running the normal check" % rp.get("kind"))
            replay = None
    names = harness_names(cfg)
    if replay_case and replay_case.get("bin") in names:
        names = [replay_case["bin"]]
    all_cases, failures, summary = [], {}, {"distribution": {}, "extra": {}, "distinct_nontrivial": 0, "wall": {}}
    tmo = cfg.get("timeout_thorough", 7200) if tier == "thorough" else cfg.get("timeout_quick", 900)
    broken = []   # harnesses that did not build / run / evaluate: the other harnesses still run, so that the
    #               failing-input search goes on (a concrete failing input beats "the tie is broken")
    for name in names:
        odir = os.path.join(outdir, name)
        rc, out, hb_wall = harness_build(name)
        if rc != 0:
            print(out[-3000:])
            print("harness %s does not build against /repo's working tree" % name)
            broken.append({"what": "harness %s does not build" % name, "kind": "build", "detail": out[-2000:]})
            continue
        inputs = None
        if replay_case:
            inputs = os.path.join(WORK, pid + "-replay-inputs.jsonl")
            with open(inputs, "w") as f:
                f.write(json.dumps(replay_case["input"]) + "\n")
        rc, out, h_wall = harness_run(name, pid, tier, seed, odir, inputs=inputs, timeout=tmo)
        if rc != 0:
            print(out[-3000:])
            broken.append({"what": "harness %s run failed (rc=%d)" % (name, rc), "kind": "harness", "detail": out[-2000:]})
            continue
        cases = load_cases(odir)
        sm = json.load(open(os.path.join(odir, "summary.json")))
        fl, errors, coq_wall = run_shards(odir)
        if errors:
            print("\n".join(errors)[-3000:])
            broken.append({"what": "model evaluation failed (%s)" % name, "kind": "coqc", "detail": errors[:3]})
            continue
        base = len(all_cases)
        for c in cases:
            c["bin"] = name
            if c.get("direct"):
                fl[c["i"]] = max(fl.get(c["i"], 0), c["direct"])
        for i, v in fl.items():
            failures[base + i] = v
        all_cases += cases
        pre = (name + "/") if len(names) > 1 else ""
        for k, v in sm.get("distribution", {}).items():
            summary["distribution"][pre + k] = v
        for k, v in sm.get("extra", {}).items():
            summary["extra"][pre + k] = v
        summary["distinct_nontrivial"] += sm.get("distinct_nontrivial", 0)
        summary["wall"][name] = {"harness_build_s": round(hb_wall, 1), "harness_s": round(h_wall, 1),
                                 "coq_cases_s": round(coq_wall, 1)}
    return finish(pid, tier, seed, t0, ob, summary, all_cases, failures, cfg, replay=replay, broken=broken)


def finish(pid, tier, seed, t0, ob, summary, cases, failures, cfg, fatal=None, replay=None, broken=None):
    findings = load_findings(pid)
    known_hit, violations, out_lines = {}, [], []
    nrep = 0
    if fatal:
        path = write_replay(pid, seed, 0, {"property": pid, "kind": "obligation", "what": fatal,
                                           "detail": failures, "names": "corr:%s/build" % pid})
        violations.append((path, True))
    else:
        oracle_fail = sorted(i for i, v in failures.items() if v >= 2)
        corr_fail = sorted(i for i, v in failures.items() if v == 1)
        unknown = []
        for i in oracle_fail:
            c = cases[i]
            # verdict 3 = the oracle fails AND the faithful model does not reproduce what the
            # implementation did: not the recorded defect as modelled, so never absorbed
            hit = None if failures[i] >= 3 else next((f for f in findings if finding_matches(f, c)), None)
            if hit:
                known_hit.setdefault(hit["id"], (hit, []))[1].append(i)
            else:
                unknown.append(i)
        if unknown:
            c = min((cases[i] for i in unknown), key=lambda c: len(json.dumps(c.get("input"))))
            path = write_replay(pid, seed, nrep, {
                "property": pid, "kind": "input", "seed": seed, "tier": tier,
                "what": "spec oracle fails on the implementation's observed behaviour",
                "case": c, "other_failing_cases": unknown[:50], "n_failing": len(unknown)})
            violations.append((path, False))
        elif corr_fail:
            c = min((cases[i] for i in corr_fail), key=lambda c: len(json.dumps(c.get("input"))))
            path = write_replay(pid, seed, nrep, {
                "property": pid, "kind": "correspondence", "seed": seed, "tier": tier,
                "names": "corr:%s/%s" % (pid, c.get("kind")),
                "what": "model and implementation disagree; spec oracle passed on all %d cases explored (failing-input search found nothing)" % len(cases),
                "case": c, "other_disagreeing_cases": corr_fail[:50], "n_disagreeing": len(corr_fail)})
            violations.append((path, True))
        if broken and not violations:
            path = write_replay(pid, seed, nrep, {
                "property": pid, "kind": "obligation", "names": "corr:%s/build" % pid,
                "what": "; ".join(b["what"] for b in broken) + "; failing-input search over the remaining harnesses (%d cases) found nothing" % len(cases),
                "detail": broken})
            violations.append((path, True))
        if ob["undischarged"] and not violations:
            path = write_replay(pid, seed, nrep, {
                "property": pid, "kind": "obligation", "names": ob["undischarged"],
                "what": "proof obligation no longer checks; failing-input search (corpus + %d generated cases) found nothing" % len(cases),
                "log": ob["log"][-3000:]})
            violations.append((path, True))
    # one line per listed (status=known) finding of this property, whether or not this run's
    # generator happened to reproduce it; the count says how many failing cases it absorbed
    for f in findings:
        n = len(known_hit.get(f["id"], (f, []))[1])
        print("KNOWN-FINDING: property=%s %s [%s; %d matching case(s) this run]" % (pid, f["what"], f["id"], n))
    wall = time.time() - t0
    # evidence
    samples = []
    if cases:
        step = max(1, len(cases) // 3)
        for c in cases[::step][:3]:
            samples.append({"kind": c.get("kind"), "input": c.get("input"), "observed": c.get("observed"),
                            "coq": (c.get("coq") or "")[:400]})
    for t in ob["theorems"][:3]:
        samples.append({"obligation": t})
    ev = {
        "property_id": pid, "tier": tier, "seed": int(seed), "level": "proof",
        "coverage": {
            "obligations": ob["obligations"], "discharged": ob["discharged"],
            "checker_cmd": "make -C coq Properties/%s.vo && coqc -Q coq Kit coq/Properties/%s.v (Print Assumptions per theorem) + grep gate" % (pid, pid),
            "trusted_base": trusted_base() + cfg.get("trusted_base", []),
            "theorems": ob["theorems"], "undischarged": ob["undischarged"], "axioms": ob["axioms"],
            "coqchk": ob.get("coqchk"),
            "evaluations": len(cases), "traces_validated_against_impl": len(cases),
            "distinct_nontrivial": (summary or {}).get("distinct_nontrivial", 0),
            "rule": cfg.get("rule", ""),
            "distribution": (summary or {}).get("distribution", {}),
            "extra": (summary or {}).get("extra", {}),
            "timing": (summary or {}).get("wall", {}),
            "samples": samples,
            "model_impl_disagreements": len([1 for v in (failures.values() if isinstance(failures, dict) else []) if v == 1]),
            "oracle_failures": len([1 for v in (failures.values() if isinstance(failures, dict) else []) if v >= 2]),
            "known_findings_matched": {k: len(v[1]) for k, v in known_hit.items()},
            "exhaustive": False,
        },
        "assumptions": cfg.get("assumptions", []),
        "wall_s": round(wall, 2),
        "violations": len(violations),
    }
    if not replay and not SCRATCH:
        os.makedirs(os.path.join(ROOT, "evidence"), exist_ok=True)
        json.dump(ev, open(os.path.join(ROOT, "evidence", pid + ".json"), "w"), indent=1)
    print("%s tier=%s seed=%s: obligations %d/%d discharged; %d cases (%d distinct non-trivial); "
          "%d model/impl disagreements, %d oracle failures; %.1fs" % (
              pid, tier, seed, ob["discharged"], ob["obligations"], len(cases),
              ev["coverage"]["distinct_nontrivial"], ev["coverage"]["model_impl_disagreements"],
              ev["coverage"]["oracle_failures"], wall))
    if ob["undischarged"]:
        print("undischarged:", "; ".join(ob["undischarged"]))
    for path, nofail in violations[:1]:
        print("VIOLATION property=%s replay=%s%s" % (pid, path, " no-failing-input-found" if nofail else ""))
    return 1 if violations else 0


def setup():
    t0 = time.time()
    rc, out, wall = coq_build(timeout=90 * 60)
    print(out[-4000:])
    missing = []
    claimed = sorted(p for p in PROPS if PROPS[p].get("claimed", True))
    for pid in claimed:
        for v in glob.glob(os.path.join(COQ, "Properties", pid + ".v")) + \
                glob.glob(os.path.join(COQ, "Properties", pid + "_*.v")) + \
                glob.glob(os.path.join(COQ, pid, "*Check*.v")):
            if not os.path.exists(v + "o"):
                missing.append(os.path.relpath(v, COQ))
    if missing:
        print("coq build failed for files of claimed properties:", " ".join(missing))
        return 1
    if rc != 0:
        print("note: some files outside the claimed properties did not build (work in progress)")
    for pid, cfg in sorted(PROPS.items()):
        for name in harness_names(cfg):
            rc, out, _ = harness_build(name)
            if rc != 0 and pid not in claimed:
                print("note: harness %s of unclaimed %s does not build (work in progress)" % (name, pid))
            elif rc != 0:
                print(out[-4000:])
                print("harness build failed for", pid, name)
                return 1
    print("setup ok in %.0fs" % (time.time() - t0))
    return 0


def main(argv):
    ap = argparse.ArgumentParser()
    ap.add_argument("prop", nargs="?")
    ap.add_argument("--setup", action="store_true")
    ap.add_argument("--tier", default=os.environ.get("VERIF_TIER", "quick"))
    ap.add_argument("--seed", default=os.environ.get("VERIF_SEED", "1"))
    ap.add_argument("--replay")
    a = ap.parse_args(argv)
    if a.setup:
        return setup()
    if not a.prop or a.prop not in PROPS:
        print("usage: check Cxx [--tier quick|thorough] [--seed N] [--replay f]; known:", " ".join(sorted(PROPS)))
        return 2
    try:
        seed = int(a.seed)
    except ValueError:
        seed = 1
    return check_property(a.prop, a.tier, seed, replay=a.replay)
