#!/usr/bin/env python3
"""Run the registered checks against the seeded property-breaking changes under /verif/seeded/.

  python3 lib/seeded.py [id ...]        (default: all)

For each seeded/<id>/ (patch.diff + meta.json naming the property): /repo must be clean; the patch
is applied (git apply), `./check <prop> --tier quick` is run, the outcome is written to
seeded/<id>/result.json, and the tree is restored (git checkout + removal of files the patch
added). Nothing is ever committed in /repo.
"""
import json, os, re, subprocess, sys, time

ROOT = os.path.dirname(os.path.dirname(os.path.abspath(__file__)))
REPO = "/repo"


def run(cmd, **kw):
    return subprocess.run(cmd, stdout=subprocess.PIPE, stderr=subprocess.STDOUT, text=True, **kw)


def main():
    ids = sys.argv[1:] or sorted(d for d in os.listdir(os.path.join(ROOT, "seeded"))
                                 if os.path.isdir(os.path.join(ROOT, "seeded", d)))
    st = run(["git", "-C", REPO, "status", "--porcelain"]).stdout.strip()
    if st:
        print("/repo is not clean:\n" + st)
        return 2
    summary = []
    for sid in ids:
        d = os.path.join(ROOT, "seeded", sid)
        meta = json.load(open(os.path.join(d, "meta.json")))
        prop = meta["property"]
        patch = os.path.join(d, "patch.diff")
        added = re.findall(r"^\+\+\+ b/(\S+)", open(patch).read(), re.M)
        r = run(["git", "-C", REPO, "apply", "--whitespace=nowarn", patch])
        if r.returncode != 0:
            print(sid, "patch does not apply:", r.stdout[-300:])
            summary.append((sid, prop, "patch-does-not-apply"))
            continue
        t0 = time.time()
        try:
            checks = meta.get("checks") or [prop]
            outs = {}
            caught = False
            for p in checks:
                c = run([os.path.join(ROOT, "check"), p, "--tier", meta.get("tier", "quick")], cwd=ROOT)
                line = next((l for l in c.stdout.splitlines() if l.startswith("VIOLATION")), "")
                outs[p] = {"rc": c.returncode, "violation_line": line, "tail": c.stdout[-600:]}
                caught = caught or (c.returncode == 1 and bool(line))
        finally:
            run(["git", "-C", REPO, "checkout", "--", "."])
            for f in added:
                full = os.path.join(REPO, f)
                tracked = run(["git", "-C", REPO, "ls-files", "--error-unmatch", f]).returncode == 0
                if not tracked and os.path.exists(full):
                    os.remove(full)
        res = {"id": sid, "property": prop, "caught": caught, "wall_s": round(time.time() - t0, 1), "checks": outs}
        json.dump(res, open(os.path.join(d, "result.json"), "w"), indent=1)
        concrete = any(o["violation_line"] and "no-failing-input-found" not in o["violation_line"] for o in outs.values())
        summary.append((sid, prop, "CAUGHT" + (" (concrete replay)" if concrete else " (no-failing-input-found)") if caught else "MISSED"))
        print(sid, prop, summary[-1][2], "%.0fs" % res["wall_s"])
    st = run(["git", "-C", REPO, "status", "--porcelain"]).stdout.strip()
    if st:
        print("WARNING: /repo not clean after run:\n" + st)
    return 0


if __name__ == "__main__":
    sys.exit(main())
