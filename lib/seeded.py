#!/usr/bin/env python3
"""Run the checks against the seeded property-breaking changes under /verif/seeded/.

  python3 lib/seeded.py [-j N] [id ...]        (default: all, 4 at a time)

For each seeded/<id>/ (patch.diff + meta.json naming the property and optionally "checks": [...],
"tier"): a scratch git worktree of /repo's HEAD is created under /tmp, the patch is applied THERE
(never in /repo), `VERIF_REPO=<worktree> ./check <prop> --tier quick` is run (the same check code,
harness built with `replace github.com/dapr/kit => <worktree>`; no evidence is written in this
mode), the outcome goes to seeded/<id>/result.json and the worktree is removed.
"""
import concurrent.futures, json, os, shutil, subprocess, sys, time

ROOT = os.path.dirname(os.path.dirname(os.path.abspath(__file__)))
REPO = "/repo"


def run(cmd, **kw):
    return subprocess.run(cmd, stdout=subprocess.PIPE, stderr=subprocess.STDOUT, text=True, **kw)


def one(sid):
    d = os.path.join(ROOT, "seeded", sid)
    meta = json.load(open(os.path.join(d, "meta.json")))
    prop = meta["property"]
    if meta.get("obsolete"):
        return sid, prop, "OBSOLETE", meta["obsolete"][:80]
    patch = os.path.join(d, "patch.diff")
    wt = "/tmp/seeded-wt-%s" % sid
    work = "/tmp/seeded-work-%s" % sid
    run(["git", "-C", REPO, "worktree", "remove", "--force", wt])
    shutil.rmtree(work, ignore_errors=True)
    r = run(["git", "-C", REPO, "worktree", "add", "--detach", wt, "HEAD"])
    if r.returncode != 0:
        return sid, prop, "worktree-failed", r.stdout[-300:]
    t0 = time.time()
    try:
        r = run(["git", "-C", wt, "apply", "--whitespace=nowarn", patch])
        if r.returncode != 0:
            return sid, prop, "patch-does-not-apply", r.stdout[-300:]
        outs, caught = {}, False
        env = dict(os.environ, VERIF_REPO=wt, VERIF_WORK=work)
        for p in meta.get("checks") or [prop]:
            c = run([os.path.join(ROOT, "check"), p, "--tier", meta.get("tier", "quick")], cwd=ROOT, env=env)
            line = next((l for l in c.stdout.splitlines() if l.startswith("VIOLATION")), "")
            outs[p] = {"rc": c.returncode, "violation_line": line, "tail": c.stdout[-600:]}
            caught = caught or (c.returncode == 1 and bool(line))
        res = {"id": sid, "property": prop, "caught": caught, "wall_s": round(time.time() - t0, 1),
               "repo_head": run(["git", "-C", REPO, "rev-parse", "--short", "HEAD"]).stdout.strip(),
               "checks": outs}
        json.dump(res, open(os.path.join(d, "result.json"), "w"), indent=1)
        concrete = any(o["violation_line"] and "no-failing-input-found" not in o["violation_line"]
                       for o in outs.values())
        verdict = ("CAUGHT" + (" (concrete replay)" if concrete else " (no-failing-input-found)")) if caught else "MISSED"
        return sid, prop, verdict, "%.0fs" % res["wall_s"]
    finally:
        run(["git", "-C", REPO, "worktree", "remove", "--force", wt])
        shutil.rmtree(work, ignore_errors=True)


def main():
    args = sys.argv[1:]
    jobs = 4
    if args[:1] == ["-j"]:
        jobs = int(args[1])
        args = args[2:]
    ids = args or sorted(d for d in os.listdir(os.path.join(ROOT, "seeded"))
                         if os.path.isfile(os.path.join(ROOT, "seeded", d, "meta.json")))
    missed = 0
    with concurrent.futures.ThreadPoolExecutor(max_workers=jobs) as ex:
        for sid, prop, verdict, extra in ex.map(one, ids):
            print(sid, prop, verdict, extra, flush=True)
            missed += verdict == "MISSED"
    run(["git", "-C", REPO, "worktree", "prune"])
    return 1 if missed else 0


if __name__ == "__main__":
    sys.exit(main())
