"""Per-property configuration: one JSON file per claimed property under /verif/props/."""
import glob, json, os

ROOT = os.path.dirname(os.path.dirname(os.path.abspath(__file__)))
PROPS = {}
for _p in sorted(glob.glob(os.path.join(ROOT, "props", "C*.json"))):
    PROPS[os.path.basename(_p)[:-5]] = json.load(open(_p))

# properties not claimed (reason shown in MANIFEST.not_applicable)
NOT_APPLICABLE = {}

# commits in /repo that add build-tag-guarded hooks
HOOK_COMMITS = ["3da214b", "e6e5bde"]
