"""Per-property configuration of the check orchestrator."""

PROPS = {
    "C16": {
        "harness": "c16",
        "rule": ("limit: N in -1..16 x source length 0..N+3 x ALL compositions of the source into chunks up to "
                 "length 5 (quick) / 12 (thorough), sampled above, x 5 reader styles (EOF alone, EOF with last data, "
                 "zero-length reads, failure, zero+EOF-with-data) x consumers (Read loop with random sizes, 1-byte "
                 "loop, io.ReadAll, io.Copy); multi: 0..4 sources; tee: writer budgets. A case is non-trivial when "
                 "the source data is non-empty; distinct = distinct (limit, length, script shape, consumer) class."),
        "level_text": ("Kernel-checked theorems over ALL limits, read scripts (chunkings, zero-length reads, data-with-EOF, "
                       "failures) and consumer buffer-size sequences for line-by-line models of the three wrappers; the "
                       "models are tied to the Go code by running both on thousands of scripts per run (incl. every "
                       "composition of short sources) and the spec oracle (proved equivalent to the spec predicate) is "
                       "evaluated on what the implementation did."),
        "level_note": ("Trusted: Coq kernel; hand-written model (fidelity bounded by the differential run, not proved); "
                       "Go harness and scripted reader; io.ReadAll/io.Copy/io.CopyBuffer behaviour as documented. "
                       "Not modelled: http.ErrBodyReadAfterClose branch, concurrent use of TeeReadCloser."),
        "technique": "Coq: induction over read scripts with a loop rule for the consumer; correspondence by vm_compute on harness-recorded cases",
        "assumptions": ["scripted sources obey the io.Reader contract (Lib/Reader.v)",
                        "http.ErrBodyReadAfterClose path of MultiReaderCloser not modelled"],
    },
}

# properties not claimed (reason shown in MANIFEST.not_applicable)
NOT_APPLICABLE = {}

# commits in /repo that add build-tag-guarded hooks
HOOK_COMMITS = []
