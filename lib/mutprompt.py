#!/usr/bin/env python3
"""Print the prompt for an independent mutation sub-agent: python3 lib/mutprompt.py Cxx [N]"""
import json, os, sys
ROOT = os.path.dirname(os.path.dirname(os.path.abspath(__file__)))
pid = sys.argv[1]; n = sys.argv[2] if len(sys.argv) > 2 else "3"
prop = next(json.loads(l) for l in open(os.path.join(ROOT, "properties.jsonl")) if json.loads(l)["id"] == pid)
text = json.dumps({k: prop[k] for k in ("title", "statement", "quantifier", "why_tests_cant", "anchors")}, indent=1)
t = open(os.path.join(ROOT, "lib", "mutation_prompt.txt")).read()
# later rounds: list the changes that already exist so that the new ones are different
import glob
have = []
for mp in sorted(glob.glob(os.path.join(ROOT, "seeded", pid + "-*", "meta.json"))):
    try:
        have.append(json.load(open(mp)).get("title", ""))
    except Exception:
        pass
rnd = sys.argv[3] if len(sys.argv) > 3 else ""
if have and rnd:
    t = t.replace("The property ({PID}):", "Earlier rounds already produced the following changes; yours must be DIFFERENT in mechanism "
                  "and in the clause or input class they rely on (do not redo these or close variants):\n- " + "\n- ".join(have) +
                  "\n\nThe property ({PID}):")
    t = t.replace("{OUT}", "/tmp/mut%s-{PID}-out" % rnd).replace("{WT}", "/tmp/mut%s-{PID}" % rnd)
print(t.replace("{WT}", "/tmp/mut-" + pid).replace("{OUT}", "/tmp/mut-%s-out" % pid).replace("{N}", n)
      .replace("{PID}", pid).replace("{PROP}", text))
