#!/usr/bin/env python3
"""Print the prompt for an independent mutation sub-agent: python3 lib/mutprompt.py Cxx [N]"""
import json, os, sys
ROOT = os.path.dirname(os.path.dirname(os.path.abspath(__file__)))
pid = sys.argv[1]; n = sys.argv[2] if len(sys.argv) > 2 else "3"
prop = next(json.loads(l) for l in open(os.path.join(ROOT, "properties.jsonl")) if json.loads(l)["id"] == pid)
text = json.dumps({k: prop[k] for k in ("title", "statement", "quantifier", "why_tests_cant", "anchors")}, indent=1)
t = open(os.path.join(ROOT, "lib", "mutation_prompt.txt")).read()
print(t.replace("{WT}", "/tmp/mut-" + pid).replace("{OUT}", "/tmp/mut-%s-out" % pid).replace("{N}", n)
      .replace("{PID}", pid).replace("{PROP}", text))
