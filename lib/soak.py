#!/usr/bin/env python3
"""Soak: run every claimed check's quick tier on the unchanged tree for several seeds; report non-zero exits.
   python3 lib/soak.py <first_seed> <last_seed> [Cxx ...]"""
import concurrent.futures, json, os, subprocess, sys, threading, time
ROOT = os.path.dirname(os.path.dirname(os.path.abspath(__file__)))
lo, hi = int(sys.argv[1]), int(sys.argv[2])
only = set(sys.argv[3:])
m = json.load(open(os.path.join(ROOT, "MANIFEST.json")))
jobs = [(c["property_id"], s) for s in range(lo, hi + 1) for c in m["checks"] if not only or c["property_id"] in only]
LOCKS = {}
def one(j):
    pid, s = j
    t0 = time.time()
    with LOCKS.setdefault(pid, threading.Lock()):   # two runs of one property share a work dir
      p = subprocess.run([os.path.join(ROOT, "check"), pid, "--tier", "quick", "--seed", str(s)], cwd=ROOT,
                         stdout=subprocess.PIPE, stderr=subprocess.STDOUT, text=True)
    tail = [l for l in p.stdout.splitlines() if l.startswith(("VIOLATION", pid + " tier", "undischarged"))]
    return pid, s, p.returncode, time.time() - t0, tail
bad = []
with concurrent.futures.ThreadPoolExecutor(max_workers=3) as ex:
    for pid, s, rc, wall, tail in ex.map(one, jobs):
        print("%s seed=%d rc=%d %.0fs%s" % (pid, s, rc, wall, "" if rc == 0 else "  <<<<<< " + " | ".join(tail)), flush=True)
        if rc:
            bad.append((pid, s))
print("FAILED:", bad)
