(* C17 — proofs.  For every modelled function of the current tree ([Fixed]) and for EVERY heap
   and EVERY slice view handed in (any array, offset, len, cap; overlapping or not): each cell
   the call writes lies in an array the call allocated itself or in the spare capacity of the
   explicit destination of aescbcaead Seal/Open; hence every other caller cell keeps its value.
   The tree before the fix commits is refuted on concrete witnesses.  The boolean oracle
   decides the spec predicate.  No axioms. *)
From Kit Require Import C17.Model C17.Spec C17.Check.
From Coq Require Import Strings.Byte.

(* ===================================================================================== *)
(* Lists                                                                                  *)

Lemma upd_length {A} (l : list A) i x : length (upd l i x) = length l.
Proof.
  revert i; induction l as [|h t IH]; intros [|i]; cbn [upd length]; try reflexivity.
  f_equal. apply IH.
Qed.

Lemma nth_error_upd_ne {A} (l : list A) i j x : j <> i -> nth_error (upd l i x) j = nth_error l j.
Proof.
  revert i j; induction l as [|h t IH]; intros [|i] [|j] Hne; cbn [upd nth_error];
    try reflexivity; try congruence.
  apply IH. congruence.
Qed.

Lemma nth_upd_ne {A} (l : list A) i j x d : j <> i -> nth j (upd l i x) d = nth j l d.
Proof.
  revert i j; induction l as [|h t IH]; intros [|i] [|j] Hne; cbn [upd nth];
    try reflexivity; try congruence.
  apply IH. congruence.
Qed.

Lemma nth_upd_same {A} (l : list A) i x d : nth i (upd l i x) d = x \/ upd l i x = l.
Proof.
  revert i; induction l as [|h t IH]; intros [|i]; cbn [upd nth]; auto.
  destruct (IH i) as [H|H]; [left; exact H | right; rewrite H; reflexivity].
Qed.

(* ===================================================================================== *)
(* The confinement invariant                                                              *)

Section Confine.
  Variable n0 : nat.              (* number of arrays that existed before the call *)
  Variable dst : option slice.    (* the explicit destination, if the call has one *)

  (* a cell the call may write: in a fresh array, or in the destination's spare capacity *)
  Definition P (a i : nat) : Prop := n0 <= a \/ may_write dst a i = true.
  Definition Pc (p : nat * nat) : Prop := P (fst p) (snd p).

  (* every cell reachable for writing through the view (within len by an indexed store or
     copy, within cap by append / reslicing) is permitted.  Depends on no memory state. *)
  Definition safe (s : slice) : Prop :=
    forall i, soff s <= i -> (i < soff s + slen s \/ i < soff s + scap s) -> P (sarr s) i.

  (* a destination in the sense of cipher.AEAD: only dst[len:cap] may be written *)
  Definition spare_ok (d : slice) : Prop :=
    forall i, soff d + slen d <= i -> i < soff d + scap d -> P (sarr d) i.

  Definition ext (m m' : mem) : Prop :=
    n0 <= nalloc m' /\
    (exists l, wlog m' = l ++ wlog m /\ Forall Pc l) /\
    (forall a i, ~ P a i -> getc m' a i = getc m a i).

  (* Hoare-style judgement: from any memory holding the caller's n0 arrays, [x] only performs
     permitted writes, leaves every non-permitted cell as it was (also when it panics), and
     its result satisfies [Q]. *)
  Definition okM {A} (Q : A -> Prop) (x : M A) : Prop :=
    forall m, n0 <= nalloc m -> ext m (snd (x m)) /\ (forall r, fst (x m) = Some r -> Q r).

  Lemma ext_refl m : n0 <= nalloc m -> ext m m.
  Proof.
    intro H. split; [exact H|]. split; [exists []; split; [reflexivity | constructor] | reflexivity].
  Qed.

  Lemma ext_trans m1 m2 m3 : ext m1 m2 -> ext m2 m3 -> ext m1 m3.
  Proof.
    intros (_ & (l1 & E1 & F1) & G1) (N3 & (l2 & E2 & F2) & G2).
    split; [exact N3|]. split.
    - exists (l2 ++ l1). split; [rewrite E2, E1, app_assoc; reflexivity | apply Forall_app; split; assumption].
    - intros a i Hn. rewrite G2, G1 by exact Hn. reflexivity.
  Qed.

  Lemma P_fresh a i : n0 <= a -> P a i.
  Proof. intro H; left; exact H. Qed.

  Lemma notP_lt a i : ~ P a i -> a < n0.
  Proof. intro H. destruct (Nat.lt_ge_cases a n0) as [L|G]; [exact L | exfalso; apply H; left; exact G]. Qed.

  (* ---------------------------------------------------------------------------------- *)
  (* memory primitives                                                                   *)

  Lemma getc_setc a i c m a' i' : (a', i') <> (a, i) -> getc (setc a i c m) a' i' = getc m a' i'.
  Proof.
    intro Hne. unfold getc, setc. cbn [arrays].
    destruct (Nat.eq_dec a' a) as [->|Ha].
    - destruct (nth_upd_same (arrays m) a (upd (nth a (arrays m) []) i c) []) as [E|E]; rewrite E.
      + apply nth_error_upd_ne. congruence.
      + reflexivity.
    - rewrite nth_upd_ne by exact Ha. reflexivity.
  Qed.

  Lemma nalloc_setc a i c m : nalloc (setc a i c m) = nalloc m.
  Proof. unfold nalloc, setc. cbn [arrays]. apply upd_length. Qed.

  Lemma ext_set_range a cs : forall i m,
    n0 <= nalloc m -> (forall j, i <= j -> j < i + length cs -> P a j) ->
    ext m (set_range a i cs m).
  Proof.
    induction cs as [|c cs IH]; intros i m Hn HP; cbn [set_range].
    - apply ext_refl; exact Hn.
    - apply ext_trans with (m2 := setc a i c m).
      + split; [rewrite nalloc_setc; exact Hn|]. split.
        * exists [(a, i)]. split; [reflexivity|]. constructor; [|constructor].
          unfold Pc; cbn [fst snd]. apply HP; cbn [length]; lia.
        * intros a' i' Hnot. apply getc_setc. intro E. injection E as -> ->.
          apply Hnot. apply HP; cbn [length]; lia.
      + apply IH; [rewrite nalloc_setc; exact Hn|].
        intros j H1 H2. apply HP; cbn [length]; lia.
  Qed.

  Lemma okM_ret {A} (Q : A -> Prop) a : Q a -> okM Q (ret a).
  Proof.
    intros HQ m Hn. cbn. split; [apply ext_refl; exact Hn|]. intros r E. injection E as <-. exact HQ.
  Qed.

  Lemma okM_panic {A} (Q : A -> Prop) : okM Q (@panic A).
  Proof. intros m Hn. cbn. split; [apply ext_refl; exact Hn | discriminate]. Qed.

  Lemma okM_bind {A B} (Q : A -> Prop) (R : B -> Prop) (x : M A) (f : A -> M B) :
    okM Q x -> (forall a, Q a -> okM R (f a)) -> okM R (mbind x f).
  Proof.
    intros Hx Hf m Hn. unfold mbind. destruct (Hx m Hn) as [E1 Q1].
    destruct (x m) as [[a|] m1]; cbn [fst snd] in *.
    - assert (Hn1 : n0 <= nalloc m1) by apply E1.
      destruct (Hf a (Q1 a eq_refl) m1 Hn1) as [E2 Q2].
      split; [eapply ext_trans; eassumption | exact Q2].
    - split; [exact E1 | discriminate].
  Qed.

  Lemma okM_weaken {A} (Q R : A -> Prop) (x : M A) : (forall a, Q a -> R a) -> okM Q x -> okM R x.
  Proof. intros H Hx m Hn. destruct (Hx m Hn) as [E Qx]. split; [exact E | intros r Hr; apply H, Qx, Hr]. Qed.

  Lemma okM_lift {A} (Q : A -> Prop) (o : option A) : (forall a, o = Some a -> Q a) -> okM Q (lift o).
  Proof. intro H. destruct o as [a|]; cbn [lift]; [apply okM_ret, H; reflexivity | apply okM_panic]. Qed.

  Lemma safe_fresh s : n0 <= sarr s -> safe s.
  Proof. intros H i _ _. apply P_fresh, H. Qed.

  Lemma okM_alloc_init cs : okM safe (alloc_init cs).
  Proof.
    intros m Hn. unfold alloc_init. cbn [fst snd]. split.
    - split; [unfold nalloc in *; cbn [arrays]; rewrite app_length; lia|]. split.
      + exists []. split; [reflexivity | constructor].
      + intros a i Hnot. apply notP_lt in Hnot. unfold getc. cbn [arrays].
        rewrite app_nth1 by (unfold nalloc in Hn; lia). reflexivity.
    - intros r E. injection E as <-. apply safe_fresh. cbn [sarr]. exact Hn.
  Qed.

  Lemma okM_alloc n : okM safe (alloc n).
  Proof. apply okM_alloc_init. Qed.

  Lemma okM_read s : okM (fun _ => True) (read s).
  Proof. intros m Hn. cbn. split; [apply ext_refl; exact Hn | trivial]. Qed.

  Lemma okM_load s i : okM (fun _ => True) (load s i).
  Proof.
    intros m Hn. unfold load. destruct (i <? slen s); cbn [fst snd];
      (split; [apply ext_refl; exact Hn | trivial]).
  Qed.

  Lemma okM_write_at s k cs : safe s -> okM (fun _ => True) (write_at s k cs).
  Proof.
    intros Hs m Hn. unfold write_at. destruct (k + length cs <=? slen s) eqn:E; cbn [fst snd].
    - apply Nat.leb_le in E. split; [|trivial]. apply ext_set_range; [exact Hn|].
      intros j H1 H2. apply Hs; lia.
    - split; [apply ext_refl; exact Hn | discriminate].
  Qed.

  Lemma okM_store s i c : safe s -> okM (fun _ => True) (store s i c).
  Proof. apply okM_write_at. Qed.

  Lemma okM_havoc s n : safe s -> okM (fun _ => True) (havoc s n).
  Proof. apply okM_write_at. Qed.

  Lemma okM_copy d s : safe d -> okM (fun _ => True) (copy d s).
  Proof.
    intro Hd. unfold copy. eapply okM_bind; [apply okM_read|]. intros cs _.
    eapply okM_bind; [apply okM_write_at, Hd|]. intros _ _. apply okM_ret. exact I.
  Qed.

  Lemma okM_copy_cells d cs : safe d -> okM (fun _ => True) (copy_cells d cs).
  Proof.
    intro Hd. unfold copy_cells.
    eapply okM_bind; [apply okM_write_at, Hd|]. intros _ _. apply okM_ret. exact I.
  Qed.

  Lemma okM_append s cs : safe s -> okM safe (append s cs).
  Proof.
    intro Hs. unfold append. destruct (slen s + length cs <=? scap s) eqn:E.
    - apply Nat.leb_le in E. intros m Hn. cbn [fst snd]. split.
      + apply ext_set_range; [exact Hn|]. intros j H1 H2. apply Hs; lia.
      + intros r Er. injection Er as <-. intros i H1 H2. cbn [sarr soff slen scap] in *.
        apply Hs; lia.
    - eapply okM_bind; [apply okM_read|]. intros old _. apply okM_alloc_init.
  Qed.

  Lemma safe_reslice s lo hi s' : safe s -> reslice s lo hi = Some s' -> safe s'.
  Proof.
    intros Hs E. unfold reslice in E.
    destruct ((lo <=? hi) && (hi <=? scap s)) eqn:C; [|discriminate]. injection E as <-.
    apply andb_true_iff in C as [C1 C2]. apply Nat.leb_le in C1, C2.
    intros i H1 H2. cbn [sarr soff slen scap] in *. apply Hs; lia.
  Qed.

  Lemma safe_reslice_from s lo s' : safe s -> reslice_from s lo = Some s' -> safe s'.
  Proof. apply safe_reslice. Qed.

  Lemma okM_reslice s lo hi : safe s -> okM safe (lift (reslice s lo hi)).
  Proof. intro Hs. apply okM_lift. intros a E. eapply safe_reslice; eassumption. Qed.

  Lemma okM_reslice_from s lo : safe s -> okM safe (lift (reslice_from s lo)).
  Proof. apply okM_reslice. Qed.

  (* reslicing something we will only read *)
  Lemma okM_lift_any {A} (o : option A) : okM (fun _ => True) (lift o).
  Proof. apply okM_lift. trivial. Qed.

  Lemma okM_crypt_blocks d s : safe d -> okM (fun _ => True) (crypt_blocks d s).
  Proof.
    intro Hd. unfold crypt_blocks.
    destruct (negb (slen s mod 16 =? 0)); [apply okM_panic|].
    destruct (slen d <? slen s); [apply okM_panic|].
    destruct (reslice d 0 (slen s)) as [d'|]; [|apply okM_panic].
    destruct (inexact_overlap d' s); [apply okM_panic | apply okM_havoc, Hd].
  Qed.

  Lemma okM_block_crypt b : safe b -> okM (fun _ => True) (block_crypt b).
  Proof. apply okM_havoc. Qed.

  (* loops *)
  Lemma okM_forM {X} (l : list X) (f : X -> M unit) :
    (forall x, okM (fun _ => True) (f x)) -> okM (fun _ => True) (forM l f).
  Proof.
    intro Hf. induction l as [|x l IH]; cbn [forM]; [apply okM_ret; exact I|].
    eapply okM_bind; [apply Hf|]. intros _ _. exact IH.
  Qed.

  Lemma okM_mapM {X Y} (Q : Y -> Prop) (f : X -> M Y) (l : list X) :
    (forall x, okM Q (f x)) -> okM (Forall Q) (mapM f l).
  Proof.
    intro Hf. induction l as [|x l IH]; cbn [mapM]; [apply okM_ret; constructor|].
    eapply okM_bind; [apply Hf|]. intros y Hy.
    eapply okM_bind; [exact IH|]. intros ys Hys. apply okM_ret. constructor; assumption.
  Qed.

  Lemma okM_foldM {X S} (Inv : S -> Prop) (f : S -> X -> M S) (l : list X) :
    (forall s x, Inv s -> okM Inv (f s x)) -> forall s, Inv s -> okM Inv (foldM f l s).
  Proof.
    intro Hf. induction l as [|x l IH]; intros s Hs; cbn [foldM]; [apply okM_ret; exact Hs|].
    eapply okM_bind; [apply Hf, Hs|]. intros s' Hs'. apply IH, Hs'.
  Qed.

  Lemma okM_nth_slice r i : Forall safe r -> okM safe (nth_slice r i).
  Proof.
    intro Hr. unfold nth_slice. apply okM_lift. intros s E.
    apply nth_error_In in E. rewrite Forall_forall in Hr. apply Hr, E.
  Qed.

  (* ---------------------------------------------------------------------------------- *)
  (* automation: walk through a monadic body                                             *)

  Ltac prim :=
    first
      [ apply okM_alloc | apply okM_alloc_init | apply okM_read | apply okM_load
      | apply okM_copy; assumption | apply okM_copy_cells; assumption
      | apply okM_store; assumption | apply okM_havoc; assumption
      | apply okM_write_at; assumption
      | apply okM_append; assumption
      | apply okM_crypt_blocks; assumption | apply okM_block_crypt; assumption
      | apply okM_reslice; assumption | apply okM_reslice_from; assumption
      | apply okM_nth_slice; assumption
      | apply okM_lift_any ].

  Ltac step :=
    lazymatch goal with
    | |- okM _ (mbind _ _) => eapply okM_bind; [ prim | intros ? ? ]
    | |- okM _ (ret _) => apply okM_ret
    | |- okM _ panic => apply okM_panic
    | |- okM _ (if ?b then _ else _) => destruct b
    | |- okM _ (match ?o with Some _ => _ | None => _ end) => destruct o
    | |- okM _ _ => first [ prim | (eapply okM_weaken; [ | prim ]); cbv beta; intros; exact I ]
    end.

  (* ---------------------------------------------------------------------------------- *)
  (* crypto/padding                                                                      *)

  Lemma okM_pad buf size :
    okM (fun r => forall s, In s (fst r) -> safe s \/ s = nil_slice) (pad_pkcs7 Fixed buf size).
  Proof.
    unfold pad_pkcs7. destruct (bad_block_size size).
    - apply okM_ret. intros s [<-|[]]. right; reflexivity.
    - repeat step. intros s [<-|[]]. left; assumption.
  Qed.

  Lemma okM_unpad e buf size : okM (fun _ => True) (unpad_pkcs7 e buf size).
  Proof.
    unfold unpad_pkcs7. destruct (bad_block_size size); [apply okM_ret; exact I|].
    destruct (slen buf =? 0); [apply okM_ret; exact I|].
    destruct (negb (slen buf mod Z.to_nat size =? 0)); [apply okM_ret; exact I|].
    eapply okM_bind; [apply okM_read|]. intros cs _.
    destruct (unpad_decide (Z.to_nat size) cs (e_unpad e)); [|apply okM_ret; exact I].
    eapply okM_bind; [apply okM_lift_any|]. intros out _. apply okM_ret; exact I.
  Qed.

  (* ---------------------------------------------------------------------------------- *)
  (* crypto/aeskw                                                                        *)

  Lemma okM_arr_concat arrs : okM safe (arr_concat arrs).
  Proof.
    unfold arr_concat. destruct arrs as [|a0 rest]; [apply okM_panic|].
    eapply okM_bind; [apply okM_alloc|]. intros out Hout.
    eapply okM_bind; [apply okM_copy, Hout|]. intros _ _.
    apply okM_foldM; [|exact Hout].
    intros s x Hs. eapply okM_bind; [apply okM_read|]. intros cs _. apply okM_append, Hs.
  Qed.

  Lemma okM_arr_xor l r : okM safe (arr_xor l r).
  Proof.
    unfold arr_xor. eapply okM_bind; [apply okM_alloc|]. intros out Hout.
    eapply okM_bind.
    - apply okM_forM. intro x. repeat step; try exact I.
    - intros _ _. apply okM_ret, Hout.
  Qed.

  Lemma okM_kw_rows (src : slice) (g : nat -> nat) n :
    okM (Forall safe)
        (mapM (fun i => ri <- alloc 8 ;; s <- lift (reslice_from src (g i)) ;; copy ri s ;;; ret ri)
              (seq 0 n)).
  Proof. apply okM_mapM. intro i. repeat step. assumption. Qed.

  Lemma okM_kw_wrap cek : okM (fun _ => True) (kw_wrap cek).
  Proof.
    unfold kw_wrap. destruct ((slen cek =? 0) || negb (slen cek mod 8 =? 0)); [apply okM_ret; exact I|].
    eapply okM_bind; [apply okM_alloc|]. intros a Ha.
    eapply okM_bind; [apply okM_copy_cells, Ha|]. intros _ _.
    eapply okM_bind; [apply (okM_kw_rows cek (fun i => i * 8))|]. intros r Hr.
    eapply okM_bind.
    - apply okM_forM. intro j. apply okM_forM. intro i.
      eapply okM_bind; [apply okM_nth_slice, Hr|]. intros ri Hri.
      eapply okM_bind; [apply okM_arr_concat|]. intros b Hb.
      eapply okM_bind; [apply okM_block_crypt, Hb|]. intros _ _.
      eapply okM_bind; [apply okM_alloc|]. intros tB HtB.
      eapply okM_bind; [apply okM_copy_cells, HtB|]. intros _ _.
      eapply okM_bind; [apply okM_reslice, Hb|]. intros bl Hbl.
      eapply okM_bind; [apply okM_arr_xor|]. intros x Hx.
      repeat step; try exact I.
    - intros _ _.
      eapply okM_bind; [apply okM_alloc|]. intros c Hc.
      eapply okM_bind; [apply okM_copy, Hc|]. intros _ _.
      eapply okM_bind.
      + apply okM_forM. intro i.
        eapply okM_bind; [apply okM_nth_slice, Hr|]. intros ri Hri.
        apply okM_forM. intro j. repeat step; try exact I.
      + intros _ _. apply okM_ret. exact I.
  Qed.

  Lemma okM_kw_unwrap e ct : okM (fun _ => True) (kw_unwrap e ct).
  Proof.
    unfold kw_unwrap.
    destruct (negb (slen ct mod 8 =? 0) || (slen ct <? 16)); [apply okM_ret; exact I|].
    eapply okM_bind; [apply okM_alloc|]. intros a Ha.
    destruct (slen ct / 8 =? 0); [apply okM_panic|].
    eapply okM_bind; [apply (okM_kw_rows ct (fun i => (i + 1) * 8))|]. intros r Hr.
    eapply okM_bind; [apply okM_lift_any|]. intros hd _.
    eapply okM_bind; [apply okM_copy, Ha|]. intros _ _.
    eapply okM_bind.
    - apply okM_forM. intro j. apply okM_forM. intro i.
      eapply okM_bind; [apply okM_nth_slice, Hr|]. intros ri Hri.
      eapply okM_bind; [apply okM_alloc|]. intros tB HtB.
      eapply okM_bind; [apply okM_copy_cells, HtB|]. intros _ _.
      eapply okM_bind; [apply okM_arr_xor|]. intros x Hx.
      eapply okM_bind; [apply okM_arr_concat|]. intros b Hb.
      eapply okM_bind; [apply okM_block_crypt, Hb|]. intros _ _.
      eapply okM_bind; [apply okM_reslice, Hb|]. intros bl Hbl.
      repeat step; try exact I.
    - intros _ _.
      eapply okM_bind; [apply okM_read|]. intros ac _.
      match goal with |- okM _ (if ?b then _ else _) => destruct b end; [apply okM_ret; exact I|].
      eapply okM_bind; [apply okM_arr_concat|]. intros c _. apply okM_ret; exact I.
  Qed.

  (* ---------------------------------------------------------------------------------- *)
  (* crypto/aescbcaead                                                                   *)

  Lemma okM_aead_new k key : okM (fun _ => True) (aead_new k key).
  Proof.
    unfold aead_new. destruct (negb (slen key =? k_enc k + k_mac k)); [apply okM_ret; exact I|].
    repeat step; try exact I.
  Qed.

  Lemma okM_hmac_tag k aad nonce ct : okM safe (hmac_tag k aad nonce ct).
  Proof. unfold hmac_tag. repeat step. Qed.

  (* after "ensure dst has room", the part behind the old length is writable *)
  Lemma okM_grow_dst d size : spare_ok d ->
    okM (fun d' => forall out, reslice_from d' (slen d) = Some out -> safe out) (grow_dst d size).
  Proof.
    intro Hd. unfold grow_dst. destruct (slen d + size <=? scap d) eqn:E.
    - apply Nat.leb_le in E. apply okM_lift. intros d' Ed' out Eout.
      unfold reslice in Ed'. destruct ((0 <=? slen d + size) && (slen d + size <=? scap d)); [|discriminate].
      injection Ed' as <-. unfold reslice_from, reslice in Eout. cbn [sarr soff slen scap] in Eout.
      match type of Eout with (if ?c then _ else _) = _ => destruct c; [|discriminate] end.
      injection Eout as <-. intros i H1 H2. cbn [sarr soff slen scap] in *.
      apply Hd; lia.
    - eapply okM_bind; [apply okM_alloc|]. intros d' Hd'.
      eapply okM_bind; [apply okM_copy, Hd'|]. intros _ _.
      apply okM_ret. intros out Eout. eapply safe_reslice_from; eassumption.
  Qed.

  Lemma okM_aead_seal k d nonce pt aad : spare_ok d ->
    okM (fun _ => True) (aead_seal Fixed k d nonce pt aad).
  Proof.
    intro Hd. unfold aead_seal. destruct (negb (slen nonce =? 16)); [apply okM_panic|].
    eapply okM_bind; [apply okM_pad|]. intros [ss err] _.
    destruct ss as [|pt' [|? ?]]; try apply okM_panic.
    destruct err; try apply okM_panic.
    eapply okM_bind; [apply okM_grow_dst, Hd|]. intros d' Hd'.
    eapply okM_bind with (Q := safe); [apply okM_lift; exact Hd'|]. intros out Hout.
    eapply okM_bind; [apply okM_reslice, Hout|]. intros body Hbody.
    eapply okM_bind; [apply okM_crypt_blocks, Hbody|]. intros _ _.
    eapply okM_bind; [apply okM_hmac_tag|]. intros tag _.
    repeat step; try exact I.
  Qed.

  Lemma okM_aead_open e k d nonce ct aad : spare_ok d ->
    okM (fun _ => True) (aead_open e k d nonce ct aad).
  Proof.
    intro Hd. unfold aead_open. destruct (slen ct <? k_tag k); [apply okM_ret; exact I|].
    destruct (negb ((slen ct - k_tag k) mod 16 =? 0)); [apply okM_ret; exact I|].
    eapply okM_bind; [apply okM_lift_any|]. intros ctTag _.
    eapply okM_bind; [apply okM_lift_any|]. intros ct' _.
    eapply okM_bind; [apply okM_hmac_tag|]. intros et _.
    eapply okM_bind; [apply okM_read|]. intros _ _.
    eapply okM_bind; [apply okM_read|]. intros _ _.
    destruct (negb (e_ok e)); [apply okM_ret; exact I|].
    eapply okM_bind; [apply okM_grow_dst, Hd|]. intros d' Hd'.
    eapply okM_bind with (Q := safe); [apply okM_lift; exact Hd'|]. intros out Hout.
    eapply okM_bind; [apply okM_crypt_blocks, Hout|]. intros _ _.
    eapply okM_bind; [apply okM_unpad|]. intros [ss err] _.
    destruct ss as [|o1 [|? ?]]; try (apply okM_ret; exact I).
    destruct err; try (apply okM_ret; exact I).
    eapply okM_bind; [apply okM_lift_any|]. intros r _. apply okM_ret; exact I.
  Qed.

  Lemma spare_ok_nil : spare_ok nil_slice.
  Proof. intros i H1 H2. cbn in H2. lia. Qed.

  (* ---------------------------------------------------------------------------------- *)
  (* crypto (symmetric)                                                                  *)

  Lemma okM_enc_aescbc pt a key iv : okM (fun _ => True) (enc_aescbc Fixed pt a key iv).
  Proof.
    unfold enc_aescbc.
    destruct (negb (slen key =? expected_key_size a)); [apply okM_ret; exact I|].
    destruct (negb (slen iv =? 16)); [apply okM_ret; exact I|].
    destruct (is_nopad a && negb (slen pt mod 16 =? 0)); [apply okM_ret; exact I|].
    eapply okM_bind; [apply okM_read|]. intros _ _.
    eapply okM_bind with (Q := fun _ => True).
    - destruct (is_nopad a); [apply okM_ret; exact I|].
      eapply okM_weaken; [|apply okM_pad]. trivial.
    - intros [ss err] _.
      destruct ss as [|pt' [|? ?]]; try (apply okM_ret; exact I).
      destruct err; try (apply okM_ret; exact I).
      repeat step; try exact I.
  Qed.

  Lemma okM_dec_aescbc e ct a key iv : okM (fun _ => True) (dec_aescbc e ct a key iv).
  Proof.
    unfold dec_aescbc.
    destruct (negb (slen key =? expected_key_size a)); [apply okM_ret; exact I|].
    destruct (negb (slen iv =? 16)); [apply okM_ret; exact I|].
    destruct (negb (slen ct mod 16 =? 0)); [apply okM_ret; exact I|].
    eapply okM_bind; [apply okM_read|]. intros _ _.
    eapply okM_bind; [apply okM_alloc|]. intros pt Hpt.
    eapply okM_bind; [apply okM_read|]. intros _ _.
    eapply okM_bind; [apply okM_crypt_blocks, Hpt|]. intros _ _.
    destruct (is_nopad a); [apply okM_ret; exact I | apply okM_unpad].
  Qed.

  Lemma okM_seal_split s key nonce pt aad : okM (fun _ => True) (seal_split Fixed s key nonce pt aad).
  Proof.
    unfold seal_split. eapply okM_bind with (Q := fun _ => True).
    - destruct s as [|k|].
      + repeat step.
      + eapply okM_bind; [apply okM_aead_new|]. intros [ks|] _; [|apply okM_panic].
        apply okM_aead_seal, spare_ok_nil.
      + repeat step.
    - intros out _. repeat step; try exact I.
  Qed.

  Lemma okM_join_open e s key nonce ct tag aad :
    okM (fun _ => True) (join_open Fixed e s key nonce ct tag aad).
  Proof.
    unfold join_open. eapply okM_bind with (Q := fun _ => True).
    - repeat step; try exact I.
    - intros joined _. destruct s as [|k|].
      + repeat step; try exact I.
      + eapply okM_bind; [apply okM_aead_new|]. intros [ks|] _; [|apply okM_panic].
        apply okM_aead_open, spare_ok_nil.
      + repeat step; try exact I.
  Qed.

  Lemma okM_enc_sym pt a k nonce aad : okM (fun _ => True) (enc_sym Fixed pt a k nonce aad).
  Proof.
    unfold enc_sym. destruct k as [key|]; [|apply okM_ret; exact I].
    destruct (sym_class a).
    - apply okM_enc_aescbc.
    - repeat step; try exact I. apply okM_seal_split.
    - destruct (hmac_kind a) as [hk|]; [|apply okM_ret; exact I].
      repeat step; try exact I. apply okM_seal_split.
    - destruct (negb (slen key =? expected_key_size a)); [apply okM_ret; exact I|].
      eapply okM_bind; [apply okM_read|]. intros _ _.
      eapply okM_bind; [apply okM_kw_wrap|]. intros [ss err] _.
      destruct ss as [|c [|? ?]]; apply okM_ret; exact I.
    - repeat step; try exact I. apply okM_seal_split.
    - apply okM_ret; exact I.
  Qed.

  Lemma okM_dec_sym e ct a k nonce tag aad : okM (fun _ => True) (dec_sym Fixed e ct a k nonce tag aad).
  Proof.
    unfold dec_sym. destruct k as [key|]; [|apply okM_ret; exact I].
    destruct (sym_class a).
    - apply okM_dec_aescbc.
    - repeat step; try exact I. apply okM_join_open.
    - destruct (hmac_kind a) as [hk|]; [|apply okM_ret; exact I].
      repeat step; try exact I. apply okM_join_open.
    - destruct (negb (slen key =? expected_key_size a)); [apply okM_ret; exact I|].
      eapply okM_bind; [apply okM_read|]. intros _ _. apply okM_kw_unwrap.
    - repeat step; try exact I. apply okM_join_open.
    - apply okM_ret; exact I.
  Qed.

  (* ---------------------------------------------------------------------------------- *)
  (* crypto (asymmetric, key parsing): kit performs no slice write of its own            *)

  Lemma okM_asym_op e sup hr k args : okM (fun _ => True) (asym_op e sup hr k args).
  Proof.
    unfold asym_op. destruct (negb sup); [apply okM_ret; exact I|].
    eapply okM_bind with (Q := fun _ => True).
    - destruct k; repeat step; try exact I.
    - intros _ _. destruct (e_ok e); [|apply okM_ret; exact I].
      eapply okM_bind with (Q := fun _ => True).
      + unfold asym_read_args. apply okM_forM. intro s. repeat step; try exact I.
      + intros _ _. destruct hr; repeat step; try exact I.
  Qed.

  (* ---------------------------------------------------------------------------------- *)
  (* one API call, whose explicit destination (if any) is the section's [dst]            *)

  Lemma spare_ok_dst d : dst = Some d -> spare_ok d.
  Proof.
    intros E i H1 H2. right. rewrite E. unfold may_write, in_spare.
    rewrite Nat.eqb_refl. cbn [andb].
    apply andb_true_iff; split; [apply Nat.leb_le; exact H1 | apply Nat.ltb_lt; exact H2].
  Qed.

  Lemma okM_run_call e c : dst_of c = dst -> okM (fun _ => True) (run_call Fixed e c).
  Proof.
    intro Hdst. destruct c; cbn [run_call].
    - eapply okM_weaken; [|apply okM_pad]. trivial.
    - apply okM_unpad.
    - apply okM_kw_wrap.
    - apply okM_kw_unwrap.
    - eapply okM_bind; [apply okM_aead_new|]. intros [ks|] _; [|apply okM_ret; exact I].
      eapply okM_bind; [apply okM_aead_seal, spare_ok_dst; symmetry; exact Hdst|].
      intros r _. apply okM_ret; exact I.
    - eapply okM_bind; [apply okM_aead_new|]. intros [ks|] _; [|apply okM_ret; exact I].
      apply okM_aead_open, spare_ok_dst. symmetry; exact Hdst.
    - apply okM_enc_sym.
    - apply okM_dec_sym.
    - destruct (top_class a).
      + apply okM_enc_sym.
      + eapply okM_bind; [apply okM_asym_op|]. intros [ss err] _.
        destruct ss as [|c [|? ?]]; apply okM_ret; exact I.
      + apply okM_ret; exact I.
    - destruct (top_class a).
      + apply okM_dec_sym.
      + apply okM_asym_op.
      + apply okM_ret; exact I.
    - apply okM_asym_op.
    - apply okM_asym_op.
    - apply okM_asym_op.
    - apply okM_asym_op.
    - eapply okM_bind; [apply okM_read|]. intros _ _. apply okM_ret; exact I.
  Qed.

End Confine.

(* ===================================================================================== *)
(* From the judgement to the statements of Spec.v                                         *)

Lemma firstn_app_exact {A} (l r : list A) : firstn (length (l ++ r) - length r) (l ++ r) = l.
Proof.
  rewrite app_length. replace (length l + length r - length r) with (length l + 0) by lia.
  rewrite firstn_app_2. cbn [firstn]. apply app_nil_r.
Qed.

Lemma okM_writes_confined {A} dst (Q : A -> Prop) (x : M A) m :
  okM (nalloc m) dst Q x -> writes_confined dst (nalloc m) (writes x m).
Proof.
  intro H. destruct (H m (Nat.le_refl _)) as [(_ & (l & E & F) & _) _].
  unfold writes. cbv zeta. rewrite E, firstn_app_exact.
  intros a i Hin. rewrite Forall_forall in F. exact (F (a, i) Hin).
Qed.

Lemma okM_mem_readonly {A} dst (Q : A -> Prop) (x : M A) m :
  okM (nalloc m) dst Q x -> mem_readonly dst m (snd (x m)).
Proof.
  intro H. destruct (H m (Nat.le_refl _)) as [(_ & _ & G) _].
  intros a i Ha Hw. apply G. intros [Hge|Hm]; [lia | congruence].
Qed.

(* the two forms of the conclusion, for a computation with explicit destination [dst] *)
Definition readonly_call {A} (dst : option slice) (x : M A) : Prop :=
  forall m, writes_confined dst (nalloc m) (writes x m) /\ mem_readonly dst m (snd (x m)).

Lemma okM_readonly_call {A} dst (x : M A) :
  (forall n0, okM n0 dst (fun _ => True) x) -> readonly_call dst x.
Proof.
  intros H m. split; [eapply okM_writes_confined | eapply okM_mem_readonly]; apply H.
Qed.

(* ---- per function ------------------------------------------------------------------- *)

Theorem pad_readonly buf size : readonly_call None (pad_pkcs7 Fixed buf size).
Proof.
  intro m. split; [eapply okM_writes_confined | eapply okM_mem_readonly]; apply okM_pad.
Qed.

Theorem unpad_readonly e buf size : readonly_call None (unpad_pkcs7 e buf size).
Proof. apply okM_readonly_call. intro. apply okM_unpad. Qed.

Theorem kw_wrap_readonly cek : readonly_call None (kw_wrap cek).
Proof. apply okM_readonly_call. intro. apply okM_kw_wrap. Qed.

Theorem kw_unwrap_readonly e ct : readonly_call None (kw_unwrap e ct).
Proof. apply okM_readonly_call. intro. apply okM_kw_unwrap. Qed.

Theorem aead_seal_readonly k dst nonce pt aad :
  readonly_call (Some dst) (aead_seal Fixed k dst nonce pt aad).
Proof. apply okM_readonly_call. intro. apply okM_aead_seal. apply spare_ok_dst. reflexivity. Qed.

Theorem aead_open_readonly e k dst nonce ct aad :
  readonly_call (Some dst) (aead_open e k dst nonce ct aad).
Proof. apply okM_readonly_call. intro. apply okM_aead_open. apply spare_ok_dst. reflexivity. Qed.

Theorem enc_aescbc_readonly pt a key iv : readonly_call None (enc_aescbc Fixed pt a key iv).
Proof. apply okM_readonly_call. intro. apply okM_enc_aescbc. Qed.

Theorem dec_aescbc_readonly e ct a key iv : readonly_call None (dec_aescbc e ct a key iv).
Proof. apply okM_readonly_call. intro. apply okM_dec_aescbc. Qed.

(* encryptSymmetricAEAD / encryptSymmetricChaCha20Poly1305 after their length checks, for GCM,
   AES-CBC-HMAC and (X)ChaCha20-Poly1305 *)
Theorem seal_split_readonly s key nonce pt aad : readonly_call None (seal_split Fixed s key nonce pt aad).
Proof. apply okM_readonly_call. intro. apply okM_seal_split. Qed.

(* decryptSymmetricAEAD / decryptSymmetricChaCha20Poly1305 after their length checks *)
Theorem join_open_readonly e s key nonce ct tag aad :
  readonly_call None (join_open Fixed e s key nonce ct tag aad).
Proof. apply okM_readonly_call. intro. apply okM_join_open. Qed.

Theorem enc_sym_readonly pt a k nonce aad : readonly_call None (enc_sym Fixed pt a k nonce aad).
Proof. apply okM_readonly_call. intro. apply okM_enc_sym. Qed.

Theorem dec_sym_readonly e ct a k nonce tag aad :
  readonly_call None (dec_sym Fixed e ct a k nonce tag aad).
Proof. apply okM_readonly_call. intro. apply okM_dec_sym. Qed.

(* EncryptPublicKey, DecryptPrivateKey, SignPrivateKey, VerifyPublicKey *)
Theorem asym_op_readonly e sup hr k args : readonly_call None (asym_op e sup hr k args).
Proof. apply okM_readonly_call. intro. apply okM_asym_op. Qed.

(* every entry point, through the dispatcher the harness uses *)
Theorem call_readonly e c : readonly_call (dst_of c) (run_call Fixed e c).
Proof. apply okM_readonly_call. intro. apply okM_run_call. reflexivity. Qed.

(* ===================================================================================== *)
(* Non-vacuity: the permitted region is really used, and only it                          *)

(* Seal into a roomy destination writes 32 cells of dst[len:cap] (array 1); its other 24 writes
   go to arrays it allocated itself *)
Example seal_writes_dst_spare :
  let m := mkM [repeat (V 1%N) 32; repeat (V 2%N) 40; repeat (V 3%N) 16; repeat (V 4%N) 5] [] in
  let dst := mkS 1 2 3 36 in
  let ws := writes (aead_seal Fixed K128_256 dst (mkS 2 0 16 16) (mkS 3 0 5 5) nil_slice) m in
  length (filter (fun p => in_spare dst (fst p) (snd p)) ws) = 32 /\
  length (filter (fun p => 4 <=? fst p) ws) = 24 /\ length ws = 56.
Proof. vm_compute. repeat split; reflexivity. Qed.

(* ===================================================================================== *)
(* The tree before the fix commits                                                        *)

(* PadPKCS7(buf[0:5:24], 16): eleven padding bytes land behind the caller's slice *)
Theorem pad_spare_refuted : exists m buf size,
  caller_write None (nalloc m) (writes (pad_pkcs7 Original buf size) m).
Proof.
  exists (mkM [repeat (V 238%N) 24] []), (mkS 0 0 5 24), 16%Z.
  exists 0, 5. vm_compute. repeat split; auto 20.
Qed.

(* ... and through it AES-CBC encryption and aescbcaead Seal *)
Theorem pad_spare_enc_refuted : exists m pt key iv,
  caller_write None (nalloc m) (writes (enc_aescbc Original pt A128CBC key iv) m).
Proof.
  exists (mkM [repeat (V 1%N) 16; repeat (V 2%N) 16; repeat (V 238%N) 32] []),
         (mkS 2 0 5 32), (mkS 0 0 16 16), (mkS 1 0 16 16).
  exists 2, 5. vm_compute. repeat split; auto 40.
Qed.

Theorem pad_spare_seal_refuted : exists m k dst nonce pt aad,
  caller_write (Some dst) (nalloc m) (writes (aead_seal Original k dst nonce pt aad) m).
Proof.
  exists (mkM [repeat (V 2%N) 16; repeat (V 238%N) 32] []),
         K128_256, nil_slice, (mkS 0 0 16 16), (mkS 1 0 5 32), nil_slice.
  exists 1, 5. vm_compute. repeat split; auto 80.
Qed.

(* DecryptSymmetric(A128GCM): the 16-byte tag is appended into the spare capacity of the
   caller's ciphertext slice ct[0:5:24] *)
Theorem aead_tag_spare_refuted : exists m e ct a key nonce tag aad,
  caller_write None (nalloc m) (writes (dec_sym Original e ct a (KSym key) nonce tag aad) m).
Proof.
  exists (mkM [repeat (V 1%N) 16; repeat (V 2%N) 12; repeat (V 238%N) 24; repeat (V 64%N) 16] []),
         (mkE false None 0 ENone), (mkS 2 0 5 24), A128GCM, (mkS 0 0 16 16), (mkS 1 0 12 12),
         (mkS 3 0 16 16), nil_slice.
  exists 2, 5. vm_compute. repeat split; auto 40.
Qed.

Theorem aead_tag_spare_chacha_refuted : exists m e ct key nonce tag aad,
  caller_write None (nalloc m) (writes (dec_sym Original e ct C20P (KSym key) nonce tag aad) m).
Proof.
  exists (mkM [repeat (V 1%N) 32; repeat (V 2%N) 12; repeat (V 238%N) 24; repeat (V 64%N) 16] []),
         (mkE false None 0 ENone), (mkS 2 0 5 24), (mkS 0 0 32 32), (mkS 1 0 12 12),
         (mkS 3 0 16 16), nil_slice.
  exists 2, 5. vm_compute. repeat split; auto 40.
Qed.

(* ===================================================================================== *)
(* Oracle soundness                                                                       *)

Lemma nth_error_nth_eq (x y : list N) :
  length y = length x ->
  forall i, (nth_error y i = nth_error x i <-> (i < length x -> nth i y 0%N = nth i x 0%N)).
Proof.
  intros Hlen i. destruct (Nat.lt_ge_cases i (length x)) as [L|G].
  - assert (L' : i < length y) by lia.
    rewrite (nth_error_nth' y 0%N L'), (nth_error_nth' x 0%N L).
    split; [intros E _; congruence | intro E; rewrite (E L); reflexivity].
  - split; [intros _ C; lia|]. intros _.
    assert (E1 : nth_error y i = None) by (apply nth_error_None; lia).
    assert (E2 : nth_error x i = None) by (apply nth_error_None; lia).
    congruence.
Qed.

Lemma row_ok_spec (D : nat -> bool) x y :
  row_ok D x y = true <->
  (length y = length x /\ forall i, D i = false -> nth_error y i = nth_error x i).
Proof.
  unfold row_ok. rewrite andb_true_iff, Nat.eqb_eq, forallb_forall. split.
  - intros [Hlen H]. split; [exact Hlen|]. intros i HD.
    apply (nth_error_nth_eq x y Hlen). intro L.
    assert (Hin : In i (seq 0 (length x))) by (apply in_seq; lia).
    specialize (H i Hin). rewrite HD in H. cbn [orb] in H. apply N.eqb_eq, H.
  - intros [Hlen H]. split; [exact Hlen|]. intros i Hin. apply in_seq in Hin.
    destruct (D i) eqn:HD; [reflexivity|]. cbn [orb]. apply N.eqb_eq.
    apply (proj1 (nth_error_nth_eq x y Hlen i)); [apply H, HD | lia].
Qed.

Theorem readonly_oracle_sound dst pre post :
  readonly_oracle dst pre post = true <-> readonly_spec dst pre post.
Proof.
  unfold readonly_oracle, readonly_spec, bget. rewrite forallb_forall. split.
  - intros H a Ha. apply row_ok_spec. apply H. apply in_seq. lia.
  - intros H a Hin. apply in_seq in Hin. apply row_ok_spec. apply H. lia.
Qed.

(* verdict 0 of the correspondence check means: the implementation's observed arrays satisfy
   the spec predicate AND coincide with the model's prediction *)
Theorem confined_oracle_sound dst n0 ws :
  confined_oracle dst n0 ws = true <-> writes_confined dst n0 ws.
Proof.
  unfold confined_oracle, writes_confined. rewrite forallb_forall. split.
  - intros H a i Hin. specialize (H (a, i) Hin). cbn [fst snd] in H.
    apply orb_true_iff in H as [H|H]; [left; apply Nat.leb_le, H | right; exact H].
  - intros H [a i] Hin. cbn [fst snd]. apply orb_true_iff.
    destruct (H a i Hin) as [L|M]; [left; apply Nat.leb_le, L | right; exact M].
Qed.

Theorem check_case_ok c e pre chg p err rs ks wf :
  check_case (Case c e pre chg p err rs ks wf) = 0%Z ->
  readonly_spec (dst_of c) (heap_of pre) (apply_changes (heap_of pre) chg) /\
  writes_confined (dst_of c) (length (heap_of pre)) wf /\
  model_agrees Fixed (Case c e pre chg p err rs ks wf) = true.
Proof.
  unfold check_case. destruct (oracle _) eqn:Eo; cbn [negb]; [|discriminate].
  destruct (model_agrees _ _) eqn:Em; cbn [negb]; [|discriminate].
  intros _. unfold oracle in Eo.
  apply andb_true_iff in Eo as [Eo Ec]. apply andb_true_iff in Eo as [Eo _].
  split; [apply readonly_oracle_sound, Eo|]. split; [apply confined_oracle_sound, Ec | reflexivity].
Qed.

(* non-vacuity of the hypothesis: a recorded PadPKCS7(buf[1:3:5], 16) on a 6-byte canary array,
   nothing changed, a fresh 16-byte result *)
Example check_case_ok_inhabited :
  check_case (Case (CPad (mkS 0 1 2 4) 16) (mkE false None 0 ENone)
                   [[xee; x01; x02; xee; xee; xee]] [] false ENone [RF 16] true []) = 0%Z.
Proof. vm_compute. reflexivity. Qed.

(* ... and the same observation with one spare-capacity byte overwritten gets verdict 2 *)
Example check_case_detects_spare_write :
  check_case (Case (CPad (mkS 0 1 2 4) 16) (mkE false None 0 ENone)
                   [[xee; x01; x02; xee; xee; xee]] [(0, 3, [x0e])] false ENone [RF 16] true []) = 2%Z.
Proof. vm_compute. reflexivity. Qed.

(* ... and a call that left every byte as it was but was caught storing into its read-only
   argument (a transient write that is undone before returning) gets verdict 2 as well *)
Example check_case_detects_transient_write :
  check_case (Case (CUnpad (mkS 0 0 16 16) 16) (mkE false None 0 ENone)
                   [[x01;x02;x03;x04;x05;x06;x07;x08;x09;x0a;x0b;x0c;x04;x04;x04;x04]] [] true ENone [] true
                   [(0, 12)]) = 2%Z.
Proof. vm_compute. reflexivity. Qed.
