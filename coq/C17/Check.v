(* C17 — executable correspondence interface.  The Go harness lays the backing arrays of all
   arguments of one call out as heap arrays 0..k-1 (canary-filled, the argument slices are
   views into them), performs the call on the real code and records: the cells of those
   arrays that differ afterwards, panic / error class, and for every returned byte slice
   whether it is empty, fresh, or a view into one of the argument arrays. *)
From Kit Require Export C17.Model C17.Spec Lib.CheckLib.
From Coq Require Import Strings.Byte.

Inductive obs_res :=
| RE                                  (* nil or empty *)
| RF (len : nat)                      (* points outside every argument array *)
| RA (a off len : nat).               (* view into argument array a *)

Definition obs_res_eqb (x y : obs_res) : bool :=
  match x, y with
  | RE, RE => true
  | RF l, RF l' => l =? l'
  | RA a o l, RA a' o' l' => (a =? a') && (o =? o') && (l =? l')
  | _, _ => false
  end.

Fixpoint list_eqb {A} (eqb : A -> A -> bool) (x y : list A) : bool :=
  match x, y with
  | [], [] => true
  | a :: x', b :: y' => eqb a b && list_eqb eqb x' y'
  | _, _ => false
  end.

(* Byte contents are written with the constructors x00..xff of Coq.Init.Byte (a shard of bare
   constructors elaborates several times faster than one of numerals). *)
Inductive case :=
| Case (c : call) (e : env) (pre : list (list byte))
       (changed : list (nat * nat * list byte))  (* (array, start, contents AFTER the call of
                                                    the range spanning every changed cell) *)
       (panicked : bool) (err : kerr) (rs : list obs_res)
       (key_same : bool)                      (* asymmetric jwk.Key serialises identically *)
       (wfault : list (nat * nat)).           (* cells of read-only argument arrays the call was
                                                 caught trying to WRITE (the store faulted; the
                                                 call was aborted there), [] if none / not run
                                                 on read-only memory *)

Definition heap_of (pre : list (list byte)) : bheap := map (map Byte.to_N) pre.

Fixpoint upd_range (row : list N) (i : nat) (bs : list N) : list N :=
  match bs with
  | [] => row
  | b :: bs' => upd_range (upd row i b) (S i) bs'
  end.

Definition apply_changes (pre : bheap) (chg : list (nat * nat * list byte)) : bheap :=
  fold_left (fun h '(a, i, bs) => upd h a (upd_range (nth a h []) i (map Byte.to_N bs))) chg pre.

Definition to_mem (h : bheap) : mem := mkM (map (map V) h) [].

Definition shape (n0 : nat) (s : slice) : obs_res :=
  if slen s =? 0 then RE
  else if sarr s <? n0 then RA (sarr s) (soff s) (slen s) else RF (slen s).

(* model cells against observed bytes: a known cell must match, an unknown one matches all *)
Definition cells_match (cs : list cell) (bs : list N) : bool :=
  (length cs =? length bs) &&
  forallb (fun p => match fst p with V b => (b =? snd p)%N | U => true end) (combine cs bs).

Definition model_agrees (v : variant) (k : case) : bool :=
  let '(Case c e pre0 chg panicked err rs _ _) := k in
  let pre := heap_of pre0 in
  let post := apply_changes pre chg in
  let n0 := length pre in
  let '(r, m1) := run_call v e c (to_mem pre) in
  forallb (fun a => cells_match (nth a (arrays m1) []) (nth a post [])) (seq 0 n0)
  && match r with
     | None => panicked
     | Some (ss, me) =>
         negb panicked && kerr_eqb me err && list_eqb obs_res_eqb (map (shape n0) ss) rs
     end.

Definition oracle (k : case) : bool :=
  let '(Case c _ pre0 chg _ _ _ key_same wfault) := k in
  let pre := heap_of pre0 in
  readonly_oracle (dst_of c) pre (apply_changes pre chg) && key_same
  && confined_oracle (dst_of c) (length pre) wfault.

(* 0 = agree and oracle holds; 1 = model and implementation differ; 2 = the implementation's
   observed behaviour violates the spec. *)
Definition check_case (k : case) : Z :=
  if negb (oracle k) then 2 else if negb (model_agrees Fixed k) then 1 else 0.

Definition run_cases (cs : list (Z * case)) : list (Z * Z) := failures check_case cs.

(* development aid: agreement with the model of the tree BEFORE the fix commits (run once
   against the unfixed code); here a disagreement is reported even when the oracle fails *)
Definition check_case_original (k : case) : Z :=
  if negb (model_agrees Original k) then 1 else if negb (oracle k) then 2 else 0.
Definition run_cases_original (cs : list (Z * case)) : list (Z * Z) := failures check_case_original cs.
