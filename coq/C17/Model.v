(* C17 — memory-effect model of the crypto helpers of dapr/kit (crypto, crypto/aeskw,
   crypto/padding, crypto/aescbcaead).  Definitions only.

   A Go slice is a VIEW (array id, offset, len, cap) on a heap of byte arrays.  Every exported
   function taking []byte is modelled as the sequence of slice operations kit itself performs
   (append, make+copy, reslicing, indexed stores), line by line; the standard-library
   primitives are replaced by their documented memory contracts:
     - cipher.BlockMode.CryptBlocks(dst, src) writes dst[:len(src)] only (and panics on
       non-block input, short dst, inexact overlap);
     - cipher.Block.Encrypt/Decrypt(dst, src) writes dst[:16] only;
     - cipher.AEAD.Seal/Open of the standard library (GCM, ChaCha20-Poly1305) called with
       dst = nil return a freshly allocated slice and only read their other arguments;
     - hash.Hash.Write / hmac only read; Sum(nil) returns a fresh slice;
     - rsa / ecdsa / ed25519 / x509 / base64 functions only read their byte arguments.
   Bytes produced by a cryptographic primitive are not computed: such a cell holds [U]
   ("unknown").  Control-flow decisions that depend on unknown bytes (MAC comparison, PKCS#7
   check of decrypted data, AES-KW integrity check, success of a library primitive) are taken
   from an environment record [env]; the theorems quantify over every [env].

   [Original] = the tree before the C17 fix commits (PadPKCS7 and the AEAD decrypt helpers
   append to their argument), [Fixed] = the current tree (make + copy). *)
From Kit Require Export Lib.Base.

(* ------------------------------------------------------------------------------------- *)
(* Heap, slices, the memory monad                                                         *)

Inductive cell := V (b : N) | U.

Definition cell_eqb (x y : cell) : bool :=
  match x, y with V a, V b => (a =? b)%N | U, U => true | _, _ => false end.

Record slice := mkS { sarr : nat; soff : nat; slen : nat; scap : nat }.

(* nil: capacity 0, so no cell is ever reachable through it *)
Definition nil_slice : slice := mkS 0 0 0 0.

(* [wlog]: every cell written so far, most recent first *)
Record mem := mkM { arrays : list (list cell); wlog : list (nat * nat) }.

Definition nalloc (m : mem) : nat := length (arrays m).

Definition getc (m : mem) (a i : nat) : option cell := nth_error (nth a (arrays m) []) i.

Fixpoint upd {A} (l : list A) (i : nat) (x : A) : list A :=
  match l, i with
  | [], _ => []
  | _ :: t, O => x :: t
  | h :: t, S i' => h :: upd t i' x
  end.

(* the single mutation primitive: one cell, logged *)
Definition setc (a i : nat) (c : cell) (m : mem) : mem :=
  mkM (upd (arrays m) a (upd (nth a (arrays m) []) i c)) ((a, i) :: wlog m).

Fixpoint set_range (a i : nat) (cs : list cell) (m : mem) : mem :=
  match cs with
  | [] => m
  | c :: cs' => set_range a (S i) cs' (setc a i c m)
  end.

(* A computation returns [None] when the Go code panics; the memory reached so far is kept. *)
Definition M (A : Type) := mem -> option A * mem.

Definition ret {A} (a : A) : M A := fun m => (Some a, m).
Definition panic {A} : M A := fun m => (None, m).
Definition mbind {A B} (x : M A) (f : A -> M B) : M B :=
  fun m => match x m with
           | (Some a, m') => f a m'
           | (None, m') => (None, m')
           end.
Definition lift {A} (o : option A) : M A :=
  match o with Some a => ret a | None => panic end.

Notation "x <- e ;; k" := (mbind e (fun x => k)) (at level 61, e at next level, right associativity).
Notation "e ;;; k" := (mbind e (fun _ => k)) (at level 61, right associativity).

Fixpoint forM {X} (l : list X) (f : X -> M unit) : M unit :=
  match l with
  | [] => ret tt
  | x :: l' => f x ;;; forM l' f
  end.

Fixpoint mapM {X Y} (f : X -> M Y) (l : list X) : M (list Y) :=
  match l with
  | [] => ret []
  | x :: l' => y <- f x ;; ys <- mapM f l' ;; ret (y :: ys)
  end.

Fixpoint foldM {X S} (f : S -> X -> M S) (l : list X) (s : S) : M S :=
  match l with
  | [] => ret s
  | x :: l' => s' <- f s x ;; foldM f l' s'
  end.

(* ------------------------------------------------------------------------------------- *)
(* Go slice operations                                                                    *)

(* make([]byte, n) / a fresh array with given contents; allocation is not a write *)
Definition alloc_init (cs : list cell) : M slice :=
  fun m => (Some (mkS (nalloc m) 0 (length cs) (length cs)), mkM (arrays m ++ [cs]) (wlog m)).

Definition alloc (n : nat) : M slice := alloc_init (repeat (V 0%N) n).

Definition cells_of (m : mem) (s : slice) : list cell :=
  map (fun i => match getc m (sarr s) (soff s + i) with Some c => c | None => U end)
      (seq 0 (slen s)).

(* reading never changes memory *)
Definition read (s : slice) : M (list cell) := fun m => (Some (cells_of m s), m).

(* s[k], ..., s[k+|cs|-1] := cs; index out of range panics *)
Definition write_at (s : slice) (k : nat) (cs : list cell) : M unit :=
  fun m => if k + length cs <=? slen s
           then (Some tt, set_range (sarr s) (soff s + k) cs m)
           else (None, m).

Definition store (s : slice) (i : nat) (c : cell) : M unit := write_at s i [c].

Definition load (s : slice) (i : nat) : M cell :=
  fun m => if i <? slen s then (Some (nth i (cells_of m s) U), m) else (None, m).

(* copy(d, s): memmove of min(len d, len s) bytes (source read first) *)
Definition copy (d s : slice) : M nat :=
  cs <- read s ;;
  let n := Nat.min (slen d) (slen s) in
  write_at d 0 (firstn n cs) ;;; ret n.

(* copy(d, constant bytes) *)
Definition copy_cells (d : slice) (cs : list cell) : M nat :=
  let n := Nat.min (slen d) (length cs) in
  write_at d 0 (firstn n cs) ;;; ret n.

(* a primitive fills s[:n] with bytes the model does not compute *)
Definition havoc (s : slice) (n : nat) : M unit := write_at s 0 (repeat U n).

(* append(s, cs...): in place iff len+k <= cap, else a fresh array (its capacity is not
   observable by the property; the model gives it exactly len+k) *)
Definition append (s : slice) (cs : list cell) : M slice :=
  let k := length cs in
  if slen s + k <=? scap s
  then fun m => (Some (mkS (sarr s) (soff s) (slen s + k) (scap s)),
                 set_range (sarr s) (soff s + slen s) cs m)
  else old <- read s ;; alloc_init (old ++ cs).

(* s[lo:hi] — Go allows hi up to cap(s) *)
Definition reslice (s : slice) (lo hi : nat) : option slice :=
  if (lo <=? hi) && (hi <=? scap s)
  then Some (mkS (sarr s) (soff s + lo) (hi - lo) (scap s - lo))
  else None.

(* s[lo:] *)
Definition reslice_from (s : slice) (lo : nat) : option slice := reslice s lo (slen s).

(* crypto/internal/alias.InexactOverlap *)
Definition inexact_overlap (x y : slice) : bool :=
  (0 <? slen x) && (0 <? slen y) && (sarr x =? sarr y) && negb (soff x =? soff y)
  && (soff x <? soff y + slen y) && (soff y <? soff x + slen x).

(* cipher.BlockMode.CryptBlocks of the CBC modes (block size 16) *)
Definition crypt_blocks (d s : slice) : M unit :=
  if negb (slen s mod 16 =? 0) then panic
  else if slen d <? slen s then panic
  else match reslice d 0 (slen s) with
       | None => panic
       | Some d' => if inexact_overlap d' s then panic else havoc d (slen s)
       end.

(* cipher.Block.Encrypt(b, b) / Decrypt(b, b) on AES: 16 bytes *)
Definition block_crypt (b : slice) : M unit := havoc b 16.

Definition cell_xor (x y : cell) : cell :=
  match x, y with V a, V b => V (N.lxor a b) | _, _ => U end.

Fixpoint known (cs : list cell) : option (list N) :=
  match cs with
  | [] => Some []
  | V b :: t => match known t with Some bs => Some (b :: bs) | None => None end
  | U :: _ => None
  end.

(* binary.BigEndian.PutUint64 of a small number *)
Definition be64 (t : nat) : list cell :=
  map (fun k => V ((N.of_nat t / 256 ^ k) mod 256)%N) [7; 6; 5; 4; 3; 2; 1; 0]%N.

(* ------------------------------------------------------------------------------------- *)
(* Errors and the environment                                                             *)

Inductive kerr :=
| ENone | EBlockSize | EPadding | EKeyType | ENonce | ETag | EPlainLen | ECipherLen
| EUnsupported | EOther.

Definition kerr_eqb (a b : kerr) : bool :=
  match a, b with
  | ENone, ENone | EBlockSize, EBlockSize | EPadding, EPadding | EKeyType, EKeyType
  | ENonce, ENonce | ETag, ETag | EPlainLen, EPlainLen | ECipherLen, ECipherLen
  | EUnsupported, EUnsupported | EOther, EOther => true
  | _, _ => false
  end.

(* What the un-modelled cryptography decides. *)
Record env := mkE {
  e_ok : bool;            (* MAC / AEAD tag / AES-KW IV check passes; library primitive succeeds *)
  e_unpad : option nat;   (* PKCS#7 check of DECRYPTED data: Some padLen, or None = bad padding *)
  e_rlen : nat;           (* length of the result of an asymmetric primitive *)
  e_err : kerr            (* error class of an asymmetric primitive when it fails *)
}.

Definition res := (list slice * kerr)%type.

(* ------------------------------------------------------------------------------------- *)
(* crypto/padding                                                                         *)

Definition bad_block_size (size : Z) : bool := (size <=? 1)%Z || (256 <=? size)%Z.

(* PadPKCS7 (pkcs7_padding.go) *)
Definition pad_pkcs7 (v : variant) (buf : slice) (size : Z) : M res :=
  if bad_block_size size then ret ([nil_slice], EBlockSize)
  else
    let sz := Z.to_nat size in
    let bufLen := slen buf in
    let padLen := sz - bufLen mod sz in
    (* padding := bytes.Repeat([]byte{byte(padLen)}, padLen) *)
    padding <- alloc_init (repeat (V (N.of_nat padLen)) padLen) ;;
    match v with
    | Original =>
        (* return append(buf, padding...), nil *)
        pc <- read padding ;;
        out <- append buf pc ;;
        ret ([out], ENone)
    | Fixed =>
        (* out := make([]byte, bufLen+padLen); copy(out, buf); copy(out[bufLen:], padding) *)
        out <- alloc (bufLen + padLen) ;;
        copy out buf ;;;
        tail <- lift (reslice_from out bufLen) ;;
        copy tail padding ;;;
        ret ([out], ENone)
    end.

(* the PKCS#7 verdict on a non-empty buffer whose length is a multiple of size *)
Definition unpad_decide (sz : nat) (cs : list cell) (hint : option nat) : option nat :=
  match known cs with
  | Some bs =>
      let l := length bs in
      let lastb := last bs 0%N in
      let p := N.to_nat lastb in
      if (p =? 0) || (sz <? p) then None
      else if forallb (fun b => (b =? lastb)%N) (skipn (l - p) bs) then Some p else None
  | None =>
      match hint with
      | Some p => if (1 <=? p) && (p <=? sz) && (p <=? length cs) then Some p else None
      | None => None
      end
  end.

(* UnpadPKCS7 *)
Definition unpad_pkcs7 (e : env) (buf : slice) (size : Z) : M res :=
  if bad_block_size size then ret ([nil_slice], EBlockSize)
  else
    let sz := Z.to_nat size in
    let l := slen buf in
    if l =? 0 then ret ([nil_slice], ENone)            (* []byte{} *)
    else if negb (l mod sz =? 0) then ret ([nil_slice], EPadding)
    else
      cs <- read buf ;;
      match unpad_decide sz cs (e_unpad e) with
      | None => ret ([nil_slice], EPadding)
      | Some p => out <- lift (reslice buf 0 (l - p)) ;; ret ([out], ENone)
      end.

(* ------------------------------------------------------------------------------------- *)
(* crypto/aeskw                                                                           *)

Definition default_iv : list cell := repeat (V 166%N) 8.

(* arrConcat(arrays...) *)
Definition arr_concat (arrs : list slice) : M slice :=
  match arrs with
  | [] => panic                                        (* arrays[0] *)
  | a0 :: rest =>
      out <- alloc (slen a0) ;;
      copy out a0 ;;;
      foldM (fun out x => cs <- read x ;; append out cs) rest out
  end.

(* arrXor(arrL, arrR) *)
Definition arr_xor (l r : slice) : M slice :=
  out <- alloc (slen l) ;;
  forM (seq 0 (slen l)) (fun x =>
    a <- load l x ;; b <- load r x ;; store out x (cell_xor a b)) ;;;
  ret out.

Definition nth_slice (r : list slice) (i : nat) : M slice := lift (nth_error r i).

(* Wrap(block, cek) *)
Definition kw_wrap (cek : slice) : M res :=
  if (slen cek =? 0) || negb (slen cek mod 8 =? 0) then ret ([nil_slice], EOther)   (* C03 fix: empty key data refused *)
  else
    a <- alloc 8 ;;
    copy_cells a default_iv ;;;
    let n := slen cek / 8 in
    r <- mapM (fun i => ri <- alloc 8 ;;
                        src <- lift (reslice_from cek (i * 8)) ;;
                        copy ri src ;;; ret ri) (seq 0 n) ;;
    forM (seq 0 6) (fun j =>
      forM (seq 1 n) (fun i =>
        ri <- nth_slice r (i - 1) ;;
        b <- arr_concat [a; ri] ;;
        block_crypt b ;;;
        tBytes <- alloc 8 ;;
        copy_cells tBytes (be64 (n * j + i)) ;;;
        bl <- lift (reslice b 0 (slen b / 2)) ;;
        x <- arr_xor bl tBytes ;;
        copy a x ;;;
        bh <- lift (reslice_from b (slen b / 2)) ;;
        copy ri bh ;;; ret tt)) ;;;
    c <- alloc ((n + 1) * 8) ;;
    copy c a ;;;
    forM (seq 1 n) (fun i =>
      ri <- nth_slice r (i - 1) ;;
      forM (seq 0 (slen ri)) (fun j => x <- load ri j ;; store c (i * 8 + j) x)) ;;;
    ret ([c], ENone).

(* Unwrap(block, cipherText) *)
Definition kw_unwrap (e : env) (ct : slice) : M res :=
  (* guard of the current tree (C07 fix): whole 8-byte blocks, at least two *)
  if negb (slen ct mod 8 =? 0) || (slen ct <? 16) then ret ([nil_slice], EOther) else
  a <- alloc 8 ;;
  if slen ct / 8 =? 0 then panic                      (* make([][]byte, -1) *)
  else
    let n := slen ct / 8 - 1 in
    r <- mapM (fun i => ri <- alloc 8 ;;
                        src <- lift (reslice_from ct ((i + 1) * 8)) ;;
                        copy ri src ;;; ret ri) (seq 0 n) ;;
    hd <- lift (reslice ct 0 8) ;;
    copy a hd ;;;
    forM (rev (seq 0 6)) (fun j =>
      forM (rev (seq 1 n)) (fun i =>
        ri <- nth_slice r (i - 1) ;;
        tBytes <- alloc 8 ;;
        copy_cells tBytes (be64 (n * j + i)) ;;;
        x <- arr_xor a tBytes ;;
        b <- arr_concat [x; ri] ;;
        block_crypt b ;;;
        bl <- lift (reslice b 0 (slen b / 2)) ;;
        copy a bl ;;;
        bh <- lift (reslice_from b (slen b / 2)) ;;
        copy ri bh ;;; ret tt)) ;;;
    ac <- read a ;;
    (* subtle.ConstantTimeCompare(a, defaultIV) *)
    let iv_ok := match known ac with
                 | Some bs => eqb_listN bs (repeat 166%N 8)
                 | None => e_ok e
                 end in
    if negb iv_ok then ret ([nil_slice], EOther)
    else c <- arr_concat r ;; ret ([c], ENone).

(* ------------------------------------------------------------------------------------- *)
(* crypto/aescbcaead                                                                      *)

Inductive aeadkind := K128_256 | K192_384 | K256_384 | K256_512.

Definition k_enc (k : aeadkind) : nat :=
  match k with K128_256 => 16 | K192_384 => 24 | K256_384 => 32 | K256_512 => 32 end.
Definition k_mac (k : aeadkind) : nat :=
  match k with K128_256 => 16 | K192_384 => 24 | K256_384 => 24 | K256_512 => 32 end.
Definition k_tag (k : aeadkind) : nat := k_mac k.
Definition k_hash (k : aeadkind) : nat :=
  match k with K128_256 => 32 | K192_384 => 48 | K256_384 => 48 | K256_512 => 64 end.

(* NewAESCBCAEAD: only reslices the key; returns (encKey, macKey) *)
Definition aead_new (k : aeadkind) (key : slice) : M (option (slice * slice)) :=
  if negb (slen key =? k_enc k + k_mac k) then ret None
  else
    macKey <- lift (reslice key 0 (k_mac k)) ;;
    encKey <- lift (reslice_from key (slen key - k_enc k)) ;;
    ret (Some (encKey, macKey)).

(* hmacTag: al := make(8); PutUint64; four Writes (reads only); h.Sum(nil)[:l] *)
Definition hmac_tag (k : aeadkind) (aad nonce ct : slice) : M slice :=
  al <- alloc 8 ;;
  copy_cells al (be64 (slen aad * 8)) ;;;
  read aad ;;; read nonce ;;; read ct ;;; read al ;;;
  sum <- alloc_init (repeat U (k_hash k)) ;;
  lift (reslice sum 0 (k_tag k)).

(* the "ensure dst has room" idiom shared by Seal and Open *)
Definition grow_dst (dst : slice) (size : nat) : M slice :=
  let dstLen := slen dst in
  if dstLen + size <=? scap dst then lift (reslice dst 0 (dstLen + size))
  else d <- alloc (dstLen + size) ;; copy d dst ;;; ret d.

(* aesCBCAEAD.Seal *)
Definition aead_seal (v : variant) (k : aeadkind) (dst nonce pt aad : slice) : M slice :=
  if negb (slen nonce =? 16) then panic
  else
    (* aes.NewCipher(aead.encKey): reads; the key size was fixed by the constructor *)
    pr <- pad_pkcs7 v pt 16 ;;
    match pr with
    | ([pt'], ENone) =>
        let size := slen pt' + k_tag k in
        let dstLen := slen dst in
        dst' <- grow_dst dst size ;;
        out <- lift (reslice_from dst' dstLen) ;;
        body <- lift (reslice out 0 (slen out - k_tag k)) ;;
        crypt_blocks body pt' ;;;
        tag <- hmac_tag k aad nonce body ;;
        tl <- lift (reslice_from out (slen out - k_tag k)) ;;
        copy tl tag ;;;
        ret dst'
    | _ => panic
    end.

(* aesCBCAEAD.Open *)
Definition aead_open (e : env) (k : aeadkind) (dst nonce ct aad : slice) : M res :=
  if slen ct <? k_tag k then ret ([nil_slice], EOther)
  (* guard of the current tree (C07 fix): without the tag, whole AES blocks *)
  else if negb ((slen ct - k_tag k) mod 16 =? 0) then ret ([nil_slice], EOther)
  else
    ctTag <- lift (reslice_from ct (slen ct - k_tag k)) ;;
    ct' <- lift (reslice ct 0 (slen ct - k_tag k)) ;;
    expectTag <- hmac_tag k aad nonce ct' ;;
    read ctTag ;;; read expectTag ;;;
    if negb (e_ok e) then ret ([nil_slice], EOther)
    else
      let size := slen ct' in
      let dstLen := slen dst in
      dst' <- grow_dst dst size ;;
      out <- lift (reslice_from dst' dstLen) ;;
      crypt_blocks out ct' ;;;
      ur <- unpad_pkcs7 e out 16 ;;
      match ur with
      | ([out'], ENone) =>
          r <- lift (reslice dst' 0 (dstLen + slen out')) ;; ret ([r], ENone)
      | (_, err) => ret ([nil_slice], err)
      end.

(* ------------------------------------------------------------------------------------- *)
(* crypto: algorithms and keys                                                            *)

Inductive alg :=
| A128CBC | A192CBC | A256CBC | A128CBC_NOPAD | A192CBC_NOPAD | A256CBC_NOPAD
| A128GCM | A192GCM | A256GCM | A128CBC_HS256 | A192CBC_HS384 | A256CBC_HS512
| A128KW | A192KW | A256KW | A128GCMKW | A192GCMKW | A256GCMKW
| C20P | XC20P | C20PKW | XC20PKW
| ECDH_ES | ECDH_ES_A128KW | ECDH_ES_A192KW | ECDH_ES_A256KW
| RSA1_5 | RSA_OAEP | RSA_OAEP_256 | RSA_OAEP_384 | RSA_OAEP_512
| ES256 | ES384 | ES512 | EdDSA | HS256 | HS384 | HS512
| PS256 | PS384 | PS512 | RS256 | RS384 | RS512
| AlgOther.

(* a jwk.Key: a symmetric key is a view of the caller's byte slice (jwk.FromRaw keeps the
   slice, key.Raw hands it out again); any other key holds no caller-visible byte slice *)
Inductive key := KSym (s : slice) | KAsym.

(* expectedKeySize: alg[1:4] *)
Definition expected_key_size (a : alg) : nat :=
  match a with
  | A128CBC | A128CBC_NOPAD | A128GCM | A128KW | A128CBC_HS256 | A128GCMKW => 16
  | A192CBC | A192CBC_NOPAD | A192GCM | A192KW | A192CBC_HS384 | A192GCMKW => 24
  | A256CBC | A256CBC_NOPAD | A256GCM | A256KW | A256CBC_HS512 | A256GCMKW => 32
  | _ => 0
  end.

Definition is_nopad (a : alg) : bool :=
  match a with A128CBC_NOPAD | A192CBC_NOPAD | A256CBC_NOPAD => true | _ => false end.

(* encryptSymmetricAESCBC *)
Definition enc_aescbc (v : variant) (pt : slice) (a : alg) (key iv : slice) : M res :=
  if negb (slen key =? expected_key_size a) then ret ([nil_slice; nil_slice], EKeyType)
  else if negb (slen iv =? 16) then ret ([nil_slice; nil_slice], ENonce)
  else if is_nopad a && negb (slen pt mod 16 =? 0) then ret ([nil_slice; nil_slice], EPlainLen)
  else
    read key ;;;                                       (* aes.NewCipher(key) *)
    pr <- (if is_nopad a then ret ([pt], ENone) else pad_pkcs7 v pt 16) ;;
    match pr with
    | ([pt'], ENone) =>
        ct <- alloc (slen pt') ;;
        read iv ;;;
        crypt_blocks ct pt' ;;;
        ret ([ct; nil_slice], ENone)
    | (_, err) => ret ([nil_slice; nil_slice], err)
    end.

(* decryptSymmetricAESCBC *)
Definition dec_aescbc (e : env) (ct : slice) (a : alg) (key iv : slice) : M res :=
  if negb (slen key =? expected_key_size a) then ret ([nil_slice], EKeyType)
  else if negb (slen iv =? 16) then ret ([nil_slice], ENonce)
  else if negb (slen ct mod 16 =? 0) then ret ([nil_slice], ECipherLen)
  else
    read key ;;;
    pt <- alloc (slen ct) ;;
    read iv ;;;
    crypt_blocks pt ct ;;;
    if is_nopad a then ret ([pt], ENone)
    else unpad_pkcs7 e pt 16.

(* which AEAD a symmetric algorithm uses *)
Inductive aeadsel := SelGCM | SelCBCHMAC (k : aeadkind) | SelChaCha.

Definition sel_overhead (s : aeadsel) : nat :=
  match s with SelGCM | SelChaCha => 16 | SelCBCHMAC k => k_tag k end.

(* aead.Seal(nil, nonce, plaintext, associatedData) followed by the split into
   (ciphertext, tag) *)
Definition seal_split (v : variant) (s : aeadsel) (key nonce pt aad : slice) : M res :=
  out <- match s with
         | SelCBCHMAC k =>
             ks <- aead_new k key ;;
             match ks with
             | Some _ => aead_seal v k nil_slice nonce pt aad
             | None => panic
             end
         | _ => (* library AEAD, dst = nil: reads, returns a fresh slice *)
             read key ;;; read nonce ;;; read pt ;;; read aad ;;;
             alloc_init (repeat U (slen pt + 16))
         end ;;
  let tagSize := sel_overhead s in
  c <- lift (reslice out 0 (slen out - tagSize)) ;;
  t <- lift (reslice_from out (slen out - tagSize)) ;;
  ret ([c; t], ENone).

(* the tail shared by decryptSymmetricAEAD and decryptSymmetricChaCha20Poly1305:
   join ciphertext and tag, then aead.Open(nil, nonce, joined, associatedData) *)
Definition join_open (v : variant) (e : env) (s : aeadsel) (key nonce ct tag aad : slice) : M res :=
  joined <- match v with
            | Original =>
                (* ciphertext = append(ciphertext, tag...) *)
                tc <- read tag ;; append ct tc
            | Fixed =>
                (* buf := make([]byte, len(ciphertext)+len(tag)); copy; copy *)
                buf <- alloc (slen ct + slen tag) ;;
                copy buf ct ;;;
                tl <- lift (reslice_from buf (slen ct)) ;;
                copy tl tag ;;;
                ret buf
            end ;;
  match s with
  | SelCBCHMAC k =>
      ks <- aead_new k key ;;
      match ks with
      | Some _ => aead_open e k nil_slice nonce joined aad
      | None => panic
      end
  | _ =>
      read key ;;; read nonce ;;; read joined ;;; read aad ;;;
      if e_ok e then p <- alloc_init (repeat U (slen joined - 16)) ;; ret ([p], ENone)
      else ret ([nil_slice], EOther)
  end.

Definition hmac_kind (a : alg) : option aeadkind :=
  match a with
  | A128CBC_HS256 => Some K128_256 | A192CBC_HS384 => Some K192_384
  | A256CBC_HS512 => Some K256_512 | _ => None
  end.

Definition is_xchacha (a : alg) : bool := match a with XC20P | XC20PKW => true | _ => false end.

Inductive symclass := SCbc | SGcm | SHmac | SKw | SChaCha | SNone.

(* the switch of EncryptSymmetric / DecryptSymmetric *)
Definition sym_class (a : alg) : symclass :=
  match a with
  | A128CBC | A192CBC | A256CBC | A128CBC_NOPAD | A192CBC_NOPAD | A256CBC_NOPAD => SCbc
  | A128GCM | A192GCM | A256GCM => SGcm
  | A128CBC_HS256 | A192CBC_HS384 | A256CBC_HS512 => SHmac
  | A128KW | A192KW | A256KW => SKw
  | C20P | C20PKW | XC20P | XC20PKW => SChaCha
  | _ => SNone
  end.

(* EncryptSymmetric *)
Definition enc_sym (v : variant) (pt : slice) (a : alg) (k : key) (nonce aad : slice) : M res :=
  match k with
  | KAsym => ret ([nil_slice; nil_slice], EKeyType)
  | KSym key =>
      match sym_class a with
      | SCbc => enc_aescbc v pt a key nonce
      | SGcm =>
          if negb (slen key =? expected_key_size a) then ret ([nil_slice; nil_slice], EKeyType)
          else if negb (slen nonce =? 12) then ret ([nil_slice; nil_slice], ENonce)
          else seal_split v SelGCM key nonce pt aad
      | SHmac =>
          match hmac_kind a with
          | Some hk =>
              if negb (slen key =? k_enc hk + k_mac hk) then ret ([nil_slice; nil_slice], EKeyType)
              else if negb (slen nonce =? 16) then ret ([nil_slice; nil_slice], ENonce)
              else seal_split v (SelCBCHMAC hk) key nonce pt aad
          | None => ret ([nil_slice; nil_slice], EOther)
          end
      | SKw =>
          if negb (slen key =? expected_key_size a) then ret ([nil_slice; nil_slice], EKeyType)
          else
            read key ;;;
            r <- kw_wrap pt ;;
            match r with
            | ([c], err) => ret ([c; nil_slice], err)
            | (_, err) => ret ([nil_slice; nil_slice], err)
            end
      | SChaCha =>
          if negb (slen key =? 32) then ret ([nil_slice; nil_slice], EKeyType)
          else if negb (slen nonce =? (if is_xchacha a then 24 else 12))
               then ret ([nil_slice; nil_slice], ENonce)
          else seal_split v SelChaCha key nonce pt aad
      | SNone => ret ([nil_slice; nil_slice], EUnsupported)
      end
  end.

(* DecryptSymmetric *)
Definition dec_sym (v : variant) (e : env) (ct : slice) (a : alg) (k : key)
           (nonce tag aad : slice) : M res :=
  match k with
  | KAsym => ret ([nil_slice], EKeyType)
  | KSym key =>
      match sym_class a with
      | SCbc => dec_aescbc e ct a key nonce
      | SGcm =>
          if negb (slen key =? expected_key_size a) then ret ([nil_slice], EKeyType)
          else if negb (slen nonce =? 12) then ret ([nil_slice], ENonce)
          else if negb (slen tag =? 16) then ret ([nil_slice], ETag)
          else join_open v e SelGCM key nonce ct tag aad
      | SHmac =>
          match hmac_kind a with
          | Some hk =>
              if negb (slen key =? k_enc hk + k_mac hk) then ret ([nil_slice], EKeyType)
              else if negb (slen nonce =? 16) then ret ([nil_slice], ENonce)
              else if negb (slen tag =? k_tag hk) then ret ([nil_slice], ETag)
              else join_open v e (SelCBCHMAC hk) key nonce ct tag aad
          | None => ret ([nil_slice], EOther)
          end
      | SKw =>
          if negb (slen key =? expected_key_size a) then ret ([nil_slice], EKeyType)
          else read key ;;; kw_unwrap e ct
      | SChaCha =>
          if negb (slen key =? 32) then ret ([nil_slice], EKeyType)
          else if negb (slen nonce =? (if is_xchacha a then 24 else 12))
               then ret ([nil_slice], ENonce)
          else if negb (slen tag =? 16) then ret ([nil_slice], ETag)
          else join_open v e SelChaCha key nonce ct tag aad
      | SNone => ret ([nil_slice], EUnsupported)
      end
  end.

(* Asymmetric helpers: kit performs no slice operation of its own; the rsa / ecdsa / ed25519
   functions read their byte arguments and return a fresh slice. *)
Definition asym_read_args (args : list slice) : M unit := forM args (fun s => read s ;;; ret tt).

Definition asym_op (e : env) (supported has_res : bool) (k : key) (args : list slice) : M res :=
  let none := if has_res then [nil_slice] else [] in
  if negb supported then ret (none, EUnsupported)
  else
    match k with KSym key => read key ;;; ret tt | KAsym => ret tt end ;;;
    if e_ok e then
      asym_read_args args ;;;
      if has_res then r <- alloc_init (repeat U (e_rlen e)) ;; ret ([r], ENone)
      else ret ([], ENone)
    else ret (none, e_err e).

Definition is_pubenc_alg (a : alg) : bool :=
  match a with RSA1_5 | RSA_OAEP | RSA_OAEP_256 | RSA_OAEP_384 | RSA_OAEP_512 => true | _ => false end.

Definition is_sig_alg (a : alg) : bool :=
  match a with
  | RS256 | RS384 | RS512 | PS256 | PS384 | PS512 | ES256 | ES384 | ES512 | EdDSA => true
  | _ => false
  end.

(* the switch of Encrypt / Decrypt (crypto.go) *)
Inductive topclass := TSym | TAsym | TNone.
Definition top_class (a : alg) : topclass :=
  match a with
  | A128CBC | A192CBC | A256CBC | A128GCM | A192GCM | A256GCM
  | A128CBC_HS256 | A192CBC_HS384 | A256CBC_HS512 | A128KW | A192KW | A256KW
  | A128GCMKW | A192GCMKW | A256GCMKW | C20P | XC20P | C20PKW | XC20PKW => TSym
  | ECDH_ES | ECDH_ES_A128KW | ECDH_ES_A192KW | ECDH_ES_A256KW
  | RSA1_5 | RSA_OAEP | RSA_OAEP_256 | RSA_OAEP_384 | RSA_OAEP_512 => TAsym
  | _ => TNone
  end.

(* ------------------------------------------------------------------------------------- *)
(* One API call                                                                           *)

Inductive call :=
| CPad (buf : slice) (size : Z)
| CUnpad (buf : slice) (size : Z)
| CWrap (cek : slice)
| CUnwrap (ct : slice)
| CSeal (k : aeadkind) (key dst nonce pt aad : slice)
| COpen (k : aeadkind) (key dst nonce ct aad : slice)
| CEncSym (pt : slice) (a : alg) (k : key) (nonce aad : slice)
| CDecSym (ct : slice) (a : alg) (k : key) (nonce tag aad : slice)
| CEncrypt (pt : slice) (a : alg) (k : key) (nonce aad : slice)
| CDecrypt (ct : slice) (a : alg) (k : key) (nonce tag aad : slice)
| CEncPub (pt : slice) (a : alg) (k : key) (aad : slice)
| CDecPriv (ct : slice) (a : alg) (k : key) (aad : slice)
| CSign (digest : slice) (a : alg) (k : key)
| CVerify (digest sig : slice) (a : alg) (k : key)
| CParseKey (raw : slice).

Definition enc_pub (e : env) (pt : slice) (a : alg) (k : key) (aad : slice) : M res :=
  asym_op e (is_pubenc_alg a) true k [pt; aad].
Definition dec_priv (e : env) (ct : slice) (a : alg) (k : key) (aad : slice) : M res :=
  asym_op e (is_pubenc_alg a) true k [ct; aad].

Definition run_call (v : variant) (e : env) (c : call) : M res :=
  match c with
  | CPad buf size => pad_pkcs7 v buf size
  | CUnpad buf size => unpad_pkcs7 e buf size
  | CWrap cek => kw_wrap cek
  | CUnwrap ct => kw_unwrap e ct
  | CSeal k key dst nonce pt aad =>
      ks <- aead_new k key ;;
      match ks with
      | None => ret ([nil_slice], EOther)              (* the constructor failed *)
      | Some _ => r <- aead_seal v k dst nonce pt aad ;; ret ([r], ENone)
      end
  | COpen k key dst nonce ct aad =>
      ks <- aead_new k key ;;
      match ks with
      | None => ret ([nil_slice], EOther)
      | Some _ => aead_open e k dst nonce ct aad
      end
  | CEncSym pt a k nonce aad => enc_sym v pt a k nonce aad
  | CDecSym ct a k nonce tag aad => dec_sym v e ct a k nonce tag aad
  | CEncrypt pt a k nonce aad =>
      match top_class a with
      | TSym => enc_sym v pt a k nonce aad
      | TAsym =>
          r <- enc_pub e pt a k aad ;;
          match r with
          | ([c], err) => ret ([c; nil_slice], err)
          | (_, err) => ret ([nil_slice; nil_slice], err)
          end
      | TNone => ret ([nil_slice; nil_slice], EUnsupported)
      end
  | CDecrypt ct a k nonce tag aad =>
      match top_class a with
      | TSym => dec_sym v e ct a k nonce tag aad
      | TAsym => dec_priv e ct a k aad
      | TNone => ret ([nil_slice], EUnsupported)
      end
  | CEncPub pt a k aad => enc_pub e pt a k aad
  | CDecPriv ct a k aad => dec_priv e ct a k aad
  | CSign digest a k => asym_op e (is_sig_alg a) true k [digest]
  | CVerify digest sig a k => asym_op e (is_sig_alg a) false k [digest; sig]
  | CParseKey raw => read raw ;;; ret ([], if e_ok e then ENone else EOther)
  end.

(* the explicit destination buffer of an AEAD call: the only caller memory that may change is
   its spare capacity dst[len:cap] (Seal/Open APPEND to dst) *)
Definition dst_of (c : call) : option slice :=
  match c with
  | CSeal _ _ dst _ _ _ | COpen _ _ dst _ _ _ => Some dst
  | _ => None
  end.

Definition in_spare (d : slice) (a i : nat) : bool :=
  (a =? sarr d) && (soff d + slen d <=? i) && (i <? soff d + scap d).

Definition in_dst (c : call) (a i : nat) : bool :=
  match dst_of c with Some d => in_spare d a i | None => false end.

(* cells written by a computation started in m: the new prefix of the log *)
Definition writes {A} (x : M A) (m : mem) : list (nat * nat) :=
  let m' := snd (x m) in firstn (length (wlog m') - length (wlog m)) (wlog m').
