(* C17 — the property, written from its text (properties.jsonl) and from the documented
   contract of cipher.AEAD, not from the code:

     "after any call to the encrypt, decrypt, wrap, unwrap, pad, sign or verify functions —
      successful or not — the plaintext, ciphertext, key, nonce, tag and associated-data
      buffers handed in are bit-for-bit unchanged, including the spare capacity behind their
      length.  The only memory a call may write is the destination buffer an AEAD caller
      passes explicitly."

   cipher.AEAD: "Seal ... appends the result to dst", "Open ... appends the plaintext to dst":
   of the destination buffer, the bytes an append may touch are those of its spare capacity
   dst[len(dst):cap(dst)].  Everything else that existed before the call must be unchanged. *)
From Kit Require Export C17.Model.

(* memory as an observer sees it: plain bytes *)
Definition bheap := list (list N).
Definition bget (h : bheap) (a i : nat) : option N := nth_error (nth a h []) i.

(* the cells a call with explicit destination [dst] is allowed to write *)
Definition may_write (dst : option slice) (a i : nat) : bool :=
  match dst with Some d => in_spare d a i | None => false end.

(* observed byte heaps before/after a call: no array that existed before changes its length,
   and every cell outside the permitted region keeps its value *)
Definition readonly_spec (dst : option slice) (pre post : bheap) : Prop :=
  forall a, a < length pre ->
    length (nth a post []) = length (nth a pre []) /\
    forall i, may_write dst a i = false -> bget post a i = bget pre a i.

Definition row_ok (D : nat -> bool) (x y : list N) : bool :=
  (length y =? length x) &&
  forallb (fun i => D i || (nth i y 0 =? nth i x 0)%N) (seq 0 (length x)).

Definition readonly_oracle (dst : option slice) (pre post : bheap) : bool :=
  forallb (fun a => row_ok (may_write dst a) (nth a pre []) (nth a post [])) (seq 0 (length pre)).

(* the same property on model memories *)
Definition mem_readonly (dst : option slice) (m0 m1 : mem) : Prop :=
  forall a i, a < nalloc m0 -> may_write dst a i = false -> getc m1 a i = getc m0 a i.

(* and on the set of written cells: only arrays allocated by the call itself ("fresh": their id
   is not below the number of arrays that existed before) or permitted destination cells *)
Definition writes_confined (dst : option slice) (n0 : nat) (ws : list (nat * nat)) : Prop :=
  forall a i, In (a, i) ws -> n0 <= a \/ may_write dst a i = true.

(* a caller cell was written *)
Definition caller_write (dst : option slice) (n0 : nat) (ws : list (nat * nat)) : Prop :=
  exists a i, In (a, i) ws /\ a < n0 /\ may_write dst a i = false.

(* executable form of [writes_confined], for cells the harness SAW a call try to write (the
   arguments lie in read-only memory; an attempted store faults and is reported) *)
Definition confined_oracle (dst : option slice) (n0 : nat) (ws : list (nat * nat)) : bool :=
  forallb (fun p => (n0 <=? fst p) || may_write dst (fst p) (snd p)) ws.
