(* C01/C02 — the concrete instance of the abstract [crypto] record: the Gallina primitives of
   coq/Crypto (ChaCha20-Poly1305, AES-256-GCM, HKDF-SHA-256, HMAC-SHA-256, base64 std).
   Go's base64 decoder skips CR and LF, hence [b64_decode_nl]. *)
From Kit Require Export C01.Manifest.
From Kit Require Import Crypto.Words Crypto.SHA256 Crypto.HMAC Crypto.HKDF Crypto.AEADChaCha
     Crypto.GCM Crypto.Base64.

Definition concrete : crypto :=
  mkCrypto
    (fun c k n p => match c with
                    | ChaChaPoly => chacha20poly1305_seal k n [] p
                    | AESGCM => gcm_seal k n [] p
                    end)
    (fun c k n ct => match c with
                     | ChaChaPoly => chacha20poly1305_open k n [] ct
                     | AESGCM => gcm_open k n [] ct
                     end)
    hkdf_sha256 hmac_sha256 b64_encode b64_decode_nl.

Definition sha256_digest : list N -> list N := sha256.
