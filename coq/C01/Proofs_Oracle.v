(* C01/C02 — the boolean oracles of Spec.v (evaluated on what the implementation was observed
   to do) decide the corresponding spec predicates. *)
From Kit Require Import C01.Spec.

Section Oracles.
  Variable C : crypto.
  Variable S : nat.

  Lemma enc_oracle_sound o fk np wfk p d :
    enc_oracle C S o fk np wfk p d = true <-> enc_ok C S o fk np wfk p d.
  Proof.
    unfold enc_oracle, enc_ok. split.
    - intros H. apply andb_true_iff in H as [H1 H2].
      destruct (encrypt_spec C S o fk np wfk p) as [d'|]; [|discriminate].
      destruct (decrypt_spec C S fk d) as [p'|]; [|discriminate].
      apply eqb_listN_spec in H1. apply eqb_listN_spec in H2. subst. split; reflexivity.
    - intros [H1 H2]. rewrite H1, H2. apply andb_true_iff.
      split; apply eqb_listN_spec; reflexivity.
  Qed.

  Lemma dec_oracle_sound p out clean : dec_oracle p out clean = true <-> dec_ok p out clean.
  Proof.
    unfold dec_oracle, dec_ok. rewrite andb_true_iff, eqb_listN_spec. tauto.
  Qed.

  Lemma tamper_oracle_sound p out clean src_failed :
    tamper_oracle p out clean src_failed = true <-> tamper_ok p out clean src_failed.
  Proof.
    unfold tamper_oracle, tamper_ok. rewrite !andb_true_iff, prefixb_spec. split.
    - intros [[H1 H2] H3]. split; [exact H1|]. split.
      + intros ->. apply eqb_listN_spec. exact H2.
      + intros ->. destruct clean; [discriminate|reflexivity].
    - intros (H1 & H2 & H3). split; [split; [exact H1|]|].
      + destruct clean; [apply eqb_listN_spec, H2|]; reflexivity.
      + destruct src_failed; [|reflexivity]. rewrite H3; reflexivity.
  Qed.
End Oracles.
