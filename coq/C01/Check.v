(* C01/C02 — executable correspondence interface.  The Go harnesses (harness/c01, harness/c02;
   common code in harness/c01/encx) print [case] terms holding the input AND what the
   implementation was observed to do; [check_case] compares with the model on the concrete
   Gallina primitives and evaluates the spec oracles of Spec.v on the observation.
   The model evaluated here is the one of ModelX.v (readers that may deliver data together
   with a non-EOF error; equal to Model.v on all other scripts: C02/ProofsX.v).
   Variants: the model is pinned to [Fixed] [Fixed] = the current tree with both fixes (commit
   32f907c: a failed unwrap always ends in ErrDecryptionSignature; fixes/C02-header-read-error:
   a non-EOF source error seen by readHeader is Decrypt's error), so reverting either shows up
   as a model/implementation disagreement as well as an oracle failure.
   Long byte strings never appear literally: plaintexts are generator
   expressions, long outputs are compared through (length, SHA-256). *)
From Kit Require Export C01.Model C01.ModelX C01.Spec C01.Concrete Lib.CheckLib.

Definition SEG : nat := N.to_nat 65536.     (* SegmentSize *)
Definition HDR : nat := N.to_nat 65536.     (* the header scan reads at most SegmentSize bytes *)

(* ---- compact inputs ---- *)

(* plaintext generators; the harness has the same formulas (encx.PGen) *)
Inductive pgen :=
| PExp (bs : list N)
| PSeq (start len : N)   (* byte i = (start + i + 3 * (i / 256) + 7 * (i / 65536)) mod 256 *)
| PRep (pat : list N) (count : N).     (* bytes.Repeat(pat, count) *)

Fixpoint seq_bytes (n : nat) (start i : N) : list N :=
  match n with
  | O => []
  | S n' => ((start + i + 3 * (i / 256) + 7 * (i / 65536)) mod 256)%N :: seq_bytes n' start (i + 1)%N
  end.

Fixpoint rep_bytes (n : nat) (pat : list N) : list N :=
  match n with O => [] | S n' => pat ++ rep_bytes n' pat end.

Definition pbytes (g : pgen) : list N :=
  match g with
  | PExp bs => bs
  | PSeq start len => seq_bytes (N.to_nat len) start 0%N
  | PRep pat count => rep_bytes (N.to_nat count) pat
  end.

(* read scripts by lengths: the data is cut sequentially.  [IDX n]: n bytes delivered TOGETHER
   with a non-EOF error, once (follow it with [IF] for a sticky error). *)
Inductive sitem := ID (n : N) | IDE (n : N) | IZ | IF | IDX (n : N).

Fixpoint mk_script (its : list sitem) (data : list N) : list rdx :=
  match its with
  | [] => []
  | ID n :: t => XD (firstn (N.to_nat n) data) :: mk_script t (skipn (N.to_nat n) data)
  | IDE n :: t => XDE (firstn (N.to_nat n) data) :: mk_script t (skipn (N.to_nat n) data)
  | IDX n :: t => XDX (firstn (N.to_nat n) data) :: mk_script t (skipn (N.to_nat n) data)
  | IZ :: t => XZ :: mk_script t data
  | IF :: t => XF :: mk_script t data
  end.

(* the source reader reports a non-EOF error before its end of file *)
Fixpoint sitems_fail (its : list sitem) : bool :=
  match its with
  | [] => false
  | IF :: _ | IDX _ :: _ => true
  | IDE _ :: _ => false
  | _ :: t => sitems_fail t
  end.

(* observed byte strings: explicit, or (length, SHA-256 digest) *)
Inductive obytes := OB (bs : list N) | OH (len : N) (digest : list N).

Definition obytes_match (model : list N) (o : obytes) : bool :=
  match o with
  | OB bs => eqb_listN model bs
  | OH len d => (N.of_nat (length model) =? len)%N && eqb_listN (sha256_digest model) d
  end.

Definition obytes_len (o : obytes) : N :=
  match o with OB bs => N.of_nat (length bs) | OH len _ => len end.

(* the unwrap callback of a case: a finite table (wrapped key, algorithm, key name) ->
   (bytes returned, error returned); anything else fails with no bytes.  The harness's
   UnwrapKeyFn is driven by the same table. *)
Definition utable := list (list N * list N * list N * (list N * bool)).

Fixpoint unwrap_of (t : utable) (w a k : list N) : list N * bool :=
  match t with
  | [] => ([], true)
  | (w', a', k', res) :: t' =>
      if eqb_listN w w' && eqb_listN a a' && eqb_listN k k' then res else unwrap_of t' w a k
  end.

(* ---- observations ---- *)

Inductive eobs := EOCall | EOStream (out : obytes) (st : sstatus).

(* class of the error returned by Decrypt itself *)
Inductive dclass := KKeyMissing | KSignature | KOther.

Definition dclass_eqb (a b : dclass) : bool :=
  match a, b with
  | KKeyMissing, KKeyMissing | KSignature, KSignature | KOther, KOther => true
  | _, _ => false
  end.

Definition dclass_of (e : dcallerr) : option dclass :=
  match e with
  | DEKeyMissing => Some KKeyMissing
  | DESignature => Some KSignature
  | DEHeader | DEManifest | DEMacFormat => Some KOther
  | DEFuel => None
  end.

Inductive dobs := DOCall (k : dclass) | DOStream (out : obytes) (st : sstatus).

(* [fine] = compare the class of a call error too *)
Definition dec_agrees (fine : bool) (m : dec_result) (o : dobs) : bool :=
  match m, o with
  | DecCallError e, DOCall k =>
      match dclass_of e with
      | Some k' => if fine then dclass_eqb k k' else true
      | None => false
      end
  | DecStream out st, DOStream oout ost => obytes_match out oout && sstatus_eqb st ost
  | _, _ => false
  end.

(* a document given to Decrypt: explicit bytes, or "the document the published format
   prescribes for (manifest, file key, plaintext) with the manifest line written in style sty"
   (member order, whitespace, escapes: [manifest_text]; Go's own style gives [encrypt_doc])
   together with the digest of the bytes the harness actually fed to the implementation *)
Inductive docsrc :=
| DBytes (bs : list N)
| DSpec (sty : mstyle) (m : manifest) (fk : list N) (p : pgen) (len : N) (digest : list N).

Definition doc_bytes (d : docsrc) : list N :=
  match d with
  | DBytes bs => bs
  | DSpec sty m fk p _ _ =>
      encrypt_doc_text concrete SEG (manifest_text concrete sty m) m fk (pbytes p)
  end.

Definition doc_consistent (d : docsrc) (bs : list N) : bool :=
  match d with
  | DBytes _ => true
  | DSpec _ _ _ _ len dg => obytes_match bs (OH len dg)
  end.

(* the wrap callback of a case: a toy vault keyed by NAME - a finite table (algorithm, key
   name) -> wrapped key for the file key Encrypt drew; any other call fails.  The harness's
   WrapKeyFn is the same vault. *)
Definition wtable := list (list N * list N * list N).

Fixpoint wrap_of (t : wtable) (fk a k : list N) : option (list N) :=
  match t with
  | [] => None
  | (a', k', w) :: t' => if eqb_listN a a' && eqb_listN k k' then Some w else wrap_of t' fk a k
  end.

Inductive case :=
(* Go Encrypt: options, the file key / nonce prefix it drew ([] when it never got that far),
   the vault behind the wrap callback, plaintext, read script of the source, observation *)
| CEnc (o : enc_opts) (fk np : list N) (wt : wtable)
       (p : pgen) (sc : list sitem) (obs : eobs)
(* Go Decrypt of a VALID document: document, unwrap table, DecryptOptions.KeyName, read script
   of the source, file key and plaintext of the document, observation *)
| CDec (d : docsrc) (tbl : utable) (optkn : list N) (sc : list sitem)
       (fk : list N) (p : pgen) (obs : dobs)
(* Go Decrypt of a TAMPERED document derived from a valid one with plaintext [p]: the
   bytes (None = long document, oracle only), table, key name, script, observation *)
| CTamper (p : pgen) (d : option (list N)) (tbl : utable) (optkn : list N) (sc : list sitem)
          (obs : dobs)
(* The unexported pure helpers of the package, called directly (hook file
   schemes/enc/v1/verif_hooks.go) on argument values no document of practical size reaches:
   nonceForSegment(prefix, num, last) = obs *)
| CHNonce (np : list N) (num : N) (last : bool) (obs : list N)
(* two calls of nonceForSegment at positions (n1, l1) and (n2, l2) *)
| CHNoncePair (np : list N) (n1 : N) (l1 : bool) (o1 : list N) (n2 : N) (l2 : bool) (o2 : list N)
(* importFileKey(fk, np): header key and payload key *)
| CHKeys (fk np hk pk : list N)
(* SignHeader(manifest line) under fk *)
| CHHeader (fk man obs : list N)
(* EncryptSegment(data, num, last) under (fk, np): the bytes written, None = error *)
| CHSeal (cph : cipher) (fk np data : list N) (num : N) (last : bool) (obs : option (list N))
(* DecryptSegment at position (num, last) of the ciphertext [c] that an independent encoder made
   for plaintext [p] at position (n0, l0), under (fk, np): the bytes written, None = error *)
| CHOpen (cph : cipher) (fk np p : list N) (n0 : N) (l0 : bool) (c : list N)
         (num : N) (last : bool) (obs : option (list N)).

Definition opt_eqb (a b : option (list N)) : bool :=
  match a, b with
  | None, None => true
  | Some x, Some y => eqb_listN x y
  | _, _ => false
  end.

Definition model_agrees (c : case) : bool :=
  match c with
  | CEnc o fk np wt p sc obs =>
      match encrypt_stream_wx concrete SEG HDR o fk np (wrap_of wt) (mk_script sc (pbytes p)), obs with
      | EncCallError, EOCall => true
      | EncStream out st, EOStream oout ost => obytes_match out oout && sstatus_eqb st ost
      | _, _ => false
      end
  | CDec d tbl optkn sc fk p obs =>
      let bs := doc_bytes d in
      dec_agrees true
        (decrypt_stream_x concrete Fixed Fixed SEG HDR (unwrap_of tbl) optkn (mk_script sc bs)) obs
  | CTamper p (Some bs) tbl optkn sc obs =>
      dec_agrees false
        (decrypt_stream_x concrete Fixed Fixed SEG HDR (unwrap_of tbl) optkn (mk_script sc bs)) obs
  | CTamper _ None _ _ _ _ => true
  | CHNonce np num last obs => eqb_listN (nonce_for_segment np num last) obs
  | CHNoncePair np n1 l1 o1 n2 l2 o2 =>
      eqb_listN (nonce_for_segment np n1 l1) o1 && eqb_listN (nonce_for_segment np n2 l2) o2
  | CHKeys fk np hk pk =>
      eqb_listN (header_key concrete fk) hk && eqb_listN (payload_key concrete fk np) pk
  | CHHeader fk man obs => eqb_listN (sign_header concrete fk man) obs
  | CHSeal cph fk np data num last obs =>
      opt_eqb (encrypt_segment concrete cph (payload_key concrete fk np) np data num last) obs
  | CHOpen cph fk np _ _ _ c num last obs =>
      opt_eqb (decrypt_segment concrete cph (payload_key concrete fk np) np c num last) obs
  end.

(* What the documentation promises for Decrypt of a valid document with manifest [m]: the key
   name is the caller's, else the manifest's, else ErrDecryptionKeyMissing; with the right
   file key back from the callback the plaintext comes out; with anything else it fails. *)
Inductive dexpect := XPlain | XKeyMissing | XFail.

Definition dec_expect (m : manifest) (tbl : utable) (optkn fk : list N) : dexpect :=
  let kn := match optkn with [] => m_k m | _ => optkn end in
  match kn with
  | [] => XKeyMissing
  | _ => let '(k, e) := unwrap_of tbl (m_wfk m) (kwalg_name (m_kw m)) kn in
         if eqb_listN k fk && negb e then XPlain else XFail
  end.

Definition manifest_of_doc (bs : list N) : option manifest :=
  match split_line bs [] with
  | Some (_, r) => match split_line r [] with
                   | Some (man, _) => parse_manifest concrete man
                   | None => None
                   end
  | None => None
  end.

(* length of the three header lines of a document (0 if it has fewer) *)
Definition doc_header_len (d : list N) : nat :=
  match split_line d [] with
  | Some (l0, r0) =>
      match split_line r0 [] with
      | Some (l1, r1) =>
          match split_line r1 [] with
          | Some (l2, _) => length l0 + length l1 + length l2 + 3
          | None => 0
          end
      | None => 0
      end
  | None => 0
  end.

Definition oracle (c : case) : bool :=
  match c with
  | CEnc o fk np wt p sc obs =>
      let pb := pbytes p in
      if sitems_fail sc then
        match obs with EOStream _ SClean => false | _ => true end
      else
        match encrypt_spec_w concrete SEG o fk np (wrap_of wt) pb, obs with
        | None, EOCall => true
        (* Encrypt may refuse options whose header would not fit into the first segment-size
           bytes of the document, which is where Decrypt looks for it (every key name either
           makes Encrypt fail or round-trips) *)
        | Some d, EOCall => Nat.ltb HDR (doc_header_len d)
        | Some d, EOStream oout SClean =>
            obytes_match d oout
            && match decrypt_spec concrete SEG fk d with
               | Some p' => eqb_listN p' pb
               | None => false
               end
        | _, _ => false
        end
  | CDec d tbl optkn sc fk p obs =>
      let bs := doc_bytes d in
      let pb := pbytes p in
      doc_consistent d bs
      && match decrypt_spec concrete SEG fk bs with     (* the input IS a valid document *)
         | Some p' => eqb_listN p' pb
         | None => false
         end
      && match manifest_of_doc bs with
         | None => false
         | Some m =>
             if sitems_fail sc then
               match obs with DOStream _ SClean => false | _ => true end
             else
               match dec_expect m tbl optkn fk, obs with
               | XPlain, DOStream oout SClean => obytes_match pb oout
               | XKeyMissing, DOCall KKeyMissing => true
               | XFail, DOCall _ => true
               | _, _ => false
               end
         end
  | CTamper p _ _ _ sc obs =>
      let pb := pbytes p in
      match obs with
      | DOCall _ => tamper_oracle pb [] false (sitems_fail sc)
      | DOStream oout st =>
          let n := N.to_nat (obytes_len oout) in
          (* [out] is the first n bytes of p (checked through its digest when long) *)
          (Nat.leb n (length pb)) && obytes_match (firstn n pb) oout
          && tamper_oracle pb (firstn n pb) (sstatus_eqb st SClean) (sitems_fail sc)
      end
  (* README: nonce = nonce_prefix (7 bytes) || i (32-bit big-endian) || last_segment *)
  | CHNonce np num last obs =>
      if Nat.eqb (length np) 7 then eqb_listN (spec_nonce np num last) obs else true
  (* C02: segments at different positions, or of different finality, never share a nonce *)
  | CHNoncePair np n1 l1 o1 n2 l2 o2 =>
      ((n1 =? n2)%N && Bool.eqb l1 l2) || negb (eqb_listN o1 o2)
  (* README: mac-key / payload-key derivations *)
  | CHKeys fk np hk pk =>
      eqb_listN (spec_mac_key concrete fk) hk && eqb_listN (spec_payload_key concrete fk np) pk
  | CHHeader fk man obs => eqb_listN (spec_header concrete fk man) obs
  (* README: segment = AEAD(payload key, nonce(i, last), chunk); never empty *)
  | CHSeal cph fk np data num last obs =>
      match data, obs with
      | [], None => true
      | _ :: _, Some w =>
          if Nat.eqb (length np) 7
          then eqb_listN (seal concrete cph (spec_payload_key concrete fk np) (spec_nonce np num last) data) w
          else true
      | _, _ => false
      end
  (* C01: a segment made from the README opens at its own position to its plaintext;
     C02: it opens at NO other position and with no other finality *)
  | CHOpen cph fk np p n0 l0 c num last obs =>
      eqb_listN c (seal concrete cph (spec_payload_key concrete fk np) (spec_nonce np n0 l0) p)
      && match obs with
         | Some x => (n0 =? num)%N && Bool.eqb l0 last && eqb_listN x p
         | None => negb ((n0 =? num)%N && Bool.eqb l0 last) || is_nil p
         end
  end.

(* 0 = agree and oracle holds; 1 = model and implementation differ; 2 = the implementation's
   observed behaviour violates the spec and the faithful model reproduces that behaviour (the
   only kind of failure a known finding may absorb); 3 = it violates the spec and the model
   does NOT reproduce it (never absorbed). *)
Definition check_case (c : case) : Z :=
  if negb (oracle c) then (if model_agrees c then 2 else 3)
  else if negb (model_agrees c) then 1 else 0.

Definition run_cases (cs : list (Z * case)) : list (Z * Z) := failures check_case cs.
