(* C01 — the scheme-level theorems: Encrypt over ANY read script produces the document the
   published format prescribes; Decrypt over ANY read script of such a document gives the
   plaintext back (under the AEAD / base64 premises of Premises.v); layout of the document. *)
From Kit Require Import C01.Sem Lib.ReaderFacts C01.Proofs_Segments C01.Proofs_Header.
From Coq Require Import ZifyNat ZifyN ZifyBool.

Lemma copy_pad_exact l : forall n, length l = n -> copy_pad n l = l.
Proof.
  induction l as [|x l IH]; intros n Hn; cbn in Hn; subst n; [reflexivity|].
  cbn [copy_pad]. f_equal. apply IH. reflexivity.
Qed.

Lemma nonce_spec np i last : length np = 7 -> nonce_for_segment np i last = spec_nonce np i last.
Proof.
  intros Hnp. unfold nonce_for_segment, spec_nonce. rewrite copy_pad_exact by exact Hnp. reflexivity.
Qed.

(* the number of segments fits the 32-bit counter when the input has at most S * 2^32 bytes *)
Lemma chunk_count_bound S p : 0 < S ->
  (N.of_nat (length p) <= N.of_nat S * 4294967296)%N ->
  (0 + N.of_nat (length (chunks S p)) <= 4294967296)%N.
Proof.
  intros HS. generalize 4294967296%N as K. intros K Hb.
  rewrite chunks_length by exact HS. unfold ceil_div.
  assert (Hn : length p <= S * N.to_nat K).
  { assert (E : N.to_nat (N.of_nat S * K) = S * N.to_nat K) by (rewrite N2Nat.inj_mul, Nat2N.id; reflexivity).
    rewrite <- E. lia. }
  assert (Hd : (length p + S - 1) / S < N.to_nat K + 1).
  { apply Nat.div_lt_upper_bound; [lia|]. rewrite Nat.mul_add_distr_l. lia. }
  lia.
Qed.

Section Scheme.
  Variable C : crypto.

  (* ---- encryption ---- *)

  Lemma run_chunks_encrypt cph pk np : length np = 7 -> forall cs i out,
    Forall (fun c => c <> []) cs -> (i + N.of_nat (length cs) <= 4294967296)%N ->
    run_chunks (encrypt_segment C cph pk np) i cs out
    = (out ++ concat (seal_chunks C cph pk np i cs), SClean).
  Proof.
    intros Hnp. induction cs as [|c t IH]; intros i out Hne Hb.
    - cbn. rewrite app_nil_r. reflexivity.
    - inversion Hne as [|? ? Hc Ht]; subst.
      cbn [run_chunks seal_chunks concat].
      unfold encrypt_segment at 1. destruct c as [|x c']; [congruence|].
      rewrite nonce_spec by exact Hnp.
      assert (Hmax : negb (is_nil t) && (i =? max_segment)%N = false).
      { destruct t as [|c2 t']; [reflexivity|]. cbn [is_nil negb andb].
        apply N.eqb_neq. unfold max_segment. cbn [length] in Hb. lia. }
      rewrite Hmax. rewrite IH; [|exact Ht|cbn [length] in Hb; lia].
      rewrite <- app_assoc. reflexivity.
  Qed.

  Lemma sign_header_spec fk man : sign_header C fk man = spec_header C fk man.
  Proof. reflexivity. Qed.

  Theorem encrypt_stream_chunking_independent S H o fk np wfk sc m :
    0 < S -> ends_eof sc = true -> length np = 7 ->
    spec_manifest o np wfk = Some m ->
    length (spec_header C fk (manifest_json C m)) <= H ->
    (N.of_nat (length (data_of sc)) <= N.of_nat S * 4294967296)%N ->
    encrypt_stream C S H o fk np wfk sc = EncStream (encrypt_doc C S m fk (data_of sc)) SClean.
  Proof.
    intros HS Heof Hnp Hm HH Hb.
    unfold encrypt_stream. rewrite encrypt_manifest_spec_h, Hm.
    rewrite sign_header_spec.
    rewrite (proj2 (Nat.ltb_ge _ _) HH).
    rewrite process_segments_chunks by assumption.
    assert (Hmnp : m_np m = np /\ m_wfk m = wfk).
    { rewrite <- encrypt_manifest_spec_h in Hm.
      destruct (keyname_table _ _ _ _ Hm) as (_ & _ & Hw & Hn). split; assumption. }
    destruct Hmnp as [Hmnp _].
    rewrite run_chunks_encrypt;
      [|exact Hnp|apply chunks_nonempty; exact HS|apply chunk_count_bound; assumption].
    cbn [app]. unfold encrypt_doc, spec_segments. rewrite Hmnp. reflexivity.
  Qed.

  (* ---- layout ---- *)

  Lemma seal_chunks_length cph pk np : forall cs i,
    length (seal_chunks C cph pk np i cs) = length cs.
  Proof. induction cs as [|c t IH]; intros i; [reflexivity|]. cbn. rewrite IH. reflexivity. Qed.

  Section WithPremises.
    Hypothesis Hok : crypto_ok C.

    Lemma seal_chunks_nth cph pk np : forall cs i k, k < length cs ->
      length (nth k (seal_chunks C cph pk np i cs) []) = length (nth k cs []) + 16.
    Proof.
      induction cs as [|c t IH]; intros i k Hk; [cbn in Hk; lia|].
      cbn [seal_chunks]. destruct k as [|k].
      - cbn [nth]. apply (ok_seal_length C Hok).
      - cbn [nth]. apply IH. cbn [length] in Hk. lia.
    Qed.

    Lemma seal_chunks_pieces S cph pk np : forall cs i,
      pieces S cs -> pieces (S + 16) (seal_chunks C cph pk np i cs).
    Proof.
      induction cs as [|c t IH]; intros i Hp; [exact I|].
      destruct t as [|c2 t'].
      - cbn [seal_chunks pieces] in *. destruct Hp as [Hc Hl]. split.
        + intro E. apply (f_equal (@length N)) in E.
          rewrite (ok_seal_length C Hok) in E. cbn [length] in E. lia.
        + rewrite (ok_seal_length C Hok). lia.
      - rewrite pieces_cons in Hp by discriminate. destruct Hp as [Hc Hp].
        change (seal_chunks C cph pk np i (c :: c2 :: t'))
          with (seal C cph pk (spec_nonce np i false) c
                :: seal_chunks C cph pk np (i + 1) (c2 :: t')).
        rewrite pieces_cons by (cbn [seal_chunks]; discriminate).
        split; [rewrite (ok_seal_length C Hok); lia|]. apply IH. exact Hp.
    Qed.

    Theorem layout_segments S m fk p : 0 < S ->
      let segs := spec_segments C S m fk p in
      length segs = ceil_div (length p) S /\
      (forall i, i < length segs -> length (nth i segs []) = Nat.min S (length p - i * S) + 16) /\
      (p = [] <-> segs = []).
    Proof.
      intros HS segs. subst segs. unfold spec_segments.
      split; [rewrite seal_chunks_length; apply chunks_length; exact HS|].
      split.
      - intros i Hi. rewrite seal_chunks_length in Hi.
        rewrite seal_chunks_nth by exact Hi. rewrite chunks_nth_length by assumption. reflexivity.
      - split.
        + intros ->. reflexivity.
        + intros E. apply (f_equal (@length (list N))) in E.
          rewrite seal_chunks_length in E. cbn [length] in E.
          apply (chunks_nil_iff S p HS). destruct (chunks S p); [reflexivity|discriminate].
    Qed.

    (* the three header lines *)
    Theorem layout_header fk m :
      three_lines (spec_header C fk (manifest_json C m)) spec_scheme_line (manifest_json C m)
                  (b64e C (hmac C (spec_mac_key C fk) (spec_signed_part (manifest_json C m)))).
    Proof.
      unfold three_lines. split; [|split; [|split]].
      - unfold spec_header, spec_signed_part. repeat rewrite <- app_assoc. reflexivity.
      - exact scheme_name_no_nl.
      - apply manifest_json_no_nl, Hok.
      - apply b64e_no_nl, Hok.
    Qed.

    (* ---- decryption ---- *)

    Lemma run_chunks_decrypt cph pk np : length np = 7 -> forall cs i out,
      Forall (fun c => c <> []) cs -> (i + N.of_nat (length cs) <= 4294967296)%N ->
      run_chunks (decrypt_segment C cph pk np) i (seal_chunks C cph pk np i cs) out
      = (out ++ concat cs, SClean).
    Proof.
      intros Hnp. induction cs as [|c t IH]; intros i out Hne Hb.
      - cbn. rewrite app_nil_r. reflexivity.
      - inversion Hne as [|? ? Hc Ht]; subst.
        cbn [seal_chunks run_chunks concat].
        assert (Hnil : is_nil (seal_chunks C cph pk np (i + 1) t) = is_nil t).
        { destruct t; reflexivity. }
        rewrite Hnil.
        unfold decrypt_segment at 1.
        destruct (seal C cph pk (spec_nonce np i (is_nil t)) c) as [|y s] eqn:Es.
        { exfalso. apply (f_equal (@length N)) in Es.
          rewrite (ok_seal_length C Hok) in Es. cbn [length] in Es. lia. }
        rewrite <- Es. rewrite nonce_spec by exact Hnp. rewrite (ok_open_seal C Hok).
        assert (Hmax : negb (is_nil t) && (i =? max_segment)%N = false).
        { destruct t as [|c2 t']; [reflexivity|]. cbn [is_nil negb andb].
          apply N.eqb_neq. unfold max_segment. cbn [length] in Hb. lia. }
        rewrite Hmax. rewrite IH; [|exact Ht|cbn [length] in Hb; lia].
        rewrite <- app_assoc. reflexivity.
    Qed.

    Lemma sealed_chunks_rechunk S cph pk np p : 0 < S ->
      chunks (S + 16) (concat (seal_chunks C cph pk np 0 (chunks S p)))
      = seal_chunks C cph pk np 0 (chunks S p).
    Proof.
      intros HS. apply chunks_of_pieces; [lia|].
      apply seal_chunks_pieces. apply chunks_pieces. exact HS.
    Qed.

    Theorem payload_roundtrip S cph fk np p sc :
      0 < S -> length np = 7 -> ends_eof sc = true ->
      data_of sc = concat (seal_chunks C cph (spec_payload_key C fk np) np 0 (chunks S p)) ->
      (N.of_nat (length p) <= N.of_nat S * 4294967296)%N ->
      process_segments (S + 16) (decrypt_segment C cph (payload_key C fk np) np) sc = (p, SClean).
    Proof.
      intros HS Hnp Heof Hdata Hb.
      rewrite process_segments_chunks by (lia || assumption).
      rewrite Hdata, sealed_chunks_rechunk by exact HS.
      change (payload_key C fk np) with (spec_payload_key C fk np).
      rewrite run_chunks_decrypt;
        [|exact Hnp|apply chunks_nonempty; exact HS|apply chunk_count_bound; assumption].
      cbn [app]. rewrite chunks_concat by exact HS. reflexivity.
    Qed.

    (* Decrypt accepts every document of the published format, however its manifest line is
       written: [man] is ANY text the manifest parser reads as [m] (any member order,
       insignificant whitespace, any string escapes - the README fixes none of these and says
       the MAC is over the bytes as written), any file key, nonce prefix, either cipher, and
       however the source delivers the document. *)
    Theorem decrypt_accepts_text v S H unwrap optkn sc man m fk p :
      0 < S -> parse_manifest C man = Some m -> no_nl man -> man <> [] ->
      manifest_valid m = true ->
      ends_eof sc = true -> data_of sc = encrypt_doc_text C S man m fk p ->
      length (spec_header C fk man) <= H ->
      dec_key_name optkn m <> [] ->
      unwrap (m_wfk m) (kwalg_name (m_kw m)) (dec_key_name optkn m) = (fk, false) ->
      length fk = 32 ->
      (N.of_nat (length p) <= N.of_nat S * 4294967296)%N ->
      decrypt_stream C v S H unwrap optkn sc = DecStream p SClean.
    Proof.
      intros HS Hparse Hnl Hne Hvalid Heof Hdata HlenH Hkn Hunwrap Hfk Hb.
      unfold encrypt_doc_text in Hdata.
      set (mac := b64e C (hmac C (spec_mac_key C fk) (spec_signed_part man))) in *.
      assert (Hhdr : spec_header C fk man
                     = scheme_name ++ [10%N] ++ man ++ [10%N] ++ mac ++ [10%N]).
      { unfold spec_header, spec_signed_part. fold mac.
        change spec_scheme_line with scheme_name.
        repeat rewrite <- app_assoc. reflexivity. }
      rewrite Hhdr in Hdata, HlenH. rewrite <- hdr_assoc in Hdata.
      destruct (read_header_complete H sc man mac _ Hdata) as (r' & Hrh & Hpay & Heof').
      - exact Hnl.
      - apply b64e_no_nl, Hok.
      - exact Hne.
      - apply (ok_b64_nonempty C Hok), (ok_hmac_nonempty C Hok).
      - exact HlenH.
      - unfold decrypt_stream. rewrite Hrh. rewrite Hparse.
        rewrite Hvalid. cbn [negb].
        fold (dec_key_name optkn m).
        destruct (dec_key_name optkn m) as [|k0 kn] eqn:Ekn; [congruence|].
        cbn [is_nil]. rewrite Hunwrap.
        rewrite Hfk. cbn [Nat.eqb negb orb].
        replace (match v with Original => false | Fixed => false end) with false
          by (destruct v; reflexivity).
        assert (Hver : verify_header C fk man mac = Some true).
        { unfold verify_header, mac.
          rewrite (ok_b64_roundtrip C Hok) by apply (ok_hmac_bytes C Hok).
          f_equal. apply eqb_listN_spec. reflexivity. }
        rewrite Hver. rewrite andb_false_r.
        assert (Hnp : length (m_np m) = 7).
        { unfold manifest_valid in Hvalid. apply andb_true_iff in Hvalid as [_ Hn].
          apply Nat.eqb_eq in Hn. exact Hn. }
        rewrite (payload_roundtrip S (m_cph m) fk (m_np m) p (script r')); try assumption.
        + reflexivity.
        + rewrite Heof'. exact Heof.
    Qed.

    (* ... in particular for Go's own serialisation of the manifest ... *)
    Theorem decrypt_accepts_spec v S H unwrap optkn sc m fk p :
      0 < S -> manifest_bytes_ok m -> manifest_valid m = true ->
      ends_eof sc = true -> data_of sc = encrypt_doc C S m fk p ->
      length (spec_header C fk (manifest_json C m)) <= H ->
      dec_key_name optkn m <> [] ->
      unwrap (m_wfk m) (kwalg_name (m_kw m)) (dec_key_name optkn m) = (fk, false) ->
      length fk = 32 ->
      (N.of_nat (length p) <= N.of_nat S * 4294967296)%N ->
      decrypt_stream C v S H unwrap optkn sc = DecStream p SClean.
    Proof.
      intros HS Hbytes Hvalid Heof Hdata HlenH Hkn Hunwrap Hfk Hb.
      apply decrypt_accepts_text with (man := manifest_json C m) (m := m) (fk := fk); try assumption.
      - apply (parse_manifest_json C Hok). exact Hbytes.
      - apply manifest_json_no_nl, Hok.
      - apply manifest_json_nonempty.
    Qed.

    (* ... and for every other serialisation of the family [manifest_text]: members in any
       order, whitespace (space, tab, carriage return) at every place JSON allows it, the key
       name escaped Go's way, minimally (with \/ and literal & < >) or as \u00XX. *)
    Theorem decrypt_accepts_styles v S H unwrap optkn sc sty m fk p :
      0 < S -> manifest_bytes_ok m -> manifest_valid m = true ->
      Forall (fun b => is_ws b = true) (ms_ws sty) -> NoDup (ms_order sty) ->
      (forall f, f <> FK -> In f (ms_order sty)) -> (In FK (ms_order sty) \/ m_k m = []) ->
      ends_eof sc = true ->
      data_of sc = encrypt_doc_text C S (manifest_text C sty m) m fk p ->
      length (spec_header C fk (manifest_text C sty m)) <= H ->
      dec_key_name optkn m <> [] ->
      unwrap (m_wfk m) (kwalg_name (m_kw m)) (dec_key_name optkn m) = (fk, false) ->
      length fk = 32 ->
      (N.of_nat (length p) <= N.of_nat S * 4294967296)%N ->
      decrypt_stream C v S H unwrap optkn sc = DecStream p SClean.
    Proof.
      intros HS Hbytes Hvalid Hws Hnd Hall Hk Heof Hdata HlenH Hkn Hunwrap Hfk Hb.
      apply decrypt_accepts_text with (man := manifest_text C sty m) (m := m) (fk := fk);
        try assumption.
      - apply (parse_manifest_text C Hok); assumption.
      - apply (manifest_text_no_nl C Hok). exact Hws.
      - apply manifest_text_nonempty.
    Qed.

    (* Round trip: what Encrypt produced for options [o] over ANY read script [sc] of the
       plaintext, delivered to Decrypt over ANY read script [sc'], comes out as the plaintext. *)
    Theorem roundtrip v S H o fk np wfk sc unwrap optkn m :
      0 < S -> length fk = 32 -> length np = 7 -> bytes_ok np = true ->
      wfk <> [] -> bytes_ok wfk = true ->
      spec_manifest o np wfk = Some m ->
      length (spec_header C fk (manifest_json C m)) <= H ->
      ends_eof sc = true ->
      (N.of_nat (length (data_of sc)) <= N.of_nat S * 4294967296)%N ->
      dec_key_name optkn m <> [] ->
      unwrap wfk (kwalg_name (m_kw m)) (dec_key_name optkn m) = (fk, false) ->
      exists d, encrypt_stream C S H o fk np wfk sc = EncStream d SClean /\
                forall sc', ends_eof sc' = true -> data_of sc' = d ->
                            decrypt_stream C v S H unwrap optkn sc' = DecStream (data_of sc) SClean.
    Proof.
      intros HS Hfk Hnp Hnpb Hwfk Hwfkb Hm HH Heof Hb Hkn Hunwrap.
      exists (encrypt_doc C S m fk (data_of sc)). split.
      - apply encrypt_stream_chunking_independent; assumption.
      - intros sc2 Heof2 Hdata2.
        assert (Hmf : m_np m = np /\ m_wfk m = wfk).
        { rewrite <- encrypt_manifest_spec_h in Hm.
          destruct (keyname_table _ _ _ _ Hm) as (_ & _ & Hw & Hn). split; assumption. }
        destruct Hmf as [Hmnp Hmwfk].
        apply decrypt_accepts_spec with (m := m) (fk := fk); try assumption.
        + split; [rewrite Hmwfk; exact Hwfkb|rewrite Hmnp; exact Hnpb].
        + unfold manifest_valid. rewrite Hmwfk, Hmnp, Hnp.
          destruct wfk; [congruence|reflexivity].
        + rewrite Hmwfk. exact Hunwrap.
    Qed.

    (* Round trip through the caller's callbacks: the wrap callback is invoked with the file
       key, the un-aliased algorithm and opts.KeyName (never DecryptionKeyName); if the unwrap
       callback gives the file key back for what it returned, under the name Decrypt uses (the
       caller's, else the manifest's), the plaintext comes back - for every chunking on both
       sides. *)
    Theorem roundtrip_callbacks v S H o fk np wfk sc wrap unwrap optkn m :
      0 < S -> length fk = 32 -> length np = 7 -> bytes_ok np = true ->
      spec_manifest o np wfk = Some m ->
      wrap fk (kwalg_name (m_kw m)) (eo_keyname o) = Some wfk ->
      wfk <> [] -> bytes_ok wfk = true ->
      length (spec_header C fk (manifest_json C m)) <= H ->
      ends_eof sc = true ->
      (N.of_nat (length (data_of sc)) <= N.of_nat S * 4294967296)%N ->
      dec_key_name optkn m <> [] ->
      unwrap wfk (kwalg_name (m_kw m)) (dec_key_name optkn m) = (fk, false) ->
      exists d, encrypt_stream_w C S H o fk np wrap sc = EncStream d SClean /\
                forall sc', ends_eof sc' = true -> data_of sc' = d ->
                            decrypt_stream C v S H unwrap optkn sc' = DecStream (data_of sc) SClean.
    Proof.
      intros HS Hfk Hnp Hnpb Hm Hwrap Hwfk Hwfkb HH Heof Hb Hkn Hunwrap.
      destruct (roundtrip v S H o fk np wfk sc unwrap optkn m) as (d & Henc & Hdec); try assumption.
      exists d. split; [|exact Hdec].
      unfold encrypt_stream_w.
      pose proof Hm as Hm'. rewrite <- encrypt_manifest_spec_h in Hm'.
      destruct (alias_wrap_args _ _ _ _ Hm') as [Hargs _].
      rewrite Hargs, Hwrap. exact Henc.
    Qed.

    (* ... and when the wrap callback fails, Encrypt fails. *)
    Theorem wrap_failure_is_encrypt_failure S H o fk np wrap sc alg kn :
      encrypt_wrap_args o = Some (alg, kn) -> wrap fk alg kn = None ->
      encrypt_stream_w C S H o fk np wrap sc = EncCallError.
    Proof. intros Ha Hw. unfold encrypt_stream_w. rewrite Ha, Hw. reflexivity. Qed.
  End WithPremises.
End Scheme.
