(* C01/C02 — source-table tie: the data harness/srctab01 (and srctab02) regenerate from the text
   of /repo/schemes/enc/v1/{scheme.go,filekey.go,ciphers.go,algorithms.go,manifest.go}, each item
   tested against what the model itself uses (Manifest.v, Model.v, the sizes of Check.v).

   Named definitions of the model are compared directly.  Literals the model inlines (the 16-byte
   segment overhead in [decrypt_stream], the 32-byte file key, the HKDF sizes and salts, the JSON
   member names) are READ OFF THE MODEL by evaluating its functions over a toy instance of the
   abstract [crypto] record whose primitives record their arguments: no second copy of a number
   is compared, and no file of the model is touched. *)
From Kit Require Import Lib.SrcTab C01.Model C01.Concrete.
From Kit Require C01.Check.
From Coq Require Import String.
Local Open Scope string_scope.

(* ---- a toy instance of the abstract primitives ---- *)
(* seal appends a tag of [ovh] bytes (the nonce backwards: last flag, segment counter, …,
   zero-filled), open checks and removes it; hkdf returns its arguments; hmac is constant; base64
   is the identity (the probes only use letters) *)
Definition toy_tag (ovh : nat) (nonce : list N) : list N := firstn ovh (rev nonce ++ repeat 0%N ovh).
Definition toy (ovh : nat) : crypto :=
  mkCrypto
    (fun _ _ n p => (p ++ toy_tag ovh n)%list)
    (fun _ _ n ct => if Nat.ltb (List.length ct) ovh then None
                     else let k := List.length ct - ovh in
                          if eqb_listN (skipn k ct) (toy_tag ovh n) then Some (firstn k ct) else None)
    (fun ikm salt info n => (ikm ++ [255%N] ++ salt ++ [255%N] ++ info ++ [255%N] ++ repeat 0%N n)%list)
    (fun _ _ => [77%N])
    (fun x => x)
    (fun x => Some x).

Definition probe_opts : enc_opts := mkEncOpts (str "K") (str "AES") [] false None.
Definition probe_plain : list N := map N.of_nat (seq 1 40).

(* a 20-segment document (segment size 2) written by the model's Encrypt over a toy AEAD with
   overhead [ovh] is read back by the model's Decrypt, the unwrap callback returning a key of
   [keylen] bytes: succeeds exactly when [ovh] is the overhead [decrypt_stream] adds to the
   segment size and [keylen] the key length it insists on *)
Definition probe_roundtrip (ovh keylen : nat) : bool :=
  match encrypt_stream (toy ovh) 2 1000 probe_opts (str "F") (str "NNNNNNN") (str "W")
                       [Data probe_plain] with
  | EncStream doc SClean =>
      match decrypt_stream (toy ovh) Fixed 2 1000 (fun _ _ _ => (repeat 9%N keylen, false)) []
                           [Data doc] with
      | DecStream out SClean => eqb_listN out probe_plain
      | _ => false
      end
  | _ => false
  end.

Definition find_nat (f : nat -> bool) (bound : nat) : nat :=
  match find f (seq 1 bound) with Some n => n | None => 0 end.

(* the model's segment overhead and file-key length, read off [decrypt_stream] *)
Definition model_overhead : nat := find_nat (fun o => probe_roundtrip o 32) 64.
Definition model_keylen : nat := find_nat (fun k => probe_roundtrip model_overhead k) 128.

(* the Gallina AEADs the model is instantiated with add that many bytes *)
Definition concrete_overhead (c : cipher) : nat :=
  List.length (seal concrete c (repeat 0%N 32) (repeat 0%N 12) [1%N]) - 1.

(* deriveKey(size, info, salt) as the model's key derivations call it *)
Definition derive_ok (key : list N) (np : list N) (v : tv) : bool :=
  match v with
  | TL [TZ n; TS info; TS salt] =>
      let s := if String.eqb salt "nil" then Some []
               else if String.eqb salt "fk.noncePrefix" then Some np else None in
      match s with
      | Some s => eqb_listN key (str "F" ++ [255%N] ++ s ++ [255%N] ++ bytes_of_string info
                                 ++ [255%N] ++ repeat 0%N (Z.to_nat n))%list
      | None => false
      end
  | _ => false
  end.

(* ---- nonceForSegment ---- *)
Definition nonce_ones (last : bool) : list N := nonce_for_segment (repeat 1%N 12) 33752069%N last.
(* 33752069 = 0x02030405 *)

Definition nonce_prefix_ok (z : Z) : bool :=
  let n := Z.to_nat z in
  manifest_valid (mkManifest [] A256KW [1%N] AESGCM (repeat 0%N n))
  && eqb_listN (firstn n (nonce_ones false)) (repeat 1%N n)
  && negb (N.eqb (nth n (nonce_ones false) 1%N) 1%N).

Definition nonce_counter_ok (v : tv) : bool :=
  match v with
  | TL [TZ lo; TZ hi] =>
      eqb_listN (firstn (Z.to_nat (hi - lo)) (skipn (Z.to_nat lo) (nonce_ones false))) [2; 3; 4; 5]%N
  | _ => false
  end.

Definition nonce_flag_ok (v : tv) : bool :=
  match v with
  | TL [TP (TZ i1) (TZ v1); TP (TZ i0) (TZ v0)] =>
      (Z.of_N (nth (Z.to_nat i1) (nonce_ones true) 99%N) =? v1)%Z
      && (Z.of_N (nth (Z.to_nat i0) (nonce_ones false) 99%N) =? v0)%Z
      && (i1 =? i0)%Z && negb (v1 =? v0)%Z
  | _ => false
  end.

(* ---- names, ids, aliases: the model's functions evaluated on every key of the switch ---- *)
Definition kw_validate_ok (name target : tv) : bool :=
  match name, target with
  | TS n, TS t => match kwalg_of_name (bytes_of_string n) with
                  | Some a => eqb_listN (kwalg_name a)
                                (bytes_of_string (if String.eqb t "<self>" then n else t))
                  | None => false
                  end
  | _, _ => false
  end.
Definition kw_id_ok (name id : tv) : bool :=
  match name, id with
  | TS n, TZ i => match kwalg_of_name (bytes_of_string n) with
                  | Some a => (Z.of_N (kwalg_id a) =? i)%Z
                  | None => false
                  end
  | _, _ => false
  end.
Definition kw_of_id_ok (id name : tv) : bool :=
  match id, name with
  | TZ i, TS n => match kwalg_of_id (Z.to_N i) with
                  | Some a => (0 <=? i)%Z && eqb_listN (kwalg_name a) (bytes_of_string n)
                  | None => false
                  end
  | _, _ => false
  end.
Definition cph_validate_ok (name target : tv) : bool :=
  match name, target with
  | TS n, TS t => match cipher_of_name (bytes_of_string n) with
                  | Some c => String.eqb t "<self>" && eqb_listN (cipher_name c) (bytes_of_string n)
                  | None => false
                  end
  | _, _ => false
  end.
Definition cph_id_ok (name id : tv) : bool :=
  match name, id with
  | TS n, TZ i => match cipher_of_name (bytes_of_string n) with
                  | Some c => (Z.of_N (cipher_id c) =? i)%Z
                  | None => false
                  end
  | _, _ => false
  end.
Definition cph_of_id_ok (id name : tv) : bool :=
  match id, name with
  | TZ i, TS n => match cipher_of_id (Z.to_N i) with
                  | Some c => (0 <=? i)%Z && eqb_listN (cipher_name c) (bytes_of_string n)
                  | None => false
                  end
  | _, _ => false
  end.

(* the constructors, and the names [kwalg_of_name] / [cipher_of_name] accept: the canonical name
   of every constructor plus the two documented aliases (each checked to be accepted) *)
Definition all_ciphers : list cipher := [AESGCM; ChaChaPoly].
Definition all_kwalgs : list kwalg := [A256KW; A128CBC; A192CBC; A256CBC; RSAOAEP256].
Definition cipher_names : list (list N) :=
  filter (fun n => match cipher_of_name n with Some _ => true | None => false end)
         (map cipher_name all_ciphers).
Definition kwalg_names : list (list N) :=
  filter (fun n => match kwalg_of_name n with Some _ => true | None => false end)
         (map kwalg_name all_kwalgs ++ [str "AES"; str "RSA"])%list.

Definition default_cipher_ok (s : string) : bool :=
  match encrypt_manifest probe_opts [] [] with
  | Some m => eqb_listN (cipher_name (m_cph m)) (bytes_of_string s)
  | None => false
  end.

(* ---- the manifest's JSON member names: struct order, "k" omitted when empty ---- *)
Definition probe_manifest : manifest := mkManifest (str "K") A128CBC (str "W") ChaChaPoly (str "NNNNNNN").

Definition json_tags_ok (v : tv) : bool :=
  match v with
  | TL [TP (TS "KeyName") (TS tk); TP (TS "KeyWrappingAlgorithm") (TS tkw); TP (TS "WFK") (TS twfk);
        TP (TS "Cipher") (TS tcph); TP (TS "NoncePrefix") (TS tnp)] =>
      match index 0 "," tk with
      | Some i =>
          let k := substring 0 i tk in
          String.eqb (substring i (String.length tk - i) tk) ",omitempty"
          && let q := fun s : string => ([34%N] ++ bytes_of_string s ++ [34%N; 58%N])%list in
             let text := (str "{" ++ q k ++ str """K""," ++ q tkw ++ str "2," ++ q twfk ++ str """W"","
                          ++ q tcph ++ str "2," ++ q tnp ++ str """NNNNNNN""}")%list in
             eqb_listN (manifest_json (toy 0) probe_manifest) text
             && match parse_manifest (toy 0) text with
                | Some m => eqb_listN (manifest_json (toy 0) m) text
                | None => false
                end
             (* omitempty: no member for an empty key name *)
             && eqb_listN (manifest_json (toy 0) (mkManifest [] A128CBC (str "W") ChaChaPoly (str "NNNNNNN")))
                          (str "{" ++ q tkw ++ str "2," ++ q twfk ++ str """W"","
                           ++ q tcph ++ str "2," ++ q tnp ++ str """NNNNNNN""}")%list
      | None => false
      end
  | _ => false
  end.

Definition table : list entry :=
  [ ("enc.SchemeName", eqv (tbytes scheme_name));
    ("enc.SegmentSize", eqv (tnat Check.SEG));
    ("enc.Encrypt.segmentSize", eqv (tnat Check.SEG));
    ("enc.readHeader.limit", eqv (tnat Check.HDR));
    ("enc.SegmentOverhead",
     on_Z (fun z => (z =? Z.of_nat model_overhead)%Z && (z =? Z.of_nat (concrete_overhead AESGCM))%Z
                    && (z =? Z.of_nat (concrete_overhead ChaChaPoly))%Z));
    ("enc.Decrypt.segmentSize", eqv (tnat (Check.SEG + model_overhead)));
    ("enc.NoncePrefixLength", on_Z nonce_prefix_ok);
    ("enc.Encrypt.defaultCipher", on_S default_cipher_ok);
    ("enc.Decrypt.fileKeyLength", eqv (tnat model_keylen));
    ("enc.Decrypt.zeroKeyLength", eqv (tnat (List.length zero_key)));
    ("enc.processSegments.lastSegment", eqv (tN max_segment));
    ("enc.importFileKey.headerKey", derive_ok (header_key (toy 0) (str "F")) []);
    ("enc.importFileKey.payloadKey", derive_ok (payload_key (toy 0) (str "F") (str "np")) (str "np"));
    ("enc.nonceForSegment.size", eqv (tnat (List.length (nonce_for_segment [] 0%N false))));
    ("enc.nonceForSegment.counter", nonce_counter_ok);
    ("enc.nonceForSegment.lastFlag", nonce_flag_ok);
    (* names, ids and aliases: one item per case label; [#] = how many the model knows *)
    ("enc.Cipher.Validate[]", on_pair cph_validate_ok);
    ("enc.Cipher.Validate[#]", eqv (tnat (List.length cipher_names)));
    ("enc.Cipher.ID[]", on_pair cph_id_ok);
    ("enc.Cipher.ID[#]", eqv (tnat (List.length cipher_names)));
    ("enc.NewCipherFromID[]", on_pair cph_of_id_ok);
    ("enc.NewCipherFromID[#]", eqv (tnat (List.length all_ciphers)));
    ("enc.KeyAlgorithm.Validate[]", on_pair kw_validate_ok);
    ("enc.KeyAlgorithm.Validate[#]", eqv (tnat (List.length kwalg_names)));
    ("enc.KeyAlgorithm.ID[]", on_pair kw_id_ok);
    ("enc.KeyAlgorithm.ID[#]", eqv (tnat (List.length kwalg_names)));
    ("enc.NewKeyAlgorithmFromID[]", on_pair kw_of_id_ok);
    ("enc.NewKeyAlgorithmFromID[#]", eqv (tnat (List.length all_kwalgs)));
    ("enc.Manifest.json", json_tags_ok) ].

Definition run_cases := run_tab table.

(* what the probes read off the model today (a regression test of this file, not the tie) *)
Example probes_today : (model_overhead, model_keylen) = (16, 32).
Proof. vm_compute. reflexivity. Qed.
