(* C01/C02 — the algebraic premises of the scheme-level theorems, discharged for the concrete
   Gallina primitives of coq/Crypto: AEAD correctness (open after seal) and the 16-byte
   expansion, for ChaCha20-Poly1305 and AES-GCM. *)
From Kit Require Import C01.Manifest C01.Concrete C01.Premises.
From Kit Require Import Crypto.AEADChaCha Crypto.GCM.

Lemma concrete_open_seal : forall c k n p, open concrete c k n (seal concrete c k n p) = Some p.
Proof.
  intros [|] k n p; cbn [open seal concrete].
  - apply gcm_open_seal.
  - apply chacha20poly1305_open_seal.
Qed.

Lemma concrete_open_seal_chacha : forall k n p,
  open concrete ChaChaPoly k n (seal concrete ChaChaPoly k n p) = Some p.
Proof. intros; apply concrete_open_seal. Qed.

Lemma concrete_open_seal_gcm : forall k n p,
  open concrete AESGCM k n (seal concrete AESGCM k n p) = Some p.
Proof. intros; apply concrete_open_seal. Qed.

Lemma concrete_seal_length : forall c k n p,
  length (seal concrete c k n p) = length p + 16.
Proof.
  intros [|] k n p; cbn [seal concrete].
  - apply gcm_seal_length.
  - apply chacha20poly1305_seal_length.
Qed.
