(* C01/C02 — dapr.io/enc/v1: the properties, written from /repo/schemes/enc/v1/README.md (the
   published format), the documentation comments of EncryptOptions/DecryptOptions and the
   property texts — NOT from the code.  An independent encoder [encrypt_spec] and decoder
   [decrypt_spec] "as an implementation written from the published spec would be", the C01
   oracles and the C02 oracle.  Abstract in the primitives ([crypto]) and the segment size. *)
From Kit Require Export C01.Manifest.
From Coq Require Import String.
Local Open Scope string_scope.
Local Open Scope list_scope.

Definition spec_scheme_line : list N := str "dapr.io/enc/v1".

(* "i (4 bytes) is the sequence number, as a 32-bit unsigned integer counter, big-endian" *)
Definition spec_be32 (n : N) : list N :=
  [(n / 16777216) mod 256; (n / 65536) mod 256; (n / 256) mod 256; n mod 256]%N.

(* nonce_prefix || i || last_segment *)
Definition spec_nonce (np : list N) (i : N) (last : bool) : list N :=
  np ++ spec_be32 i ++ [if last then 1%N else 0%N].

(* "The plaintext is chunked into segments of S bytes each; the last segment may be shorter.
   Segments must never be empty": an empty message has no segment at all. *)
Fixpoint chunks_fuel (fuel S : nat) (p : list N) : list (list N) :=
  match fuel with
  | O => []
  | Datatypes.S f => match p with
                     | [] => []
                     | _ :: _ => firstn S p :: chunks_fuel f S (skipn S p)
                     end
  end.

Definition chunks (S : nat) (p : list N) : list (list N) := chunks_fuel (List.length p) S p.

(* up to and excluding the first line feed: (line, rest after it) *)
Fixpoint split_line (bs acc : list N) : option (list N * list N) :=
  match bs with
  | [] => None
  | b :: t => if (b =? 10)%N then Some (frev acc, t) else split_line t (b :: acc)
  end.

Section Spec.
  Variable C : crypto.
  Variable S : nat.    (* plaintext bytes per segment; the published value is 65536 *)

  (* mac-key = HKDF-SHA-256(ikm = file key, salt = empty, info = "header") *)
  Definition spec_mac_key (fk : list N) : list N := hkdf C fk [] (str "header") 32.
  (* payload-key = HKDF-SHA-256(ikm = file key, salt = nonce prefix, info = "payload") *)
  Definition spec_payload_key (fk np : list N) : list N := hkdf C fk np (str "payload") 32.

  (* the first two lines of the header, "including the trailing newline character" *)
  Definition spec_signed_part (man : list N) : list N :=
    spec_scheme_line ++ [10%N] ++ man ++ [10%N].

  (* three items, each terminated by a line feed *)
  Definition spec_header (fk man : list N) : list N :=
    spec_signed_part man
    ++ b64e C (hmac C (spec_mac_key fk) (spec_signed_part man)) ++ [10%N].

  (* segment i = AEAD(payload key, nonce(i, last), chunk i) = encrypted_chunk || tag *)
  Fixpoint seal_chunks (cph : cipher) (pk np : list N) (i : N) (cs : list (list N))
    : list (list N) :=
    match cs with
    | [] => []
    | c :: t => seal C cph pk (spec_nonce np i (is_nil t)) c
                :: seal_chunks cph pk np (i + 1)%N t
    end.

  Definition spec_segments (m : manifest) (fk p : list N) : list (list N) :=
    seal_chunks (m_cph m) (spec_payload_key fk (m_np m)) (m_np m) 0%N (chunks S p).

  (* header || segment_0 || ... || segment_k *)
  Definition encrypt_doc (m : manifest) (fk p : list N) : list N :=
    spec_header fk (manifest_json C m) ++ List.concat (spec_segments m fk p).

  (* ... the same for ANY manifest line [man] an implementation chose to write for [m] (member
     order, whitespace and escapes are not fixed by the README; the MAC is over the bytes as
     written) *)
  Definition encrypt_doc_text (man : list N) (m : manifest) (fk p : list N) : list N :=
    spec_header fk man ++ List.concat (spec_segments m fk p).

  (* EncryptOptions as documented: KeyName and Algorithm are required; Algorithm is one of the
     five names or the aliases AES / RSA; Cipher defaults to AES-GCM; the manifest's key name
     is DecryptionKeyName, else KeyName, or nothing with OmitKeyName. *)
  Definition spec_key_name (o : enc_opts) : list N :=
    if eo_omit o then []
    else match eo_deckeyname o with [] => eo_keyname o | _ => eo_deckeyname o end.

  Definition spec_manifest (o : enc_opts) (np wfk : list N) : option manifest :=
    match eo_keyname o, eo_alg o with
    | [], _ | _, [] => None
    | _, _ =>
        match kwalg_of_name (eo_alg o),
              (match eo_cipher o with None => Some AESGCM | Some c => cipher_of_name c end) with
        | Some kw, Some cph => Some (mkManifest (spec_key_name o) kw wfk cph np)
        | _, _ => None
        end
    end.

  (* The document Encrypt must produce for options [o], file key [fk], nonce prefix [np],
     wrapped file key [wfk] and plaintext [p]. *)
  Definition encrypt_spec (o : enc_opts) (fk np wfk p : list N) : option (list N) :=
    match spec_manifest o np wfk with
    | Some m => Some (encrypt_doc m fk p)
    | None => None
    end.

  (* WrapKeyFn as documented ("Function that is invoked to wrap the key", "Algorithm used to
     wrap the file key", "KeyName: name of the key to use"): the file key is wrapped once, with
     the un-aliased algorithm and under KeyName - never under DecryptionKeyName, which is only
     "the name of the key to include as decryption key".  [wrap fk alg name] = the wrapped key,
     or [None] when the callback fails (then Encrypt fails). *)
  Definition spec_wrap_call (o : enc_opts) : option (list N * list N) :=
    match spec_manifest o [] [] with
    | Some m => Some (kwalg_name (m_kw m), eo_keyname o)
    | None => None
    end.

  Definition encrypt_spec_w (o : enc_opts) (fk np : list N)
             (wrap : list N -> list N -> list N -> option (list N)) (p : list N)
    : option (list N) :=
    match spec_wrap_call o with
    | None => None
    | Some (alg, kn) => match wrap fk alg kn with
                        | None => None
                        | Some wfk => encrypt_spec o fk np wfk p
                        end
    end.

  (* ---- the independent decoder ---- *)

  (* open segment i of the payload cut into pieces of S+16 bytes; last flag on the final one *)
  Fixpoint open_chunks (cph : cipher) (pk np : list N) (i : N) (cs : list (list N))
    : option (list N) :=
    match cs with
    | [] => Some []
    | c :: t =>
        match open C cph pk (spec_nonce np i (is_nil t)) c with
        | None => None
        | Some x => match open_chunks cph pk np (i + 1)%N t with
                    | None => None
                    | Some rest => Some (x ++ rest)
                    end
        end
    end.

  (* Decrypt document [d] knowing the file key: three header lines, MAC over the first two,
     then the segments.  [None] = not a valid document for this key. *)
  Definition decrypt_spec (fk d : list N) : option (list N) :=
    match split_line d [] with
    | None => None
    | Some (l0, r0) =>
      match split_line r0 [] with
      | None => None
      | Some (man, r1) =>
        match split_line r1 [] with
        | None => None
        | Some (mac64, payload) =>
          if negb (eqb_listN l0 spec_scheme_line) then None
          else match parse_manifest C man, b64d C mac64 with
               | Some m, Some mac =>
                   if negb (manifest_valid m) then None
                   else if negb (eqb_listN mac (hmac C (spec_mac_key fk) (spec_signed_part man)))
                   then None
                   else open_chunks (m_cph m) (spec_payload_key fk (m_np m)) (m_np m) 0%N
                                    (chunks (S + 16) payload)
               | _, _ => None
               end
        end
      end
    end.

  (* ---- C01 oracle: evaluated on what the implementation produced ---- *)

  (* Encrypt produced document [d] (clean end of stream) for plaintext [p]: it is byte for
     byte the published format, and the independent decoder recovers [p] from it. *)
  Definition enc_ok (o : enc_opts) (fk np wfk p d : list N) : Prop :=
    encrypt_spec o fk np wfk p = Some d /\ decrypt_spec fk d = Some p.

  Definition enc_oracle (o : enc_opts) (fk np wfk p d : list N) : bool :=
    match encrypt_spec o fk np wfk p with
    | Some d' => eqb_listN d' d
    | None => false
    end
    && match decrypt_spec fk d with
       | Some p' => eqb_listN p' p
       | None => false
       end.

  (* Decrypt of a valid document returned [out] and ended cleanly or not. *)
  Definition dec_ok (p out : list N) (clean : bool) : Prop := out = p /\ clean = true.
  Definition dec_oracle (p out : list N) (clean : bool) : bool := eqb_listN out p && clean.

  (* ---- C02 oracle ---- *)

  (* [p]: the plaintext of the document the tampered input was derived from; [out]: every byte
     the Decrypt stream released ([] when Decrypt itself failed); [clean]: the stream ended in
     a clean EOF; [src_failed]: the source reader returned an error. *)
  Definition tamper_ok (p out : list N) (clean src_failed : bool) : Prop :=
    (exists rest, p = out ++ rest) /\ (clean = true -> out = p) /\
    (src_failed = true -> clean = false).

  Definition tamper_oracle (p out : list N) (clean src_failed : bool) : bool :=
    prefixb out p && (if clean then eqb_listN out p else true)
    && (if src_failed then negb clean else true).
End Spec.
