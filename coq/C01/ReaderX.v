(* C01/C02 — scripted readers extended with ONE more read result than Lib/Reader.v has: data
   delivered TOGETHER with a non-EOF error, reported once ([XDX bs]: the Read call that returns
   the last byte of [bs] also returns the error; later calls go on with the rest of the
   script — put [XF] after it for a sticky error, nothing for "error once, then EOF").
   Everything else is Lib/Reader.v's [read] over a bare script ([emb] embeds its scripts).
   Definitions only. *)
From Kit Require Export Lib.Reader.

Inductive rdx :=
| XD (bs : list N)      (* Data *)
| XZ                    (* Zero: (0, nil) *)
| XDE (bs : list N)     (* DataEOF *)
| XF                    (* Fail: (0, err), sticky *)
| XDX (bs : list N).    (* data with a non-EOF error on the read that returns its last byte; once *)

Definition emb_item (x : rd) : rdx :=
  match x with Data bs => XD bs | Zero => XZ | DataEOF bs => XDE bs | Fail => XF end.

Definition emb (sc : list rd) : list rdx := map emb_item sc.

(* One call Read(p) with len(p) = want. *)
Definition xread (want : nat) (s : list rdx) : list N * err * list rdx :=
  match want with
  | O => ([], ENil, s)
  | _ =>
    match s with
    | [] => ([], EEOF, [])
    | XZ :: t => ([], ENil, t)
    | XF :: _ => ([], EFail, s)
    | XD bs :: t =>
        if Nat.leb (length bs) want then (bs, ENil, t)
        else (firstn want bs, ENil, XD (skipn want bs) :: t)
    | XDE bs :: t =>
        if Nat.leb (length bs) want then (bs, EEOF, [])
        else (firstn want bs, ENil, XDE (skipn want bs) :: t)
    | XDX bs :: t =>
        if Nat.leb (length bs) want then (bs, EFail, t)
        else (firstn want bs, ENil, XDX (skipn want bs) :: t)
    end
  end.

(* every byte the script delivers before its end of file (whatever errors it reports on the way) *)
Fixpoint xdata (s : list rdx) : list N :=
  match s with
  | [] => []
  | XD bs :: t | XDX bs :: t => bs ++ xdata t
  | XZ :: t => xdata t
  | XDE bs :: _ => bs
  | XF :: _ => []
  end.

(* the source reports no non-EOF error before its end of file *)
Fixpoint xends_eof (s : list rdx) : bool :=
  match s with
  | [] => true
  | XD _ :: t | XZ :: t => xends_eof t
  | XDE _ :: _ => true
  | XF :: _ | XDX _ :: _ => false
  end.

(* a bound on the number of reads (with want > 0) before EOF / the sticky failure *)
Fixpoint xfuel (s : list rdx) : nat :=
  match s with
  | [] => 1
  | XD bs :: t | XDX bs :: t => S (length bs) + xfuel t
  | XZ :: t => S (xfuel t)
  | XDE bs :: _ => S (S (length bs))
  | XF :: _ => 1
  end.
