(* C01/C02 — proofs about the manifest codec (Manifest.v) and the option tables of Encrypt
   (Model.v [encrypt_manifest] against Spec.v [spec_manifest]):
     json_unquote_escape, manifest_json_no_nl, parse_manifest_json, manifest_json_nonempty,
     alias_table, alias_wrap_args, keyname_table, encrypt_manifest_spec_h.
   Stdlib style.  No axioms. *)
From Kit Require Import C01.Sem Lib.ReaderFacts.
From Coq Require Import String ZifyBool ZifyNat ZifyN.
Local Open Scope string_scope.
Local Open Scope list_scope.
Ltac Zify.zify_post_hook ::= Z.div_mod_to_equations.

(* evaluate every [str "literal"] of the goal to its list of bytes *)
Ltac eval_str :=
  repeat match goal with
         | |- context [str ?s] =>
             let x := eval vm_compute in (str s) in change (str s) with x
         end.

(* ------------------------------------------------------------------------------------- *)
(* generic list facts                                                                      *)

Lemma no_nl_app a b : no_nl a -> no_nl b -> no_nl (a ++ b).
Proof. intros Ha Hb. apply Forall_app; split; assumption. Qed.

Lemma no_nl_plain l : Forall plain_char l -> no_nl l.
Proof.
  intros Hl. unfold no_nl. eapply Forall_impl; [|exact Hl].
  intros c (_ & _ & Hc) ->. cbv in Hc. apply Hc. reflexivity.
Qed.

Lemma strip_prefix_app p r : strip_prefix p (p ++ r) = Some r.
Proof.
  induction p as [|x p IH]; cbn [strip_prefix app]; [reflexivity|].
  rewrite N.eqb_refl. exact IH.
Qed.

(* ------------------------------------------------------------------------------------- *)
(* B4: the JSON string decoder inverts the encoder (for every byte value, no hypothesis)   *)

Lemma hex_val_digit n : (n < 16)%N -> hex_val (hex_digit n) = Some n.
Proof.
  intros Hn. unfold hex_digit, hex_val.
  destruct (n <? 10)%N eqn:E.
  - apply N.ltb_lt in E.
    replace ((48 <=? 48 + n) && (48 + n <=? 57))%N with true by lia. f_equal. lia.
  - apply N.ltb_ge in E.
    replace ((48 <=? 87 + n) && (87 + n <=? 57))%N with false by lia.
    replace ((97 <=? 87 + n) && (87 + n <=? 102))%N with true by lia. f_equal. lia.
Qed.

Lemma hex_digit_ge n : (48 <= hex_digit n)%N.
Proof. unfold hex_digit. destruct (n <? 10)%N; lia. Qed.

Lemma json_unquote_u h1 h2 c d t acc :
  hex_val h1 = Some c -> hex_val h2 = Some d -> (c < 8)%N ->
  json_unquote (92 :: 117 :: 48 :: 48 :: h1 :: h2 :: t)%N acc
  = json_unquote t ((c * 16 + d)%N :: acc).
Proof.
  intros H1 H2 Hc.
  change (json_unquote (92 :: 117 :: 48 :: 48 :: h1 :: h2 :: t)%N acc)
    with (match hex_val h1, hex_val h2 with
          | Some c, Some d =>
              if (0 =? 0)%N && (0 =? 0)%N && (c <? 8)%N
              then json_unquote t ((c * 16 + d)%N :: acc) else None
          | _, _ => None
          end).
  rewrite H1, H2. apply N.ltb_lt in Hc. rewrite Hc. reflexivity.
Qed.

Lemma json_unquote_escape_byte b t acc :
  json_unquote (json_escape_byte b ++ t) acc = json_unquote t (b :: acc).
Proof.
  unfold json_escape_byte.
  destruct (b =? 34)%N eqn:E34. { apply N.eqb_eq in E34; subst b. reflexivity. }
  destruct (b =? 92)%N eqn:E92. { apply N.eqb_eq in E92; subst b. reflexivity. }
  destruct (b =? 8)%N eqn:E8. { apply N.eqb_eq in E8; subst b. reflexivity. }
  destruct (b =? 12)%N eqn:E12. { apply N.eqb_eq in E12; subst b. reflexivity. }
  destruct (b =? 10)%N eqn:E10. { apply N.eqb_eq in E10; subst b. reflexivity. }
  destruct (b =? 13)%N eqn:E13. { apply N.eqb_eq in E13; subst b. reflexivity. }
  destruct (b =? 9)%N eqn:E9. { apply N.eqb_eq in E9; subst b. reflexivity. }
  destruct ((b <? 32) || (b =? 60) || (b =? 62) || (b =? 38))%N eqn:Eu.
  - assert (Hb : (b < 64)%N) by lia.
    cbn [app].
    rewrite (json_unquote_u _ _ (b / 16)%N (b mod 16)%N);
      [ | apply hex_val_digit; lia | apply hex_val_digit; lia | lia ].
    f_equal. f_equal. lia.
  - cbn [app json_unquote]. rewrite E34, E92.
    replace (b <? 32)%N with false by lia. reflexivity.
Qed.

Lemma json_unquote_escape s : forall rest acc,
  json_unquote (flat_map json_escape_byte s ++ [34%N] ++ rest) acc = Some (rev acc ++ s, rest).
Proof.
  induction s as [|b s IH]; intros rest acc.
  - cbn [flat_map app json_unquote]. rewrite app_nil_r. reflexivity.
  - cbn [flat_map]. rewrite <- app_assoc, json_unquote_escape_byte, IH.
    cbn [rev]. rewrite <- app_assoc. reflexivity.
Qed.

(* the alternative escapes are really used: a string with a quote, a control character, an
   HTML character, a byte >= 0x80 and a backslash *)
Example json_unquote_escape_ex :
  json_unquote (flat_map json_escape_byte [34; 1; 60; 200; 92; 10; 65]%N ++ [34%N] ++ [7%N]) []
  = Some ([34; 1; 60; 200; 92; 10; 65]%N, [7%N]).
Proof. vm_compute. reflexivity. Qed.

(* a string of plain characters passes through the decoder unchanged *)
Lemma json_unquote_plain s : forall rest acc,
  Forall plain_char s ->
  json_unquote (s ++ [34%N] ++ rest) acc = Some (rev acc ++ s, rest).
Proof.
  induction s as [|c s IH]; intros rest acc Hs.
  - cbn [app json_unquote]. rewrite app_nil_r. reflexivity.
  - inversion Hs as [|c' s' Hc Hs']; subst. destruct Hc as (Hq & Hb & Hge).
    rewrite <- app_comm_cons. cbn [json_unquote].
    replace (c =? 34)%N with false by lia.
    replace (c <? 32)%N with false by lia.
    replace (c =? 92)%N with false by lia.
    rewrite (IH rest (c :: acc) Hs'). cbn [rev]. rewrite <- app_assoc. reflexivity.
Qed.

(* ------------------------------------------------------------------------------------- *)
(* B5: no line feed in an encoded manifest                                                 *)

Lemma json_escape_byte_no_nl b : no_nl (json_escape_byte b).
Proof.
  unfold json_escape_byte, no_nl.
  repeat match goal with
         | |- Forall _ (if ?c then _ else _) => destruct c eqn:?
         end;
    repeat (constructor; try discriminate).
  - pose proof (hex_digit_ge (b / 16)). lia.
  - pose proof (hex_digit_ge (b mod 16)). lia.
  - lia.
Qed.

Lemma flat_map_escape_no_nl s : no_nl (flat_map json_escape_byte s).
Proof.
  induction s as [|b s IH]; cbn [flat_map]; [constructor|].
  apply no_nl_app; [apply json_escape_byte_no_nl | exact IH].
Qed.

Lemma json_string_no_nl s : no_nl (json_string s).
Proof.
  unfold json_string. apply no_nl_app; [repeat constructor; discriminate|].
  apply no_nl_app; [apply flat_map_escape_no_nl|repeat constructor; discriminate].
Qed.

Ltac no_nl_lit := eval_str; unfold no_nl; repeat (constructor; try discriminate).

Section ManifestProofs.
  Variable C : crypto.
  Hypothesis Hok : crypto_ok C.

  Lemma b64e_no_nl bs : no_nl (b64e C bs).
  Proof. apply no_nl_plain, (ok_b64_plain C Hok). Qed.

  Lemma manifest_json_no_nl m : no_nl (manifest_json C m).
  Proof.
    unfold manifest_json.
    repeat apply no_nl_app; try apply b64e_no_nl; try solve [no_nl_lit].
    all: try (unfold digit_char; constructor; [lia|constructor]).
    destruct (is_nil (m_k m)); [constructor|].
    repeat apply no_nl_app; try apply flat_map_escape_no_nl; no_nl_lit.
  Qed.

  (* B7 *)
  Lemma manifest_json_nonempty m : manifest_json C m <> [].
  Proof. unfold manifest_json. eval_str. cbn [app]. discriminate. Qed.

  (* ----------------------------------------------------------------------------------- *)
  (* B6: the parser inverts the encoder                                                    *)

  Lemma take_digit_kw kw t :
    take_digit (digit_char (kwalg_id kw) :: t) = Some (kwalg_id kw, t).
  Proof. destruct kw; reflexivity. Qed.

  Lemma take_digit_cph c t :
    take_digit (digit_char (cipher_id c) :: t) = Some (cipher_id c, t).
  Proof. destruct c; reflexivity. Qed.

  Lemma kwalg_of_id_id a : kwalg_of_id (kwalg_id a) = Some a.
  Proof. destruct a; reflexivity. Qed.

  Lemma cipher_of_id_id c : cipher_of_id (cipher_id c) = Some c.
  Proof. destruct c; reflexivity. Qed.

  Lemma take_b64_b64e bs rest :
    bytes_ok bs = true -> take_b64 C (b64e C bs ++ [34%N] ++ rest) = Some (bs, rest).
  Proof.
    intros Hbs. unfold take_b64.
    rewrite (json_unquote_plain _ rest [] (ok_b64_plain C Hok bs)).
    cbn [opt_bind rev app]. rewrite (ok_b64_roundtrip C Hok bs Hbs). reflexivity.
  Qed.

  (* the optional "k" member; when it is absent the text goes on with "kw": whose third
     character 'w' differs from the '"' of "k":" *)
  Lemma parse_k_member k rest :
    match strip_prefix (str """k"":""")
            ((if is_nil k then [] else str """k"":" ++ json_string k ++ str ",")
             ++ str """kw"":" ++ rest) with
    | Some r => opt_bind (json_unquote r []) (fun '(k, r') =>
                opt_bind (strip_prefix (str ",") r') (fun r'' => Some (k, r'')))
    | None => Some ([], (if is_nil k then [] else str """k"":" ++ json_string k ++ str ",")
                        ++ str """kw"":" ++ rest)
    end = Some (k, str """kw"":" ++ rest).
  Proof.
    destruct k as [|k0 kt]; cbn [is_nil].
    - eval_str. cbn [app strip_prefix]. reflexivity.
    - unfold json_string.
      change (str """k"":""") with (str """k"":" ++ [34%N]).
      rewrite <- !app_assoc.
      change (str """k"":" ++ [34%N] ++ flat_map json_escape_byte (k0 :: kt) ++ [34%N]
                ++ str "," ++ str """kw"":" ++ rest)
        with ((str """k"":" ++ [34%N]) ++ flat_map json_escape_byte (k0 :: kt) ++ [34%N]
                ++ str "," ++ str """kw"":" ++ rest).
      rewrite strip_prefix_app.
      rewrite (json_unquote_escape (k0 :: kt) (str "," ++ str """kw"":" ++ rest) []).
      cbn [opt_bind rev app]. rewrite strip_prefix_app. reflexivity.
  Qed.

  Lemma parse_manifest_json m :
    manifest_bytes_ok m -> parse_manifest C (manifest_json C m) = Some m.
  Proof.
    intros [Hwfk Hnp]. unfold parse_manifest, manifest_json.
    rewrite strip_prefix_app. cbn [opt_bind].
    rewrite parse_k_member. cbn [opt_bind].
    rewrite strip_prefix_app. cbn [opt_bind app].
    rewrite take_digit_kw. cbn [opt_bind].
    rewrite kwalg_of_id_id. cbn [opt_bind].
    rewrite strip_prefix_app. cbn [opt_bind].
    change (str """,""cph"":") with ([34%N] ++ str ",""cph"":").
    rewrite <- (app_assoc [34%N] (str ",""cph"":")).
    rewrite (take_b64_b64e _ _ Hwfk). cbn [opt_bind].
    rewrite strip_prefix_app. cbn [opt_bind app].
    rewrite take_digit_cph. cbn [opt_bind].
    rewrite cipher_of_id_id. cbn [opt_bind].
    rewrite strip_prefix_app. cbn [opt_bind].
    change (str """}") with ([34%N] ++ str "}").
    rewrite (take_b64_b64e _ _ Hnp). cbn [opt_bind].
    replace (str "}") with (str "}" ++ []) by apply app_nil_r.
    rewrite strip_prefix_app. cbn [opt_bind is_nil].
    destruct m; reflexivity.
  Qed.
End ManifestProofs.

(* non-vacuity of [parse_manifest_json] / [manifest_bytes_ok]: both shapes of the manifest
   (with and without "k") on an identity "base64" *)
Example parse_manifest_json_ex :
  let C := mkCrypto (fun _ _ _ p => p) (fun _ _ _ c => Some c) (fun _ _ _ _ => [])
                    (fun _ _ => [65%N]) (fun b => map (fun x => (65 + x mod 2)%N) b)
                    (fun _ => None) in
  let m1 := mkManifest [] A256KW [1; 2]%N ChaChaPoly [0; 1; 0; 1; 0; 1; 1]%N in
  let m2 := mkManifest [34; 10; 107]%N RSAOAEP256 [1]%N AESGCM [0]%N in
  manifest_bytes_ok m1 /\ manifest_bytes_ok m2 /\
  manifest_json C m1 = str "{""kw"":1,""wfk"":""BA"",""cph"":2,""np"":""ABABABB""}" /\
  manifest_json C m2 = str "{""k"":""\""\nk"",""kw"":5,""wfk"":""B"",""cph"":1,""np"":""A""}".
Proof. vm_compute. repeat split. Qed.

(* ------------------------------------------------------------------------------------- *)
(* C8/C9: option tables                                                                    *)

Lemma alias_table :
  kwalg_of_name (str "A256KW") = Some A256KW /\
  kwalg_of_name (str "A128CBC-NOPAD") = Some A128CBC /\
  kwalg_of_name (str "A192CBC-NOPAD") = Some A192CBC /\
  kwalg_of_name (str "A256CBC-NOPAD") = Some A256CBC /\
  kwalg_of_name (str "RSA-OAEP-256") = Some RSAOAEP256 /\
  kwalg_of_name (str "AES") = Some A256KW /\
  kwalg_of_name (str "RSA") = Some RSAOAEP256 /\
  (forall a, kwalg_of_name (kwalg_name a) = Some a) /\
  (forall a, kwalg_of_id (kwalg_id a) = Some a) /\
  (forall c, cipher_of_id (cipher_id c) = Some c) /\
  (forall c, cipher_of_name (cipher_name c) = Some c).
Proof.
  repeat split; try reflexivity; intros x; destruct x; reflexivity.
Qed.

Lemma alias_wrap_args o np wfk m :
  encrypt_manifest o np wfk = Some m ->
  encrypt_wrap_args o = Some (kwalg_name (m_kw m), eo_keyname o) /\
  kwalg_of_name (eo_alg o) = Some (m_kw m).
Proof.
  unfold encrypt_wrap_args, encrypt_manifest. intros Hm.
  destruct (is_nil (eo_keyname o)); [discriminate|].
  destruct (is_nil (eo_alg o)); [discriminate|].
  destruct (kwalg_of_name (eo_alg o)) as [kw|]; [|discriminate].
  destruct (match eo_cipher o with Some c => cipher_of_name c | None => Some AESGCM end)
    as [cph|]; [|discriminate].
  injection Hm as <-. cbn [m_kw]. split; reflexivity.
Qed.

Lemma keyname_table o np wfk m :
  encrypt_manifest o np wfk = Some m ->
  m_k m = (if eo_omit o then []
           else if is_nil (eo_deckeyname o) then eo_keyname o else eo_deckeyname o) /\
  eo_keyname o <> [] /\ m_wfk m = wfk /\ m_np m = np.
Proof.
  unfold encrypt_manifest. intros Hm.
  destruct (eo_keyname o) as [|k0 kt] eqn:Hk; cbn [is_nil] in Hm; [discriminate|].
  destruct (is_nil (eo_alg o)); [discriminate|].
  destruct (kwalg_of_name (eo_alg o)) as [kw|]; [|discriminate].
  destruct (match eo_cipher o with Some c => cipher_of_name c | None => Some AESGCM end)
    as [cph|]; [|discriminate].
  injection Hm as <-. cbn [m_k m_wfk m_np]. repeat split. discriminate.
Qed.

Lemma encrypt_manifest_spec_h o np wfk :
  encrypt_manifest o np wfk = spec_manifest o np wfk.
Proof.
  unfold encrypt_manifest, spec_manifest, spec_key_name.
  destruct (eo_keyname o) as [|k0 kt]; cbn [is_nil]; [reflexivity|].
  destruct (eo_alg o) as [|a0 at_] eqn:Ha; cbn [is_nil]; [reflexivity|].
  destruct (kwalg_of_name (a0 :: at_)) as [kw|]; [|reflexivity].
  destruct (match eo_cipher o with Some c => cipher_of_name c | None => Some AESGCM end)
    as [cph|]; [|reflexivity].
  destruct (eo_omit o); [reflexivity|].
  destruct (eo_deckeyname o); reflexivity.
Qed.

(* non-vacuity: an alias, a decryption key name, an explicit cipher *)
Example keyname_table_ex :
  let o := mkEncOpts (str "mykey") (str "RSA") (str "other") false (Some (str "CHACHA20-POLY1305")) in
  encrypt_manifest o [7%N] [9%N] = Some (mkManifest (str "other") RSAOAEP256 [9%N] ChaChaPoly [7%N])
  /\ encrypt_wrap_args o = Some (str "RSA-OAEP-256", str "mykey").
Proof. vm_compute. split; reflexivity. Qed.
