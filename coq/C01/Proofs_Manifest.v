(* C01/C02 — proofs about the manifest codec (Manifest.v) and the option tables of Encrypt
   (Model.v [encrypt_manifest] against Spec.v [spec_manifest]):
     json_unquote_escape(_min,_u), json_unquote_string_sty, manifest_json_no_nl,
     manifest_json_nonempty, parse_manifest_text(_gen) (the parser inverts every
     README-conformant serialisation [manifest_text]: any member order, whitespace, escape
     style), manifest_text_no_nl, manifest_text_nonempty, manifest_text_go,
     parse_manifest_json (= the instance for Go's own text),
     alias_table, alias_wrap_args, keyname_table, encrypt_manifest_spec_h.
   Stdlib style.  No axioms. *)
From Kit Require Import C01.Sem Lib.ReaderFacts.
From Coq Require Import String ZifyBool ZifyNat ZifyN.
Local Open Scope string_scope.
Local Open Scope list_scope.
Ltac Zify.zify_post_hook ::= Z.div_mod_to_equations.

(* evaluate every [str "literal"] of the goal to its list of bytes *)
Ltac eval_str :=
  repeat match goal with
         | |- context [str ?s] =>
             let x := eval vm_compute in (str s) in change (str s) with x
         end.

(* ------------------------------------------------------------------------------------- *)
(* generic list facts                                                                      *)

Lemma no_nl_app a b : no_nl a -> no_nl b -> no_nl (a ++ b).
Proof. intros Ha Hb. apply Forall_app; split; assumption. Qed.

Lemma no_nl_plain l : Forall plain_char l -> no_nl l.
Proof.
  intros Hl. unfold no_nl. eapply Forall_impl; [|exact Hl].
  intros c (_ & _ & Hc) ->. cbv in Hc. apply Hc. reflexivity.
Qed.

Lemma strip_prefix_app p r : strip_prefix p (p ++ r) = Some r.
Proof.
  induction p as [|x p IH]; cbn [strip_prefix app]; [reflexivity|].
  rewrite N.eqb_refl. exact IH.
Qed.

(* ------------------------------------------------------------------------------------- *)
(* B4: the JSON string decoder inverts the encoder (for every byte value, no hypothesis)   *)

Lemma hex_val_digit n : (n < 16)%N -> hex_val (hex_digit n) = Some n.
Proof.
  intros Hn. unfold hex_digit, hex_val.
  destruct (n <? 10)%N eqn:E.
  - apply N.ltb_lt in E.
    replace ((48 <=? 48 + n) && (48 + n <=? 57))%N with true by lia. f_equal. lia.
  - apply N.ltb_ge in E.
    replace ((48 <=? 87 + n) && (87 + n <=? 57))%N with false by lia.
    replace ((97 <=? 87 + n) && (87 + n <=? 102))%N with true by lia. f_equal. lia.
Qed.

Lemma hex_digit_ge n : (48 <= hex_digit n)%N.
Proof. unfold hex_digit. destruct (n <? 10)%N; lia. Qed.

Lemma json_unquote_u h1 h2 c d t acc :
  hex_val h1 = Some c -> hex_val h2 = Some d -> (c < 8)%N ->
  json_unquote (92 :: 117 :: 48 :: 48 :: h1 :: h2 :: t)%N acc
  = json_unquote t ((c * 16 + d)%N :: acc).
Proof.
  intros H1 H2 Hc.
  change (json_unquote (92 :: 117 :: 48 :: 48 :: h1 :: h2 :: t)%N acc)
    with (match hex_val h1, hex_val h2 with
          | Some c, Some d =>
              if (0 =? 0)%N && (0 =? 0)%N && (c <? 8)%N
              then json_unquote t ((c * 16 + d)%N :: acc) else None
          | _, _ => None
          end).
  rewrite H1, H2. apply N.ltb_lt in Hc. rewrite Hc. reflexivity.
Qed.

Lemma json_unquote_escape_byte b t acc :
  json_unquote (json_escape_byte b ++ t) acc = json_unquote t (b :: acc).
Proof.
  unfold json_escape_byte.
  destruct (b =? 34)%N eqn:E34. { apply N.eqb_eq in E34; subst b. reflexivity. }
  destruct (b =? 92)%N eqn:E92. { apply N.eqb_eq in E92; subst b. reflexivity. }
  destruct (b =? 8)%N eqn:E8. { apply N.eqb_eq in E8; subst b. reflexivity. }
  destruct (b =? 12)%N eqn:E12. { apply N.eqb_eq in E12; subst b. reflexivity. }
  destruct (b =? 10)%N eqn:E10. { apply N.eqb_eq in E10; subst b. reflexivity. }
  destruct (b =? 13)%N eqn:E13. { apply N.eqb_eq in E13; subst b. reflexivity. }
  destruct (b =? 9)%N eqn:E9. { apply N.eqb_eq in E9; subst b. reflexivity. }
  destruct ((b <? 32) || (b =? 60) || (b =? 62) || (b =? 38))%N eqn:Eu.
  - assert (Hb : (b < 64)%N) by lia.
    cbn [app].
    rewrite (json_unquote_u _ _ (b / 16)%N (b mod 16)%N);
      [ | apply hex_val_digit; lia | apply hex_val_digit; lia | lia ].
    f_equal. f_equal. lia.
  - cbn [app json_unquote]. rewrite E34, E92.
    replace (b <? 32)%N with false by lia. reflexivity.
Qed.

Lemma json_unquote_escape s : forall rest acc,
  json_unquote (flat_map json_escape_byte s ++ [34%N] ++ rest) acc = Some (rev acc ++ s, rest).
Proof.
  induction s as [|b s IH]; intros rest acc.
  - cbn [flat_map app json_unquote]. rewrite app_nil_r, frev_rev. reflexivity.
  - cbn [flat_map]. rewrite <- app_assoc, json_unquote_escape_byte, IH.
    cbn [rev]. rewrite <- app_assoc. reflexivity.
Qed.

(* the alternative escapes are really used: a string with a quote, a control character, an
   HTML character, a byte >= 0x80 and a backslash *)
Example json_unquote_escape_ex :
  json_unquote (flat_map json_escape_byte [34; 1; 60; 200; 92; 10; 65]%N ++ [34%N] ++ [7%N]) []
  = Some ([34; 1; 60; 200; 92; 10; 65]%N, [7%N]).
Proof. vm_compute. reflexivity. Qed.

(* the two other escape styles of [json_string_sty]: minimal escapes with "\/" (style 1) and
   "\u00XX" for every byte below 0x80 (style 2).  No hypothesis on the bytes. *)
Lemma json_unquote_escape_min_byte b t acc :
  json_unquote (json_escape_min b ++ t) acc = json_unquote t (b :: acc).
Proof.
  unfold json_escape_min.
  destruct (b =? 34)%N eqn:E34. { apply N.eqb_eq in E34; subst b. reflexivity. }
  destruct (b =? 92)%N eqn:E92. { apply N.eqb_eq in E92; subst b. reflexivity. }
  destruct (b =? 47)%N eqn:E47. { apply N.eqb_eq in E47; subst b. reflexivity. }
  destruct (b <? 32)%N eqn:Eu.
  - assert (Hb : (b < 32)%N) by lia.
    cbn [app].
    rewrite (json_unquote_u _ _ (b / 16)%N (b mod 16)%N);
      [ | apply hex_val_digit; lia | apply hex_val_digit; lia | lia ].
    f_equal. f_equal. lia.
  - cbn [app json_unquote]. rewrite E34, E92, Eu. reflexivity.
Qed.

Lemma json_unquote_escape_u_byte b t acc :
  json_unquote (json_escape_u b ++ t) acc = json_unquote t (b :: acc).
Proof.
  unfold json_escape_u.
  destruct (b <? 128)%N eqn:Eu.
  - assert (Hb : (b < 128)%N) by lia.
    cbn [app].
    rewrite (json_unquote_u _ _ (b / 16)%N (b mod 16)%N);
      [ | apply hex_val_digit; lia | apply hex_val_digit; lia | lia ].
    f_equal. f_equal. lia.
  - cbn [app json_unquote].
    replace (b =? 34)%N with false by lia.
    replace (b <? 32)%N with false by lia.
    replace (b =? 92)%N with false by lia. reflexivity.
Qed.

Lemma json_unquote_escape_min s : forall rest acc,
  json_unquote (flat_map json_escape_min s ++ [34%N] ++ rest) acc = Some (rev acc ++ s, rest).
Proof.
  induction s as [|b s IH]; intros rest acc.
  - cbn [flat_map app json_unquote]. rewrite app_nil_r, frev_rev. reflexivity.
  - cbn [flat_map]. rewrite <- app_assoc, json_unquote_escape_min_byte, IH.
    cbn [rev]. rewrite <- app_assoc. reflexivity.
Qed.

Lemma json_unquote_escape_u s : forall rest acc,
  json_unquote (flat_map json_escape_u s ++ [34%N] ++ rest) acc = Some (rev acc ++ s, rest).
Proof.
  induction s as [|b s IH]; intros rest acc.
  - cbn [flat_map app json_unquote]. rewrite app_nil_r, frev_rev. reflexivity.
  - cbn [flat_map]. rewrite <- app_assoc, json_unquote_escape_u_byte, IH.
    cbn [rev]. rewrite <- app_assoc. reflexivity.
Qed.

(* the escape function selected by [ms_esc] *)
Definition esc_fun (esc : nat) : N -> list N :=
  match esc with
  | O => json_escape_byte
  | Datatypes.S O => json_escape_min
  | _ => json_escape_u
  end.

Lemma json_string_sty_eq esc s :
  json_string_sty esc s = [34%N] ++ flat_map (esc_fun esc) s ++ [34%N].
Proof. reflexivity. Qed.

Lemma json_unquote_esc_fun esc s rest acc :
  json_unquote (flat_map (esc_fun esc) s ++ [34%N] ++ rest) acc = Some (rev acc ++ s, rest).
Proof.
  destruct esc as [|[|esc]]; cbn [esc_fun].
  - apply json_unquote_escape.
  - apply json_unquote_escape_min.
  - apply json_unquote_escape_u.
Qed.

(* the body of a string written in any of the three styles decodes to the string *)
Lemma json_unquote_string_sty esc s rest :
  json_unquote (tl (json_string_sty esc s) ++ rest) [] = Some (s, rest).
Proof.
  rewrite json_string_sty_eq. cbn [app tl]. rewrite <- app_assoc.
  apply (json_unquote_esc_fun esc s rest []).
Qed.

Example json_unquote_string_sty_ex :
  let s := [34; 1; 60; 47; 200; 92; 10; 65; 127; 128]%N in
  json_string_sty 1 s = str """\""\u0001<\/" ++ [200%N] ++ str "\\\u000aA" ++ [127; 128]%N ++ str """"
  /\ json_string_sty 2 [47; 200]%N = str """\u002f" ++ [200%N] ++ str """"
  /\ json_unquote (tl (json_string_sty 1 s) ++ [7%N]) [] = Some (s, [7%N])
  /\ json_unquote (tl (json_string_sty 2 s) ++ [7%N]) [] = Some (s, [7%N]).
Proof. vm_compute. repeat split. Qed.

(* a string of plain characters passes through the decoder unchanged *)
Lemma json_unquote_plain s : forall rest acc,
  Forall plain_char s ->
  json_unquote (s ++ [34%N] ++ rest) acc = Some (rev acc ++ s, rest).
Proof.
  induction s as [|c s IH]; intros rest acc Hs.
  - cbn [app json_unquote]. rewrite app_nil_r, frev_rev. reflexivity.
  - inversion Hs as [|c' s' Hc Hs']; subst. destruct Hc as (Hq & Hb & Hge).
    rewrite <- app_comm_cons. cbn [json_unquote].
    replace (c =? 34)%N with false by lia.
    replace (c <? 32)%N with false by lia.
    replace (c =? 92)%N with false by lia.
    rewrite (IH rest (c :: acc) Hs'). cbn [rev]. rewrite <- app_assoc. reflexivity.
Qed.

Lemma json_unquote_plain_cons s rest acc :
  Forall plain_char s -> json_unquote (s ++ 34%N :: rest) acc = Some (rev acc ++ s, rest).
Proof. exact (json_unquote_plain s rest acc). Qed.

(* ------------------------------------------------------------------------------------- *)
(* B5: no line feed in an encoded manifest                                                 *)

Lemma json_escape_byte_no_nl b : no_nl (json_escape_byte b).
Proof.
  unfold json_escape_byte, no_nl.
  repeat match goal with
         | |- Forall _ (if ?c then _ else _) => destruct c eqn:?
         end;
    repeat (constructor; try discriminate).
  - pose proof (hex_digit_ge (b / 16)). lia.
  - pose proof (hex_digit_ge (b mod 16)). lia.
  - lia.
Qed.

Lemma flat_map_escape_no_nl s : no_nl (flat_map json_escape_byte s).
Proof.
  induction s as [|b s IH]; cbn [flat_map]; [constructor|].
  apply no_nl_app; [apply json_escape_byte_no_nl | exact IH].
Qed.

Lemma json_string_no_nl s : no_nl (json_string s).
Proof.
  unfold json_string. apply no_nl_app; [repeat constructor; discriminate|].
  apply no_nl_app; [apply flat_map_escape_no_nl|repeat constructor; discriminate].
Qed.

Ltac no_nl_lit := eval_str; unfold no_nl; repeat (constructor; try discriminate).

(* the other two escape styles and insignificant whitespace have no line feed either *)
Lemma json_escape_min_no_nl b : no_nl (json_escape_min b).
Proof.
  unfold json_escape_min, no_nl.
  repeat match goal with
         | |- Forall _ (if ?c then _ else _) => destruct c eqn:?
         end;
    repeat (constructor; try discriminate).
  - pose proof (hex_digit_ge (b / 16)). lia.
  - pose proof (hex_digit_ge (b mod 16)). lia.
  - lia.
Qed.

Lemma json_escape_u_no_nl b : no_nl (json_escape_u b).
Proof.
  unfold json_escape_u, no_nl.
  repeat match goal with
         | |- Forall _ (if ?c then _ else _) => destruct c eqn:?
         end;
    repeat (constructor; try discriminate).
  - pose proof (hex_digit_ge (b / 16)). lia.
  - pose proof (hex_digit_ge (b mod 16)). lia.
  - lia.
Qed.

Lemma json_string_sty_no_nl esc s : no_nl (json_string_sty esc s).
Proof.
  rewrite json_string_sty_eq.
  apply no_nl_app; [repeat constructor; discriminate|].
  apply no_nl_app; [|repeat constructor; discriminate].
  induction s as [|b s IH]; cbn [flat_map]; [constructor|].
  apply no_nl_app; [|exact IH].
  destruct esc as [|[|esc]]; cbn [esc_fun].
  - apply json_escape_byte_no_nl.
  - apply json_escape_min_no_nl.
  - apply json_escape_u_no_nl.
Qed.

Definition all_ws (w : list N) : Prop := Forall (fun b => is_ws b = true) w.

Lemma all_ws_no_nl w : all_ws w -> no_nl w.
Proof.
  intros Hw. unfold no_nl. eapply Forall_impl; [|exact Hw].
  intros b Hb ->. discriminate Hb.
Qed.

Lemma skip_ws_app w x : all_ws w -> skip_ws (w ++ x) = skip_ws x.
Proof.
  intros Hw. induction Hw as [|b w Hb Hw IH]; [reflexivity|].
  cbn [app skip_ws]. rewrite Hb. exact IH.
Qed.

Lemma skip_ws_cons b r : is_ws b = false -> skip_ws (b :: r) = b :: r.
Proof. intros Hb. cbn [skip_ws]. rewrite Hb. reflexivity. Qed.

Lemma skip_ws_all w : all_ws w -> skip_ws w = [].
Proof. intros Hw. rewrite <- (app_nil_r w). rewrite skip_ws_app by exact Hw. reflexivity. Qed.

(* evaluate every comparison of two closed byte strings *)
Ltac eval_eqb :=
  repeat match goal with
         | |- context [eqb_listN ?a ?b] =>
             let v := eval vm_compute in (eqb_listN a b) in change (eqb_listN a b) with v
         end.

(* the member names, and what one member does to the parser's accumulator *)
Definition fname (f : mfield) : list N :=
  match f with
  | FK => str "k" | FKw => str "kw" | FWfk => str "wfk" | FCph => str "cph" | FNp => str "np"
  end.

Definition pm_upd (m : manifest) (st : pman) (f : mfield) : pman :=
  match f with
  | FK => mkPman (m_k m) (pm_kw st) (pm_wfk st) (pm_cph st) (pm_np st)
  | FKw => mkPman (pm_k st) (Some (m_kw m)) (pm_wfk st) (pm_cph st) (pm_np st)
  | FWfk => mkPman (pm_k st) (pm_kw st) (Some (m_wfk m)) (pm_cph st) (pm_np st)
  | FCph => mkPman (pm_k st) (pm_kw st) (pm_wfk st) (Some (m_cph m)) (pm_np st)
  | FNp => mkPman (pm_k st) (pm_kw st) (pm_wfk st) (pm_cph st) (Some (m_np m))
  end.

Lemma fname_plain f : Forall plain_char (fname f).
Proof. destruct f; unfold fname, plain_char; eval_str; repeat (constructor; try lia). Qed.

(* a property of the accumulator that every member keeps and member [f0] establishes holds
   after any member list that contains [f0] *)
Lemma fold_upd_stable m (P : pman -> Prop) :
  (forall st f, P st -> P (pm_upd m st f)) ->
  forall fs st, P st -> P (fold_left (pm_upd m) fs st).
Proof.
  intros Hstab fs. induction fs as [|f fs IH]; intros st Hst; cbn [fold_left]; [exact Hst|].
  apply IH, Hstab, Hst.
Qed.

Lemma fold_upd_inv m (P : pman -> Prop) f0 :
  (forall st f, P st -> P (pm_upd m st f)) ->
  (forall st, P (pm_upd m st f0)) ->
  forall fs st, In f0 fs -> P (fold_left (pm_upd m) fs st).
Proof.
  intros Hstab Hest fs. induction fs as [|f fs IH]; intros st Hin; [destruct Hin|].
  cbn [fold_left]. destruct Hin as [->|Hin].
  - apply fold_upd_stable; [exact Hstab|apply Hest].
  - apply IH, Hin.
Qed.

Section ManifestProofs.
  Variable C : crypto.
  Hypothesis Hok : crypto_ok C.

  Lemma b64e_no_nl bs : no_nl (b64e C bs).
  Proof. apply no_nl_plain, (ok_b64_plain C Hok). Qed.

  Lemma manifest_json_no_nl m : no_nl (manifest_json C m).
  Proof.
    unfold manifest_json.
    repeat apply no_nl_app; try apply b64e_no_nl; try solve [no_nl_lit].
    all: try (unfold digit_char; constructor; [lia|constructor]).
    destruct (is_nil (m_k m)); [constructor|].
    repeat apply no_nl_app; try apply flat_map_escape_no_nl; no_nl_lit.
  Qed.

  (* B7 *)
  Lemma manifest_json_nonempty m : manifest_json C m <> [].
  Proof. unfold manifest_json. eval_str. cbn [app]. discriminate. Qed.

  (* ----------------------------------------------------------------------------------- *)
  (* B6: the parser inverts the encoder                                                    *)

  Lemma take_digit_kw kw t :
    take_digit (digit_char (kwalg_id kw) :: t) = Some (kwalg_id kw, t).
  Proof. destruct kw; reflexivity. Qed.

  Lemma take_digit_cph c t :
    take_digit (digit_char (cipher_id c) :: t) = Some (cipher_id c, t).
  Proof. destruct c; reflexivity. Qed.

  Lemma kwalg_of_id_id a : kwalg_of_id (kwalg_id a) = Some a.
  Proof. destruct a; reflexivity. Qed.

  Lemma cipher_of_id_id c : cipher_of_id (cipher_id c) = Some c.
  Proof. destruct c; reflexivity. Qed.

  Lemma take_b64_b64e bs rest :
    bytes_ok bs = true -> take_b64 C (b64e C bs ++ [34%N] ++ rest) = Some (bs, rest).
  Proof.
    intros Hbs. unfold take_b64.
    rewrite (json_unquote_plain _ rest [] (ok_b64_plain C Hok bs)).
    cbn [opt_bind rev app]. rewrite (ok_b64_roundtrip C Hok bs Hbs). reflexivity.
  Qed.

  (* the text of the value of member [f] *)
  Definition fvalue (sty : mstyle) (m : manifest) (f : mfield) : list N :=
    match f with
    | FK => json_string_sty (ms_esc sty) (m_k m)
    | FKw => [digit_char (kwalg_id (m_kw m))]
    | FWfk => [34%N] ++ b64e C (m_wfk m) ++ [34%N]
    | FCph => [digit_char (cipher_id (m_cph m))]
    | FNp => [34%N] ++ b64e C (m_np m) ++ [34%N]
    end.

  Lemma render_member_eq sty m f :
    render_member C sty m f
    = [34%N] ++ fname f ++ [34%N] ++ ms_ws sty ++ [58%N] ++ ms_ws sty ++ fvalue sty m f.
  Proof. destruct f; reflexivity. Qed.

  Lemma render_members_cons2 sty m f g t :
    render_members C sty m (f :: g :: t)
    = render_member C sty m f ++ ms_ws sty ++ [44%N] ++ ms_ws sty
      ++ render_members C sty m (g :: t).
  Proof. reflexivity. Qed.

  Lemma render_member_length sty m f : 1 <= List.length (render_member C sty m f).
  Proof. rewrite render_member_eq. cbn [app List.length]. lia. Qed.

  Lemma render_members_length sty m fs :
    List.length fs <= List.length (render_members C sty m fs).
  Proof.
    induction fs as [|f t IH]; [cbn [List.length]; lia|].
    destruct t as [|g t].
    - cbn [render_members List.length]. apply render_member_length.
    - rewrite render_members_cons2. rewrite !app_length.
      pose proof (render_member_length sty m f) as Hf.
      change (List.length (f :: g :: t)) with (S (List.length (g :: t))). lia.
  Qed.

  Section OneManifest.
    Variable sty : mstyle.
    Variable m : manifest.
    Hypothesis Hw : all_ws (ms_ws sty).
    Hypothesis Hm : manifest_bytes_ok m.

    (* a value never starts with whitespace *)
    Lemma skip_ws_fvalue f rest : skip_ws (fvalue sty m f ++ rest) = fvalue sty m f ++ rest.
    Proof.
      destruct f; unfold fvalue; try rewrite json_string_sty_eq; cbn [app].
      - apply skip_ws_cons. reflexivity.
      - apply skip_ws_cons. destruct (m_kw m); reflexivity.
      - apply skip_ws_cons. reflexivity.
      - apply skip_ws_cons. destruct (m_cph m); reflexivity.
      - apply skip_ws_cons. reflexivity.
    Qed.

    (* the value of member [f] sets exactly field [f] of the accumulator *)
    Lemma parse_value_field f st rest :
      parse_value C (fname f) st (fvalue sty m f ++ rest) = Some (pm_upd m st f, rest).
    Proof.
      destruct Hm as [Hwfk Hnp].
      destruct f; unfold parse_value, fname, fvalue, pm_upd; eval_eqb; cbv iota.
      - rewrite json_string_sty_eq. cbn [app]. rewrite N.eqb_refl. rewrite <- app_assoc.
        rewrite json_unquote_esc_fun. reflexivity.
      - cbn [app]. rewrite take_digit_kw. cbn [opt_bind]. rewrite kwalg_of_id_id. reflexivity.
      - cbn [app]. rewrite N.eqb_refl. rewrite <- app_assoc.
        rewrite (take_b64_b64e _ _ Hwfk). reflexivity.
      - cbn [app]. rewrite take_digit_cph. cbn [opt_bind]. rewrite cipher_of_id_id. reflexivity.
      - cbn [app]. rewrite N.eqb_refl. rewrite <- app_assoc.
        rewrite (take_b64_b64e _ _ Hnp). reflexivity.
    Qed.

    (* one turn of the member loop *)
    Lemma parse_members_step fuel st f d r4 :
      is_ws d = false ->
      parse_members C (Datatypes.S fuel) st
        (ms_ws sty ++ render_member C sty m f ++ ms_ws sty ++ d :: r4)
      = if (d =? 44)%N then parse_members C fuel (pm_upd m st f) r4
        else if (d =? 125)%N then Some (pm_upd m st f, r4) else None.
    Proof.
      intros Hd. rewrite render_member_eq. cbn [parse_members].
      rewrite (skip_ws_app _ _ Hw). rewrite <- !app_assoc. cbn [app].
      rewrite (skip_ws_cons 34%N) by reflexivity. rewrite N.eqb_refl.
      rewrite (json_unquote_plain_cons (fname f) _ [] (fname_plain f)).
      cbn [opt_bind rev app].
      rewrite (skip_ws_app _ _ Hw). rewrite (skip_ws_cons 58%N) by reflexivity.
      rewrite N.eqb_refl.
      rewrite (skip_ws_app _ _ Hw). rewrite skip_ws_fvalue.
      rewrite parse_value_field. cbn [opt_bind].
      rewrite (skip_ws_app _ _ Hw). rewrite (skip_ws_cons d) by exact Hd.
      reflexivity.
    Qed.

    (* the member loop on a rendered member list *)
    Lemma parse_members_render fs : forall fuel st tail,
      fs <> [] -> List.length fs <= fuel ->
      parse_members C fuel st
        (ms_ws sty ++ render_members C sty m fs ++ ms_ws sty ++ 125%N :: tail)
      = Some (fold_left (pm_upd m) fs st, tail).
    Proof.
      induction fs as [|f t IH]; intros fuel st tail Hne Hfuel; [congruence|].
      destruct fuel as [|fuel]; [cbn [List.length] in Hfuel; lia|].
      destruct t as [|g t].
      - cbn [render_members fold_left].
        rewrite parse_members_step by reflexivity. reflexivity.
      - rewrite render_members_cons2. rewrite <- !app_assoc. cbn [app].
        rewrite parse_members_step by reflexivity.
        change (44 =? 44)%N with true. cbv iota.
        change (fold_left (pm_upd m) (f :: g :: t) st)
          with (fold_left (pm_upd m) (g :: t) (pm_upd m st f)).
        apply IH; [discriminate|].
        cbn [List.length] in Hfuel |- *. lia.
    Qed.

    (* the accumulator after all the members *)
    Lemma fold_upd_kw fs st :
      In FKw fs -> pm_kw (fold_left (pm_upd m) fs st) = Some (m_kw m).
    Proof.
      apply (fold_upd_inv m (fun st => pm_kw st = Some (m_kw m)) FKw).
      - intros st' f Hst. destruct f; cbn [pm_upd pm_kw]; try exact Hst; reflexivity.
      - intros st'. reflexivity.
    Qed.

    Lemma fold_upd_wfk fs st :
      In FWfk fs -> pm_wfk (fold_left (pm_upd m) fs st) = Some (m_wfk m).
    Proof.
      apply (fold_upd_inv m (fun st => pm_wfk st = Some (m_wfk m)) FWfk).
      - intros st' f Hst. destruct f; cbn [pm_upd pm_wfk]; try exact Hst; reflexivity.
      - intros st'. reflexivity.
    Qed.

    Lemma fold_upd_cph fs st :
      In FCph fs -> pm_cph (fold_left (pm_upd m) fs st) = Some (m_cph m).
    Proof.
      apply (fold_upd_inv m (fun st => pm_cph st = Some (m_cph m)) FCph).
      - intros st' f Hst. destruct f; cbn [pm_upd pm_cph]; try exact Hst; reflexivity.
      - intros st'. reflexivity.
    Qed.

    Lemma fold_upd_np fs st :
      In FNp fs -> pm_np (fold_left (pm_upd m) fs st) = Some (m_np m).
    Proof.
      apply (fold_upd_inv m (fun st => pm_np st = Some (m_np m)) FNp).
      - intros st' f Hst. destruct f; cbn [pm_upd pm_np]; try exact Hst; reflexivity.
      - intros st'. reflexivity.
    Qed.

    Lemma fold_upd_k fs :
      In FK fs \/ m_k m = [] -> pm_k (fold_left (pm_upd m) fs pman0) = m_k m.
    Proof.
      assert (Hstab : forall st f, pm_k st = m_k m -> pm_k (pm_upd m st f) = m_k m).
      { intros st' f Hst. destruct f; cbn [pm_upd pm_k]; try exact Hst; reflexivity. }
      intros [Hin|Hnil].
      - apply (fold_upd_inv m (fun st => pm_k st = m_k m) FK); [exact Hstab| |exact Hin].
        intros st'. reflexivity.
      - apply (fold_upd_stable m (fun st => pm_k st = m_k m)); [exact Hstab|].
        rewrite Hnil. reflexivity.
    Qed.

    (* B6 in general: any member order (members may even be repeated), insignificant
       whitespace, any of the three escape styles *)
    Theorem parse_manifest_text_gen :
      (forall f, f <> FK -> In f (ms_order sty)) ->
      (In FK (ms_order sty) \/ m_k m = []) ->
      parse_manifest C (manifest_text C sty m) = Some m.
    Proof.
      intros Hall Hk. unfold parse_manifest, manifest_text.
      change (str "{") with [123%N]. change (str "}") with [125%N]. cbn [app].
      rewrite (skip_ws_app _ _ Hw). rewrite (skip_ws_cons 123%N) by reflexivity.
      rewrite N.eqb_refl.
      assert (Hne : ms_order sty <> []).
      { intros Hnil. specialize (Hall FKw). rewrite Hnil in Hall. apply Hall. discriminate. }
      rewrite parse_members_render; [|exact Hne|].
      2:{ rewrite !app_length. pose proof (render_members_length sty m (ms_order sty)). lia. }
      cbn [opt_bind]. rewrite (skip_ws_all _ Hw). cbn [is_nil].
      rewrite fold_upd_kw by (apply Hall; discriminate).
      rewrite fold_upd_wfk by (apply Hall; discriminate).
      rewrite fold_upd_cph by (apply Hall; discriminate).
      rewrite fold_upd_np by (apply Hall; discriminate).
      rewrite (fold_upd_k _ Hk). destruct m; reflexivity.
    Qed.

    (* B5 for the alternative serialisations *)
    Lemma render_member_no_nl f : no_nl (render_member C sty m f).
    Proof.
      pose proof (all_ws_no_nl _ Hw) as Hwn.
      rewrite render_member_eq.
      repeat apply no_nl_app; try exact Hwn; try solve [repeat constructor; discriminate].
      - apply no_nl_plain, fname_plain.
      - destruct f; unfold fvalue.
        + apply json_string_sty_no_nl.
        + unfold digit_char; constructor; [lia|constructor].
        + repeat apply no_nl_app; try apply b64e_no_nl; repeat constructor; discriminate.
        + unfold digit_char; constructor; [lia|constructor].
        + repeat apply no_nl_app; try apply b64e_no_nl; repeat constructor; discriminate.
    Qed.

    Lemma render_members_no_nl fs : no_nl (render_members C sty m fs).
    Proof.
      pose proof (all_ws_no_nl _ Hw) as Hwn.
      induction fs as [|f t IH]; [constructor|].
      destruct t as [|g t]; [apply render_member_no_nl|].
      rewrite render_members_cons2.
      repeat apply no_nl_app; try exact Hwn; try exact IH; try apply render_member_no_nl.
      repeat constructor; discriminate.
    Qed.

    Lemma manifest_text_no_nl_h : no_nl (manifest_text C sty m).
    Proof.
      pose proof (all_ws_no_nl _ Hw) as Hwn.
      unfold manifest_text.
      repeat apply no_nl_app; try exact Hwn; try apply render_members_no_nl;
        no_nl_lit.
    Qed.
  End OneManifest.

  (* the statements with the hypotheses in the order they are used downstream *)
  Theorem parse_manifest_text sty m :
    manifest_bytes_ok m ->
    Forall (fun b => is_ws b = true) (ms_ws sty) ->
    NoDup (ms_order sty) ->
    (forall f, f <> FK -> In f (ms_order sty)) ->
    (In FK (ms_order sty) \/ m_k m = []) ->
    parse_manifest C (manifest_text C sty m) = Some m.
  Proof.
    intros Hm Hw _ Hall Hk. exact (parse_manifest_text_gen sty m Hw Hm Hall Hk).
  Qed.

  Lemma manifest_text_no_nl sty m :
    Forall (fun b => is_ws b = true) (ms_ws sty) -> no_nl (manifest_text C sty m).
  Proof. intros Hw. exact (manifest_text_no_nl_h sty m Hw). Qed.

  Lemma manifest_text_nonempty sty m : manifest_text C sty m <> [].
  Proof.
    unfold manifest_text. change (str "{") with [123%N].
    intros H. apply app_eq_nil in H as [_ H]. discriminate H.
  Qed.

  (* Go's own text is one member of the family *)
  Lemma manifest_text_go m :
    manifest_text C (mkMstyle (go_order (is_nil (m_k m))) [] 0) m = manifest_json C m.
  Proof.
    unfold manifest_text, manifest_json, go_order.
    destruct (is_nil (m_k m)); cbn [ms_ws ms_order render_members render_member ms_esc];
      unfold json_string_sty, json_string; eval_str; cbn [app];
      repeat (rewrite <- !app_assoc; cbn [app]); reflexivity.
  Qed.

  Lemma parse_manifest_json m :
    manifest_bytes_ok m -> parse_manifest C (manifest_json C m) = Some m.
  Proof.
    intros Hm. rewrite <- manifest_text_go. apply parse_manifest_text_gen.
    - constructor.
    - exact Hm.
    - cbn [ms_order]. intros f Hf.
      destruct (is_nil (m_k m)); destruct f; cbn [go_order In]; try congruence; auto 10.
    - cbn [ms_order]. destruct (m_k m) as [|k0 kt]; cbn [is_nil go_order In]; auto.
  Qed.
End ManifestProofs.

(* non-vacuity of [parse_manifest_json] / [manifest_bytes_ok]: both shapes of the manifest
   (with and without "k") on an identity "base64" *)
Example parse_manifest_json_ex :
  let C := mkCrypto (fun _ _ _ p => p) (fun _ _ _ c => Some c) (fun _ _ _ _ => [])
                    (fun _ _ => [65%N]) (fun b => map (fun x => (65 + x mod 2)%N) b)
                    (fun _ => None) in
  let m1 := mkManifest [] A256KW [1; 2]%N ChaChaPoly [0; 1; 0; 1; 0; 1; 1]%N in
  let m2 := mkManifest [34; 10; 107]%N RSAOAEP256 [1]%N AESGCM [0]%N in
  manifest_bytes_ok m1 /\ manifest_bytes_ok m2 /\
  manifest_json C m1 = str "{""kw"":1,""wfk"":""BA"",""cph"":2,""np"":""ABABABB""}" /\
  manifest_json C m2 = str "{""k"":""\""\nk"",""kw"":5,""wfk"":""B"",""cph"":1,""np"":""A""}".
Proof. vm_compute. repeat split. Qed.

(* non-vacuity of [parse_manifest_text]: its hypotheses on the style hold for a style with
   another member order, whitespace everywhere and the "\/" escapes; the text is not Go's; on
   a toy "base64" that can be inverted on the bytes used here the parser does read it back
   (also with "k" left out, and with a member given twice) *)
Example parse_manifest_text_ex :
  let C := mkCrypto (fun _ _ _ p => p) (fun _ _ _ c => Some c) (fun _ _ _ _ => [])
                    (fun _ _ => [65%N]) (fun b => map (fun x => (65 + x mod 2)%N) b)
                    (fun s => Some (map (fun c => (c - 65)%N) s)) in
  let sty := mkMstyle [FNp; FCph; FK; FWfk; FKw] [32; 9; 13]%N 1 in
  let sty2 := mkMstyle [FWfk; FKw; FNp; FCph] [] 2 in
  let sty3 := mkMstyle [FKw; FK; FWfk; FCph; FNp; FKw] [32%N] 2 in
  let m := mkManifest [97; 47; 34]%N RSAOAEP256 [1; 0]%N ChaChaPoly [0; 1; 0; 1; 0; 1; 1]%N in
  let m2 := mkManifest [] A256KW [1]%N AESGCM [0]%N in
  manifest_bytes_ok m /\ manifest_bytes_ok m2 /\
  Forall (fun b => is_ws b = true) (ms_ws sty) /\
  (forall f, f <> FK -> In f (ms_order sty)) /\ (forall f, f <> FK -> In f (ms_order sty2)) /\
  In FK (ms_order sty) /\ m_k m2 = [] /\
  manifest_text C sty2 m2 = str "{""wfk"":""B"",""kw"":1,""np"":""A"",""cph"":1}" /\
  manifest_text C sty m <> manifest_json C m /\
  parse_manifest C (manifest_text C sty m) = Some m /\
  parse_manifest C (manifest_text C sty2 m2) = Some m2 /\
  parse_manifest C (manifest_text C sty3 m) = Some m.
Proof.
  cbv zeta. repeat split; try (vm_compute; reflexivity); try (vm_compute; discriminate).
  - repeat constructor.
  - intros f Hf. destruct f; cbn [ms_order In]; try congruence; auto 10.
  - intros f Hf. destruct f; cbn [ms_order In]; try congruence; auto 10.
  - cbn [ms_order In]. auto.
Qed.

(* ------------------------------------------------------------------------------------- *)
(* C8/C9: option tables                                                                    *)

Lemma alias_table :
  kwalg_of_name (str "A256KW") = Some A256KW /\
  kwalg_of_name (str "A128CBC-NOPAD") = Some A128CBC /\
  kwalg_of_name (str "A192CBC-NOPAD") = Some A192CBC /\
  kwalg_of_name (str "A256CBC-NOPAD") = Some A256CBC /\
  kwalg_of_name (str "RSA-OAEP-256") = Some RSAOAEP256 /\
  kwalg_of_name (str "AES") = Some A256KW /\
  kwalg_of_name (str "RSA") = Some RSAOAEP256 /\
  (forall a, kwalg_of_name (kwalg_name a) = Some a) /\
  (forall a, kwalg_of_id (kwalg_id a) = Some a) /\
  (forall c, cipher_of_id (cipher_id c) = Some c) /\
  (forall c, cipher_of_name (cipher_name c) = Some c).
Proof.
  repeat split; try reflexivity; intros x; destruct x; reflexivity.
Qed.

Lemma alias_wrap_args o np wfk m :
  encrypt_manifest o np wfk = Some m ->
  encrypt_wrap_args o = Some (kwalg_name (m_kw m), eo_keyname o) /\
  kwalg_of_name (eo_alg o) = Some (m_kw m).
Proof.
  unfold encrypt_wrap_args, encrypt_manifest. intros Hm.
  destruct (is_nil (eo_keyname o)); [discriminate|].
  destruct (is_nil (eo_alg o)); [discriminate|].
  destruct (kwalg_of_name (eo_alg o)) as [kw|]; [|discriminate].
  destruct (match eo_cipher o with Some c => cipher_of_name c | None => Some AESGCM end)
    as [cph|]; [|discriminate].
  injection Hm as <-. cbn [m_kw]. split; reflexivity.
Qed.

Lemma keyname_table o np wfk m :
  encrypt_manifest o np wfk = Some m ->
  m_k m = (if eo_omit o then []
           else if is_nil (eo_deckeyname o) then eo_keyname o else eo_deckeyname o) /\
  eo_keyname o <> [] /\ m_wfk m = wfk /\ m_np m = np.
Proof.
  unfold encrypt_manifest. intros Hm.
  destruct (eo_keyname o) as [|k0 kt] eqn:Hk; cbn [is_nil] in Hm; [discriminate|].
  destruct (is_nil (eo_alg o)); [discriminate|].
  destruct (kwalg_of_name (eo_alg o)) as [kw|]; [|discriminate].
  destruct (match eo_cipher o with Some c => cipher_of_name c | None => Some AESGCM end)
    as [cph|]; [|discriminate].
  injection Hm as <-. cbn [m_k m_wfk m_np]. repeat split. discriminate.
Qed.

Lemma encrypt_manifest_spec_h o np wfk :
  encrypt_manifest o np wfk = spec_manifest o np wfk.
Proof.
  unfold encrypt_manifest, spec_manifest, spec_key_name.
  destruct (eo_keyname o) as [|k0 kt]; cbn [is_nil]; [reflexivity|].
  destruct (eo_alg o) as [|a0 at_] eqn:Ha; cbn [is_nil]; [reflexivity|].
  destruct (kwalg_of_name (a0 :: at_)) as [kw|]; [|reflexivity].
  destruct (match eo_cipher o with Some c => cipher_of_name c | None => Some AESGCM end)
    as [cph|]; [|reflexivity].
  destruct (eo_omit o); [reflexivity|].
  destruct (eo_deckeyname o); reflexivity.
Qed.

(* non-vacuity: an alias, a decryption key name, an explicit cipher *)
Example keyname_table_ex :
  let o := mkEncOpts (str "mykey") (str "RSA") (str "other") false (Some (str "CHACHA20-POLY1305")) in
  encrypt_manifest o [7%N] [9%N] = Some (mkManifest (str "other") RSAOAEP256 [9%N] ChaChaPoly [7%N])
  /\ encrypt_wrap_args o = Some (str "RSA-OAEP-256", str "mykey").
Proof. vm_compute. split; reflexivity. Qed.
