(* C01/C02 — reference semantics used to STATE the theorems about the line-by-line model of
   Model.v: what processSegments amounts to on the list of segments of its input, and what a
   three-line header is.  Definitions only. *)
From Kit Require Export C01.Model C01.Spec C01.Premises.

(* processSegments over a source that ends in EOF, seen from outside: the input is cut into
   pieces of [S] bytes (the last may be shorter; no piece for an empty input), piece number i is
   given to processFn with last = "it is the final piece", outputs are concatenated. *)
Fixpoint run_chunks (fn : list N -> N -> bool -> option (list N)) (i : N)
         (cs : list (list N)) (out : list N) : list N * sstatus :=
  match cs with
  | [] => (out, SClean)
  | c :: t =>
      let done := is_nil t in
      match fn c i done with
      | None => (out, SProcFail)
      | Some w =>
          if negb done && (i =? max_segment)%N then (out ++ w, STooLarge)
          else run_chunks fn (i + 1)%N t (out ++ w)
      end
  end.

(* ... and over a source that fails (non-EOF error) after delivering its data: only pieces that
   are followed by at least one more byte are processed (never as the last one), then the
   stream ends with the source's error. *)
Fixpoint run_chunks_fail (fn : list N -> N -> bool -> option (list N)) (i : N)
         (cs : list (list N)) (out : list N) : list N * sstatus :=
  match cs with
  | [] => (out, SSrcFail)
  | [_] => (out, SSrcFail)
  | c :: t =>
      match fn c i false with
      | None => (out, SProcFail)
      | Some w =>
          if (i =? max_segment)%N then (out ++ w, STooLarge)
          else run_chunks_fail fn (i + 1)%N t (out ++ w)
      end
  end.

(* no line feed inside *)
Definition no_nl (l : list N) : Prop := Forall (fun b => b <> 10%N) l.

(* [hdr] consists of exactly three non-empty... lines [l1], [l2], [l3], each terminated by one
   line feed *)
Definition three_lines (hdr l1 l2 l3 : list N) : Prop :=
  hdr = l1 ++ [10%N] ++ l2 ++ [10%N] ++ l3 ++ [10%N] /\ no_nl l1 /\ no_nl l2 /\ no_nl l3.

(* ceil (a / b) on nat *)
Definition ceil_div (a b : nat) : nat := (a + b - 1) / b.

(* the fields of a manifest are byte strings *)
Definition manifest_bytes_ok (m : manifest) : Prop :=
  bytes_ok (m_wfk m) = true /\ bytes_ok (m_np m) = true.

(* the key name used by Decrypt: the caller's, else the manifest's *)
Definition dec_key_name (optkn : list N) (m : manifest) : list N :=
  if is_nil optkn then m_k m else optkn.
