(* C01/C02 — the algebraic facts about the primitives that the scheme-level theorems use.
   They are PREMISES of the abstract theorems (never axioms) and are proved for the concrete
   Gallina primitives in C01/ConcreteOk.v. *)
From Kit Require Export C01.Manifest.

(* a character that can stand unescaped inside a JSON string and inside a header line *)
Definition plain_char (c : N) : Prop := c <> 34%N /\ c <> 92%N /\ (32 <= c)%N.

Record crypto_ok (C : crypto) : Prop := mkCryptoOk {
  (* AEAD correctness *)
  ok_open_seal : forall c k n p, open C c k n (seal C c k n p) = Some p;
  (* 16-byte tag, no other expansion *)
  ok_seal_length : forall c k n p, length (seal C c k n p) = length p + 16;
  (* base64 round trip on byte strings, and the alphabet is harmless in JSON / header lines *)
  ok_b64_roundtrip : forall bs, bytes_ok bs = true -> b64d C (b64e C bs) = Some bs;
  ok_b64_plain : forall bs, Forall plain_char (b64e C bs);
  ok_b64_nonempty : forall bs, bs <> [] -> b64e C bs <> [];
  (* a MAC is a byte string *)
  ok_hmac_bytes : forall k m, bytes_ok (hmac C k m) = true;
  ok_hmac_nonempty : forall k m, hmac C k m <> []
}.
