(* C01/C02 — what the line-by-line model of processSegments (Model.v: fill / pseg) computes, for
   EVERY read script: it is [run_chunks] over the pieces of [S] bytes of the data the script
   carries (source ending in EOF) resp. [run_chunks_fail] (source failing).  Plus the facts
   about [chunks] and the consequences for Encrypt / the payload part of Decrypt. *)
From Kit Require Import C01.Sem Lib.ReaderFacts.
From Coq Require Import ZifyNat ZifyN ZifyBool.

(* ------------------------------------------------------------------------------------- *)
(* chunks *)

(* The statements below all assume 0 < S, which is what the code has. *)

Lemma chunks_fuel_indep S p : 0 < S -> forall f1 f2, length p <= f1 -> length p <= f2 ->
  chunks_fuel f1 S p = chunks_fuel f2 S p.
Proof.
  intros HS f1. revert p. induction f1 as [|f1 IH]; intros p f2 H1 H2.
  - destruct p; [|cbn in H1; lia]. destruct f2; reflexivity.
  - destruct p as [|x p].
    + destruct f2; reflexivity.
    + destruct f2 as [|f2]; [cbn in H2; lia|].
      cbn [chunks_fuel]. f_equal.
      assert (Hl : length (skipn S (x :: p)) <= length p).
      { rewrite skipn_length. cbn [length]. lia. }
      cbn [length] in H1, H2. apply IH; lia.
Qed.

Lemma chunks_nil S : chunks S [] = [].
Proof. reflexivity. Qed.

Lemma chunks_unfold S p : 0 < S -> p <> [] ->
  chunks S p = firstn S p :: chunks S (skipn S p).
Proof.
  intros HS Hp. unfold chunks. destruct p as [|x p]; [congruence|].
  cbn [length chunks_fuel]. f_equal.
  apply chunks_fuel_indep; [exact HS| |lia].
  rewrite skipn_length. cbn [length]. lia.
Qed.

(* a full piece followed by more *)
Lemma chunks_app_full S a b : 0 < S -> length a = S -> chunks S (a ++ b) = a :: chunks S b.
Proof.
  intros HS Ha. rewrite chunks_unfold; [|exact HS|].
  - rewrite firstn_exact by exact Ha.
    rewrite skipn_app, skipn_all2 by lia. replace (S - length a) with 0 by lia. reflexivity.
  - destruct a; [cbn in Ha; lia|discriminate].
Qed.

(* a final piece *)
Lemma chunks_short S q : 0 < S -> q <> [] -> length q <= S -> chunks S q = [q].
Proof.
  intros HS Hq Hl. rewrite chunks_unfold by assumption.
  rewrite firstn_all2 by exact Hl. rewrite skipn_all2 by exact Hl. reflexivity.
Qed.

Lemma chunks_nil_iff S p : 0 < S -> (chunks S p = [] <-> p = []).
Proof.
  intros HS. split.
  - intros H. destruct p as [|x p]; [reflexivity|].
    rewrite chunks_unfold in H by (exact HS || discriminate). discriminate.
  - intros ->. reflexivity.
Qed.

(* induction principle: pieces of S bytes *)
Lemma chunks_ind (S : nat) (P : list N -> Prop) : 0 < S ->
  P [] ->
  (forall q, q <> [] -> length q <= S -> P q) ->
  (forall a b, length a = S -> b <> [] -> P b -> P (a ++ b)) ->
  forall p, P p.
Proof.
  intros HS Hnil Hshort Hfull p.
  remember (length p) as n eqn:Hn. revert p Hn.
  induction n as [n IH] using lt_wf_ind. intros p Hn.
  destruct p as [|x p]; [exact Hnil|].
  destruct (Nat.leb (length (x :: p)) S) eqn:Hle.
  - apply Nat.leb_le in Hle. apply Hshort; [discriminate|exact Hle].
  - apply Nat.leb_gt in Hle.
    rewrite <- (firstn_skipn S (x :: p)).
    apply Hfull.
    + rewrite firstn_length. lia.
    + intro Hs. apply (f_equal (@length N)) in Hs. rewrite skipn_length in Hs. cbn [length] in *. lia.
    + apply (IH (length (skipn S (x :: p)))); [|reflexivity].
      rewrite skipn_length. subst n. cbn [length] in *. lia.
Qed.

Lemma chunks_concat S p : 0 < S -> concat (chunks S p) = p.
Proof.
  intros HS. pattern p. apply (chunks_ind S); [exact HS| |intros q Hq Hl|intros a b Ha Hb IH].
  - reflexivity.
  - rewrite chunks_short by assumption. cbn [concat]. apply app_nil_r.
  - rewrite chunks_app_full by assumption. cbn [concat]. rewrite IH. reflexivity.
Qed.

Lemma chunks_nonempty S p : 0 < S -> Forall (fun c => c <> []) (chunks S p).
Proof.
  intros HS. pattern p. apply (chunks_ind S); [exact HS| |intros q Hq Hl|intros a b Ha Hb IH].
  - constructor.
  - rewrite chunks_short by assumption. constructor; [exact Hq|constructor].
  - rewrite chunks_app_full by assumption. constructor; [|exact IH].
    destruct a; [cbn in Ha; lia|discriminate].
Qed.

Lemma ceil_div_short S n : 0 < n -> n <= S -> ceil_div n S = 1.
Proof.
  intros H0 H1. unfold ceil_div.
  assert (E : n + S - 1 = 1 * S + (n - 1)) by lia. rewrite E.
  rewrite Nat.div_add_l by lia. rewrite Nat.div_small by lia. lia.
Qed.

Lemma ceil_div_add S n : 0 < S -> ceil_div (S + n) S = 1 + ceil_div n S.
Proof.
  intros HS. unfold ceil_div.
  assert (E : S + n + S - 1 = 1 * S + (n + S - 1)) by lia. rewrite E.
  rewrite Nat.div_add_l by lia. reflexivity.
Qed.

Lemma chunks_length S p : 0 < S -> length (chunks S p) = ceil_div (length p) S.
Proof.
  intros HS. pattern p. apply (chunks_ind S); [exact HS| |intros q Hq Hl|intros a b Ha Hb IH].
  - cbn. unfold ceil_div. cbn [length]. rewrite Nat.div_small; lia.
  - rewrite chunks_short by assumption. cbn [length].
    rewrite ceil_div_short; [reflexivity| |exact Hl]. destruct q; [congruence|cbn; lia].
  - rewrite chunks_app_full by assumption. cbn [length]. rewrite IH, app_length, Ha.
    rewrite ceil_div_add by exact HS. reflexivity.
Qed.

Lemma chunks_nth_length S p : 0 < S -> forall i, i < length (chunks S p) ->
  length (nth i (chunks S p) []) = Nat.min S (length p - i * S).
Proof.
  intros HS. pattern p. apply (chunks_ind S); [exact HS| |intros q Hq Hl|intros a b Ha Hb IH]; intros i Hi.
  - cbn in Hi. lia.
  - rewrite chunks_short in * by assumption. cbn [length] in Hi.
    assert (i = 0) by lia. subst i. cbn [nth]. lia.
  - rewrite chunks_app_full in * by assumption. cbn [length] in Hi.
    destruct i as [|i].
    + cbn [nth]. rewrite app_length. lia.
    + cbn [nth]. rewrite IH by lia. rewrite app_length, Ha.
      replace (S + length b - Datatypes.S i * S) with (length b - i * S) by lia. reflexivity.
Qed.

(* a list of pieces that chunks would produce: all of S bytes except a non-empty last one of
   at most S bytes *)
Fixpoint pieces (S : nat) (cs : list (list N)) : Prop :=
  match cs with
  | [] => True
  | [c] => c <> [] /\ length c <= S
  | c :: t => length c = S /\ pieces S t
  end.

Lemma pieces_cons S c t : t <> [] -> pieces S (c :: t) = (length c = S /\ pieces S t).
Proof. destruct t; [congruence|reflexivity]. Qed.

Lemma pieces_concat_nonempty S cs : 0 < S -> pieces S cs -> cs <> [] -> concat cs <> [].
Proof.
  intros HS Hp Hne. destruct cs as [|c t]; [congruence|].
  destruct t as [|c' t].
  - cbn in *. rewrite app_nil_r. tauto.
  - cbn [pieces] in Hp. destruct Hp as [Hc _]. cbn [concat].
    destruct c; [cbn in Hc; lia|discriminate].
Qed.

Lemma chunks_of_pieces S cs : 0 < S -> pieces S cs -> chunks S (concat cs) = cs.
Proof.
  intros HS. induction cs as [|c t IH]; intros Hp; [reflexivity|].
  destruct t as [|c' t].
  - cbn [pieces] in Hp. destruct Hp as [Hc Hl]. cbn [concat]. rewrite app_nil_r.
    apply chunks_short; assumption.
  - rewrite pieces_cons in Hp by discriminate. destruct Hp as [Hc Hp].
    cbn [concat]. rewrite chunks_app_full by assumption. f_equal. apply IH. exact Hp.
Qed.

Lemma chunks_pieces S p : 0 < S -> pieces S (chunks S p).
Proof.
  intros HS. pattern p. apply (chunks_ind S); [exact HS| |intros q Hq Hl|intros a b Ha Hb IH].
  - exact I.
  - rewrite chunks_short by assumption. cbn. tauto.
  - rewrite chunks_app_full by assumption. rewrite pieces_cons; [tauto|].
    intro H. apply chunks_nil_iff in H; [congruence|exact HS].
Qed.

(* ------------------------------------------------------------------------------------- *)
(* fill *)

Lemma read_eof_script want r bs r' : read want r = (bs, EEOF, r') -> script r' = [].
Proof.
  unfold read. destruct want as [|w]; [intro H; discriminate|].
  destruct (script r) as [|[d| |d|] t] eqn:Hs; intro H.
  - injection H as _ <-. exact Hs.
  - destruct (Nat.leb _ _); discriminate.
  - discriminate.
  - destruct (Nat.leb _ _); [|discriminate]. injection H as _ <-. reflexivity.
  - discriminate.
Qed.

(* outcome of the inner read loop *)
Definition fill_post (S : nat) (buf : list N) (r : reader) (buf' : list N) (e : err) (r' : reader)
  : Prop :=
  exists d, buf' = buf ++ d /\ data_of (script r) = d ++ data_of (script r') /\
            length buf' <= S + 1 /\
            ((e = ENil /\ length buf' = S + 1 /\ ends_eof (script r') = ends_eof (script r))
             \/ (e = EEOF /\ script r' = [] /\ ends_eof (script r) = true)
             \/ (e = EFail /\ data_of (script r') = [] /\ ends_eof (script r) = false /\
                 length buf' <= S)).

Lemma fill_spec S : forall fuel r buf,
  script_fuel (script r) < fuel -> length buf <= S + 1 ->
  exists buf' e r', fill S fuel buf ENil r = Some (buf', e, r') /\ fill_post S buf r buf' e r'.
Proof.
  induction fuel as [|f IH]; intros r buf Hf Hb; [lia|].
  destruct (Nat.ltb (length buf) (S + 1)) eqn:Hlt.
  - apply Nat.ltb_lt in Hlt.
    cbn [fill]. rewrite (proj2 (Nat.ltb_lt _ _) Hlt). cbn [err_is_nil andb negb].
    destruct (read (S + 1 - length buf) r) as [[bs e] r'] eqn:Hr.
    assert (Hw : 0 < S + 1 - length buf) by lia.
    destruct (read_step _ _ _ _ _ Hw Hr) as (Hd & _ & Hlen & He).
    destruct e; try contradiction.
    + (* ENil *)
      destruct He as [Heof Hfuel].
      destruct (IH r' (buf ++ bs)) as (buf' & e' & r'' & Hfill & d & Hb' & Hd' & Hl' & Hcase).
      * lia.
      * rewrite app_length. lia.
      * exists buf', e', r''. split; [exact Hfill|].
        exists (bs ++ d). split; [rewrite Hb', app_assoc; reflexivity|].
        split; [rewrite Hd, Hd', app_assoc; reflexivity|].
        split; [exact Hl'|].
        rewrite <- Heof. exact Hcase.
    + (* EEOF *)
      destruct He as [Hnil Heof].
      exists (buf ++ bs), EEOF, r'. split.
      * destruct f; cbn [fill err_is_nil andb negb]; rewrite andb_false_r; reflexivity.
      * exists bs. split; [reflexivity|]. split; [exact Hd|].
        split; [rewrite app_length; lia|].
        right; left. split; [reflexivity|]. split; [|exact Heof].
        eapply read_eof_script; exact Hr.
    + (* EFail *)
      destruct He as (Hbs & Hnil & Heof & Hr').
      exists (buf ++ bs), EFail, r'. split.
      * destruct f; cbn [fill err_is_nil andb negb]; rewrite andb_false_r; reflexivity.
      * exists bs. split; [reflexivity|]. split; [exact Hd|].
        subst bs. rewrite app_nil_r.
        split; [lia|].
        right; right. split; [reflexivity|]. subst r'. repeat split; try assumption. lia.
  - apply Nat.ltb_ge in Hlt.
    exists buf, ENil, r. split.
    + cbn [fill]. rewrite (proj2 (Nat.ltb_ge _ _) Hlt). reflexivity.
    + exists []. rewrite app_nil_r. split; [reflexivity|]. split; [reflexivity|].
      split; [exact Hb|]. left. repeat split. lia.
Qed.

(* ------------------------------------------------------------------------------------- *)
(* pseg *)

Lemma run_chunks_fail_cons fn i c t out : t <> [] ->
  run_chunks_fail fn i (c :: t) out =
  match fn c i false with
  | None => (out, SProcFail)
  | Some w => if (i =? max_segment)%N then (out ++ w, STooLarge)
              else run_chunks_fail fn (i + 1)%N t (out ++ w)
  end.
Proof. destruct t; [congruence|reflexivity]. Qed.

Definition run_any (eof : bool) := if eof then run_chunks else run_chunks_fail.

Definition carry_list (carry : option N) : list N :=
  match carry with Some c => [c] | None => [] end.

Lemma removelast_last_length (l : list N) n : length l = Datatypes.S n ->
  l = removelast l ++ [last l 0%N] /\ length (removelast l) = n.
Proof.
  intros Hl. assert (Hne : l <> []) by (destruct l; [discriminate|discriminate]).
  pose proof (app_removelast_last 0%N Hne) as E. split; [exact E|].
  apply (f_equal (@length N)) in E. rewrite app_length in E. cbn [length] in E. lia.
Qed.

Lemma pseg_spec S fn eof : 0 < S ->
  forall fuel r seg carry out q,
    q = carry_list carry ++ data_of (script r) ->
    ends_eof (script r) = eof ->
    length q < fuel ->
    (seg = 0%N \/ q <> []) ->
    pseg S fn fuel r seg carry ENil out = run_any eof fn seg (chunks S q) out.
Proof.
  intros HS. induction fuel as [|f IH]; intros r seg carry out q Hq Heof Hfuel Hseg; [lia|].
  cbn [pseg]. fold (carry_list carry).
  assert (Hc : length (carry_list carry) <= S + 1) by (destruct carry; cbn; lia).
  destruct (fill_spec S (Datatypes.S (script_fuel (script r))) r (carry_list carry))
    as (buf & e1 & r1 & Hfill & d & Hbuf & Hd & Hlen & Hcase); [lia|exact Hc|].
  rewrite Hfill.
  assert (Hq' : q = buf ++ data_of (script r1)).
  { rewrite Hq, Hbuf, Hd, app_assoc. reflexivity. }
  (* the "big" branch, common to a full buffer with or without EOF *)
  assert (Hbig : length buf = S + 1 -> ends_eof (script r1) = eof ->
                 (negb (err_is_nil e1) && negb (err_is_eof e1) = false) ->
    (if negb (err_is_nil e1) && negb (err_is_eof e1) then (out, SSrcFail)
     else
       let big := Nat.ltb S (length buf) in
       let carry' := if big then Some (last buf 0%N) else None in
       let data := if big then removelast buf else buf in
       let done := negb big in
       if Nat.ltb (length data) S && negb done then (out, SUnexpectedEOF)
       else match data with
            | [] => if (seg =? 0)%N then (out, SClean) else (out, SUnexpectedEOF)
            | _ =>
                match fn data seg done with
                | None => (out, SProcFail)
                | Some w =>
                    let out' := out ++ w in
                    if negb done && (seg =? max_segment)%N then (out', STooLarge)
                    else if done then (out', SClean)
                    else pseg S fn f r1 (seg + 1)%N carry' ENil out'
                end
            end) = run_any eof fn seg (chunks S q) out).
  { intros Hfull Heof1 He1. rewrite He1.
    replace (S + 1) with (Datatypes.S S) in Hfull by lia.
    destruct (removelast_last_length buf S Hfull) as [Ebuf Hdl].
    set (data := removelast buf) in *. set (c := last buf 0%N) in *.
    cbv zeta. rewrite (proj2 (Nat.ltb_lt S (length buf))) by lia.
    cbn [negb]. rewrite andb_true_r, andb_true_l.
    rewrite (proj2 (Nat.ltb_ge (length data) S)) by lia.
    assert (Hqd : q = data ++ ([c] ++ data_of (script r1))).
    { rewrite Hq', Ebuf, <- app_assoc. reflexivity. }
    assert (Hrest : [c] ++ data_of (script r1) <> []) by discriminate.
    rewrite Hqd, chunks_app_full by assumption.
    assert (Ht : chunks S ([c] ++ data_of (script r1)) <> []).
    { intro H. apply chunks_nil_iff in H; [congruence|exact HS]. }
    destruct data as [|x data'] eqn:Edata; [cbn in Hdl; lia|]. rewrite <- Edata in *.
    assert (Hrec : forall w,
      pseg S fn f r1 (seg + 1)%N (Some c) ENil (out ++ w) =
      run_any eof fn (seg + 1)%N (chunks S ([c] ++ data_of (script r1))) (out ++ w)).
    { intro w. apply IH.
      - reflexivity.
      - exact Heof1.
      - rewrite Hqd, app_length in Hfuel. lia.
      - right. discriminate. }
    destruct eof; cbn [run_any] in *.
    - cbn [run_chunks].
      replace (is_nil (chunks S ([c] ++ data_of (script r1)))) with false
        by (destruct (chunks S ([c] ++ data_of (script r1))); [congruence|reflexivity]).
      rewrite Edata at 1. rewrite <- Edata.
      destruct (fn data seg false) as [w|]; [|reflexivity].
      cbn [negb]; rewrite ?andb_false_l, ?andb_true_l. destruct (seg =? max_segment)%N; [reflexivity|]. apply Hrec.
    - rewrite run_chunks_fail_cons by exact Ht.
      rewrite Edata at 1. rewrite <- Edata.
      destruct (fn data seg false) as [w|]; [|reflexivity].
      destruct (seg =? max_segment)%N; [reflexivity|]. apply Hrec. }
  destruct Hcase as [(He & Hfull & Heof1) | [(He & Hs1 & Heof0) | (He & Hnil & Heof0 & Hshort)]].
  - (* buffer full, no error *)
    subst e1. apply Hbig; [exact Hfull|congruence|reflexivity].
  - (* EOF *)
    subst e1.
    assert (Heof' : eof = true) by congruence.
    destruct (Nat.eq_dec (length buf) (S + 1)) as [Hfull|Hnfull].
    + apply Hbig; [exact Hfull| |reflexivity]. rewrite Hs1. cbn. congruence.
    + assert (Hle : length buf <= S) by lia.
      cbn [err_is_nil err_is_eof negb]; rewrite ?andb_false_l, ?andb_true_l. cbv zeta.
      rewrite (proj2 (Nat.ltb_ge S (length buf))) by lia.
      cbn [negb]. rewrite andb_false_r.
      assert (Eq : q = buf) by (rewrite Hq', Hs1; cbn [data_of]; apply app_nil_r).
      rewrite Heof'. cbn [run_any]. rewrite Eq.
      destruct buf as [|x buf'] eqn:Ebuf.
      * cbn [chunks chunks_fuel length run_chunks].
        destruct Hseg as [-> | Hne]; [reflexivity|]. exfalso. apply Hne. exact Eq.
      * rewrite <- Ebuf in *. rewrite chunks_short; [|exact HS|subst buf; discriminate|exact Hle].
        cbn [run_chunks is_nil]. rewrite Ebuf at 1. rewrite <- Ebuf.
        destruct (fn buf seg true) as [w|]; [|reflexivity].
        cbn [negb]; rewrite ?andb_false_l, ?andb_true_l. reflexivity.
  - (* source failure *)
    subst e1. assert (Heof' : eof = false) by congruence. rewrite Heof'.
    cbn [err_is_nil err_is_eof negb run_any]; rewrite ?andb_false_l, ?andb_true_l.
    assert (Eq : q = buf) by (rewrite Hq', Hnil; apply app_nil_r).
    rewrite Eq. destruct buf as [|x buf'] eqn:Ebuf; [reflexivity|].
    rewrite <- Ebuf in *. rewrite chunks_short; [reflexivity|exact HS|subst buf; discriminate|exact Hshort].
Qed.

Theorem process_segments_any S fn sc : 0 < S ->
  process_segments S fn sc = run_any (ends_eof sc) fn 0%N (chunks S (data_of sc)) [].
Proof.
  intros HS. unfold process_segments.
  apply pseg_spec; [exact HS|reflexivity|reflexivity|lia|left; reflexivity].
Qed.

Theorem process_segments_chunks S fn sc : 0 < S -> ends_eof sc = true ->
  process_segments S fn sc = run_chunks fn 0%N (chunks S (data_of sc)) [].
Proof. intros HS He. rewrite process_segments_any by exact HS. rewrite He. reflexivity. Qed.

Theorem process_segments_src_fail S fn sc : 0 < S -> ends_eof sc = false ->
  process_segments S fn sc = run_chunks_fail fn 0%N (chunks S (data_of sc)) [].
Proof. intros HS He. rewrite process_segments_any by exact HS. rewrite He. reflexivity. Qed.

Lemma run_chunks_fail_not_clean fn : forall cs i out, snd (run_chunks_fail fn i cs out) <> SClean.
Proof.
  induction cs as [|c t IH]; intros i out; [cbn; discriminate|].
  destruct t as [|c' t]; [cbn; discriminate|].
  rewrite run_chunks_fail_cons by discriminate.
  destruct (fn c i false); [|cbn; discriminate].
  destruct (i =? max_segment)%N; [cbn; discriminate|apply IH].
Qed.
