(* C01 — the scheme-level theorems instantiated on the concrete Gallina primitives of
   coq/Crypto (no cryptographic premise left), and non-vacuity examples: the hypotheses of
   the round-trip theorems are satisfiable on a concrete multi-segment instance. *)
From Kit Require Import C01.Sem C01.Concrete C01.ConcreteOk C01.ConcreteOk2 C01.Proofs_Roundtrip.
From Coq Require Import String.
Local Open Scope string_scope.

Definition roundtrip_concrete := roundtrip concrete concrete_ok.
Definition accepts_concrete := decrypt_accepts_spec concrete concrete_ok.

(* a 5-byte message, 2-byte segments (three segments), zero-length read, data with EOF *)
Definition ex_opts : enc_opts := mkEncOpts (str "mykey") (str "AES") [] false (Some (str "CHACHA20-POLY1305")).
Definition ex_fk : list N := List.repeat 7%N 32.
Definition ex_np : list N := [1; 2; 3; 4; 5; 6; 7]%N.
Definition ex_wfk : list N := List.repeat 9%N 40.
Definition ex_sc : list rd := [Zero; Data [1; 2; 3]%N; DataEOF [4; 5]%N].
Definition ex_m : manifest := mkManifest (str "mykey") A256KW ex_wfk ChaChaPoly ex_np.
Definition ex_unwrap (w a k : list N) : list N * bool := (ex_fk, false).

Example roundtrip_hypotheses_satisfiable :
  0 < 2 /\ List.length ex_fk = 32 /\ List.length ex_np = 7 /\ bytes_ok ex_np = true /\
  ex_wfk <> [] /\ bytes_ok ex_wfk = true /\
  spec_manifest ex_opts ex_np ex_wfk = Some ex_m /\
  List.length (spec_header concrete ex_fk (manifest_json concrete ex_m)) <= 400 /\
  ends_eof ex_sc = true /\
  (N.of_nat (List.length (data_of ex_sc)) <= N.of_nat 2 * 4294967296)%N /\
  dec_key_name [] ex_m <> [] /\
  ex_unwrap ex_wfk (kwalg_name (m_kw ex_m)) (dec_key_name [] ex_m) = (ex_fk, false).
Proof.
  repeat split; try (vm_compute; reflexivity); try discriminate; try lia;
    try (apply Nat.leb_le; vm_compute; reflexivity); try (vm_compute; discriminate).
Qed.

(* ... and the conclusion, computed: the document has three segments and decrypts back when
   delivered in pieces that straddle the header and the segments *)
Example roundtrip_computed :
  match encrypt_stream concrete 2 400 ex_opts ex_fk ex_np ex_wfk ex_sc with
  | EncStream d SClean =>
      List.length (spec_segments concrete 2 ex_m ex_fk (data_of ex_sc)) = 3 /\
      decrypt_stream concrete Original 2 400 ex_unwrap []
        [Data (firstn 100 d); Zero; Data (firstn 120 (skipn 100 d)); DataEOF (skipn 220 d)]
      = DecStream [1; 2; 3; 4; 5]%N SClean
  | _ => False
  end.
Proof. vm_compute. split; reflexivity. Qed.

(* non-vacuity of the chunk-semantics theorem of the segment loop (C01/Proofs_Segments.v): a
   script with a zero-length read, a piece straddling two segments and data with EOF; the
   segment function records position and last flag *)
Example segment_loop_ex :
  let fn := fun (d : list N) (i : N) (l : bool) => Some (d ++ [(100 + i)%N; if l then 1%N else 0%N])%list in
  let sc := [Zero; Data [1; 2; 3]%N; DataEOF [4; 5]%N] in
  0 < 2 /\ ends_eof sc = true /\
  process_segments 2 fn sc = ([1; 2; 100; 0; 3; 4; 101; 0; 5; 102; 1]%N, SClean) /\
  run_chunks fn 0%N (chunks 2 (data_of sc)) [] = ([1; 2; 100; 0; 3; 4; 101; 0; 5; 102; 1]%N, SClean).
Proof. vm_compute. repeat split; lia. Qed.

(* ... and of its source-failure twin: only the pieces followed by at least one more byte are
   processed *)
Example segment_loop_fail_ex :
  let fn := fun (d : list N) (i : N) (l : bool) => Some (d ++ [(100 + i)%N; if l then 1%N else 0%N])%list in
  let sc := [Data [1; 2; 3]%N; Zero; Data [4; 5]%N; Fail] in
  ends_eof sc = false /\
  process_segments 2 fn sc = ([1; 2; 100; 0; 3; 4; 101; 0]%N, SSrcFail).
Proof. vm_compute. split; reflexivity. Qed.

(* hypotheses of decrypt_accepts_spec on a document made by the README-only encoder *)
Example accepts_hypotheses_satisfiable :
  let d := encrypt_doc concrete 2 ex_m ex_fk [1; 2; 3; 4; 5]%N in
  manifest_bytes_ok ex_m /\ manifest_valid ex_m = true /\
  ends_eof [Data (firstn 50 d); DataEOF (skipn 50 d)] = true /\
  data_of [Data (firstn 50 d); DataEOF (skipn 50 d)] = d /\
  List.length (spec_header concrete ex_fk (manifest_json concrete ex_m)) <= 400 /\
  dec_key_name (str "override") ex_m <> [] /\ List.length ex_fk = 32.
Proof.
  cbv zeta. repeat split; try (vm_compute; reflexivity); try (vm_compute; discriminate);
    try (apply Nat.leb_le; vm_compute; reflexivity).
Qed.

(* non-vacuity of the serialisation-style theorems: a manifest written with its members in
   another order, whitespace and \u00XX escapes is a different text, satisfies the style
   hypotheses, parses to the same manifest, and the document built on it decrypts *)
Definition ex_sty : mstyle := mkMstyle [FNp; FCph; FK; FWfk; FKw] [32; 9]%N 2.

Example styles_hypotheses_satisfiable :
  Forall (fun b => is_ws b = true) (ms_ws ex_sty) /\ NoDup (ms_order ex_sty) /\
  (forall f, f <> FK -> In f (ms_order ex_sty)) /\ (In FK (ms_order ex_sty) \/ m_k ex_m = []) /\
  manifest_text concrete ex_sty ex_m <> manifest_json concrete ex_m /\
  parse_manifest concrete (manifest_text concrete ex_sty ex_m) = Some ex_m /\
  let d := encrypt_doc_text concrete 2 (manifest_text concrete ex_sty ex_m) ex_m ex_fk [1; 2; 3; 4; 5]%N in
  decrypt_stream concrete Fixed 2 400 ex_unwrap [] [Data (firstn 90 d); Zero; DataEOF (skipn 90 d)]
  = DecStream [1; 2; 3; 4; 5]%N SClean.
Proof.
  split; [repeat constructor|]. split.
  { repeat constructor; cbn; intuition discriminate. }
  split; [intros [] Hf; cbn; tauto|]. split; [left; cbn; tauto|].
  split; [intro E; apply (f_equal (@List.length N)) in E; vm_compute in E; discriminate|].
  split; vm_compute; reflexivity.
Qed.

(* the toy vault of the callback theorems: wrapping depends on the key NAME *)
Definition ex_vault_wrap (fk alg kn : list N) : option (list N) :=
  if eqb_listN kn (str "mykey") then Some (map (N.lxor 90) fk ++ alg)%list else None.
Definition ex_vault_unwrap (w alg kn : list N) : list N * bool :=
  if eqb_listN kn (str "mykey") then (map (N.lxor 90) (firstn 32 w), false) else ([], true).

Example roundtrip_callbacks_computed :
  match encrypt_stream_w concrete 2 400 ex_opts ex_fk ex_np ex_vault_wrap ex_sc with
  | EncStream d SClean =>
      decrypt_stream concrete Fixed 2 400 ex_vault_unwrap [] [Data (firstn 100 d); DataEOF (skipn 100 d)]
      = DecStream [1; 2; 3; 4; 5]%N SClean /\
      (* under another name the vault refuses, and Decrypt reports a signature error *)
      decrypt_stream concrete Fixed 2 400 ex_vault_unwrap (str "other") [DataEOF d]
      = DecCallError DESignature
  | _ => False
  end.
Proof. vm_compute. split; reflexivity. Qed.
