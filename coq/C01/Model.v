(* C01/C02 — dapr.io/enc/v1: line-by-line model of /repo/schemes/enc/v1/{scheme.go,filekey.go}
   over scripted readers (Lib/Reader.v).  Definitions only.  Parametric in the cryptographic
   primitives (record [crypto] of Manifest.v), in the segment size [S] (the code: 65536) and in
   the size [H] of the buffer readHeader scans (the code: 65536).

   io.Pipe is modelled by its contract: the consumer receives the concatenation of the writes,
   then the error the pipe was closed with (nil = clean EOF).

   [variant]: [Original] = the tree without fixes/C02-zero-key-forgery.patch (a failed unwrap
   is replaced by the all-zero file key and decryption goes on; an error returned together
   with 32 bytes is ignored), [Fixed] = the tree with that patch (a failed unwrap always ends
   in ErrDecryptionSignature, after the MAC has been computed). *)
From Kit Require Export Lib.Reader C01.Manifest.
From Coq Require Import String.
Local Open Scope string_scope.
Local Open Scope list_scope.

Definition scheme_name : list N := str "dapr.io/enc/v1".
Definition info_header : list N := str "header".
Definition info_payload : list N := str "payload".

(* how a stream (the pipe) ended *)
Inductive sstatus :=
| SClean            (* out.Close() *)
| SSrcFail          (* CloseWithError(err of the source reader) *)
| SUnexpectedEOF    (* io.ErrUnexpectedEOF *)
| SProcFail         (* processFn failed: ErrDecryptionFailed (or the empty-segment errors) *)
| STooLarge         (* "input stream is too large" *)
| SOutOfFuel.       (* model artefact; excluded by the theorems *)

Definition sstatus_eqb (a b : sstatus) : bool :=
  match a, b with
  | SClean, SClean | SSrcFail, SSrcFail | SUnexpectedEOF, SUnexpectedEOF
  | SProcFail, SProcFail | STooLarge, STooLarge | SOutOfFuel, SOutOfFuel => true
  | _, _ => false
  end.

Definition err_is_nil (e : err) : bool := match e with ENil => true | _ => false end.
Definition err_is_eof (e : err) : bool := match e with EEOF => true | _ => false end.

(* binary.BigEndian.PutUint32 *)
Definition be32 (n : N) : list N :=
  [(n / 16777216) mod 256; (n / 65536) mod 256; (n / 256) mod 256; n mod 256]%N.

(* copy(dst[0:n], src): the first n bytes of src, zero-filled *)
Fixpoint copy_pad (n : nat) (l : list N) : list N :=
  match n with
  | O => []
  | Datatypes.S n' => match l with
                      | [] => 0%N :: copy_pad n' []
                      | x :: t => x :: copy_pad n' t
                      end
  end.

(* filekey.go nonceForSegment *)
Definition nonce_for_segment (np : list N) (num : N) (last : bool) : list N :=
  copy_pad 7 np ++ be32 num ++ [if last then 1%N else 0%N].

Definition max_segment : N := 4294967295.   (* 1<<32 - 1 *)

Section Scheme.
  Variable C : crypto.

  (* filekey.go importFileKey / deriveKey *)
  Definition header_key (fk : list N) : list N := hkdf C fk [] info_header 32.
  Definition payload_key (fk np : list N) : list N := hkdf C fk np info_payload 32.

  (* filekey.go headerMessage: bytes.Join([scheme, manifest, {}], "\n") *)
  Definition header_message (man : list N) : list N :=
    scheme_name ++ [10%N] ++ man ++ [10%N].

  (* filekey.go SignHeader *)
  Definition sign_header (fk man : list N) : list N :=
    let msg := header_message man in
    msg ++ b64e C (hmac C (header_key fk) msg) ++ [10%N].

  (* filekey.go VerifyHeaderSignature: [None] = the MAC line is not base64, [Some false] = MAC
     mismatch (ErrDecryptionSignature). *)
  Definition verify_header (fk man mac64 : list N) : option bool :=
    match b64d C mac64 with
    | None => None
    | Some mac => Some (eqb_listN (hmac C (header_key fk) (header_message man)) mac)
    end.

  (* filekey.go EncryptSegment / DecryptSegment: [None] = error returned by processFn *)
  Definition encrypt_segment (cph : cipher) (pk np : list N)
             (data : list N) (num : N) (last : bool) : option (list N) :=
    match data with
    | [] => None
    | _ => Some (seal C cph pk (nonce_for_segment np num last) data)
    end.

  Definition decrypt_segment (cph : cipher) (pk np : list N)
             (data : list N) (num : N) (last : bool) : option (list N) :=
    match data with
    | [] => None
    | _ => open C cph pk (nonce_for_segment np num last) data
    end.

  (* ----------------------------------------------------------------------------------- *)
  (* scheme.go processSegments                                                             *)

  Section Segments.
    Variable S : nat.                                           (* segmentSize *)
    Variable fn : list N -> N -> bool -> option (list N).       (* processFn *)

    (* for n < segmentSize+1 && err == nil { nn, err = in.Read(buf[n:segmentSize+1]); n += nn } *)
    Fixpoint fill (fuel : nat) (buf : list N) (e : err) (r : reader)
      : option (list N * err * reader) :=
      if negb (Nat.ltb (List.length buf) (S + 1) && err_is_nil e) then Some (buf, e, r)
      else match fuel with
           | O => None
           | Datatypes.S f =>
               let '(bs, e', r') := read (S + 1 - List.length buf) r in
               fill f (buf ++ bs) e' r'
           end.

    (* One iteration of "for !done" per unit of fuel.  State: reader, segment counter,
       carry-over byte, the variable err, bytes written to the pipe so far. *)
    Fixpoint pseg (fuel : nat) (r : reader) (seg : N) (carry : option N) (e : err)
             (out : list N) : list N * sstatus :=
      match fuel with
      | O => (out, SOutOfFuel)
      | Datatypes.S f =>
          let buf0 := match carry with Some c => [c] | None => [] end in
          match fill (Datatypes.S (script_fuel (script r))) buf0 e r with
          | None => (out, SOutOfFuel)
          | Some (buf, e1, r1) =>
              (* if err != nil && !errors.Is(err, io.EOF) *)
              if negb (err_is_nil e1) && negb (err_is_eof e1) then (out, SSrcFail)
              else
                (* if n > segmentSize { carryover = buf[n-1]; n-- } else { done = true } *)
                let big := Nat.ltb S (List.length buf) in
                let carry' := if big then Some (last buf 0%N) else None in
                let data := if big then removelast buf else buf in
                let done := negb big in
                (* if n < segmentSize && !done *)
                if Nat.ltb (List.length data) S && negb done then (out, SUnexpectedEOF)
                else match data with
                     | [] => (* n == 0 *)
                         if (seg =? 0)%N then (out, SClean) else (out, SUnexpectedEOF)
                     | _ =>
                         (* err = processFn(out, buf[:n], segment, done) *)
                         match fn data seg done with
                         | None => (out, SProcFail)
                         | Some w =>
                             let out' := out ++ w in
                             if negb done && (seg =? max_segment)%N then (out', STooLarge)
                             else if done then (out', SClean)
                             else pseg f r1 (seg + 1)%N carry' ENil out'
                         end
                     end
          end
      end.

    Definition process_segments (sc : list rd) : list N * sstatus :=
      pseg (Datatypes.S (Datatypes.S (List.length (data_of sc))))
           {| script := sc; closes := 0 |} 0%N None ENil [].
  End Segments.

  (* ----------------------------------------------------------------------------------- *)
  (* scheme.go readHeader                                                                  *)

  (* newlines, the current line (bytes since lastNewline, newest first), manifest, mac *)
  Record hst := mkHst { h_nl : nat; h_cur : list N; h_man : list N; h_mac : list N }.

  Definition hst0 : hst := mkHst 0 [] [] [].

  (* for i = n; i < n+nn && newlines < 3; i++ — over the bytes just read.
     [None] = "invalid format" / "unsupported scheme"; otherwise the state and the bytes not
     looked at (non-empty only when the third newline was found). *)
  Fixpoint scan (bs : list N) (st : hst) : option (hst * list N) :=
    match bs with
    | [] => Some (st, [])
    | b :: t =>
        if Nat.leb 3 (h_nl st) then Some (st, bs)
        else if (b =? 10)%N then
          match h_cur st with
          | [] => None                                      (* i <= lastNewline *)
          | _ =>
              let line := frev (h_cur st) in
              match h_nl st with
              | O => if eqb_listN line scheme_name
                     then scan t (mkHst 1 [] (h_man st) (h_mac st)) else None
              | Datatypes.S O => scan t (mkHst 2 [] line (h_mac st))
              | _ => scan t (mkHst 3 [] (h_man st) line)
              end
          end
        else scan t (mkHst (h_nl st) (b :: h_cur st) (h_man st) (h_mac st))
    end.

  Inductive hres :=
  | HFuel
  | HErr                                          (* an error from inside the scan *)
  | HDone (st : hst) (extra : list N) (r : reader).

  Section Header.
    Variable H : nat.   (* SegmentSize: at most H bytes are read looking for the header *)

    (* for newlines < 3 && err == nil { ul = min(n+512, H); if n == ul {break};
         nn, err = Read(buf[n:H]); if nn <= 0 {continue}; scan; n += nn } *)
    Fixpoint rh_loop (fuel : nat) (n : nat) (st : hst) (r : reader) : hres :=
      match fuel with
      | O => HFuel
      | Datatypes.S f =>
          if Nat.leb 3 (h_nl st) then HDone st [] r
          else if Nat.eqb n H then HDone st [] r
          else
            let '(bs, e, r') := read (H - n) r in
            match bs with
            | [] => if err_is_nil e then rh_loop f n st r' else HDone st [] r'
            | _ =>
                match scan bs st with
                | None => HErr
                | Some (st', rest) =>
                    if err_is_nil e && negb (Nat.leb 3 (h_nl st'))
                    then rh_loop f (n + List.length bs) st' r'
                    else HDone st' rest r'
                end
            end
      end.

    (* [Some (manifest, mac, reader for the payload)]: surplus bytes are pushed back with
       io.MultiReader(bytes.NewReader(extra), in), i.e. put in front of the script. *)
    Definition read_header (r : reader) : option (option (list N * list N * reader)) :=
      match rh_loop (Datatypes.S (script_fuel (script r))) 0 hst0 r with
      | HFuel => None
      | HErr => Some None
      | HDone st extra r' =>
          if Nat.ltb (h_nl st) 1 then Some None
          else if is_nil (h_man st) then Some None
          else if is_nil (h_mac st) then Some None
          else Some (Some (h_man st, h_mac st,
                           match extra with
                           | [] => r'
                           | _ => with_script r' (Data extra :: script r')
                           end))
      end.
  End Header.

  (* ----------------------------------------------------------------------------------- *)
  (* scheme.go Encrypt                                                                     *)

  Inductive enc_result :=
  | EncCallError                                   (* Encrypt itself returned an error *)
  | EncStream (out : list N) (st : sstatus).

  (* the manifest Encrypt builds; [None] = option validation failed *)
  Definition encrypt_manifest (o : enc_opts) (np wfk : list N) : option manifest :=
    if is_nil (eo_keyname o) then None
    else if is_nil (eo_alg o) then None
    else match kwalg_of_name (eo_alg o) with
         | None => None
         | Some kw =>
             match (match eo_cipher o with
                    | None => Some AESGCM
                    | Some c => cipher_of_name c
                    end) with
             | None => None
             | Some cph =>
                 let key_name :=
                   if eo_omit o then []
                   else if is_nil (eo_deckeyname o) then eo_keyname o
                   else eo_deckeyname o in
                 Some (mkManifest key_name kw wfk cph np)
             end
         end.

  (* what WrapKeyFn is called with: (algorithm name, key name) *)
  Definition encrypt_wrap_args (o : enc_opts) : option (list N * list N) :=
    match encrypt_manifest o [] [] with
    | Some m => Some (kwalg_name (m_kw m), eo_keyname o)
    | None => None
    end.

  (* [fk], [np]: the 39 random bytes newFileKey drew; [wfk]: what WrapKeyFn returned. *)
  Definition encrypt_stream (S H : nat) (o : enc_opts) (fk np wfk : list N) (sc : list rd)
    : enc_result :=
    match encrypt_manifest o np wfk with
    | None => EncCallError
    | Some m =>
        let header := sign_header fk (manifest_json C m) in
        if Nat.ltb H (List.length header) then EncCallError      (* "header is too long" *)
        else
          let '(out, st) :=
            process_segments S (encrypt_segment (m_cph m) (payload_key fk np) np) sc in
          EncStream (header ++ out) st
    end.

  (* Encrypt with its WrapKeyFn callback: options are validated, the file key is drawn, the
     callback is invoked with (file key, un-aliased algorithm, opts.KeyName) and its failure is
     Encrypt's failure; the rest is [encrypt_stream] with the wrapped key it returned. *)
  Definition encrypt_stream_w (S H : nat) (o : enc_opts) (fk np : list N)
             (wrap : list N -> list N -> list N -> option (list N)) (sc : list rd) : enc_result :=
    match encrypt_wrap_args o with
    | None => EncCallError
    | Some (alg, kn) =>
        match wrap fk alg kn with
        | None => EncCallError                         (* "failed to wrap the file key" *)
        | Some wfk => encrypt_stream S H o fk np wfk sc
        end
    end.

  (* ----------------------------------------------------------------------------------- *)
  (* scheme.go Decrypt                                                                     *)

  Inductive dcallerr :=
  | DEHeader          (* "invalid header: ..." from readHeader *)
  | DEManifest        (* "invalid header: invalid manifest" *)
  | DEKeyMissing      (* ErrDecryptionKeyMissing *)
  | DEMacFormat       (* "failed to decode header's signature" *)
  | DESignature       (* ErrDecryptionSignature *)
  | DEFuel.

  Inductive dec_result :=
  | DecCallError (e : dcallerr)                    (* Decrypt itself returned an error *)
  | DecStream (out : list N) (st : sstatus).

  Definition zero_key : list N := repeat 0%N 32.

  (* [unwrap wfk algorithm-name key-name] = (bytes returned, error returned?) *)
  Definition decrypt_stream (v : variant) (S H : nat)
             (unwrap : list N -> list N -> list N -> list N * bool)
             (opt_keyname : list N) (sc : list rd) : dec_result :=
    match read_header H {| script := sc; closes := 0 |} with
    | None => DecCallError DEFuel
    | Some None => DecCallError DEHeader
    | Some (Some (man, mac, r)) =>
        match parse_manifest C man with
        | None => DecCallError DEManifest
        | Some m =>
            if negb (manifest_valid m) then DecCallError DEManifest
            else
              let key_name := if is_nil opt_keyname then m_k m else opt_keyname in
              if is_nil key_name then DecCallError DEKeyMissing
              else
                let '(fkb, uerr) := unwrap (m_wfk m) (kwalg_name (m_kw m)) key_name in
                let failed :=
                  match v with
                  | Original => negb (Nat.eqb (List.length fkb) 32)
                  | Fixed => uerr || negb (Nat.eqb (List.length fkb) 32)
                  end in
                let fk := if failed then zero_key else fkb in
                match verify_header fk man mac with
                | None => DecCallError DEMacFormat
                | Some false => DecCallError DESignature
                | Some true =>
                    if is_fixed v && failed then DecCallError DESignature
                    else
                      let '(out, st) :=
                        process_segments (S + 16)
                          (decrypt_segment (m_cph m) (payload_key fk (m_np m)) (m_np m))
                          (script r) in
                      DecStream out st
                end
        end
    end.
End Scheme.
