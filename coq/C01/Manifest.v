(* C01/C02 — dapr.io/enc/v1: the public vocabulary of the scheme, written from
   /repo/schemes/enc/v1/README.md (ids, manifest fields) and the documentation comments of the
   exported option types: cipher and key-wrap algorithm names/ids, the manifest record, its
   compact JSON encoding (Go's encoding/json for this exact field set) and the parser for the
   language that encoder produces.  Definitions only; abstract in the cryptographic
   primitives (record [crypto]). *)
From Kit Require Export Lib.Base.
From Coq Require Import Ascii String.

(* [rev] of the standard library is quadratic; header lines can be 64 KiB long.  [frev] is the
   linear one, equal to it ([frev_rev]). *)
Definition frev {A} (l : list A) : list A := rev_append l [].

Lemma frev_rev {A} (l : list A) : frev l = rev l.
Proof. unfold frev. rewrite rev_append_rev. apply app_nil_r. Qed.

(* ASCII text as a byte string. *)
Fixpoint str (s : string) : list N :=
  match s with
  | EmptyString => []
  | String a t => N_of_ascii a :: str t
  end.

(* ------------------------------------------------------------------------------------- *)
(* Abstract cryptography: everything scheme-level is parametric in this record.            *)

Inductive cipher := AESGCM | ChaChaPoly.

Record crypto := mkCrypto {
  (* AEAD with empty associated data: cipher, key, 12-byte nonce, plaintext -> ct ++ tag *)
  seal : cipher -> list N -> list N -> list N -> list N;
  open : cipher -> list N -> list N -> list N -> option (list N);
  (* HKDF-SHA-256: ikm, salt, info, output length *)
  hkdf : list N -> list N -> list N -> nat -> list N;
  (* HMAC-SHA-256: key, message *)
  hmac : list N -> list N -> list N;
  (* base64, standard alphabet with padding *)
  b64e : list N -> list N;
  b64d : list N -> option (list N)
}.

(* ------------------------------------------------------------------------------------- *)
(* Names and numeric ids (README "Manifest").                                              *)

Inductive kwalg := A256KW | A128CBC | A192CBC | A256CBC | RSAOAEP256.

Definition cipher_eqb (a b : cipher) : bool :=
  match a, b with AESGCM, AESGCM | ChaChaPoly, ChaChaPoly => true | _, _ => false end.

Definition kwalg_eqb (a b : kwalg) : bool :=
  match a, b with
  | A256KW, A256KW | A128CBC, A128CBC | A192CBC, A192CBC | A256CBC, A256CBC
  | RSAOAEP256, RSAOAEP256 => true
  | _, _ => false
  end.

Definition cipher_id (c : cipher) : N := match c with AESGCM => 1 | ChaChaPoly => 2 end.

Definition cipher_of_id (n : N) : option cipher :=
  if (n =? 1)%N then Some AESGCM else if (n =? 2)%N then Some ChaChaPoly else None.

Definition cipher_name (c : cipher) : list N :=
  match c with AESGCM => str "AES-GCM" | ChaChaPoly => str "CHACHA20-POLY1305" end.

Definition kwalg_id (a : kwalg) : N :=
  match a with A256KW => 1 | A128CBC => 2 | A192CBC => 3 | A256CBC => 4 | RSAOAEP256 => 5 end.

Definition kwalg_of_id (n : N) : option kwalg :=
  if (n =? 1)%N then Some A256KW else if (n =? 2)%N then Some A128CBC
  else if (n =? 3)%N then Some A192CBC else if (n =? 4)%N then Some A256CBC
  else if (n =? 5)%N then Some RSAOAEP256 else None.

Definition kwalg_name (a : kwalg) : list N :=
  match a with
  | A256KW => str "A256KW" | A128CBC => str "A128CBC-NOPAD" | A192CBC => str "A192CBC-NOPAD"
  | A256CBC => str "A256CBC-NOPAD" | RSAOAEP256 => str "RSA-OAEP-256"
  end.

(* The seven accepted values of EncryptOptions.Algorithm: the five names and the two aliases
   "AES" (A256KW) and "RSA" (RSA-OAEP-256). *)
Definition kwalg_of_name (s : list N) : option kwalg :=
  if eqb_listN s (str "A256KW") then Some A256KW
  else if eqb_listN s (str "A128CBC-NOPAD") then Some A128CBC
  else if eqb_listN s (str "A192CBC-NOPAD") then Some A192CBC
  else if eqb_listN s (str "A256CBC-NOPAD") then Some A256CBC
  else if eqb_listN s (str "RSA-OAEP-256") then Some RSAOAEP256
  else if eqb_listN s (str "AES") then Some A256KW
  else if eqb_listN s (str "RSA") then Some RSAOAEP256
  else None.

Definition cipher_of_name (s : list N) : option cipher :=
  if eqb_listN s (str "AES-GCM") then Some AESGCM
  else if eqb_listN s (str "CHACHA20-POLY1305") then Some ChaChaPoly
  else None.

(* ------------------------------------------------------------------------------------- *)
(* Options of Encrypt (EncryptOptions without the callback).                               *)

Record enc_opts := mkEncOpts {
  eo_keyname : list N;            (* KeyName (required) *)
  eo_alg : list N;                (* Algorithm (required), a name or an alias *)
  eo_deckeyname : list N;         (* DecryptionKeyName, "" = use KeyName *)
  eo_omit : bool;                 (* OmitKeyName *)
  eo_cipher : option (list N)     (* Cipher, nil = AES-GCM *)
}.

(* ------------------------------------------------------------------------------------- *)
(* The manifest and its JSON form.                                                         *)

Record manifest := mkManifest {
  m_k : list N;       (* key name, "" = absent *)
  m_kw : kwalg;
  m_wfk : list N;     (* wrapped file key *)
  m_cph : cipher;
  m_np : list N       (* nonce prefix *)
}.

Definition is_nil {A} (l : list A) : bool := match l with [] => true | _ => false end.

Definition hex_digit (n : N) : N := if (n <? 10)%N then (48 + n)%N else (87 + n)%N.

Definition hex_val (c : N) : option N :=
  if (48 <=? c)%N && (c <=? 57)%N then Some (c - 48)%N
  else if (97 <=? c)%N && (c <=? 102)%N then Some (c - 87)%N
  else if (65 <=? c)%N && (c <=? 70)%N then Some (c - 55)%N
  else None.

(* Go's encoding/json string escaping (escapeHTML on), for one byte of an ASCII string:
   quote and backslash get a backslash, \b \f \n \r \t their short forms, other control
   characters and < > & the \u00xx form; everything else is copied.  Bytes >= 0x80 are copied
   (faithful to Go for valid UTF-8 other than U+2028/U+2029). *)
Definition json_escape_byte (b : N) : list N :=
  if (b =? 34)%N then [92; 34]%N
  else if (b =? 92)%N then [92; 92]%N
  else if (b =? 8)%N then [92; 98]%N
  else if (b =? 12)%N then [92; 102]%N
  else if (b =? 10)%N then [92; 110]%N
  else if (b =? 13)%N then [92; 114]%N
  else if (b =? 9)%N then [92; 116]%N
  else if (b <? 32)%N || (b =? 60)%N || (b =? 62)%N || (b =? 38)%N
       then [92; 117; 48; 48; hex_digit (b / 16); hex_digit (b mod 16)]%N
  else [b].

Definition json_string (s : list N) : list N := [34%N] ++ flat_map json_escape_byte s ++ [34%N].

Definition simple_escape (e : N) : option N :=
  if (e =? 34)%N then Some 34%N else if (e =? 92)%N then Some 92%N
  else if (e =? 47)%N then Some 47%N else if (e =? 98)%N then Some 8%N
  else if (e =? 102)%N then Some 12%N else if (e =? 110)%N then Some 10%N
  else if (e =? 114)%N then Some 13%N else if (e =? 116)%N then Some 9%N
  else None.

(* The body of a JSON string after its opening quote: (decoded bytes, rest after the closing
   quote).  Raw control characters are refused (as Go does); \uXXXX is accepted below 0x80. *)
Fixpoint json_unquote (bs : list N) (acc : list N) : option (list N * list N) :=
  match bs with
  | [] => None
  | b :: t =>
      if (b =? 34)%N then Some (frev acc, t)
      else if (b <? 32)%N then None
      else if (b =? 92)%N then
        match t with
        | [] => None
        | e :: t' =>
            if (e =? 117)%N then
              match t' with
              | h1 :: h2 :: h3 :: h4 :: t'' =>
                  match hex_val h1, hex_val h2, hex_val h3, hex_val h4 with
                  | Some a, Some b', Some c, Some d =>
                      if (a =? 0)%N && (b' =? 0)%N && (c <? 8)%N
                      then json_unquote t'' ((c * 16 + d)%N :: acc) else None
                  | _, _, _, _ => None
                  end
              | _ => None
              end
            else match simple_escape e with
                 | Some c => json_unquote t' (c :: acc)
                 | None => None
                 end
        end
      else json_unquote t (b :: acc)
  end.

Fixpoint strip_prefix (pre bs : list N) : option (list N) :=
  match pre with
  | [] => Some bs
  | x :: pre' => match bs with
                 | y :: bs' => if (x =? y)%N then strip_prefix pre' bs' else None
                 | [] => None
                 end
  end.

Definition digit_char (n : N) : N := (48 + n)%N.

(* JSON insignificant whitespace that can occur inside a header line *)
Definition is_ws (b : N) : bool := (b =? 32)%N || (b =? 9)%N || (b =? 13)%N.

Fixpoint skip_ws (bs : list N) : list N :=
  match bs with
  | b :: t => if is_ws b then skip_ws t else bs
  | [] => []
  end.

(* the members of the manifest object, and a serialisation style *)
Inductive mfield := FK | FKw | FWfk | FCph | FNp.

Record mstyle := mkMstyle {
  ms_order : list mfield;   (* member order *)
  ms_ws : list N;           (* whitespace put at every place JSON allows it *)
  ms_esc : nat              (* escapes of the key name: 0 = Go's, 1 = minimal with \/, 2 = \u00XX *)
}.

(* Go's own style *)
Definition go_order (m_k_empty : bool) : list mfield :=
  if m_k_empty then [FKw; FWfk; FCph; FNp] else [FK; FKw; FWfk; FCph; FNp].

Section Codec.
  Variable C : crypto.

  (* json.Marshal(&Manifest{...}): fields in struct order, "k" omitted when empty, ids as
     numbers, byte slices as base64 strings. *)
  Definition manifest_json (m : manifest) : list N :=
    str "{"
    ++ (if is_nil (m_k m) then [] else str """k"":" ++ json_string (m_k m) ++ str ",")
    ++ str """kw"":" ++ [digit_char (kwalg_id (m_kw m))]
    ++ str ",""wfk"":""" ++ b64e C (m_wfk m)
    ++ str """,""cph"":" ++ [digit_char (cipher_id (m_cph m))]
    ++ str ",""np"":""" ++ b64e C (m_np m) ++ str """}".

  Definition opt_bind {A B} (o : option A) (f : A -> option B) : option B :=
    match o with Some a => f a | None => None end.

  (* one JSON number that is a valid id: a single digit *)
  Definition take_digit (bs : list N) : option (N * list N) :=
    match bs with
    | d :: t => if (49 <=? d)%N && (d <=? 57)%N then Some ((d - 48)%N, t) else None
    | [] => None
    end.

  (* a base64 JSON string (after its opening quote) *)
  Definition take_b64 (bs : list N) : option (list N * list N) :=
    opt_bind (json_unquote bs []) (fun '(s, r) =>
    opt_bind (b64d C s) (fun v => Some (v, r))).

  (* ---- README-conformant serialisations other than Go's ---- *)

  (* The manifest "is a JSON object, compacted"; the README fixes neither the member order nor
     the string escapes, and JSON allows insignificant whitespace.  [manifest_text sty m] is
     the family of texts an independent implementation may write for [m]: members in the
     order [ms_order] (the key-name member may be left out when the name is empty), the
     whitespace [ms_ws] (spaces, tabs, carriage returns - never a line feed) at every place
     JSON allows it, the key name escaped in one of three styles. *)
  Definition json_escape_min (b : N) : list N :=
    if (b =? 34)%N then [92; 34]%N
    else if (b =? 92)%N then [92; 92]%N
    else if (b =? 47)%N then [92; 47]%N                        (* solidus as \/ (PHP) *)
    else if (b <? 32)%N then [92; 117; 48; 48; hex_digit (b / 16); hex_digit (b mod 16)]%N
    else [b].                                                   (* & < > literally *)

  Definition json_escape_u (b : N) : list N :=
    if (b <? 128)%N then [92; 117; 48; 48; hex_digit (b / 16); hex_digit (b mod 16)]%N
    else [b].

  Definition json_string_sty (esc : nat) (s : list N) : list N :=
    [34%N] ++ flat_map (match esc with
                        | O => json_escape_byte
                        | Datatypes.S O => json_escape_min
                        | _ => json_escape_u
                        end) s ++ [34%N].

  Definition render_member (sty : mstyle) (m : manifest) (f : mfield) : list N :=
    let w := ms_ws sty in
    match f with
    | FK => str """k""" ++ w ++ str ":" ++ w ++ json_string_sty (ms_esc sty) (m_k m)
    | FKw => str """kw""" ++ w ++ str ":" ++ w ++ [digit_char (kwalg_id (m_kw m))]
    | FWfk => str """wfk""" ++ w ++ str ":" ++ w ++ str """" ++ b64e C (m_wfk m) ++ str """"
    | FCph => str """cph""" ++ w ++ str ":" ++ w ++ [digit_char (cipher_id (m_cph m))]
    | FNp => str """np""" ++ w ++ str ":" ++ w ++ str """" ++ b64e C (m_np m) ++ str """"
    end.

  Fixpoint render_members (sty : mstyle) (m : manifest) (fs : list mfield) : list N :=
    match fs with
    | [] => []
    | [f] => render_member sty m f
    | f :: t => render_member sty m f ++ ms_ws sty ++ str "," ++ ms_ws sty ++ render_members sty m t
    end.

  Definition manifest_text (sty : mstyle) (m : manifest) : list N :=
    ms_ws sty ++ str "{" ++ ms_ws sty ++ render_members sty m (ms_order sty) ++ ms_ws sty
    ++ str "}" ++ ms_ws sty.

  (* ---- the parser ---- *)

  (* The manifest language of the model: one JSON object whose members are, in ANY order, the
     five members of the README (a member given twice: the last one counts, as in Go), with
     insignificant whitespace (space, tab, carriage return) wherever JSON allows it and any
     JSON string escapes in names and values below U+0080.  json.Unmarshal accepts still more
     (unknown members, null, case-insensitive names); documents outside this language are
     never given to the model by the harness. *)
  Record pman := mkPman {
    pm_k : list N; pm_kw : option kwalg; pm_wfk : option (list N);
    pm_cph : option cipher; pm_np : option (list N) }.

  Definition pman0 : pman := mkPman [] None None None None.

  (* the value of the member named [key]; the input is positioned at the value *)
  Definition parse_value (key : list N) (st : pman) (bs : list N) : option (pman * list N) :=
    if eqb_listN key (str "k") then
      match bs with
      | q :: r => if (q =? 34)%N then
                    opt_bind (json_unquote r []) (fun '(s, r') =>
                    Some (mkPman s (pm_kw st) (pm_wfk st) (pm_cph st) (pm_np st), r'))
                  else None
      | [] => None
      end
    else if eqb_listN key (str "kw") then
      opt_bind (take_digit bs) (fun '(d, r) =>
      opt_bind (kwalg_of_id d) (fun kw =>
      Some (mkPman (pm_k st) (Some kw) (pm_wfk st) (pm_cph st) (pm_np st), r)))
    else if eqb_listN key (str "wfk") then
      match bs with
      | q :: r => if (q =? 34)%N then
                    opt_bind (take_b64 r) (fun '(v, r') =>
                    Some (mkPman (pm_k st) (pm_kw st) (Some v) (pm_cph st) (pm_np st), r'))
                  else None
      | [] => None
      end
    else if eqb_listN key (str "cph") then
      opt_bind (take_digit bs) (fun '(d, r) =>
      opt_bind (cipher_of_id d) (fun c =>
      Some (mkPman (pm_k st) (pm_kw st) (pm_wfk st) (Some c) (pm_np st), r)))
    else if eqb_listN key (str "np") then
      match bs with
      | q :: r => if (q =? 34)%N then
                    opt_bind (take_b64 r) (fun '(v, r') =>
                    Some (mkPman (pm_k st) (pm_kw st) (pm_wfk st) (pm_cph st) (Some v), r'))
                  else None
      | [] => None
      end
    else None.

  (* members up to and including the closing brace; the input is positioned after the opening
     brace or after a comma *)
  Fixpoint parse_members (fuel : nat) (st : pman) (bs : list N) : option (pman * list N) :=
    match fuel with
    | O => None
    | Datatypes.S f =>
        match skip_ws bs with
        | q :: r =>
            if (q =? 34)%N then
              opt_bind (json_unquote r []) (fun '(key, r1) =>
              match skip_ws r1 with
              | c :: r2 =>
                  if (c =? 58)%N then
                    opt_bind (parse_value key st (skip_ws r2)) (fun '(st', r3) =>
                    match skip_ws r3 with
                    | d :: r4 => if (d =? 44)%N then parse_members f st' r4
                                 else if (d =? 125)%N then Some (st', r4)
                                 else None
                    | [] => None
                    end)
                  else None
              | [] => None
              end)
            else None
        | [] => None
        end
    end.

  Definition parse_manifest (bs : list N) : option manifest :=
    match skip_ws bs with
    | o :: r =>
        if (o =? 123)%N then
          opt_bind (parse_members (List.length r) pman0 r) (fun '(st, rest) =>
          if is_nil (skip_ws rest) then
            match pm_kw st, pm_wfk st, pm_cph st, pm_np st with
            | Some kw, Some wfk, Some cph, Some np => Some (mkManifest (pm_k st) kw wfk cph np)
            | _, _, _, _ => None
            end
          else None)
        else None
    | [] => None
    end.

  (* Manifest.Validate: wrapped key not empty, nonce prefix exactly 7 bytes (the ids were
     already checked by the parser). *)
  Definition manifest_valid (m : manifest) : bool :=
    negb (is_nil (m_wfk m)) && Nat.eqb (List.length (m_np m)) 7.
End Codec.
