(* C01/C02 — the remaining premises of [crypto_ok] for the concrete Gallina primitives:
   the HMAC-SHA-256 output is a non-empty byte string; base64 (std, padded) round-trips
   through the CR/LF-skipping decoder, its output is in the alphabet A-Z a-z 0-9 + / =
   (so harmless inside a JSON string / a header line) and non-empty on non-empty input.
   Together with C01/ConcreteOk.v this gives [concrete_ok : crypto_ok concrete]. *)
From Kit Require Import C01.Manifest C01.Concrete C01.Premises C01.ConcreteOk.
From Kit Require Import Crypto.Words Crypto.SHA256 Crypto.HMAC Crypto.Base64.
From Coq Require Import ZifyBool ZifyN.
Ltac Zify.zify_post_hook ::= Z.div_mod_to_equations.

Local Open Scope N_scope.

(* ------------------------------------------------------------------------------------- *)
(** * HMAC-SHA-256 output: 32 bytes *)

Lemma word_be_bytes_ok w : bytes_ok (word_be_bytes w) = true.
Proof. unfold word_be_bytes. exact (bytes_of_ints_ok [_; _; _; _]). Qed.

Lemma bytes_of_words_be_ok ws : bytes_ok (bytes_of_words_be ws) = true.
Proof.
  unfold bytes_of_words_be, bytes_ok.
  induction ws as [|w ws IH]; cbn [flat_map]; [reflexivity|].
  rewrite forallb_app, IH, andb_true_r. apply word_be_bytes_ok.
Qed.

Lemma sha256_bytes_ok msg : bytes_ok (sha256 msg) = true.
Proof.
  unfold sha256. destruct (sha256_from H256_init msg). unfold st8_bytes.
  apply bytes_of_words_be_ok.
Qed.

Lemma concrete_hmac_bytes : forall k m, bytes_ok (Manifest.hmac concrete k m) = true.
Proof. intros k m. cbn [Manifest.hmac concrete]. unfold hmac_sha256, HMAC.hmac. apply sha256_bytes_ok. Qed.

Lemma concrete_hmac_length : forall k m, length (Manifest.hmac concrete k m) = 32%nat.
Proof. intros k m. cbn [Manifest.hmac concrete]. apply hmac_sha256_length. Qed.

Lemma concrete_hmac_nonempty : forall k m, Manifest.hmac concrete k m <> [].
Proof.
  intros k m Hnil. pose proof (concrete_hmac_length k m) as Hlen.
  rewrite Hnil in Hlen. discriminate Hlen.
Qed.

(* ------------------------------------------------------------------------------------- *)
(** * The base64 alphabet *)

(* A-Z a-z 0-9 + / = *)
Definition b64_alpha (c : N) : bool :=
  ((65 <=? c) && (c <=? 90)) || ((97 <=? c) && (c <=? 122)) || ((48 <=? c) && (c <=? 57))
  || (c =? 43) || (c =? 47) || (c =? 61).

(* total: [b64_std_char] maps every s >= 63 to '/', so no range hypothesis is needed *)
Lemma b64_std_char_alpha s : b64_alpha (b64_std_char s) = true.
Proof.
  unfold b64_alpha, b64_std_char.
  destruct (s <? 26) eqn:H1; [lia|].
  destruct (s <? 52) eqn:H2; [lia|].
  destruct (s <? 62) eqn:H3; [lia|].
  destruct (s =? 62) eqn:H4; reflexivity.
Qed.

Lemma pad_char_alpha : b64_alpha pad_char = true.
Proof. reflexivity. Qed.

Lemma b64_encode_alpha bs : forallb b64_alpha (b64_encode bs) = true.
Proof.
  unfold b64_encode.
  induction bs as [|a|a b|a b c rest IH] using triple_ind;
    cbn [b64_encode_gen forallb]; rewrite ?IH, ?b64_std_char_alpha, ?pad_char_alpha; reflexivity.
Qed.

Lemma b64_alpha_plain c : b64_alpha c = true -> plain_char c.
Proof. unfold b64_alpha, plain_char. lia. Qed.

Lemma b64_alpha_not_crlf c : b64_alpha c = true -> negb ((c =? 10) || (c =? 13)) = true.
Proof. unfold b64_alpha. lia. Qed.

Lemma concrete_b64_plain : forall bs, Forall plain_char (b64e concrete bs).
Proof.
  intro bs. cbn [b64e concrete]. apply Forall_forall. intros c Hin.
  apply b64_alpha_plain.
  pose proof (b64_encode_alpha bs) as Hall. rewrite forallb_forall in Hall. now apply Hall.
Qed.

Lemma filter_id {A} (f : A -> bool) l : forallb f l = true -> filter f l = l.
Proof.
  induction l as [|x l IH]; cbn [forallb filter]; [reflexivity|].
  intro H. apply andb_true_iff in H as [Hx Hl]. rewrite Hx, (IH Hl). reflexivity.
Qed.

Lemma strip_crlf_b64_encode bs : strip_crlf (b64_encode bs) = b64_encode bs.
Proof.
  unfold strip_crlf. apply filter_id. apply forallb_forall. intros c Hin.
  apply b64_alpha_not_crlf.
  pose proof (b64_encode_alpha bs) as Hall. rewrite forallb_forall in Hall. now apply Hall.
Qed.

Lemma concrete_b64_roundtrip :
  forall bs, bytes_ok bs = true -> b64d concrete (b64e concrete bs) = Some bs.
Proof.
  intros bs Hok. cbn [b64d b64e concrete]. unfold b64_decode_nl.
  rewrite strip_crlf_b64_encode. now apply b64_decode_encode.
Qed.

Lemma concrete_b64_nonempty : forall bs, bs <> [] -> b64e concrete bs <> [].
Proof.
  intros bs Hne. cbn [b64e concrete]. unfold b64_encode.
  destruct bs as [|a [|b [|c rest]]]; [now contradiction Hne | | |];
    cbn [b64_encode_gen]; discriminate.
Qed.

(* ------------------------------------------------------------------------------------- *)
(** * All premises *)

Theorem concrete_ok : crypto_ok concrete.
Proof.
  constructor.
  - exact concrete_open_seal.
  - exact concrete_seal_length.
  - exact concrete_b64_roundtrip.
  - exact concrete_b64_plain.
  - exact concrete_b64_nonempty.
  - exact concrete_hmac_bytes.
  - exact concrete_hmac_nonempty.
Qed.

(* non-vacuity: the premise of the round trip is satisfiable, and the facts are visible on a
   concrete instance ("foob" -> "Zm9vYg==", with a line break inserted before decoding) *)
Example concrete_ok_ex :
  bytes_ok [102; 111; 111; 98] = true /\
  b64e concrete [102; 111; 111; 98] = [90; 109; 57; 118; 89; 103; 61; 61] /\
  b64d concrete [90; 109; 57; 118; 13; 10; 89; 103; 61; 61] = Some [102; 111; 111; 98] /\
  length (Manifest.hmac concrete [1; 2; 3] [4; 5]) = 32%nat.
Proof. repeat split; vm_compute; reflexivity. Qed.

Print Assumptions concrete_ok.
