(* C01/C02 — the model of Model.v once more, over the extended readers of ReaderX.v (a read may
   return data TOGETHER with a non-EOF error, once).  Function by function the same text as
   Model.v with [xread] for [read]; on embedded scripts of Lib/Reader.v it computes the same
   results (C02/ProofsX.v: [decrypt_stream_x_emb], [encrypt_stream_wx_emb]), so the theorems of
   Properties/C01.v and C02.v carry over to that part of it.

   Second variant parameter [hv], for readHeader (fixes/C02-header-read-error.patch):
   [Original]: the error of the Read that completed the header is dropped ("return manifest,
   mac, nil") — a non-EOF error delivered together with the last header bytes never surfaces
   unless the source repeats it; [Fixed]: a non-EOF error seen while reading the header is
   returned by Decrypt.  Definitions only. *)
From Kit Require Export C01.Model C01.ReaderX.

Section SchemeX.
  Variable C : crypto.

  Section SegmentsX.
    Variable S : nat.
    Variable fn : list N -> N -> bool -> option (list N).

    (* for n < segmentSize+1 && err == nil { nn, err = in.Read(buf[n:segmentSize+1]); n += nn } *)
    Fixpoint fillx (fuel : nat) (buf : list N) (e : err) (r : list rdx)
      : option (list N * err * list rdx) :=
      if negb (Nat.ltb (List.length buf) (S + 1) && err_is_nil e) then Some (buf, e, r)
      else match fuel with
           | O => None
           | Datatypes.S f =>
               let '(bs, e', r') := xread (S + 1 - List.length buf) r in
               fillx f (buf ++ bs) e' r'
           end.

    Fixpoint psegx (fuel : nat) (r : list rdx) (seg : N) (carry : option N) (e : err)
             (out : list N) : list N * sstatus :=
      match fuel with
      | O => (out, SOutOfFuel)
      | Datatypes.S f =>
          let buf0 := match carry with Some c => [c] | None => [] end in
          match fillx (Datatypes.S (xfuel r)) buf0 e r with
          | None => (out, SOutOfFuel)
          | Some (buf, e1, r1) =>
              (* the bytes read together with a non-EOF error are discarded with it *)
              if negb (err_is_nil e1) && negb (err_is_eof e1) then (out, SSrcFail)
              else
                let big := Nat.ltb S (List.length buf) in
                let carry' := if big then Some (last buf 0%N) else None in
                let data := if big then removelast buf else buf in
                let done := negb big in
                if Nat.ltb (List.length data) S && negb done then (out, SUnexpectedEOF)
                else match data with
                     | [] => if (seg =? 0)%N then (out, SClean) else (out, SUnexpectedEOF)
                     | _ =>
                         match fn data seg done with
                         | None => (out, SProcFail)
                         | Some w =>
                             let out' := out ++ w in
                             if negb done && (seg =? max_segment)%N then (out', STooLarge)
                             else if done then (out', SClean)
                             else psegx f r1 (seg + 1)%N carry' ENil out'
                         end
                     end
          end
      end.

    Definition process_segments_x (r : list rdx) : list N * sstatus :=
      psegx (Datatypes.S (Datatypes.S (List.length (xdata r)))) r 0%N None ENil [].
  End SegmentsX.

  (* readHeader; the result carries the error of the last Read *)
  Inductive hresx :=
  | HXFuel
  | HXErr
  | HXDone (st : hst) (extra : list N) (r : list rdx) (e : err).

  Section HeaderX.
    Variable H : nat.

    Fixpoint rh_loopx (fuel : nat) (n : nat) (st : hst) (r : list rdx) : hresx :=
      match fuel with
      | O => HXFuel
      | Datatypes.S f =>
          if Nat.leb 3 (h_nl st) then HXDone st [] r ENil
          else if Nat.eqb n H then HXDone st [] r ENil
          else
            let '(bs, e, r') := xread (H - n) r in
            match bs with
            | [] => if err_is_nil e then rh_loopx f n st r' else HXDone st [] r' e
            | _ =>
                match scan bs st with
                | None => HXErr
                | Some (st', rest) =>
                    if err_is_nil e && negb (Nat.leb 3 (h_nl st'))
                    then rh_loopx f (n + List.length bs) st' r'
                    else HXDone st' rest r' e
                end
            end
      end.

    Definition read_header_x (hv : variant) (r : list rdx)
      : option (option (list N * list N * list rdx)) :=
      match rh_loopx (Datatypes.S (xfuel r)) 0 hst0 r with
      | HXFuel => None
      | HXErr => Some None
      | HXDone st extra r' e =>
          (* the fix: a non-EOF error of the source is Decrypt's error (the Go code tests this after
             the three format checks below; all four end in the same result, an error of Decrypt) *)
          if is_fixed hv && negb (err_is_nil e) && negb (err_is_eof e) then Some None
          else if Nat.ltb (h_nl st) 1 then Some None
          else if is_nil (h_man st) then Some None
          else if is_nil (h_mac st) then Some None
          else Some (Some (h_man st, h_mac st,
                           match extra with
                           | [] => r'
                           | _ => XD extra :: r'
                           end))
      end.
  End HeaderX.

  (* Encrypt with its callback over an extended source *)
  Definition encrypt_stream_wx (S H : nat) (o : enc_opts) (fk np : list N)
             (wrap : list N -> list N -> list N -> option (list N)) (r : list rdx) : enc_result :=
    match encrypt_wrap_args o with
    | None => EncCallError
    | Some (alg, kn) =>
        match wrap fk alg kn with
        | None => EncCallError
        | Some wfk =>
            match encrypt_manifest o np wfk with
            | None => EncCallError
            | Some m =>
                let header := sign_header C fk (manifest_json C m) in
                if Nat.ltb H (List.length header) then EncCallError
                else
                  let '(out, st) :=
                    process_segments_x S (encrypt_segment C (m_cph m) (payload_key C fk np) np) r in
                  EncStream (header ++ out) st
            end
        end
    end.

  (* Decrypt over an extended source *)
  Definition decrypt_stream_x (v hv : variant) (S H : nat)
             (unwrap : list N -> list N -> list N -> list N * bool)
             (opt_keyname : list N) (r0 : list rdx) : dec_result :=
    match read_header_x H hv r0 with
    | None => DecCallError DEFuel
    | Some None => DecCallError DEHeader
    | Some (Some (man, mac, r)) =>
        match parse_manifest C man with
        | None => DecCallError DEManifest
        | Some m =>
            if negb (manifest_valid m) then DecCallError DEManifest
            else
              let key_name := if is_nil opt_keyname then m_k m else opt_keyname in
              if is_nil key_name then DecCallError DEKeyMissing
              else
                let '(fkb, uerr) := unwrap (m_wfk m) (kwalg_name (m_kw m)) key_name in
                let failed :=
                  match v with
                  | Original => negb (Nat.eqb (List.length fkb) 32)
                  | Fixed => uerr || negb (Nat.eqb (List.length fkb) 32)
                  end in
                let fk := if failed then zero_key else fkb in
                match verify_header C fk man mac with
                | None => DecCallError DEMacFormat
                | Some false => DecCallError DESignature
                | Some true =>
                    if is_fixed v && failed then DecCallError DESignature
                    else
                      let '(out, st) :=
                        process_segments_x (S + 16)
                          (decrypt_segment C (m_cph m) (payload_key C fk (m_np m)) (m_np m)) r in
                      DecStream out st
                end
        end
    end.
End SchemeX.
