(* C01/C02 — proofs about readHeader (Model.v [scan], [rh_loop], [read_header]) for every
   script (every chunking of the input, zero-length reads, EOF with or after the data, a
   failing source), plus [decrypt_key_missing].  The manifest/option-table lemmas are in
   Proofs_Manifest.v (re-exported).
     read_header_complete, read_header_sound, read_header_fuel, read_header_few_nl,
     read_header_src_fail, decrypt_key_missing.
   Stdlib style.  No axioms. *)
From Kit Require Import C01.Sem Lib.ReaderFacts.
From Kit Require Export C01.Proofs_Manifest.
Local Open Scope list_scope.

(* ------------------------------------------------------------------------------------- *)
(* list helpers                                                                            *)

Lemma app_prefix_split {A} (a b c d : list A) :
  a ++ b = c ++ d -> length c <= length a -> exists x, a = c ++ x /\ d = x ++ b.
Proof.
  revert c. induction a as [|y a IH]; intros c Heq Hlen.
  - destruct c as [|z c]; [|cbn [length] in Hlen; lia].
    exists []. cbn [app] in *. split; [reflexivity | symmetry; exact Heq].
  - destruct c as [|z c].
    + exists (y :: a). cbn [app] in *. split; [reflexivity | symmetry; exact Heq].
    + cbn [app length] in *. injection Heq as -> Heq.
      destruct (IH c Heq ltac:(lia)) as (x & -> & ->). exists x. split; reflexivity.
Qed.

Lemma scheme_name_no_nl : no_nl scheme_name.
Proof.
  unfold no_nl.
  let x := eval vm_compute in scheme_name in change scheme_name with x.
  repeat (constructor; try discriminate).
Qed.

Lemma hdr_assoc (man mac p : list N) :
  scheme_name ++ [10%N] ++ man ++ [10%N] ++ mac ++ [10%N] ++ p
  = (scheme_name ++ [10%N] ++ man ++ [10%N] ++ mac ++ [10%N]) ++ p.
Proof. repeat (rewrite <- app_assoc || rewrite <- app_comm_cons). reflexivity. Qed.

(* ------------------------------------------------------------------------------------- *)
(* [scan]: incremental form                                                                *)

Lemma scan_done st a : 3 <= h_nl st -> scan a st = Some (st, a).
Proof.
  intros H3. destruct a as [|b a]; cbn [scan]; [reflexivity|].
  apply Nat.leb_le in H3. rewrite H3. reflexivity.
Qed.

Lemma scan_app a : forall st b,
  scan (a ++ b) st =
  match scan a st with
  | None => None
  | Some (st', rest) => if Nat.leb 3 (h_nl st') then Some (st', rest ++ b) else scan b st'
  end.
Proof.
  induction a as [|x a IH]; intros st b.
  - cbn [app scan]. destruct (Nat.leb 3 (h_nl st)) eqn:E3; [|reflexivity].
    apply scan_done, Nat.leb_le, E3.
  - rewrite <- app_comm_cons. cbn [scan].
    destruct (Nat.leb 3 (h_nl st)) eqn:E3.
    { rewrite E3. rewrite app_comm_cons. reflexivity. }
    destruct (x =? 10)%N.
    + destruct (h_cur st) as [|c0 ct]; [reflexivity|].
      destruct (h_nl st) as [|[|k]].
      * destruct (eqb_listN (frev (c0 :: ct)) scheme_name); [apply IH | reflexivity].
      * apply IH.
      * apply IH.
    + apply IH.
Qed.

(* a whole line without line feed goes into [h_cur] *)
Lemma scan_line l : forall st t,
  no_nl l -> h_nl st < 3 ->
  scan (l ++ t) st = scan t (mkHst (h_nl st) (rev l ++ h_cur st) (h_man st) (h_mac st)).
Proof.
  induction l as [|b l IH]; intros st t Hl H3.
  - destruct st; reflexivity.
  - inversion Hl as [|b' l' Hb Hl']; subst.
    rewrite <- app_comm_cons. cbn [scan].
    apply Nat.leb_gt in H3. rewrite H3.
    apply N.eqb_neq in Hb. rewrite Hb.
    rewrite IH; [|exact Hl' | cbn [h_nl]; apply Nat.leb_gt, H3].
    cbn [h_nl h_cur h_man h_mac rev]. rewrite <- app_assoc. reflexivity.
Qed.

Lemma scan_nl0 c t man mac :
  c <> [] -> rev c = scheme_name ->
  scan (10%N :: t) (mkHst 0 c man mac) = scan t (mkHst 1 [] man mac).
Proof.
  intros Hc Hr. cbn [scan h_nl h_cur h_man h_mac].
  change (Nat.leb 3 0) with false. rewrite N.eqb_refl.
  destruct c as [|c0 ct]; [contradiction|].
  rewrite frev_rev, Hr. replace (eqb_listN scheme_name scheme_name) with true; [reflexivity|].
  symmetry. apply eqb_listN_spec. reflexivity.
Qed.

Lemma scan_nl1 c t man mac :
  c <> [] -> scan (10%N :: t) (mkHst 1 c man mac) = scan t (mkHst 2 [] (rev c) mac).
Proof.
  intros Hc. cbn [scan h_nl h_cur h_man h_mac].
  change (Nat.leb 3 1) with false. rewrite N.eqb_refl.
  destruct c as [|c0 ct]; [contradiction|]. rewrite frev_rev. reflexivity.
Qed.

Lemma scan_nl2 c t man mac :
  c <> [] -> scan (10%N :: t) (mkHst 2 c man mac) = scan t (mkHst 3 [] man (rev c)).
Proof.
  intros Hc. cbn [scan h_nl h_cur h_man h_mac].
  change (Nat.leb 3 2) with false. rewrite N.eqb_refl.
  destruct c as [|c0 ct]; [contradiction|]. rewrite frev_rev. reflexivity.
Qed.

Lemma rev_app_nil_nonempty (l : list N) : l <> [] -> rev l ++ [] <> [].
Proof.
  intros Hl Hr. rewrite app_nil_r in Hr. apply Hl.
  rewrite <- (rev_involutive l), Hr. reflexivity.
Qed.

(* closed form on a well-formed header followed by anything *)
Lemma scan_header man mac rest :
  no_nl man -> no_nl mac -> man <> [] -> mac <> [] ->
  scan (scheme_name ++ [10%N] ++ man ++ [10%N] ++ mac ++ [10%N] ++ rest) hst0
  = Some (mkHst 3 [] man mac, rest).
Proof.
  intros Hman Hmac Hman0 Hmac0.
  rewrite scan_line; [|exact scheme_name_no_nl | cbn [h_nl hst0]; lia].
  cbn [h_nl h_cur h_man h_mac hst0].
  change ([10%N] ++ man ++ [10%N] ++ mac ++ [10%N] ++ rest)
    with (10%N :: man ++ [10%N] ++ mac ++ [10%N] ++ rest).
  rewrite scan_nl0.
  2:{ apply rev_app_nil_nonempty. discriminate. }
  2:{ rewrite app_nil_r. apply rev_involutive. }
  rewrite scan_line; [|exact Hman | cbn [h_nl]; lia].
  cbn [h_nl h_cur h_man h_mac].
  change ([10%N] ++ mac ++ [10%N] ++ rest) with (10%N :: mac ++ [10%N] ++ rest).
  rewrite scan_nl1; [|apply rev_app_nil_nonempty, Hman0].
  rewrite app_nil_r, rev_involutive.
  rewrite scan_line; [|exact Hmac | cbn [h_nl]; lia].
  cbn [h_nl h_cur h_man h_mac].
  change ([10%N] ++ rest) with (10%N :: rest).
  rewrite scan_nl2; [|apply rev_app_nil_nonempty, Hmac0].
  rewrite app_nil_r, rev_involutive.
  apply scan_done. cbn [h_nl]. lia.
Qed.

(* ------------------------------------------------------------------------------------- *)
(* [scan]: the invariant relating a state to the bytes consumed so far                     *)

(* the document prefix a state stands for *)
Definition doc (st : hst) : list N :=
  match h_nl st with
  | 0 => rev (h_cur st)
  | 1 => scheme_name ++ [10%N] ++ rev (h_cur st)
  | 2 => scheme_name ++ [10%N] ++ h_man st ++ [10%N] ++ rev (h_cur st)
  | _ => scheme_name ++ [10%N] ++ h_man st ++ [10%N] ++ h_mac st ++ [10%N]
  end.

Definition wf (st : hst) : Prop :=
  no_nl (h_cur st) /\
  (2 <= h_nl st -> no_nl (h_man st) /\ h_man st <> []) /\
  (3 <= h_nl st -> no_nl (h_mac st) /\ h_mac st <> []) /\
  (h_nl st < 3 -> h_mac st = []) /\
  h_nl st <= 3.

Ltac list_norm :=
  cbn [rev]; repeat (rewrite <- app_assoc || rewrite <- app_comm_cons); cbn [app].

Ltac wf_split :=
  unfold wf; cbn [h_nl h_cur h_man h_mac];
  repeat match goal with |- _ /\ _ => split | |- _ -> _ => intro end.

Lemma wf_hst0 : wf hst0.
Proof.
  unfold wf, hst0; cbn [h_nl h_cur h_man h_mac].
  repeat split; try (intros; lia); try constructor.
Qed.

Lemma no_nl_rev l : no_nl l -> no_nl (rev l).
Proof. unfold no_nl. intros Hl. apply Forall_rev. exact Hl. Qed.

Lemma rev_nonempty {A} (x : A) l : rev (x :: l) <> [].
Proof. cbn [rev]. intros Hr. apply app_eq_nil in Hr as [_ Hr]. discriminate. Qed.

Lemma count_occ_cons_10 a : count_occ N.eq_dec (10%N :: a) 10%N = S (count_occ N.eq_dec a 10%N).
Proof. apply count_occ_cons_eq. reflexivity. Qed.

Lemma scan_inv a : forall st st' rest,
  wf st -> scan a st = Some (st', rest) ->
  wf st' /\ doc st ++ a = doc st' ++ rest /\ (h_nl st' < 3 -> rest = []) /\
  h_nl st' <= h_nl st + count_occ N.eq_dec a 10%N /\ h_nl st <= h_nl st'.
Proof.
  induction a as [|b a IH]; intros st st' rest Hwf Hs.
  - cbn [scan] in Hs. injection Hs as <- <-.
    split; [exact Hwf|]. repeat split; try lia; try (intros; reflexivity).
  - cbn [scan] in Hs.
    destruct (Nat.leb 3 (h_nl st)) eqn:E3.
    { apply Nat.leb_le in E3. injection Hs as <- <-.
      split; [exact Hwf|]. repeat split; try lia; try (intros; lia). }
    apply Nat.leb_gt in E3.
    destruct st as [nl cur man mac]. cbn [h_nl h_cur h_man h_mac] in *.
    destruct Hwf as (Wcur & Wman & Wmac & Wmac0 & Wle). cbn [h_nl h_cur h_man h_mac] in *.
    destruct (b =? 10)%N eqn:Eb.
    + apply N.eqb_eq in Eb. subst b. rewrite count_occ_cons_10.
      destruct cur as [|c0 ct]; [discriminate|]. rewrite frev_rev in Hs.
      destruct nl as [|[|[|k]]]; [| | |lia].
      * destruct (eqb_listN (rev (c0 :: ct)) scheme_name) eqn:El; [|discriminate].
        apply eqb_listN_spec in El.
        apply IH in Hs.
        2:{ wf_split; try lia; try solve [constructor]. apply Wmac0. lia. }
        destruct Hs as (W' & Hd & Hr & Hc & Hm). cbn [h_nl] in Hc, Hm.
        split; [exact W'|]. repeat split; try assumption; try lia.
        rewrite <- Hd. unfold doc; cbn [h_nl h_cur h_man h_mac]. rewrite El.
        list_norm. reflexivity.
      * apply IH in Hs.
        2:{ wf_split; try lia; try solve [constructor].
            - apply no_nl_rev, Wcur.
            - apply rev_nonempty.
            - apply Wmac0. lia. }
        destruct Hs as (W' & Hd & Hr & Hc & Hm). cbn [h_nl] in Hc, Hm.
        split; [exact W'|]. repeat split; try assumption; try lia.
        rewrite <- Hd. unfold doc; cbn [h_nl h_cur h_man h_mac].
        list_norm. reflexivity.
      * apply IH in Hs.
        2:{ wf_split; try lia; try solve [constructor].
            - apply Wman. lia.
            - apply Wman. lia.
            - apply no_nl_rev, Wcur.
            - apply rev_nonempty. }
        destruct Hs as (W' & Hd & Hr & Hc & Hm). cbn [h_nl] in Hc, Hm.
        split; [exact W'|]. repeat split; try assumption; try lia.
        rewrite <- Hd. unfold doc; cbn [h_nl h_cur h_man h_mac].
        list_norm. reflexivity.
    + apply N.eqb_neq in Eb.
      rewrite (count_occ_cons_neq N.eq_dec a Eb).
      apply IH in Hs.
      2:{ wf_split; try lia; try (apply Wman; assumption);
            try (apply Wmac; assumption); try (apply Wmac0; assumption).
          constructor; assumption. }
      destruct Hs as (W' & Hd & Hr & Hc & Hm). cbn [h_nl] in Hc, Hm.
      split; [exact W'|]. repeat split; try assumption; try lia.
      rewrite <- Hd. unfold doc; cbn [h_nl h_cur h_man h_mac].
      destruct nl as [|[|[|k]]]; [| | |lia];
        list_norm; reflexivity.
Qed.

(* from the initial state: three newlines seen = the bytes scanned are a well-formed header *)
Lemma scan0_sound a st rest :
  scan a hst0 = Some (st, rest) -> 3 <= h_nl st ->
  a = scheme_name ++ [10%N] ++ h_man st ++ [10%N] ++ h_mac st ++ [10%N] ++ rest /\
  no_nl (h_man st) /\ no_nl (h_mac st) /\ h_man st <> [] /\ h_mac st <> [].
Proof.
  intros Hs H3.
  destruct (scan_inv a hst0 st rest wf_hst0 Hs) as (W & Hd & _ & _ & _).
  destruct W as (_ & Wman & Wmac & _ & Wle).
  assert (Hnl : h_nl st = 3) by lia.
  unfold doc in Hd. rewrite Hnl in Hd. cbn [hst0 h_nl h_cur rev app] in Hd.
  destruct (Wman ltac:(lia)) as [? ?]. destruct (Wmac ltac:(lia)) as [? ?].
  repeat split; try assumption.
  rewrite Hd. list_norm. reflexivity.
Qed.

Lemma scan0_few a st rest :
  scan a hst0 = Some (st, rest) -> h_nl st < 3 -> h_mac st = [] /\ rest = [].
Proof.
  intros Hs H3.
  destruct (scan_inv a hst0 st rest wf_hst0 Hs) as (W & _ & Hr & _ & _).
  destruct W as (_ & _ & _ & Wmac0 & _). split; [apply Wmac0, H3 | apply Hr, H3].
Qed.

Lemma scan0_count a st rest :
  scan a hst0 = Some (st, rest) -> h_nl st <= count_occ N.eq_dec a 10%N.
Proof.
  intros Hs.
  destruct (scan_inv a hst0 st rest wf_hst0 Hs) as (_ & _ & _ & Hc & _).
  cbn [hst0 h_nl] in Hc. lia.
Qed.

(* ------------------------------------------------------------------------------------- *)
(* one read: what EOF leaves behind (not in [read_step])                                   *)

Lemma read_eof_script want r bs r' : read want r = (bs, EEOF, r') -> script r' = [].
Proof.
  unfold read. intros Hr.
  destruct want as [|w]; [discriminate|].
  destruct (script r) as [|[d| |d|] t] eqn:Hs.
  - injection Hr as _ <-. exact Hs.
  - destruct (Nat.leb (length d) (S w)); discriminate.
  - discriminate.
  - destruct (Nat.leb (length d) (S w)); [|discriminate]. injection Hr as _ <-. reflexivity.
  - discriminate.
Qed.

(* ------------------------------------------------------------------------------------- *)
(* the read loop                                                                           *)

Section HeaderLoop.
  Variable H : nat.

  (* [consumed]: every byte handed to [scan] so far.  The loop never runs out of fuel; when
     it stops, the state is the scan of a prefix of the data, and it stops short of three
     newlines only at the [H] limit or at the end of the data. *)
  Lemma rh_loop_spec : forall fuel n st r consumed,
    script_fuel (script r) < fuel ->
    scan consumed hst0 = Some (st, []) ->
    n = length consumed -> n <= H ->
    match rh_loop H fuel n st r with
    | HFuel => False
    | HErr => exists bs tl, data_of (script r) = bs ++ tl /\ scan (consumed ++ bs) hst0 = None
    | HDone st' extra r' =>
        exists bs, data_of (script r) = bs ++ data_of (script r') /\
          scan (consumed ++ bs) hst0 = Some (st', extra) /\
          ends_eof (script r') = ends_eof (script r) /\ closes r' = closes r /\
          (h_nl st' < 3 -> H <= length (consumed ++ bs) \/ data_of (script r') = [])
    end.
  Proof.
    induction fuel as [|fuel IH]; intros n st r consumed Hfuel Hscan Hn HnH; [lia|].
    cbn [rh_loop].
    destruct (Nat.leb 3 (h_nl st)) eqn:E3.
    { apply Nat.leb_le in E3. exists []. rewrite app_nil_r.
      repeat split; try assumption. intros; lia. }
    destruct (Nat.eqb n H) eqn:EH.
    { apply Nat.eqb_eq in EH. exists []. rewrite app_nil_r.
      repeat split; try assumption. intros _. left. lia. }
    apply Nat.eqb_neq in EH.
    destruct (read (H - n) r) as [[bs e] r'] eqn:Hr.
    assert (Hw : 0 < H - n) by lia.
    destruct (read_step _ _ _ _ _ Hw Hr) as (Hdata & Hcl & Hlen & He).
    assert (Hsc : forall bs', scan (consumed ++ bs') hst0 = scan bs' st).
    { intros bs'. rewrite scan_app, Hscan, E3. reflexivity. }
    destruct bs as [|b bs].
    - cbn [app] in Hdata. destruct e; cbn [err_is_nil]; try contradiction.
      + (* (0, nil): continue *)
        destruct He as [Hee Hf].
        specialize (IH n st r' consumed ltac:(lia) Hscan Hn HnH).
        destruct (rh_loop H fuel n st r') as [| |st' extra r''].
        * exact IH.
        * destruct IH as (bs1 & tl & Hd1 & Hs1). exists bs1, tl.
          split; [congruence | exact Hs1].
        * destruct IH as (bs1 & Hd1 & Hs1 & He1 & Hc1 & Hlt). exists bs1.
          repeat split; try congruence. exact Hlt.
      + (* (0, EOF) *)
        destruct He as [Hd' Hee]. exists []. rewrite app_nil_r.
        repeat split; try assumption.
        * rewrite (read_eof_script _ _ _ _ Hr). symmetry. exact Hee.
        * intros _. right. exact Hd'.
      + (* (0, failure) *)
        destruct He as (_ & Hd0 & Hee & ->). exists []. rewrite app_nil_r.
        repeat split; try assumption. intros _. right. exact Hd0.
    - remember (b :: bs) as bs0 eqn:Hbs0.
      replace (match bs0 with [] => if err_is_nil e then rh_loop H fuel n st r'
                                    else HDone st [] r'
                        | _ :: _ =>
                            match scan bs0 st with
                            | Some (st', rest) =>
                                if err_is_nil e && negb (Nat.leb 3 (h_nl st'))
                                then rh_loop H fuel (n + length bs0) st' r'
                                else HDone st' rest r'
                            | None => HErr
                            end
               end)
        with (match scan bs0 st with
              | Some (st', rest) =>
                  if err_is_nil e && negb (Nat.leb 3 (h_nl st'))
                  then rh_loop H fuel (n + length bs0) st' r'
                  else HDone st' rest r'
              | None => HErr
              end) by (rewrite Hbs0; reflexivity).
      destruct (scan bs0 st) as [[st' rest]|] eqn:Hs.
      2:{ exists bs0, (data_of (script r')). split; [exact Hdata | rewrite Hsc; exact Hs]. }
      assert (Hs' : scan (consumed ++ bs0) hst0 = Some (st', rest)) by (rewrite Hsc; exact Hs).
      destruct e; cbn [err_is_nil andb]; try contradiction.
      + destruct He as [Hee Hf].
        destruct (Nat.leb 3 (h_nl st')) eqn:E3'; cbn [negb].
        * apply Nat.leb_le in E3'. exists bs0.
          repeat split; try assumption. intros; lia.
        * apply Nat.leb_gt in E3'.
          destruct (scan0_few _ _ _ Hs' E3') as [_ ->].
          specialize (IH (n + length bs0) st' r' (consumed ++ bs0) ltac:(lia) Hs').
          rewrite app_length in IH. specialize (IH ltac:(lia) ltac:(lia)).
          destruct (rh_loop H fuel (n + length bs0) st' r') as [| |st'' extra r''].
          -- exact IH.
          -- destruct IH as (bs1 & tl & Hd1 & Hs1). exists (bs0 ++ bs1), tl.
             rewrite Hdata, Hd1. rewrite !app_assoc. split; [reflexivity | exact Hs1].
          -- destruct IH as (bs1 & Hd1 & Hs1 & He1 & Hc1 & Hlt). exists (bs0 ++ bs1).
             rewrite !app_assoc.
             repeat split; try congruence.
             ++ rewrite Hdata, Hd1. rewrite !app_assoc. reflexivity.
             ++ exact Hlt.
      + destruct He as [Hd' Hee]. exists bs0.
        repeat split; try assumption.
        * rewrite (read_eof_script _ _ _ _ Hr). symmetry. exact Hee.
        * intros _. right. exact Hd'.
      + destruct He as (Hnil & _). rewrite Hbs0 in Hnil. discriminate.
  Qed.

  Lemma rh_loop_start sc :
    match rh_loop H (S (script_fuel sc)) 0 hst0 {| script := sc; closes := 0 |} with
    | HFuel => False
    | HErr => exists bs tl, data_of sc = bs ++ tl /\ scan bs hst0 = None
    | HDone st' extra r' =>
        exists bs, data_of sc = bs ++ data_of (script r') /\
          scan bs hst0 = Some (st', extra) /\
          ends_eof (script r') = ends_eof sc /\ closes r' = 0 /\
          (h_nl st' < 3 -> H <= length bs \/ data_of (script r') = [])
    end.
  Proof.
    exact (rh_loop_spec (S (script_fuel sc)) 0 hst0 {| script := sc; closes := 0 |} []
             (Nat.lt_succ_diag_r _) eq_refl eq_refl (Nat.le_0_l _)).
  Qed.

  (* pushing the surplus back in front of the script *)
  Lemma pushback extra r' :
    let r'' := match extra with [] => r' | _ => with_script r' (Data extra :: script r') end in
    data_of (script r'') = extra ++ data_of (script r') /\
    ends_eof (script r'') = ends_eof (script r') /\ closes r'' = closes r'.
  Proof. destruct extra; cbn; repeat split. Qed.

  (* A2 (fuel): the fuel of [read_header] always suffices *)
  Lemma read_header_fuel sc : read_header H {| script := sc; closes := 0 |} <> None.
  Proof.
    unfold read_header. cbn [script]. pose proof (rh_loop_start sc) as Hl.
    destruct (rh_loop H (S (script_fuel sc)) 0 hst0 {| script := sc; closes := 0 |})
      as [| |st' extra r']; [contradiction | discriminate |].
    destruct (Nat.ltb (h_nl st') 1); [discriminate|].
    destruct (is_nil (h_man st')); [discriminate|].
    destruct (is_nil (h_mac st')); discriminate.
  Qed.

  (* A1 *)
  Lemma read_header_complete (sc : list rd) (man mac payload : list N) :
    data_of sc = scheme_name ++ [10%N] ++ man ++ [10%N] ++ mac ++ [10%N] ++ payload ->
    no_nl man -> no_nl mac -> man <> [] -> mac <> [] ->
    length (scheme_name ++ [10%N] ++ man ++ [10%N] ++ mac ++ [10%N]) <= H ->
    exists r', read_header H {| script := sc; closes := 0 |} = Some (Some (man, mac, r')) /\
               data_of (script r') = payload /\ ends_eof (script r') = ends_eof sc.
  Proof.
    intros Hdata Hman Hmac Hman0 Hmac0 HlenH.
    assert (Hfull : scan (data_of sc) hst0 = Some (mkHst 3 [] man mac, payload)).
    { rewrite Hdata. apply scan_header; assumption. }
    unfold read_header. cbn [script]. pose proof (rh_loop_start sc) as Hl.
    destruct (rh_loop H (S (script_fuel sc)) 0 hst0 {| script := sc; closes := 0 |})
      as [| |st' extra r'].
    - contradiction.
    - exfalso. destruct Hl as (bs & tl & Hd & Hs).
      rewrite Hd, scan_app, Hs in Hfull. discriminate.
    - destruct Hl as (bs & Hd & Hs & He & Hc & Hlt).
      pose proof Hfull as Hfull'. rewrite Hd, scan_app, Hs in Hfull'.
      destruct (Nat.leb 3 (h_nl st')) eqn:E3.
      + injection Hfull' as -> Hpay. cbn [h_nl h_man h_mac].
        change (Nat.ltb 3 1) with false. cbv iota.
        destruct man as [|m0 mt]; [contradiction|].
        destruct mac as [|c0 ct]; [contradiction|]. cbn [is_nil].
        eexists. split; [reflexivity|].
        destruct (pushback extra r') as (Hpd & Hpe & _).
        split; [rewrite Hpd; exact Hpay | rewrite Hpe; exact He].
      + exfalso. apply Nat.leb_gt in E3.
        destruct (Hlt E3) as [HH | Hnil].
        * rewrite Hdata, hdr_assoc in Hd. symmetry in Hd.
          destruct (app_prefix_split _ _ _ _ Hd ltac:(lia)) as (x & Hbs & _).
          rewrite Hbs, <- hdr_assoc, scan_header in Hs by assumption.
          injection Hs as <- _. cbn [h_nl] in E3. lia.
        * rewrite Hnil in Hfull'. cbn [scan] in Hfull'.
          injection Hfull' as -> _. cbn [h_nl] in E3. lia.
  Qed.

  (* A2: for arbitrary (adversarial) input; [ends_eof] is preserved in every corner *)
  Lemma read_header_sound sc man mac r' :
    read_header H {| script := sc; closes := 0 |} = Some (Some (man, mac, r')) ->
    data_of sc = scheme_name ++ [10%N] ++ man ++ [10%N] ++ mac ++ [10%N] ++ data_of (script r') /\
    no_nl man /\ no_nl mac /\ man <> [] /\ mac <> [] /\ ends_eof (script r') = ends_eof sc.
  Proof.
    unfold read_header. cbn [script]. pose proof (rh_loop_start sc) as Hl.
    destruct (rh_loop H (S (script_fuel sc)) 0 hst0 {| script := sc; closes := 0 |})
      as [| |st' extra r'']; [contradiction | discriminate |].
    intros Hrh.
    destruct (Nat.ltb (h_nl st') 1); [discriminate|].
    destruct (is_nil (h_man st')); [discriminate|].
    destruct (is_nil (h_mac st')) eqn:Emac; [discriminate|].
    injection Hrh as <- <- <-.
    destruct Hl as (bs & Hd & Hs & He & Hc & _).
    assert (H3 : 3 <= h_nl st').
    { destruct (Nat.lt_ge_cases (h_nl st') 3) as [Hlt|Hge]; [|exact Hge].
      destruct (scan0_few _ _ _ Hs Hlt) as [Hm _]. rewrite Hm in Emac. discriminate. }
    destruct (scan0_sound _ _ _ Hs H3) as (Hbs & Hn1 & Hn2 & Hm1 & Hm2).
    destruct (pushback extra r'') as (Hpd & Hpe & _).
    repeat split; try assumption.
    - rewrite Hpd, Hd, Hbs. repeat rewrite <- app_assoc. reflexivity.
    - rewrite Hpe. exact He.
  Qed.

  (* A3: fewer than three line feeds in the data (whatever ends it): an error *)
  Lemma read_header_few_nl sc :
    count_occ N.eq_dec (data_of sc) 10%N < 3 ->
    read_header H {| script := sc; closes := 0 |} = Some None.
  Proof.
    intros Hcnt.
    unfold read_header. cbn [script]. pose proof (rh_loop_start sc) as Hl.
    destruct (rh_loop H (S (script_fuel sc)) 0 hst0 {| script := sc; closes := 0 |})
      as [| |st' extra r'']; [contradiction | reflexivity |].
    destruct Hl as (bs & Hd & Hs & _).
    assert (H3 : h_nl st' < 3).
    { pose proof (scan0_count _ _ _ Hs) as Hc.
      rewrite Hd, count_occ_app in Hcnt. lia. }
    destruct (scan0_few _ _ _ Hs H3) as [Hm _]. rewrite Hm. cbn [is_nil].
    destruct (Nat.ltb (h_nl st') 1); [reflexivity|].
    destruct (is_nil (h_man st')); reflexivity.
  Qed.

  Lemma read_header_src_fail sc :
    ends_eof sc = false -> count_occ N.eq_dec (data_of sc) 10%N < 3 ->
    read_header H {| script := sc; closes := 0 |} = Some None.
  Proof. intros _. apply read_header_few_nl. Qed.
End HeaderLoop.

(* non-vacuity: a zero-length read, the header in pieces, a piece that straddles the third
   line feed (its tail is pushed back when H allows reading it, left in place when H = the
   header length cuts the read), then EOF with the last data *)
Example read_header_complete_ex :
  let sc := [Data (firstn 5 scheme_name); Zero;
             Data (skipn 5 scheme_name ++ [10; 65; 66; 10]%N); Data [67; 10; 1; 2]%N;
             DataEOF [3; 4]%N] in
  let r' := {| script := [Data [1; 2]%N; DataEOF [3; 4]%N]; closes := 0 |} in
  data_of sc = scheme_name ++ [10%N] ++ [65; 66]%N ++ [10%N] ++ [67%N] ++ [10%N] ++ [1; 2; 3; 4]%N /\
  length (scheme_name ++ [10%N] ++ [65; 66]%N ++ [10%N] ++ [67%N] ++ [10%N]) = 20 /\
  read_header 20 {| script := sc; closes := 0 |} = Some (Some ([65; 66]%N, [67%N], r')) /\
  read_header 30 {| script := sc; closes := 0 |} = Some (Some ([65; 66]%N, [67%N], r')) /\
  read_header 19 {| script := sc; closes := 0 |} = Some None.
Proof. vm_compute. repeat split. Qed.

(* a failing source after the header stays failing *)
Example read_header_sound_ex :
  let sc := [Data (scheme_name ++ [10; 65; 10; 66; 10; 9]%N); Fail] in
  read_header 64 {| script := sc; closes := 0 |}
  = Some (Some ([65%N], [66%N], {| script := [Data [9%N]; Fail]; closes := 0 |})) /\
  ends_eof sc = false.
Proof. vm_compute. split; reflexivity. Qed.

Example read_header_src_fail_ex :
  let sc := [Data (scheme_name ++ [10; 65]%N); Zero; Data [10; 66]%N; Fail] in
  ends_eof sc = false /\ count_occ N.eq_dec (data_of sc) 10%N = 2 /\
  read_header 64 {| script := sc; closes := 0 |} = Some None.
Proof. vm_compute. repeat split. Qed.

(* ------------------------------------------------------------------------------------- *)
(* C10: a valid document without key name, no key name option: ErrDecryptionKeyMissing     *)

Section KeyMissing.
  Variable C : crypto.
  Hypothesis Hok : crypto_ok C.

  Lemma decrypt_key_missing v S H unwrap sc m fk p :
    manifest_bytes_ok m -> manifest_valid m = true -> m_k m = [] ->
    data_of sc = encrypt_doc C S m fk p ->
    length (spec_header C fk (manifest_json C m)) <= H ->
    decrypt_stream C v S H unwrap [] sc = DecCallError DEKeyMissing.
  Proof.
    intros Hbytes Hvalid Hk Hdata HlenH.
    unfold encrypt_doc in Hdata.
    set (man := manifest_json C m) in *.
    set (mac := b64e C (hmac C (spec_mac_key C fk) (spec_signed_part man))) in *.
    assert (Hhdr : spec_header C fk man
                   = scheme_name ++ [10%N] ++ man ++ [10%N] ++ mac ++ [10%N]).
    { unfold spec_header, spec_signed_part. fold mac.
      change spec_scheme_line with scheme_name.
      repeat rewrite <- app_assoc. reflexivity. }
    rewrite Hhdr in Hdata, HlenH. rewrite <- hdr_assoc in Hdata.
    destruct (read_header_complete H sc man mac _ Hdata) as (r' & Hrh & _ & _).
    - apply manifest_json_no_nl, Hok.
    - apply b64e_no_nl, Hok.
    - apply manifest_json_nonempty.
    - apply (ok_b64_nonempty C Hok), (ok_hmac_nonempty C Hok).
    - exact HlenH.
    - unfold decrypt_stream. rewrite Hrh.
      unfold man. rewrite (parse_manifest_json C Hok m Hbytes).
      rewrite Hvalid. cbn [negb is_nil]. rewrite Hk. reflexivity.
  Qed.

  (* non-vacuity (for any primitives satisfying the premises) *)
  Example decrypt_key_missing_ex :
    exists sc m fk p S H,
      manifest_bytes_ok m /\ manifest_valid m = true /\ m_k m = [] /\
      data_of sc = encrypt_doc C S m fk p /\
      length (spec_header C fk (manifest_json C m)) <= H.
  Proof.
    exists [DataEOF (encrypt_doc C 4 (mkManifest [] A256KW [1%N] AESGCM [1; 2; 3; 4; 5; 6; 7]%N)
                       [9%N] [1; 2; 3; 4; 5]%N)],
      (mkManifest [] A256KW [1%N] AESGCM [1; 2; 3; 4; 5; 6; 7]%N), [9%N], [1; 2; 3; 4; 5]%N, 4.
    eexists. repeat split. apply Nat.le_refl.
  Qed.
End KeyMissing.
