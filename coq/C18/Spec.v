(* C18 — what the property demands, written from its text (properties.jsonl) over what a
   reader of the target path can see ([view]) and the list of Write calls made so far:

   "At every instant — including if the process dies between any two filesystem steps of
   Write — the target path is either absent (before the first successful write) or resolves to
   a directory holding exactly the complete set of files of a single Write call, never a
   partial or mixed set. After any such crash a fresh Dir on the same target can Write
   successfully, after which the target shows the new set; without crashes, only the current
   version directory remains after each Write." *)
From Kit Require Export C18.Model.

(* the same finite map name -> bytes (file sets are Go maps: names are unique) *)
Definition same_files (a b : files) : Prop := incl a b /\ incl b a.

(* the view is a directory holding exactly the file set [fl] *)
Definition shows (v : view) (fl : files) : Prop := exists l, v = VSet l /\ same_files l fl.

(* [calls]: the file sets of the Write calls started so far; [succeeded]: some Write call has
   already returned nil. *)
Definition view_ok (calls : list files) (succeeded : bool) (v : view) : Prop :=
  (v = VAbsent /\ succeeded = false) \/ exists fl, In fl calls /\ shows v fl.

(* a file set is a map with usable names: unique, each a single path component *)
Definition simple_key (k : key) : Prop := length k = 1.
Definition files_valid (fl : files) : Prop :=
  NoDup (map fst fl) /\ forall k, In k (map fst fl) -> simple_key k.

(* ------------------------------------------------------------------------------------- *)
(* boolean oracles, evaluated on what the implementation was observed to do                *)

Fixpoint key_eqb (a b : key) : bool :=
  match a, b with
  | [], [] => true
  | x :: a', y :: b' => (x =? y)%N && key_eqb a' b'
  | _, _ => false
  end.

Definition file_eqb (x y : key * bytes) : bool := key_eqb (fst x) (fst y) && eqb_listN (snd x) (snd y).

Definition file_mem (x : key * bytes) (l : files) : bool := existsb (file_eqb x) l.

Definition same_files_b (a b : files) : bool :=
  forallb (fun x => file_mem x b) a && forallb (fun x => file_mem x a) b.

Definition shows_b (v : view) (fl : files) : bool :=
  match v with VSet l => same_files_b l fl | _ => false end.

Definition view_ok_b (calls : list files) (succeeded : bool) (v : view) : bool :=
  match v with
  | VAbsent => negb succeeded
  | VSet _ => existsb (shows_b v) calls
  | VBroken => false
  end.

Fixpoint nodup_keys (l : list key) : bool :=
  match l with
  | [] => true
  | k :: t => negb (existsb (key_eqb k) t) && nodup_keys t
  end.

Definition files_valid_b (fl : files) : bool :=
  nodup_keys (map fst fl) && forallb (fun k => Nat.eqb (length k) 1) (map fst fl).
