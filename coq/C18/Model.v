(* C18 — dir.Write (/repo/concurrency/dir/dir.go): a filesystem model with POSIX step
   semantics, the exact step list one [Write] performs, crashes as prefixes of that list.
   Definitions only.

   Paths are lists of abstract components. The three name forms the code derives from the
   target's base name T — "T" itself, "T.new" and "<unix-nanos>-T" — are the constructors
   [CTgt], [CNew], [CVer ts]; they are pairwise different strings for every T and every
   timestamp (different lengths, or different character multisets), which is all the abstraction
   assumes. [CN k] stands for every other name (components of the base directory, file names).
   All paths are absolute below a root [[]] that always exists (the harness's temp directory);
   the code never walks THROUGH a symlink (the base's components are real directories, version
   directories are addressed directly), only a reader of the target does ([resolve]). *)
From Kit Require Export Lib.Base.

Definition bytes := list N.

Inductive comp := CN (k : N) | CTgt | CNew | CVer (ts : N).
Definition path := list comp.

Inductive node := NDir | NFile (b : bytes) | NLink (to : path).

(* The filesystem: a finite map path -> node as an association list; the operations below keep
   at most one binding per path. *)
Definition fs := list (path * node).

Definition comp_eqb (a b : comp) : bool :=
  match a, b with
  | CN x, CN y => (x =? y)%N
  | CTgt, CTgt => true
  | CNew, CNew => true
  | CVer x, CVer y => (x =? y)%N
  | _, _ => false
  end.

Fixpoint path_eqb (p q : path) : bool :=
  match p, q with
  | [], [] => true
  | a :: p', b :: q' => comp_eqb a b && path_eqb p' q'
  | _, _ => false
  end.

(* [is_prefix p q]: p is a (not necessarily proper) prefix of q *)
Fixpoint is_prefix (p q : path) : bool :=
  match p, q with
  | [], _ => true
  | a :: p', b :: q' => comp_eqb a b && is_prefix p' q'
  | _ :: _, [] => false
  end.

Definition node_eqb (a b : node) : bool :=
  match a, b with
  | NDir, NDir => true
  | NFile x, NFile y => eqb_listN x y
  | NLink x, NLink y => path_eqb x y
  | _, _ => false
  end.

Fixpoint fs_get (f : fs) (p : path) : option node :=
  match f with
  | [] => None
  | (q, n) :: t => if path_eqb q p then Some n else fs_get t p
  end.

Definition fs_del (f : fs) (p : path) : fs :=
  filter (fun e => negb (path_eqb (fst e) p)) f.

Definition fs_put (f : fs) (p : path) (n : node) : fs := (p, n) :: fs_del f p.

(* remove p and everything below it *)
Definition fs_del_tree (f : fs) (p : path) : fs :=
  filter (fun e => negb (is_prefix p (fst e))) f.

Definition parent (p : path) : path := removelast p.

Definition is_dir (f : fs) (p : path) : bool :=
  match fs_get f p with Some NDir => true | _ => false end.

Definition strictly_below (p q : path) : bool := is_prefix p q && negb (path_eqb p q).

Definition has_children (f : fs) (p : path) : bool :=
  existsb (fun e => strictly_below p (fst e)) f.

(* ------------------------------------------------------------------------------------- *)
(* POSIX steps. [None] = the call returns an error and changes nothing.                    *)

(* all non-empty prefixes of p, shortest first *)
Fixpoint prefixes_from (pre rest : path) : list path :=
  match rest with
  | [] => []
  | c :: r => (pre ++ [c]) :: prefixes_from (pre ++ [c]) r
  end.
Definition prefixes (p : path) : list path := prefixes_from [] p.

Definition mkdir1 (f : fs) (p : path) : option fs :=
  match fs_get f p with
  | Some NDir => Some f
  | Some _ => None                      (* ENOTDIR / EEXIST *)
  | None => if is_dir f (parent p) then Some (fs_put f p NDir) else None
  end.

Fixpoint mkdir_chain (f : fs) (ps : list path) : option fs :=
  match ps with
  | [] => Some f
  | p :: t => match mkdir1 f p with Some f' => mkdir_chain f' t | None => None end
  end.

(* os.MkdirAll *)
Definition mkdir_all (f : fs) (p : path) : option fs := mkdir_chain f (prefixes p).

(* os.WriteFile = open(O_WRONLY|O_CREATE|O_TRUNC) + write: the parent must be a directory
   (ENOENT / ENOTDIR), the path itself must not be a directory (EISDIR). A symlink at the path
   would be followed by the OS; version directories never hold links, the model refuses. *)
Definition write_file (f : fs) (p : path) (b : bytes) : option fs :=
  match p with
  | [] => None
  | _ =>
    if is_dir f (parent p) then
      match fs_get f p with
      | None | Some (NFile _) => Some (fs_put f p (NFile b))
      | Some NDir | Some (NLink _) => None
      end
    else None
  end.

(* os.Remove with a not-exist error ignored (the fix's stale-link removal): removes a file, a
   symlink (the link itself) or an EMPTY directory. *)
Definition remove_if_exists (f : fs) (p : path) : option fs :=
  match fs_get f p with
  | None => Some f
  | Some NDir => if has_children f p then None else Some (fs_del f p)
  | Some _ => Some (fs_del f p)
  end.

(* os.Symlink(content, lnk): EEXIST whatever is at [lnk] (links are not followed) *)
Definition symlink (f : fs) (content lnk : path) : option fs :=
  match fs_get f lnk with
  | Some _ => None
  | None => if is_dir f (parent lnk) then Some (fs_put f lnk (NLink content)) else None
  end.

(* os.Rename(old, new) of a non-directory: one atomic step; replaces a file or link at [new],
   refuses a directory there. (Renaming a directory is not modelled: [old] is the link the
   previous step created.) *)
Definition rename (f : fs) (old new : path) : option fs :=
  match fs_get f old with
  | None | Some NDir => None
  | Some n =>
    match fs_get f new with
    | Some NDir => None
    | _ => if is_dir f (parent new) then Some (fs_put (fs_del f old) new n) else None
    end
  end.

(* os.RemoveAll: never fails here (a missing path is not an error) *)
Definition remove_all (f : fs) (p : path) : option fs := Some (fs_del_tree f p).

Inductive step :=
| SMkdirAll (p : path)
| SWriteFile (p : path) (b : bytes)
| SRemove (p : path)
| SSymlink (content lnk : path)
| SRename (old new : path)
| SRemoveAll (p : path).

Definition exec (f : fs) (s : step) : option fs :=
  match s with
  | SMkdirAll p => mkdir_all f p
  | SWriteFile p b => write_file f p b
  | SRemove p => remove_if_exists f p
  | SSymlink c a => symlink f c a
  | SRename o n => rename f o n
  | SRemoveAll p => remove_all f p
  end.

(* run the steps until the first one fails: (filesystem reached, all succeeded) *)
Fixpoint run_steps (f : fs) (ss : list step) : fs * bool :=
  match ss with
  | [] => (f, true)
  | s :: t => match exec f s with Some f' => run_steps f' t | None => (f, false) end
  end.

(* ------------------------------------------------------------------------------------- *)
(* dir.Dir                                                                                 *)

(* A file name handed to Write is a relative path ("a", "sub/a", ""); a simple name has one
   component. *)
Definition key := list N.
Definition keypath (k : key) : path := map CN k.
Definition files := list (key * bytes).      (* a Go map in ITERATION order: the order is an input *)

Definition target (base : path) : path := base ++ [CTgt].          (* d.target *)
Definition tnew (base : path) : path := base ++ [CNew].            (* d.target + ".new" *)
Definition ver (base : path) (ts : N) : path := base ++ [CVer ts]. (* newDir *)

(* func (d *Dir) Write(files), dir.go:50-90, as the list of filesystem steps in the code's
   order; [prev] = d.prev, [ts] = time.Now().UTC().UnixNano(). Fixed: a stale <target>.new is
   removed before the symlink is created. *)
Definition write_steps (v : variant) (base : path) (prev : option path) (ts : N) (fl : files)
  : list step :=
  let nd := ver base ts in
  [SMkdirAll base; SMkdirAll nd]
  ++ map (fun kb : key * bytes => SWriteFile (nd ++ keypath (fst kb)) (snd kb)) fl
  ++ (if is_fixed v then [SRemove (tnew base)] else [])
  ++ [SSymlink nd (tnew base); SRename (tnew base) (target base)]
  ++ match prev with Some p => [SRemoveAll p] | None => [] end.

Inductive outcome := Done | Failed | Crashed.

Definition outcome_eqb (a b : outcome) : bool :=
  match a, b with Done, Done | Failed, Failed | Crashed, Crashed => true | _, _ => false end.

(* the disk and the one in-memory field of the live Dir value *)
Record st := mkSt { sfs : fs; sprev : option path }.

(* One call of Write. [crash = Some k]: the process dies after k steps of this call (the Dir
   value dies with it: the next Write comes from a fresh Dir, prev = nil); if a step fails
   before that, Write has returned its error instead. *)
Definition write (v : variant) (base : path) (s : st) (ts : N) (fl : files) (crash : option nat)
  : st * outcome :=
  let steps := write_steps v base (sprev s) ts fl in
  match crash with
  | None =>
      let '(f', ok) := run_steps (sfs s) steps in
      if ok then (mkSt f' (Some (ver base ts)), Done) else (mkSt f' (sprev s), Failed)
  | Some k =>
      let '(f', ok) := run_steps (sfs s) (firstn k steps) in
      if ok then (mkSt f' None, Crashed) else (mkSt f' (sprev s), Failed)
  end.

(* histories: Writes (crashing or not) and clean restarts (a new Dir value without a crash) *)
Inductive op :=
| OWrite (ts : N) (fl : files) (crash : option nat)
| ORestart.

Definition run_op (v : variant) (base : path) (s : st) (o : op) : st * list outcome :=
  match o with
  | OWrite ts fl crash => let '(s', r) := write v base s ts fl crash in (s', [r])
  | ORestart => (mkSt (sfs s) None, [])
  end.

Fixpoint run_hist (v : variant) (base : path) (s : st) (h : list op) : st * list outcome :=
  match h with
  | [] => (s, [])
  | o :: t => let '(s1, r1) := run_op v base s o in
              let '(s2, r2) := run_hist v base s1 t in (s2, r1 ++ r2)
  end.

Definition fs0 : fs := [([], NDir)].
Definition st0 : st := mkSt fs0 None.

(* ------------------------------------------------------------------------------------- *)
(* What a reader of the target sees.                                                       *)

Inductive view :=
| VAbsent                 (* the target path does not exist *)
| VSet (l : files)        (* it resolves to a directory holding exactly these plain files *)
| VBroken.                (* anything else: dangling link, not a directory, sub-directories … *)

Definition below (f : fs) (p : path) : list (path * node) :=
  filter (fun e => strictly_below p (fst e)) f.

(* an entry below directory p as a (name, content) pair, if it is a plain file directly in p *)
Definition as_file (p : path) (e : path * node) : option (key * bytes) :=
  match skipn (length p) (fst e), snd e with
  | [CN k], NFile b => Some ([k], b)
  | _, _ => None
  end.

Fixpoint all_some {A} (l : list (option A)) : option (list A) :=
  match l with
  | [] => Some []
  | Some a :: t => match all_some t with Some r => Some (a :: r) | None => None end
  | None :: _ => None
  end.

Definition list_dir (f : fs) (p : path) : option files := all_some (map (as_file p) (below f p)).

Definition view_dir (f : fs) (p : path) : view :=
  match list_dir f p with Some l => VSet l | None => VBroken end.

Definition resolve (f : fs) (t : path) : view :=
  match fs_get f t with
  | None => VAbsent
  | Some NDir => view_dir f t
  | Some (NFile _) => VBroken
  | Some (NLink to) =>
      match fs_get f to with
      | Some NDir => view_dir f to
      | _ => VBroken
      end
  end.

(* version directories present directly under base *)
Definition ver_dirs (f : fs) (base : path) : list N :=
  flat_map (fun e : path * node =>
              if is_prefix base (fst e) then
                match skipn (length base) (fst e) with [CVer ts] => [ts] | _ => [] end
              else []) f.
