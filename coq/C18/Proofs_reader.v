(* C18 — a reader that is NOT atomic: it resolves the target link at one instant, reads the
   listing and the files through the resolved path at later instants, and resolves the link
   again at the end (the protocol of the harness's reader goroutines). Theorems over the FULL
   trace of filesystem states a history passes through (every state between any two steps of
   any Write): the link never returns to a version it has left, and while it points to a
   version directory nothing below that directory changes. *)
From Kit Require Import C18.Model C18.Spec C18.Check C18.Proofs_fs C18.Proofs_inv C18.Proofs.
From Coq Require Import Permutation.

(* ------------------------------------------------------------------------------------- *)
(* lists split by a boolean predicate: p* (~p)*  and  (~p)* p* (~p)*                        *)

Section Regions.
Context {A : Type} (p : A -> bool).

Definition allp (l : list A) : Prop := Forall (fun x => p x = true) l.
Definition nonp (l : list A) : Prop := Forall (fun x => p x = false) l.

Definition initial (tr : list A) : Prop := exists X Y, tr = X ++ Y /\ allp X /\ nonp Y.
Definition contig (tr : list A) : Prop :=
  exists W X Y, tr = W ++ X ++ Y /\ nonp W /\ allp X /\ nonp Y.

Lemma initial_contig tr : initial tr -> contig tr.
Proof. intros (X & Y & -> & HX & HY). exists [], X, Y. split; [reflexivity|]. split; [constructor | auto]. Qed.

Lemma nonp_initial tr : nonp tr -> initial tr.
Proof. intro H. exists [], tr. split; [reflexivity|]. split; [constructor | exact H]. Qed.

Lemma allp_initial_app T1 T2 : allp T1 -> initial T2 -> initial (T1 ++ T2).
Proof.
  intros H1 (X & Y & -> & HX & HY). exists (T1 ++ X), Y. split; [apply app_assoc|].
  split; [apply Forall_app; auto | exact HY].
Qed.

Lemma initial_nonp_app T1 T2 : initial T1 -> nonp T2 -> initial (T1 ++ T2).
Proof.
  intros (X & Y & -> & HX & HY) H2. exists X, (Y ++ T2). split; [symmetry; apply app_assoc|].
  split; [exact HX | apply Forall_app; auto].
Qed.

Lemma nonp_contig_app T1 T2 : nonp T1 -> contig T2 -> contig (T1 ++ T2).
Proof.
  intros H1 (W & X & Y & -> & HW & HX & HY). exists (T1 ++ W), X, Y. split; [apply app_assoc|].
  split; [apply Forall_app; auto | auto].
Qed.

Lemma initial_head_false x r : initial (x :: r) -> p x = false -> nonp (x :: r).
Proof.
  intros (X & Y & E & HX & HY) Hx. destruct X as [|x0 X].
  - cbn in E. subst Y. exact HY.
  - cbn in E. inversion E; subst. inversion HX; subst. congruence.
Qed.

(* a p-element inside W ++ R with W free of p lies in R *)
Lemma skip_nonp W : forall R a f rest, nonp W -> W ++ R = a ++ f :: rest -> p f = true ->
  exists a', a = W ++ a' /\ R = a' ++ f :: rest.
Proof.
  induction W as [|w W IH]; intros R a f rest HW E Hf.
  - exists a. auto.
  - inversion HW as [|? ? Hw HW']; subst. destruct a as [|x a]; cbn in E; inversion E; subst.
    + congruence.
    + destruct (IH _ _ _ _ HW' H1 Hf) as (a' & -> & ->). exists a'. auto.
Qed.

(* a p-element of X ++ Y (X all p, Y free of p) lies in X, with everything before it *)
Lemma within_allp X : forall Y u g c, allp X -> nonp Y -> X ++ Y = u ++ g :: c -> p g = true ->
  exists X2, X = u ++ g :: X2.
Proof.
  induction X as [|x X IH]; intros Y u g c HX HY E Hg.
  - cbn in E. subst Y. exfalso. apply Forall_app in HY as [_ HY]. inversion HY; subst. congruence.
  - inversion HX as [|? ? Hx HX']; subst. destruct u as [|y u]; cbn in E; inversion E; subst.
    + exists X. reflexivity.
    + destruct (IH _ _ _ _ HX' HY H1 Hg) as (X2 & ->). exists X2. reflexivity.
Qed.

Lemma contig_between tr a f b g c :
  contig tr -> tr = a ++ f :: b ++ g :: c -> p f = true -> p g = true -> allp (f :: b ++ [g]).
Proof.
  intros (W & X & Y & -> & HW & HX & HY) E Hf Hg.
  destruct (skip_nonp W _ _ _ _ HW E Hf) as (a' & -> & E2).
  assert (E3 : X ++ Y = (a' ++ f :: b) ++ g :: c) by (rewrite E2, <- app_assoc; reflexivity).
  destruct (within_allp X Y _ _ _ HX HY E3 Hg) as (X2 & ->).
  unfold allp in HX. rewrite <- app_assoc in HX. apply Forall_app in HX as [_ HX].
  cbn [app] in HX. inversion HX as [|? ? H1 H2]; subst. constructor; [exact H1|].
  apply Forall_app in H2 as [H2 H3]. apply Forall_app. split; [exact H2|].
  inversion H3; subst. constructor; [assumption | constructor].
Qed.

Lemma last_in_app (Aa Bb : list A) d : Aa ++ Bb <> [] ->
  (Bb = [] /\ In (last (Aa ++ Bb) d) Aa) \/ In (last (Aa ++ Bb) d) Bb.
Proof.
  intro Hne. destruct Bb as [|b0 Bb'] using rev_ind.
  - left. split; [reflexivity|]. rewrite app_nil_r in *. destruct Aa as [|a0 Aa'] using rev_ind; [contradiction|].
    rewrite last_last. apply in_or_app. right. left. reflexivity.
  - right. rewrite app_assoc, last_last. apply in_or_app. right. left. reflexivity.
Qed.
End Regions.

(* ------------------------------------------------------------------------------------- *)
(* traces of step lists                                                                    *)

Lemma trace_head f ss : exists r, trace_steps f ss = f :: r.
Proof. destruct ss; cbn [trace_steps]; eexists; reflexivity. Qed.

Lemma trace_last ss : forall f d, last (trace_steps f ss) d = fst (run_steps f ss).
Proof.
  induction ss as [|s ss IH]; intros f d; cbn [trace_steps run_steps]; [reflexivity|].
  destruct (exec f s) as [f'|]; [|reflexivity].
  destruct (trace_head f' ss) as [r Er]. specialize (IH f' d). rewrite Er in *. exact IH.
Qed.

Lemma trace_in_prefix ss : forall f x, In x (trace_steps f ss) ->
  exists k, x = fst (run_steps f (firstn k ss)).
Proof.
  induction ss as [|s ss IH]; intros f x Hin; cbn [trace_steps] in Hin.
  - destruct Hin as [<-|[]]. exists 0. reflexivity.
  - destruct Hin as [<-|Hin]; [exists 0; reflexivity|].
    destruct (exec f s) as [f'|] eqn:E; [|destruct Hin].
    destruct (IH f' x Hin) as [k ->]. exists (S k). cbn [firstn run_steps]. rewrite E. reflexivity.
Qed.

Lemma trace_firstn_prefix k : forall ss f, exists rest,
  trace_steps f ss = trace_steps f (firstn k ss) ++ rest.
Proof.
  induction k as [|k IH]; intros ss f.
  - cbn [firstn trace_steps]. destruct (trace_head f ss) as [r ->]. exists r. reflexivity.
  - destruct ss as [|s ss]; cbn [firstn trace_steps]; [exists []; reflexivity|].
    destruct (exec f s) as [f'|]; [|exists []; reflexivity].
    destruct (IH ss f') as [rest ->]. exists rest. reflexivity.
Qed.

Lemma trace_app s1 : forall f r s2,
  trace_steps f (s1 ++ r :: s2) =
  trace_steps f s1 ++
  (let '(f1, ok) := run_steps f s1 in
   if ok then match exec f1 r with Some f2 => trace_steps f2 s2 | None => [] end else []).
Proof.
  induction s1 as [|s s1 IH]; intros f r s2; cbn [app trace_steps run_steps].
  - reflexivity.
  - destruct (exec f s) as [f'|]; [|reflexivity]. rewrite IH. reflexivity.
Qed.

Lemma run_steps_app s1 : forall f s2,
  run_steps f (s1 ++ s2) =
  (let '(f1, ok) := run_steps f s1 in if ok then run_steps f1 s2 else (f1, false)).
Proof.
  induction s1 as [|s s1 IH]; intros f s2; cbn [app run_steps]; [reflexivity|].
  destruct (exec f s) as [f'|]; [apply IH | reflexivity].
Qed.

Lemma firstn_length_app {A} (l rest : list A) : firstn (length l) (l ++ rest) = l.
Proof. induction l as [|a l IH]; cbn; [destruct rest; reflexivity | rewrite IH; reflexivity]. Qed.

Section Base.
Variable base : path.
Notation tgt := (target base).

(* ------------------------------------------------------------------------------------- *)
(* steps that leave the binding of the target path as it is                                *)

Definition quiet (s : step) : Prop :=
  match s with
  | SMkdirAll p => ~ prefix tgt p
  | SWriteFile p _ => p <> tgt
  | SRemove p => p <> tgt
  | SSymlink _ a => a <> tgt
  | SRename o n => o <> tgt /\ n <> tgt
  | SRemoveAll p => ~ prefix p tgt
  end.

Lemma prefixes_from_prefix rest : forall pre q, In q (prefixes_from pre rest) -> prefix q (pre ++ rest).
Proof.
  induction rest as [|c r IH]; intros pre q Hin; cbn [prefixes_from] in Hin; [destruct Hin|].
  destruct Hin as [<-|Hin].
  - exists r. rewrite <- app_assoc. reflexivity.
  - apply IH in Hin. rewrite <- app_assoc in Hin. exact Hin.
Qed.

Lemma mkdir_chain_other ps : forall f f' q,
  mkdir_chain f ps = Some f' -> ~ In q ps -> fs_get f' q = fs_get f q.
Proof.
  induction ps as [|p ps IH]; intros f f' q E Hq; cbn [mkdir_chain] in E.
  - inversion E. reflexivity.
  - destruct (mkdir1 f p) as [f1|] eqn:E1; [|discriminate].
    rewrite (IH _ _ _ E) by (intro Hin; apply Hq; right; exact Hin).
    assert (Hne : p <> q) by (intros ->; apply Hq; left; reflexivity).
    unfold mkdir1 in E1. destruct (fs_get f p) as [[| |]|]; try discriminate.
    + inversion E1. reflexivity.
    + destruct (is_dir f (parent p)); [|discriminate]. inversion E1; subst.
      rewrite get_put, path_eqb_neq by exact Hne. reflexivity.
Qed.

Lemma exec_quiet f s f' : exec f s = Some f' -> quiet s -> fs_get f' tgt = fs_get f tgt.
Proof.
  destruct s as [p|p b|p|c a|o n|p]; cbn [exec quiet]; intros E Hs.
  - apply (mkdir_chain_other _ _ _ _ E). intro Hin. apply Hs.
    apply (prefixes_from_prefix p [] tgt Hin).
  - apply write_file_spec in E as (_ & _ & _ & ->). rewrite get_put, path_eqb_neq by exact Hs. reflexivity.
  - unfold remove_if_exists in E. destruct (fs_get f p) as [[| |]|]; try (inversion E; subst; reflexivity);
      try (destruct (has_children f p); [discriminate|]); inversion E; subst;
      rewrite get_del, path_eqb_neq by exact Hs; reflexivity.
  - apply symlink_spec in E as (_ & _ & ->). rewrite get_put, path_eqb_neq by exact Hs. reflexivity.
  - destruct Hs as [Ho Hn]. unfold rename in E. destruct (fs_get f o) as [[| |]|]; try discriminate;
      (destruct (fs_get f n) as [[| |]|]; try discriminate);
      (destruct (is_dir f (parent n)); [|discriminate]); inversion E; subst;
      rewrite get_put, path_eqb_neq by exact Hn; rewrite get_del, path_eqb_neq by exact Ho; reflexivity.
  - unfold remove_all in E. inversion E; subst. rewrite get_del_tree.
    destruct (is_prefixP p tgt); [contradiction | reflexivity].
Qed.

Lemma trace_quiet ss : forall f, Forall quiet ss ->
  Forall (fun x => fs_get x tgt = fs_get f tgt) (trace_steps f ss).
Proof.
  induction ss as [|s ss IH]; intros f Hq; cbn [trace_steps]; constructor; try reflexivity; [constructor|].
  inversion Hq as [|? ? H1 H2]; subst. destruct (exec f s) as [f'|] eqn:E; [|constructor].
  pose proof (exec_quiet _ _ _ E H1) as Ev. eapply Forall_impl; [|apply (IH f' H2)].
  intros x Hx. cbn beta in Hx. congruence.
Qed.

(* ------------------------------------------------------------------------------------- *)
(* the states of one Write: the target keeps its binding, then (after the rename) points to   *)
(* the new version directory                                                               *)

Definition steps_front (v : variant) (ts : N) (fl : files) : list step :=
  ([SMkdirAll base; SMkdirAll (ver base ts)]
   ++ map (fun kb : key * bytes => SWriteFile (ver base ts ++ keypath (fst kb)) (snd kb)) fl
   ++ (if is_fixed v then [SRemove (tnew base)] else [])).

Definition steps_back (prev : option path) : list step :=
  match prev with Some p => [SRemoveAll p] | None => [] end.

Lemma write_steps_split v prev ts fl :
  write_steps v base prev ts fl =
  (steps_front v ts fl ++ [SSymlink (ver base ts) (tnew base)])
  ++ SRename (tnew base) tgt :: steps_back prev.
Proof.
  unfold write_steps, steps_front, steps_back. cbn [app]. f_equal. f_equal.
  rewrite <- !app_assoc. reflexivity.
Qed.

Lemma tgt_not_prefix_base : ~ prefix tgt base.
Proof. intro Hp. apply prefix_length in Hp. unfold target in Hp. rewrite app_length in Hp. cbn in Hp. lia. Qed.

Lemma tgt_not_prefix_ver ts : ~ prefix tgt (ver base ts).
Proof.
  intros [r E]. unfold target, ver in E. rewrite <- app_assoc in E. apply app_inv_head in E. discriminate.
Qed.

Lemma front_quiet v ts fl : Forall quiet (steps_front v ts fl ++ [SSymlink (ver base ts) (tnew base)]).
Proof.
  unfold steps_front. cbn [app]. constructor; [exact tgt_not_prefix_base|].
  constructor; [exact (tgt_not_prefix_ver ts)|].
  apply Forall_app. split; [|constructor; [|constructor]].
  - apply Forall_app. split.
    + apply Forall_forall. intros s Hs. apply in_map_iff in Hs as (kb & <- & _). cbn.
      intro E. exact (tgt_not_ver base _ _ (eq_sym E)).
    + destruct (is_fixed v); [|constructor]. constructor; [|constructor]. cbn.
      intro E. exact (tgt_not_new base (eq_sym E)).
  - cbn. intro E. exact (tgt_not_new base (eq_sym E)).
Qed.

Lemma back_quiet H prev : prev_ok base H prev -> Forall quiet (steps_back prev).
Proof.
  intro Hp. destruct prev as [p|]; [|constructor]. constructor; [|constructor]. cbn.
  destruct (Hp p eq_refl) as (tp & -> & _). intros [r E]. exact (tgt_not_ver base _ _ E).
Qed.

Definition keeps_link (f : fs) (x : fs) : Prop := fs_get x tgt = fs_get f tgt.
Definition links_to (ts : N) (x : fs) : Prop := fs_get x tgt = Some (NLink (ver base ts)).

Lemma write_trace_shape v H prev ts fl f :
  prev_ok base H prev ->
  exists A B, trace_steps f (write_steps v base prev ts fl) = A ++ B /\
              Forall (keeps_link f) A /\ Forall (links_to ts) B.
Proof.
  intro Hp. rewrite write_steps_split, trace_app.
  exists (trace_steps f (steps_front v ts fl ++ [SSymlink (ver base ts) (tnew base)])).
  eexists. split; [reflexivity|]. split; [apply trace_quiet, front_quiet|].
  destruct (run_steps f (steps_front v ts fl ++ [SSymlink (ver base ts) (tnew base)])) as [f1 ok] eqn:R1.
  destruct ok; [|constructor].
  destruct (exec f1 (SRename (tnew base) tgt)) as [f2|] eqn:E2; [|constructor].
  assert (Ht : fs_get f2 tgt = Some (NLink (ver base ts))).
  { rewrite run_steps_app in R1.
    destruct (run_steps f (steps_front v ts fl)) as [fa oka]. destruct oka; [|discriminate].
    cbn [run_steps exec] in R1. destruct (symlink fa (ver base ts) (tnew base)) as [fb|] eqn:Es; [|discriminate].
    inversion R1; subst fb. apply symlink_spec in Es as (_ & _ & ->).
    cbn [exec] in E2. unfold rename in E2. rewrite get_put, path_eqb_refl in E2.
    destruct (fs_get (fs_put fa (tnew base) (NLink (ver base ts))) tgt) as [[| |]|];
      try discriminate; (destruct (is_dir _ (parent tgt)); [|discriminate]); inversion E2; subst;
      rewrite get_put, path_eqb_refl; reflexivity. }
  eapply Forall_impl; [|apply (trace_quiet _ f2 (back_quiet H prev Hp))].
  intros x Hx. unfold links_to. cbn beta in Hx. congruence.
Qed.

(* the same for a Write cut off after k steps: its trace is a prefix *)
Lemma op_trace_shape v H prev ts fl crash f :
  prev_ok base H prev ->
  exists A B,
    trace_steps f (match crash with
                   | None => write_steps v base prev ts fl
                   | Some k => firstn k (write_steps v base prev ts fl)
                   end) = A ++ B /\
    Forall (keeps_link f) A /\ Forall (links_to ts) B.
Proof.
  intro Hp. destruct (write_trace_shape v H prev ts fl f Hp) as (A & B & E & HA & HB).
  destruct crash as [k|]; [|exists A, B; auto].
  destruct (trace_firstn_prefix k (write_steps v base prev ts fl) f) as [rest Er].
  set (tr' := trace_steps f (firstn k (write_steps v base prev ts fl))) in *.
  assert (E' : tr' = firstn (length tr') (A ++ B)) by (rewrite <- E, Er; symmetry; apply firstn_length_app).
  rewrite firstn_app in E'.
  exists (firstn (length tr') A), (firstn (length tr' - length A) B).
  split; [exact E'|]. split; apply Forall_firstn; assumption.
Qed.


(* ------------------------------------------------------------------------------------- *)
(* the full trace of a history                                                             *)

Definition op_steps (v : variant) (s : st) (o : op) : list step :=
  match o with
  | OWrite ts fl None => write_steps v base (sprev s) ts fl
  | OWrite ts fl (Some k) => firstn k (write_steps v base (sprev s) ts fl)
  | ORestart => []
  end.

(* every filesystem state the call passes through, its first and last included *)
Definition op_trace (v : variant) (s : st) (o : op) : list fs := trace_steps (sfs s) (op_steps v s o).

Fixpoint hist_trace (v : variant) (s : st) (h : list op) : list fs :=
  match h with
  | [] => [sfs s]
  | o :: t => op_trace v s o ++ hist_trace v (fst (run_op v base s o)) t
  end.

Lemma hist_trace_head v s h : exists r, hist_trace v s h = sfs s :: r.
Proof.
  destruct h as [|o h]; cbn [hist_trace]; [eexists; reflexivity|].
  unfold op_trace. destruct (trace_head (sfs s) (op_steps v s o)) as [r ->]. eexists. reflexivity.
Qed.

Lemma run_op_sfs v s o : sfs (fst (run_op v base s o)) = fst (run_steps (sfs s) (op_steps v s o)).
Proof.
  destruct o as [ts fl [k|]|]; cbn [run_op op_steps]; [| |reflexivity]; unfold write.
  - destruct (run_steps (sfs s) (firstn k (write_steps v base (sprev s) ts fl))) as [f' ok]. destruct ok; reflexivity.
  - destruct (run_steps (sfs s) (write_steps v base (sprev s) ts fl)) as [f' ok]. destruct ok; reflexivity.
Qed.

(* the invariant holds at every state of the trace of one call *)
Lemma op_trace_inv v H s ts fl crash :
  Inv base H s -> ~ known H ts -> NoDup (map fst fl) ->
  Forall (Inv_fs base ((ts, fl) :: H)) (op_trace v s (OWrite ts fl crash)).
Proof.
  intros [I Hp] Hfresh Hnd.
  pose proof (walk_write base H ts fl (sfs s) Hfresh Hnd (Inv_fs base ((ts, fl) :: H)) (fun f If => If)
                         v (sprev s) I Hp) as W.
  apply Forall_forall. intros x Hx. unfold op_trace in Hx.
  assert (Hin : In x (trace_steps (sfs s) (write_steps v base (sprev s) ts fl))).
  { destruct crash as [k|]; cbn [op_steps] in Hx; [|exact Hx].
    destruct (trace_firstn_prefix k (write_steps v base (sprev s) ts fl) (sfs s)) as [rest ->].
    apply in_or_app. left. exact Hx. }
  apply trace_in_prefix in Hin as [j ->]. exact (walk_prefix _ _ _ _ _ j W).
Qed.

(* ------------------------------------------------------------------------------------- *)
(* the link never returns                                                                  *)

Definition ptb (t : N) (x : fs) : bool :=
  match fs_get x tgt with Some (NLink p) => path_eqb p (ver base t) | _ => false end.

Lemma ptb_true t x : ptb t x = true <-> links_to t x.
Proof.
  unfold ptb, links_to. destruct (fs_get x tgt) as [[| |p]|]; split; intro E; try discriminate.
  - apply path_eqb_eq in E. congruence.
  - inversion E. apply path_eqb_refl.
Qed.

Lemma ptb_keeps t f A : Forall (keeps_link f) A ->
  (ptb t f = true -> allp (ptb t) A) /\ (ptb t f = false -> nonp (ptb t) A).
Proof.
  intro HA. split; intro E; (eapply Forall_impl; [|exact HA]); intros x Hx; unfold keeps_link in Hx;
    unfold ptb in *; rewrite Hx; exact E.
Qed.

Lemma ptb_links t ts B : Forall (links_to ts) B ->
  (t = ts -> allp (ptb t) B) /\ (t <> ts -> nonp (ptb t) B).
Proof.
  intro HB. split; intro E; (eapply Forall_impl; [|exact HB]); intros x Hx.
  - subst. apply ptb_true, Hx.
  - unfold links_to in Hx. unfold ptb. rewrite Hx. apply path_eqb_neq. intro E2. apply E.
    symmetry. exact (ver_inj base _ _ E2).
Qed.

Lemma ptb_known H f t : Inv_fs base H f -> ptb t f = true -> known H t.
Proof.
  intros I E. apply ptb_true in E. destruct (i_tgt _ _ _ I _ E) as (t0 & fl & En & Hin & _).
  inversion En as [E2]. apply (ver_inj base) in E2. subst t0. eapply in_known, Hin.
Qed.

Section Glue.
Context (p : fs -> bool) (A B : list fs) (m : fs) (r : list fs).
Hypothesis Hm : (B = [] /\ In m A) \/ In m B.

Lemma glue_old : nonp p B -> initial p (m :: r) -> allp p A \/ nonp p A ->
  initial p ((A ++ B) ++ m :: r).
Proof.
  intros HB I2 [HA | HA].
  - destruct Hm as [[-> _] | HmB].
    + rewrite app_nil_r. apply allp_initial_app; assumption.
    + assert (Hf : p m = false) by (apply (proj1 (Forall_forall _ _) HB), HmB).
      rewrite <- app_assoc. apply initial_nonp_app.
      * exists A, []. split; [symmetry; apply app_nil_r|]. split; [exact HA | constructor].
      * apply Forall_app. split; [exact HB | exact (initial_head_false p m r I2 Hf)].
  - assert (Hf : p m = false).
    { destruct Hm as [[_ HmA] | HmB]; [apply (proj1 (Forall_forall _ _) HA), HmA | apply (proj1 (Forall_forall _ _) HB), HmB]. }
    apply nonp_initial. apply Forall_app. split; [apply Forall_app; auto|].
    exact (initial_head_false p m r I2 Hf).
Qed.

Lemma glue_future : nonp p A -> nonp p B -> contig p (m :: r) -> contig p ((A ++ B) ++ m :: r).
Proof. intros HA HB C2. apply nonp_contig_app; [apply Forall_app; auto | exact C2]. Qed.

Lemma glue_new : nonp p A -> allp p B -> initial p (m :: r) -> contig p ((A ++ B) ++ m :: r).
Proof.
  intros HA HB I2. rewrite <- app_assoc. apply nonp_contig_app; [exact HA|].
  apply initial_contig, allp_initial_app; assumption.
Qed.
End Glue.

Lemma hist_trace_regions v : forall h H0 s0,
  Inv base H0 s0 -> NoDup (map fst (ops_hist h) ++ map fst H0) ->
  (forall ts fl, In (ts, fl) (ops_hist h) -> NoDup (map fst fl)) ->
  (forall t, known H0 t -> initial (ptb t) (hist_trace v s0 h)) /\
  (forall t, contig (ptb t) (hist_trace v s0 h)).
Proof.
  induction h as [|o h IH]; intros H0 s0 I0 Hnd Hfl.
  - assert (X : forall t, initial (ptb t) [sfs s0]).
    { intro t. destruct (ptb t (sfs s0)) eqn:E.
      - exists [sfs s0], []. split; [reflexivity|]. split; [constructor; [exact E | constructor] | constructor].
      - apply nonp_initial. constructor; [exact E | constructor]. }
    cbn [hist_trace]. split; [intros t _; apply X | intro t; apply initial_contig, X].
  - cbn [hist_trace]. pose proof (run_op_sfs v s0 o) as Elast.
    destruct (hist_trace_head v (fst (run_op v base s0 o)) h) as [r Er]. rewrite Er.
    set (m := sfs (fst (run_op v base s0 o))) in *.
    assert (Hlast : m = last (op_trace v s0 o) (sfs s0)).
    { unfold op_trace. rewrite trace_last. exact Elast. }
    destruct o as [ts fl crash|].
    + (* a Write *)
      assert (Hfresh : ~ known H0 ts).
      { cbn [ops_hist map fst app] in Hnd. inversion Hnd as [|? ? Hnot _]; subst. intro Hk. apply Hnot.
        apply in_or_app. right. exact Hk. }
      assert (Hndf : NoDup (map fst fl)) by (apply (Hfl ts fl); left; reflexivity).
      pose proof (write_step base v H0 s0 ts fl crash I0 Hfresh Hndf) as Hw.
      cbn [run_op] in m, Er, Elast. destruct (write v base s0 ts fl crash) as [s1 out].
      destruct Hw as (I1 & _). cbn [fst] in m, Er, Elast.
      destruct (IH ((ts, fl) :: H0) s1 I1) as [IHi IHc].
      { cbn [ops_hist map fst app] in Hnd |- *. exact (Permutation_NoDup (Permutation_middle _ _ _) Hnd). }
      { intros a b Hab. apply (Hfl a b). right. exact Hab. }
      rewrite Er in IHi, IHc. fold m in IHi, IHc.
      destruct (op_trace_shape v H0 (sprev s0) ts fl crash (sfs s0) (proj2 I0)) as (A & B & Esh & HA & HB).
      assert (Etr : op_trace v s0 (OWrite ts fl crash) = A ++ B).
      { unfold op_trace. destruct crash; exact Esh. }
      rewrite Etr in *.
      assert (Hne : A ++ B <> []).
      { rewrite <- Etr. unfold op_trace. destruct (trace_head (sfs s0) (op_steps v s0 (OWrite ts fl crash))) as [r0 ->]. discriminate. }
      pose proof (last_in_app A B (sfs s0) Hne) as Hm. rewrite <- Hlast in Hm.
      assert (Hold : forall t, known H0 t -> initial (ptb t) ((A ++ B) ++ m :: r)).
      { intros t Hk. assert (Hts : t <> ts) by (intros ->; exact (Hfresh Hk)).
        apply glue_old; [exact Hm | apply (ptb_links t ts B HB), Hts | apply IHi; right; exact Hk|].
        destruct (ptb t (sfs s0)) eqn:E; [left | right]; apply (ptb_keeps t (sfs s0) A HA); exact E. }
      split; [exact Hold|]. intro t.
      destruct (N.eq_dec t ts) as [->|Hts].
      * apply glue_new; [|apply (ptb_links ts ts B HB); reflexivity | apply IHi; left; reflexivity].
        apply (ptb_keeps ts (sfs s0) A HA). destruct (ptb ts (sfs s0)) eqn:E; [|reflexivity].
        exfalso. exact (Hfresh (ptb_known H0 _ _ (proj1 I0) E)).
      * destruct (ptb t (sfs s0)) eqn:E.
        -- apply initial_contig, Hold. exact (ptb_known H0 _ _ (proj1 I0) E).
        -- apply glue_future; [apply (ptb_keeps t (sfs s0) A HA), E | apply (ptb_links t ts B HB), Hts | apply IHc].
    + (* a new Dir value: the disk is as it was *)
      cbn [run_op fst] in m, Er, Elast.
      destruct (IH H0 (mkSt (sfs s0) None)) as [IHi IHc]; [split; [exact (proj1 I0) | intros q E; discriminate] | exact Hnd | exact Hfl|].
      rewrite Er in IHi, IHc. fold m in IHi, IHc.
      assert (Etr : op_trace v s0 ORestart = [sfs s0] ++ []) by reflexivity.
      rewrite Etr in *.
      assert (Hm : ((@nil fs) = [] /\ In m [sfs s0]) \/ In m (@nil fs)) by (left; split; [reflexivity | left; reflexivity]).
      assert (HA : Forall (keeps_link (sfs s0)) [sfs s0]) by (constructor; [reflexivity | constructor]).
      assert (Hold : forall t, known H0 t -> initial (ptb t) (([sfs s0] ++ []) ++ m :: r)).
      { intros t Hk. apply glue_old; [exact Hm | constructor | apply IHi, Hk|].
        destruct (ptb t (sfs s0)) eqn:E; [left | right]; apply (ptb_keeps t (sfs s0) _ HA); exact E. }
      split; [exact Hold|]. intro t. destruct (ptb t (sfs s0)) eqn:E.
      * apply initial_contig, Hold. exact (ptb_known H0 _ _ (proj1 I0) E).
      * apply glue_future; [apply (ptb_keeps t (sfs s0) _ HA), E | constructor | apply IHc].
Qed.


(* ------------------------------------------------------------------------------------- *)
(* the invariant at every state of the trace, for the history list of the whole run        *)

Lemma hist_trace_inv v : forall h H0 s0,
  Inv base H0 s0 -> NoDup (map fst (ops_hist h) ++ map fst H0) ->
  (forall ts fl, In (ts, fl) (ops_hist h) -> NoDup (map fst fl)) ->
  exists H1, (forall x, In x H1 <-> In x (ops_hist h) \/ In x H0) /\
             Forall (Inv_fs base H1) (hist_trace v s0 h).
Proof.
  induction h as [|o h IH]; intros H0 s0 I0 Hnd Hfl; cbn [hist_trace].
  - exists H0. split; [intro x; cbn; tauto|]. constructor; [exact (proj1 I0) | constructor].
  - destruct o as [ts fl crash|]; cbn [run_op ops_hist] in *.
    + assert (Hfresh : ~ known H0 ts).
      { cbn [map fst app] in Hnd. inversion Hnd as [|? ? Hnot _]; subst. intro Hk. apply Hnot.
        apply in_or_app. right. exact Hk. }
      assert (Hndf : NoDup (map fst fl)) by (apply (Hfl ts fl); left; reflexivity).
      pose proof (op_trace_inv v H0 s0 ts fl crash I0 Hfresh Hndf) as T1.
      pose proof (write_step base v H0 s0 ts fl crash I0 Hfresh Hndf) as Hw.
      destruct (write v base s0 ts fl crash) as [s1 out]. destruct Hw as (I1 & _). cbn [fst].
      destruct (IH ((ts, fl) :: H0) s1 I1) as (H1 & Hin & T2).
      { cbn [map fst app] in Hnd |- *. exact (Permutation_NoDup (Permutation_middle _ _ _) Hnd). }
      { intros a b Hab. apply (Hfl a b). right. exact Hab. }
      exists H1. split; [intro x; rewrite Hin; cbn [In]; tauto|].
      apply Forall_app. split; [|exact T2]. eapply Forall_impl; [|exact T1].
      intros x Ix. apply (inv_fs_mono base ((ts, fl) :: H0)); [|exact Ix].
      intros y Hy. apply Hin. right. exact Hy.
    + cbn [fst]. destruct (IH H0 (mkSt (sfs s0) None)) as (H1 & Hin & T2);
        [split; [exact (proj1 I0) | intros q E; discriminate] | exact Hnd | exact Hfl|].
      exists H1. split; [exact Hin|]. apply Forall_app. split; [|exact T2].
      constructor; [|constructor]. apply (inv_fs_mono base H0); [|exact (proj1 I0)].
      intros y Hy. apply Hin. right. exact Hy.
Qed.

(* what lies below a complete version directory is determined by its file set *)
Lemma subtree_half H f g t fl q n :
  allcls base H f -> complete base f t fl -> complete base g t fl ->
  fs_get f (ver base t ++ q) = Some n -> fs_get g (ver base t ++ q) = Some n.
Proof.
  intros Cf [_ Hf] [Hgd Hg] E.
  destruct (cls_under _ _ _ _ _ (Cf _ _ E)) as [_ [[-> ->] | (k & b & fl0 & -> & -> & _)]].
  - rewrite app_nil_r. exact Hgd.
  - change [CN k] with (keypath [k]) in *. apply Hg. apply Hf. exact E.
Qed.

Lemma subtree_determined H f g t fl :
  allcls base H f -> allcls base H g -> complete base f t fl -> complete base g t fl ->
  forall q, fs_get f (ver base t ++ q) = fs_get g (ver base t ++ q).
Proof.
  intros Cf Cg Kf Kg q. destruct (fs_get f (ver base t ++ q)) as [n|] eqn:Ef.
  - symmetry. exact (subtree_half H f g t fl q n Cf Kf Kg Ef).
  - destruct (fs_get g (ver base t ++ q)) as [n|] eqn:Eg; [|reflexivity].
    rewrite (subtree_half H g f t fl q n Cg Kg Kf Eg) in Ef. discriminate.
Qed.

Lemma nodup_fst_inj {K V} (l : list (K * V)) a b c :
  NoDup (map fst l) -> In (a, b) l -> In (a, c) l -> b = c.
Proof.
  induction l as [|[k x] l IH]; cbn [map fst]; intros Hnd Hb Hc; [destruct Hb|].
  inversion Hnd as [|? ? Hnot Hnd']; subst. destruct Hb as [Eb|Hb], Hc as [Ec|Hc].
  - congruence.
  - inversion Eb; subst. exfalso. apply Hnot. apply (in_map fst) in Hc. exact Hc.
  - inversion Ec; subst. exfalso. apply Hnot. apply (in_map fst) in Hb. exact Hb.
  - exact (IH Hnd' Hb Hc).
Qed.

(* ------------------------------------------------------------------------------------- *)
(* the theorems                                                                            *)

Lemma trace_from_start v pre h : ops_ok h ->
  exists H1, (forall x, In x H1 <-> In x (ops_hist h)) /\
             Forall (Inv_fs base H1) (hist_trace v (start base pre) h).
Proof.
  intros [Hn Hf]. destruct (hist_trace_inv v h [] (start base pre) (start_Inv base pre)) as (H1 & Hin & T).
  - cbn [map]. rewrite app_nil_r. exact Hn.
  - exact Hf.
  - exists H1. split; [intro x; rewrite Hin; cbn; tauto | exact T].
Qed.

(* every state between any two steps of any Write of the history shows nothing or one call's set *)
Lemma every_instant v pre h f :
  ops_ok h -> In f (hist_trace v (start base pre) h) ->
  resolve f tgt = VAbsent \/ exists fl, In fl (calls_of h) /\ shows (resolve f tgt) fl.
Proof.
  intros Hok Hin. destruct (trace_from_start v pre h Hok) as (H1 & HH & T).
  pose proof (proj1 (Forall_forall _ _) T f Hin) as I.
  destruct (inv_view base H1 f I) as [[_ E] | [_ (ts & fl & Hfl & Hs)]]; [left; exact E|].
  right. exists fl. split; [|exact Hs]. apply HH in Hfl. apply (in_map snd) in Hfl. exact Hfl.
Qed.

(* the reader protocol: link read at [fi], again at [fk], anything read in between *)
Lemma reader_snapshot v pre h a fi b fk c to :
  ops_ok h ->
  hist_trace v (start base pre) h = a ++ fi :: b ++ fk :: c ->
  fs_get fi tgt = Some (NLink to) -> fs_get fk tgt = Some (NLink to) ->
  exists fl, In fl (calls_of h) /\
    forall fj, In fj (fi :: b ++ [fk]) ->
      fs_get fj tgt = Some (NLink to) /\
      (forall q, fs_get fj (to ++ q) = fs_get fi (to ++ q)) /\
      shows (view_dir fj to) fl.
Proof.
  intros Hok Etr Ei Ek. destruct (trace_from_start v pre h Hok) as (H1 & HH & T).
  assert (Hsub : forall x, In x (fi :: b ++ [fk]) -> In x (hist_trace v (start base pre) h)).
  { intros x Hx. rewrite Etr. apply in_or_app. right. destruct Hx as [<-|Hx]; [left; reflexivity|].
    right. apply in_app_or in Hx as [Hx | [<-|[]]]; apply in_or_app; [left; exact Hx | right; left; reflexivity]. }
  assert (Ii : Inv_fs base H1 fi) by (apply (proj1 (Forall_forall _ _) T), Hsub; left; reflexivity).
  destruct (i_tgt _ _ _ Ii _ Ei) as (t & fl & En & Hfl & Ki). inversion En; subst to. clear En.
  destruct (hist_trace_regions v h [] (start base pre) (start_Inv base pre)) as [_ Hc].
  { cbn [map]. rewrite app_nil_r. exact (proj1 Hok). }
  { exact (proj2 Hok). }
  pose proof (contig_between (ptb t) _ a fi b fk c (Hc t) Etr (proj2 (ptb_true t fi) Ei) (proj2 (ptb_true t fk) Ek)) as Hall.
  exists fl. split; [apply HH in Hfl; apply (in_map snd) in Hfl; exact Hfl|].
  intros fj Hj. pose proof (proj1 (Forall_forall _ _) Hall fj Hj) as Ej. apply ptb_true in Ej.
  assert (Ij : Inv_fs base H1 fj) by (apply (proj1 (Forall_forall _ _) T), Hsub, Hj).
  destruct (i_tgt _ _ _ Ij _ Ej) as (t' & fl' & En & Hfl' & Kj).
  inversion En as [E2]. apply (ver_inj base) in E2. subst t'.
  assert (fl' = fl) as ->.
  { apply HH in Hfl, Hfl'. exact (nodup_fst_inj _ t fl' fl (proj1 Hok) Hfl' Hfl). }
  split; [exact Ej|]. split; [exact (subtree_determined H1 fj fi t fl (i_cls _ _ _ Ij) (i_cls _ _ _ Ii) Kj Ki)|].
  destruct (list_dir_complete base H1 fj t fl (i_wf _ _ _ Ij) (i_cls _ _ _ Ij) Kj) as (l & El & Hs).
  unfold view_dir. rewrite El. exists l. auto.
Qed.

(* the trace the harness's model comparison evaluates for one observed call is [op_trace] *)
Lemma check_trace_is_op_trace v s idx fl crash :
  trace_steps (sfs s) (match crash with
                       | Some k => firstn k (write_steps v base (sprev s) idx fl)
                       | None => write_steps v base (sprev s) idx fl
                       end) = op_trace v s (OWrite idx fl crash).
Proof. destruct crash; reflexivity. Qed.

End Base.

(* ------------------------------------------------------------------------------------- *)
(* non-vacuity, and two boundaries of the theorems                                         *)

Definition two_writes : list op := [OWrite 0 [([0%N], [1%N])] None; OWrite 1 [([0%N], [2%N])] None].

(* the first Write's rename is state number 6 of the trace; the second Write is then three
   steps into its work (state 9) with the link unchanged *)
Example reader_snapshot_witness :
  let tr := hist_trace [CN 7] Fixed (start [CN 7] false) two_writes in
  tr = firstn 6 tr ++ nth 6 tr [] :: firstn 2 (skipn 7 tr) ++ nth 9 tr [] :: skipn 10 tr /\
  fs_get (nth 6 tr []) (target [CN 7]) = Some (NLink (ver [CN 7] 0)) /\
  fs_get (nth 9 tr []) (target [CN 7]) = Some (NLink (ver [CN 7] 0)) /\
  length tr = 16.
Proof. vm_compute. repeat split; reflexivity. Qed.

(* The premise "every call draws a new timestamp" cannot be dropped: two Writes of one Dir with
   the same UnixNano value both return nil and leave the target dangling. *)
Lemma same_timestamp_refuted :
  exists base h s outs,
    (forall ts fl, In (ts, fl) (ops_hist h) -> files_valid fl) /\
    run_hist Fixed base (start base false) h = (s, outs) /\
    outs = [Done; Done] /\ resolve (sfs s) (target base) = VBroken.
Proof.
  exists [CN 7], [OWrite 5 [([0%N], [1%N])] None; OWrite 5 [([0%N], [2%N])] None].
  eexists. eexists. split; [|split; [vm_compute; reflexivity | split; vm_compute; reflexivity]].
  intros ts fl [E|[E|[]]]; inversion E; subst; (split; [cbn; constructor; [intros [] | constructor] | intros k [<-|[]]; reflexivity]).
Qed.

(* "Only the current version directory remains" needs ONE Dir value, not just the absence of
   crashes: after a clean restart (a new Dir, nothing crashed, every call returned nil) the
   version directory of the previous process stays on disk. *)
Lemma restart_leak_refuted :
  exists base h s outs,
    ops_ok h /\ Forall (fun o => match o with OWrite _ fl None => files_valid fl | OWrite _ _ (Some _) => False | ORestart => True end) h /\
    run_hist Fixed base (start base false) h = (s, outs) /\
    outs = [Done; Done] /\ ver_dirs (sfs s) base = [1%N; 0%N].
Proof.
  exists [CN 7], [OWrite 0 [([0%N], [1%N])] None; ORestart; OWrite 1 [([0%N], [2%N])] None].
  eexists. eexists. split; [|split; [|split; [vm_compute; reflexivity | split; vm_compute; reflexivity]]].
  - split; [cbn; repeat constructor; cbn; intuition discriminate|].
    intros ts fl [E|[E|[]]]; inversion E; subst; cbn; constructor; [intros [] | constructor | intros [] | constructor].
  - assert (V : forall b : bytes, files_valid [([0%N], b)]).
    { intro b. split; [cbn; constructor; [intros [] | constructor] | intros k [<-|[]]; reflexivity]. }
    constructor; [apply V|]. constructor; [exact I|]. constructor; [apply V | constructor].
Qed.
