(* C18 — the invariant of every reachable (disk, Dir) state and the walk through the steps of
   one Write: what holds at EVERY intermediate filesystem state (hence after every crash
   prefix), what holds when the call returns nil, and when no step can fail. *)
From Kit Require Import C18.Model C18.Spec C18.Proofs_fs.

(* ------------------------------------------------------------------------------------- *)
(* walking a step list                                                                     *)

(* [G] holds at every state the steps pass through, [Q] at the end if every step succeeded;
   with [must = true] no step fails. *)
Fixpoint walk (must : bool) (G Q : fs -> Prop) (f : fs) (ss : list step) : Prop :=
  G f /\ match ss with
         | [] => Q f
         | s :: t => match exec f s with
                     | Some f' => walk must G Q f' t
                     | None => must = false
                     end
         end.

Lemma walk_cons (m : bool) (G Q : fs -> Prop) f s t :
  G f -> (m = true -> exec f s <> None) ->
  (forall f', exec f s = Some f' -> walk m G Q f' t) ->
  walk m G Q f (s :: t).
Proof.
  intros HG Hm Hk. cbn [walk]. split; [exact HG|]. destruct (exec f s) as [f'|] eqn:E.
  - apply Hk. reflexivity.
  - destruct m; [exfalso; apply Hm; reflexivity | reflexivity].
Qed.

Lemma walk_G m (G Q : fs -> Prop) f ss : walk m G Q f ss -> G f.
Proof. destruct ss; cbn [walk]; tauto. Qed.

Lemma walk_prefix m (G Q : fs -> Prop) ss : forall f k, walk m G Q f ss -> G (fst (run_steps f (firstn k ss))).
Proof.
  induction ss as [|s t IH]; intros f k W.
  - rewrite firstn_nil. cbn. apply (walk_G _ _ _ _ _ W).
  - destruct k as [|k]; cbn [firstn run_steps].
    + cbn. apply (walk_G _ _ _ _ _ W).
    + cbn [walk] in W. destruct W as [HG W]. destruct (exec f s) as [f'|].
      * apply IH, W.
      * cbn. exact HG.
Qed.

Lemma walk_run m (G Q : fs -> Prop) ss : forall f f' ok, walk m G Q f ss -> run_steps f ss = (f', ok) ->
  G f' /\ (ok = true -> Q f') /\ (m = true -> ok = true).
Proof.
  induction ss as [|s t IH]; intros f f' ok W R; cbn [run_steps walk] in *.
  - inversion R; subst. tauto.
  - destruct W as [HG W]. destruct (exec f s) as [f1|].
    + exact (IH _ _ _ W R).
    + inversion R; subst. split; [exact HG|]. split; [discriminate | intro E; congruence].
Qed.

(* ------------------------------------------------------------------------------------- *)

Section Base.
Variable base : path.

Definition hist := list (N * files).
Definition known (H : hist) (ts : N) : Prop := In ts (map fst H).

(* what may exist on disk: directories on the way to base, version directories of known
   calls holding (some of) the files of that call, the target link and the .new link *)
Inductive cls (H : hist) : path -> node -> Prop :=
| cls_base p : prefix p base -> cls H p NDir
| cls_ver ts : known H ts -> cls H (ver base ts) NDir
| cls_file ts k b fl : In (ts, fl) H -> In ([k], b) fl -> cls H (ver base ts ++ [CN k]) (NFile b)
| cls_tgt ts : known H ts -> cls H (target base) (NLink (ver base ts))
| cls_new ts : known H ts -> cls H (tnew base) (NLink (ver base ts)).

Definition allcls (H : hist) (f : fs) : Prop := forall p n, fs_get f p = Some n -> cls H p n.

(* version directory ts holds exactly the file set fl *)
Definition complete (f : fs) (ts : N) (fl : files) : Prop :=
  fs_get f (ver base ts) = Some NDir /\
  forall key b, In (key, b) fl <-> fs_get f (ver base ts ++ keypath key) = Some (NFile b).

Definition tgt_ok (H : hist) (f : fs) : Prop :=
  forall n, fs_get f (target base) = Some n ->
  exists ts fl, n = NLink (ver base ts) /\ In (ts, fl) H /\ complete f ts fl.

Record Inv_fs (H : hist) (f : fs) : Prop := mkInv {
  i_wf : wf f;
  i_root : fs_get f [] = Some NDir;
  i_cls : allcls H f;
  i_tgt : tgt_ok H f
}.

Definition prev_ok (H : hist) (prev : option path) : Prop :=
  forall p, prev = Some p -> exists ts, p = ver base ts /\ known H ts.

Definition Inv (H : hist) (s : st) : Prop := Inv_fs H (sfs s) /\ prev_ok H (sprev s).

(* ---- path algebra ---- *)

Ltac norm_paths :=
  unfold target, tnew, ver in *; repeat rewrite <- app_assoc in *; cbn [app] in *.

Lemma ver_app_inj ts q ts' q' : ver base ts ++ q = ver base ts' ++ q' -> ts = ts' /\ q = q'.
Proof. norm_paths. intro E. apply app_inv_head in E. inversion E. auto. Qed.

Lemma ver_inj ts ts' : ver base ts = ver base ts' -> ts = ts'.
Proof. intro E. apply (ver_app_inj ts [] ts' []). rewrite !app_nil_r. exact E. Qed.

Lemma tgt_not_ver ts q : target base <> ver base ts ++ q.
Proof. norm_paths. intro E. apply app_inv_head in E. discriminate. Qed.

Lemma new_not_ver ts q : tnew base <> ver base ts ++ q.
Proof. norm_paths. intro E. apply app_inv_head in E. discriminate. Qed.

Lemma tgt_not_new : target base <> tnew base.
Proof. norm_paths. intro E. apply app_inv_head in E. discriminate. Qed.

Lemma prefix_base_short p c r : prefix p base -> p <> base ++ c :: r.
Proof. intros Hp E. apply prefix_length in Hp. subst p. rewrite app_length in Hp. cbn in Hp. lia. Qed.

Lemma ver_nonempty ts q : ver base ts ++ q <> [].
Proof. norm_paths. destruct base; discriminate. Qed.

Lemma prefix_ver q ts : prefix q (ver base ts) <-> prefix q base \/ q = ver base ts.
Proof. apply prefix_snoc. Qed.

Lemma parent_ver ts : parent (ver base ts) = base.
Proof. apply removelast_snoc. Qed.
Lemma parent_tgt : parent (target base) = base.
Proof. apply removelast_snoc. Qed.
Lemma parent_new : parent (tnew base) = base.
Proof. apply removelast_snoc. Qed.

Lemma known_cons H ts fl ts' : known ((ts, fl) :: H) ts' <-> ts' = ts \/ known H ts'.
Proof. unfold known. cbn. split; intros [E|E]; auto. Qed.

Lemma in_known H ts fl : In (ts, fl) H -> known H ts.
Proof. intro Hin. apply (in_map fst) in Hin. exact Hin. Qed.

Lemma cls_mono H H' p n : incl H H' -> cls H p n -> cls H' p n.
Proof.
  intros Hi C. assert (Hk : forall ts, known H ts -> known H' ts).
  { intros ts Hk. apply in_map_iff in Hk as [[a b] [E Hin]]. cbn in E. subst a.
    apply in_known with b. apply Hi, Hin. }
  destruct C; [apply cls_base | apply cls_ver | eapply cls_file | apply cls_tgt | apply cls_new]; eauto.
Qed.

(* everything at or below a version directory *)
Lemma cls_under H ts q n : cls H (ver base ts ++ q) n ->
  known H ts /\
  ((q = [] /\ n = NDir) \/
   exists k b fl, q = [CN k] /\ n = NFile b /\ In (ts, fl) H /\ In ([k], b) fl).
Proof.
  intro C. remember (ver base ts ++ q) as p eqn:Ep. destruct C as [p Hp|ts'|ts' k b fl Hin Hf|ts'|ts'].
  - exfalso. revert Ep. norm_paths. apply prefix_base_short, Hp.
  - rewrite <- (app_nil_r (ver base ts')) in Ep. apply ver_app_inj in Ep as [-> <-]. auto.
  - apply ver_app_inj in Ep as [-> <-]. split; [eapply in_known, Hin|]. right. exists k, b, fl. auto.
  - exfalso. exact (tgt_not_ver _ _ Ep).
  - exfalso. exact (new_not_ver _ _ Ep).
Qed.

Lemma cls_prefix_base H p n : cls H p n -> prefix p base -> n = NDir.
Proof.
  intros C Hp. destruct C; try reflexivity; exfalso; revert Hp; norm_paths; intro Hp;
    eapply prefix_base_short; try exact Hp; reflexivity.
Qed.

Lemma cls_tgt_inv H n : cls H (target base) n -> exists ts, n = NLink (ver base ts) /\ known H ts.
Proof.
  intro C. remember (target base) as p eqn:Ep. destruct C as [p Hp|ts'|ts' k b fl Hin Hf|ts'|ts'].
  - exfalso. revert Ep. norm_paths. apply prefix_base_short, Hp.
  - exfalso. symmetry in Ep. rewrite <- (app_nil_r (ver base ts')) in Ep. exact (tgt_not_ver _ _ Ep).
  - exfalso. symmetry in Ep. exact (tgt_not_ver _ _ Ep).
  - eauto.
  - exfalso. symmetry in Ep. exact (tgt_not_new Ep).
Qed.

Lemma cls_new_inv H n : cls H (tnew base) n -> exists ts, n = NLink (ver base ts) /\ known H ts.
Proof.
  intro C. remember (tnew base) as p eqn:Ep. destruct C as [p Hp|ts'|ts' k b fl Hin Hf|ts'|ts'].
  - exfalso. revert Ep. norm_paths. apply prefix_base_short, Hp.
  - exfalso. symmetry in Ep. rewrite <- (app_nil_r (ver base ts')) in Ep. exact (new_not_ver _ _ Ep).
  - exfalso. symmetry in Ep. exact (new_not_ver _ _ Ep).
  - exfalso. exact (tgt_not_new Ep).
  - eauto.
Qed.

Lemma keypath_inj k k' : keypath k = keypath k' -> k = k'.
Proof.
  unfold keypath. revert k'. induction k as [|a k IH]; intros [|b k'] E; try discriminate; [reflexivity|].
  cbn in E. inversion E. f_equal. apply IH. assumption.
Qed.

(* ---- invariant bookkeeping ---- *)

Lemma complete_frame f f' ts fl :
  (forall q, fs_get f' (ver base ts ++ q) = fs_get f (ver base ts ++ q)) ->
  complete f ts fl -> complete f' ts fl.
Proof.
  intros Hq [Hd Hf]. split.
  - rewrite <- (app_nil_r (ver base ts)), Hq, app_nil_r. exact Hd.
  - intros key b. rewrite Hq. apply Hf.
Qed.

Lemma tgt_ok_mono H H' f : incl H H' -> tgt_ok H f -> tgt_ok H' f.
Proof. intros Hi T n E. destruct (T n E) as (ts & fl & -> & Hin & C). exists ts, fl. auto. Qed.

Lemma inv_fs_mono H H' f : incl H H' -> Inv_fs H f -> Inv_fs H' f.
Proof.
  intros Hi [W R C T]. constructor; [exact W | exact R | | exact (tgt_ok_mono _ _ _ Hi T)].
  intros p n E. exact (cls_mono _ _ _ _ Hi (C p n E)).
Qed.

(* ------------------------------------------------------------------------------------- *)
(* one Write                                                                               *)

Section OneWrite.
Variables (H : hist) (ts : N) (fl : files) (f0 : fs).
Hypothesis fresh : ~ known H ts.
Hypothesis keys_nodup : NoDup (map fst fl).
Let H' : hist := (ts, fl) :: H.

(* before the rename: the target still shows what it showed, other version directories are
   untouched *)
Record Pre (f : fs) : Prop := mkPre {
  p_wf : wf f;
  p_root : fs_get f [] = Some NDir;
  p_cls : allcls H' f;
  p_tgt : tgt_ok H f;
  p_frame : forall ts', ts' <> ts -> fs_get f (ver base ts') = fs_get f0 (ver base ts')
}.

Lemma incl_H' : incl H H'.
Proof. intros x Hx. right. exact Hx. Qed.

Lemma pre_inv f : Pre f -> Inv_fs H' f.
Proof. intros [W R C T _]. constructor; auto. exact (tgt_ok_mono _ _ _ incl_H' T). Qed.

Lemma pre_change f f' :
  Pre f -> wf f' -> fs_get f' [] = Some NDir ->
  (forall q n, fs_get f' q = Some n -> fs_get f q = Some n \/ cls H' q n) ->
  fs_get f' (target base) = fs_get f (target base) ->
  (forall ts0 q, ts0 <> ts -> fs_get f' (ver base ts0 ++ q) = fs_get f (ver base ts0 ++ q)) ->
  Pre f'.
Proof.
  intros [W R C T F] W' R' C' Et Eo. constructor; auto.
  - intros q n E. destruct (C' q n E) as [E0|Hc]; [exact (C q n E0) | exact Hc].
  - intros n E. rewrite Et in E. destruct (T n E) as (t0 & fl0 & -> & Hin & Hc).
    exists t0, fl0. split; [reflexivity|]. split; [exact Hin|].
    apply complete_frame with f; [|exact Hc]. intro q. apply Eo.
    intros ->. apply fresh. eapply in_known, Hin.
  - intros ts' Hne. rewrite <- (F ts' Hne). rewrite <- (app_nil_r (ver base ts')). rewrite Eo by exact Hne.
    rewrite app_nil_r. reflexivity.
Qed.

Lemma pre_upd1 f f' p o :
  Pre f -> upd1 f f' p o -> wf f' -> p <> [] ->
  (forall n, o = Some n -> cls H' p n) -> p <> target base ->
  (forall ts0 q, ts0 <> ts -> p <> ver base ts0 ++ q) ->
  Pre f'.
Proof.
  intros P U W' Hne Hc Ht Hv. apply pre_change with f; auto.
  - rewrite (upd1_other _ _ _ _ _ U Hne). apply (p_root _ P).
  - intros q n E. rewrite U in E. destruct (path_eqP p q) as [<-|_]; [right; apply Hc, E | left; exact E].
  - apply (upd1_other _ _ _ _ _ U Ht).
  - intros ts0 q Hts. apply (upd1_other _ _ _ _ _ U). apply Hv, Hts.
Qed.

(* files are being written into the new version directory *)
Record Mid (f : fs) (written : files) : Prop := mkMid {
  m_pre : Pre f;
  m_base : fs_get f base = Some NDir;
  m_dir : fs_get f (ver base ts) = Some NDir;
  m_part : forall key b, In (key, b) written <-> fs_get f (ver base ts ++ keypath key) = Some (NFile b)
}.

Lemma fresh_absent f q : allcls H f -> fs_get f (ver base ts ++ q) = None.
Proof.
  intro C. destruct (fs_get f (ver base ts ++ q)) as [n|] eqn:E; [|reflexivity].
  exfalso. apply fresh. exact (proj1 (cls_under _ _ _ _ (C _ _ E))).
Qed.

Variable G : fs -> Prop.
Hypothesis G_inv : forall f, Inv_fs H' f -> G f.

(* the two MkdirAll calls *)
Lemma walk_mkdirs m Q rest :
  Inv_fs H f0 ->
  (forall f, Mid f [] -> walk m G Q f rest) ->
  walk m G Q f0 (SMkdirAll base :: SMkdirAll (ver base ts) :: rest).
Proof.
  intros I K.
  assert (P0 : Pre f0).
  { destruct I as [W R C T]. constructor; auto. intros p n E. exact (cls_mono _ _ _ _ incl_H' (C p n E)). }
  destruct (mkdir_all_spec f0 base (i_root _ _ I)) as (f1 & E1 & Hin1 & Hout1 & W1).
  { intros q n Hq E. exact (cls_prefix_base _ _ _ (i_cls _ _ I _ _ E) Hq). }
  assert (P1 : Pre f1).
  { apply pre_change with f0; auto.
    - apply W1, (i_wf _ _ I).
    - apply Hin1. exists base. reflexivity.
    - intros q n E. destruct (is_prefixP q base) as [Hq|Hq].
      + rewrite (Hin1 q Hq) in E. inversion E; subst. right. apply cls_base, Hq.
      + rewrite (Hout1 q Hq) in E. left. exact E.
    - apply Hout1. intro Hq. eapply prefix_base_short; [exact Hq | reflexivity].
    - intros ts0 q _. apply Hout1. intro Hq. revert Hq. unfold ver. rewrite <- app_assoc. cbn [app].
      intro Hq. eapply prefix_base_short; [exact Hq | reflexivity]. }
  apply walk_cons.
  - apply G_inv, pre_inv, P0.
  - intros _. cbn [exec]. rewrite E1. discriminate.
  - cbn [exec]. rewrite E1. intros f' Ef. inversion Ef; subst f'. clear Ef.
    assert (Habs : forall q, fs_get f1 (ver base ts ++ q) = None).
    { intro q. rewrite Hout1.
      - apply fresh_absent, (i_cls _ _ I).
      - unfold ver. rewrite <- app_assoc. cbn [app]. intro Hq.
        eapply prefix_base_short; [exact Hq | reflexivity]. }
    destruct (mkdir_all_spec f1 (ver base ts) (p_root _ P1)) as (f2 & E2 & Hin2 & Hout2 & W2).
    { intros q n Hq E. apply prefix_ver in Hq as [Hq | ->].
      - rewrite (Hin1 q Hq) in E. congruence.
      - rewrite <- (app_nil_r (ver base ts)), Habs in E. discriminate. }
    apply walk_cons.
    + apply G_inv, pre_inv, P1.
    + intros _. cbn [exec]. rewrite E2. discriminate.
    + cbn [exec]. rewrite E2. intros f' Ef. inversion Ef; subst f'. clear Ef.
      apply K. constructor.
      * apply pre_change with f1; auto.
        -- apply W2, (p_wf _ P1).
        -- apply Hin2. exists (ver base ts). reflexivity.
        -- intros q n E. destruct (is_prefixP q (ver base ts)) as [Hq|Hq].
           ++ rewrite (Hin2 q Hq) in E. inversion E; subst. right.
              apply prefix_ver in Hq as [Hq | ->]; [apply cls_base, Hq | apply cls_ver; left; reflexivity].
           ++ rewrite (Hout2 q Hq) in E. left. exact E.
        -- apply Hout2. intro Hq. apply prefix_ver in Hq as [Hq | Hq].
           ++ eapply prefix_base_short; [exact Hq | reflexivity].
           ++ rewrite <- (app_nil_r (ver base ts)) in Hq. exact (tgt_not_ver _ _ Hq).
        -- intros ts0 q Hts. apply Hout2. intro Hq. apply prefix_ver in Hq as [Hq | Hq].
           ++ revert Hq. unfold ver. rewrite <- app_assoc. cbn [app]. intro Hq.
              eapply prefix_base_short; [exact Hq | reflexivity].
           ++ rewrite <- (app_nil_r (ver base ts)) in Hq. apply ver_app_inj in Hq as [Hq _]. contradiction.
      * apply Hin2. apply prefix_ver. left. apply prefix_refl.
      * apply Hin2. apply prefix_refl.
      * intros key b. split; [intros []|]. intro E. exfalso.
        destruct key as [|k key].
        -- cbn in E. rewrite app_nil_r in E. rewrite (Hin2 _ (prefix_refl _)) in E. discriminate.
        -- rewrite Hout2, Habs in E; [discriminate|]. intro Hq. apply prefix_ver in Hq as [Hq | Hq].
           ++ revert Hq. unfold ver. rewrite <- app_assoc. cbn [app]. intro Hq.
              eapply prefix_base_short; [exact Hq | reflexivity].
           ++ rewrite <- (app_nil_r (ver base ts)) in Hq at 2. apply ver_app_inj in Hq as [_ Hq]. discriminate.
Qed.

Definition simple_b (kb : key * bytes) : bool := Nat.eqb (length (fst kb)) 1.

(* the loop over the files *)
Lemma walk_files m Q rest : forall fl2 fl1 f,
  Mid f fl1 -> fl = fl1 ++ fl2 ->
  (m = true -> forallb simple_b fl2 = true) ->
  (forall f', Mid f' fl -> walk m G Q f' rest) ->
  walk m G Q f (map (fun kb : key * bytes => SWriteFile (ver base ts ++ keypath (fst kb)) (snd kb)) fl2 ++ rest).
Proof.
  induction fl2 as [|[key b] fl2 IH]; intros fl1 f M Efl Hm K.
  - cbn [map app]. apply K. rewrite Efl, app_nil_r. exact M.
  - cbn [map app fst snd].
    assert (Hdeep : forall q, q <> [] -> fs_get f (ver base ts ++ q) <> Some NDir).
    { intros q Hq E. destruct (cls_under _ _ _ _ (p_cls _ (m_pre _ _ M) _ _ E)) as [_ [[-> _] | (k & b0 & fl0 & _ & Hn & _)]];
        [contradiction | discriminate]. }
    apply walk_cons.
    + apply G_inv, pre_inv, (m_pre _ _ M).
    + intros Em. specialize (Hm Em). cbn [forallb] in Hm. apply andb_true_iff in Hm as [Hs _].
      unfold simple_b in Hs. cbn [fst] in Hs. apply Nat.eqb_eq in Hs.
      destruct key as [|k [|k2 key]]; try discriminate. cbn [exec keypath map].
      rewrite write_file_ok; [discriminate | apply ver_nonempty | |].
      * unfold parent. rewrite removelast_snoc. apply (m_dir _ _ M).
      * destruct (fs_get f (ver base ts ++ [CN k])) as [n|] eqn:E; [|left; reflexivity].
        destruct (cls_under _ _ _ _ (p_cls _ (m_pre _ _ M) _ _ E)) as [_ [[Hq _] | (k0 & b0 & fl0 & _ & -> & _)]];
          [discriminate | right; exists b0; reflexivity].
    + cbn [exec]. intros f' Ef. apply write_file_spec in Ef as (Hne & Hpar & Hold & ->).
      (* the name must be a single component *)
      assert (exists k, key = [k]) as [k ->].
      { destruct key as [|k key].
        - exfalso. cbn in Hold. rewrite app_nil_r in Hold. rewrite (m_dir _ _ M) in Hold.
          destruct Hold as [Hold | [b0 Hold]]; discriminate.
        - destruct key as [|k2 key]; [exists k; reflexivity|]. exfalso.
          unfold parent in Hpar. change (keypath (k :: k2 :: key)) with (CN k :: keypath (k2 :: key)) in Hpar.
          assert (E : removelast (ver base ts ++ CN k :: keypath (k2 :: key))
                      = ver base ts ++ removelast (CN k :: keypath (k2 :: key))).
          { apply removelast_app. discriminate. }
          rewrite E in Hpar. apply (Hdeep (removelast (CN k :: keypath (k2 :: key)))); [|exact Hpar].
          cbn. discriminate. }
      cbn [keypath map] in *.
      assert (Hin : In ([k], b) fl) by (rewrite Efl; apply in_or_app; right; left; reflexivity).
      assert (Hnot : ~ In [k] (map fst fl1)).
      { rewrite Efl, map_app in keys_nodup. cbn [map fst] in keys_nodup.
        apply NoDup_remove_2 in keys_nodup. intro Hk. apply keys_nodup. apply in_or_app. left. exact Hk. }
      apply (IH (fl1 ++ [([k], b)])).
      * constructor.
        -- apply pre_upd1 with f (ver base ts ++ [CN k]) (Some (NFile b)); auto.
           ++ apply (m_pre _ _ M).
           ++ apply upd1_put.
           ++ apply wf_put, (p_wf _ (m_pre _ _ M)).
           ++ intros n En. inversion En; subst. eapply cls_file; [left; reflexivity | exact Hin].
           ++ intro E. symmetry in E. exact (tgt_not_ver _ _ E).
           ++ intros ts0 q Hts E. apply ver_app_inj in E as [E _]. congruence.
        -- rewrite get_put, path_eqb_neq; [apply (m_base _ _ M)|].
           unfold ver. rewrite <- app_assoc. cbn [app]. intro E.
           apply (f_equal (@length comp)) in E. rewrite app_length in E. cbn in E. lia.
        -- rewrite get_put, path_eqb_neq; [apply (m_dir _ _ M)|].
           intro E. apply (f_equal (@length comp)) in E. rewrite app_length in E. cbn in E. lia.
        -- intros key' b'. rewrite get_put. destruct (path_eqP (ver base ts ++ [CN k]) (ver base ts ++ keypath key')) as [E|E].
           ++ apply app_inv_head in E. change [CN k] with (keypath [k]) in E. apply keypath_inj in E. subst key'.
              split.
              ** intro Hi. apply in_app_or in Hi as [Hi | [Hi | []]].
                 --- exfalso. apply Hnot. apply (in_map fst) in Hi. exact Hi.
                 --- inversion Hi; subst. reflexivity.
              ** intro Eb. inversion Eb; subst. apply in_or_app. right. left. reflexivity.
           ++ rewrite <- (m_part _ _ M). split.
              ** intro Hi. apply in_app_or in Hi as [Hi | [Hi | []]]; [exact Hi|].
                 inversion Hi; subst. exfalso. apply E. reflexivity.
              ** intro Hi. apply in_or_app. left. exact Hi.
      * rewrite <- app_assoc. exact Efl.
      * intro Em. specialize (Hm Em). cbn [forallb] in Hm. apply andb_true_iff in Hm as [_ Hm]. exact Hm.
      * exact K.
Qed.

(* after the rename: the target shows the new set *)
Record Fin (f : fs) : Prop := mkFin {
  f_inv : Inv_fs H' f;
  f_tgt : fs_get f (target base) = Some (NLink (ver base ts));
  f_complete : complete f ts fl;
  f_new : fs_get f (tnew base) = None
}.

Definition frame_after (prev : option path) (f : fs) : Prop :=
  forall ts', ts' <> ts ->
    fs_get f (ver base ts') = match prev with
                               | Some p => if path_eqb p (ver base ts') then None else fs_get f0 (ver base ts')
                               | None => fs_get f0 (ver base ts')
                               end.

Definition Post (prev : option path) (f : fs) : Prop := Fin f /\ frame_after prev f.

Lemma mid_complete f : Mid f fl -> complete f ts fl.
Proof. intros M. split; [apply (m_dir _ _ M) | apply (m_part _ _ M)]. Qed.

(* symlink, rename, removal of the previous version *)
Lemma walk_tail m prev f :
  Mid f fl -> fs_get f (tnew base) = None -> prev_ok H prev ->
  walk m G (Post prev) f
       ([SSymlink (ver base ts) (tnew base); SRename (tnew base) (target base)]
        ++ match prev with Some p => [SRemoveAll p] | None => [] end).
Proof.
  intros M Hnew Hprev. cbn [app].
  pose proof (m_pre _ _ M) as P.
  assert (Hsym : symlink f (ver base ts) (tnew base) = Some (fs_put f (tnew base) (NLink (ver base ts)))).
  { apply symlink_ok; [exact Hnew|]. rewrite parent_new. apply (m_base _ _ M). }
  apply walk_cons.
  - apply G_inv, pre_inv, P.
  - intros _. cbn [exec]. rewrite Hsym. discriminate.
  - cbn [exec]. rewrite Hsym. intros f1 Ef. inversion Ef; subst f1. clear Ef.
    set (f1 := fs_put f (tnew base) (NLink (ver base ts))).
    assert (U1 : upd1 f f1 (tnew base) (Some (NLink (ver base ts)))) by apply upd1_put.
    assert (P1 : Pre f1).
    { apply pre_upd1 with f (tnew base) (Some (NLink (ver base ts))); auto.
      - apply wf_put, (p_wf _ P).
      - unfold tnew. destruct base; discriminate.
      - intros n En. inversion En; subst. apply cls_new. left. reflexivity.
      - intro E. symmetry in E. exact (tgt_not_new E).
      - intros ts0 q _. apply new_not_ver. }
    assert (Hren : rename f1 (tnew base) (target base)
                   = Some (fs_put (fs_del f1 (tnew base)) (target base) (NLink (ver base ts)))).
    { apply rename_link_ok.
      - apply (upd1_same _ _ _ _ U1).
      - intro E. apply (p_cls _ P1) in E. apply cls_tgt_inv in E as (t0 & E & _). discriminate.
      - rewrite parent_tgt. rewrite (upd1_other _ _ _ _ _ U1); [apply (m_base _ _ M)|].
        unfold tnew. intro E. apply (f_equal (@length comp)) in E. rewrite app_length in E. cbn in E. lia. }
    clearbody f1.
    apply walk_cons.
    + apply G_inv, pre_inv, P1.
    + intros _. cbn [exec]. rewrite Hren. discriminate.
    + cbn [exec]. rewrite Hren. intros f2 Ef. inversion Ef; subst f2. clear Ef.
      set (f2 := fs_put (fs_del f1 (tnew base)) (target base) (NLink (ver base ts))).
      assert (G2 : forall q, fs_get f2 q = if path_eqb (target base) q then Some (NLink (ver base ts))
                                           else if path_eqb (tnew base) q then None else fs_get f q).
      { intro q. unfold f2. rewrite get_put, get_del. destruct (path_eqb (target base) q); [reflexivity|].
        destruct (path_eqP (tnew base) q) as [<-|Hq]; [reflexivity|]. apply (upd1_other _ _ _ _ _ U1 Hq). }
      assert (Hunder : forall t0 q, fs_get f2 (ver base t0 ++ q) = fs_get f (ver base t0 ++ q)).
      { intros t0 q. rewrite G2. rewrite path_eqb_neq by apply tgt_not_ver.
        rewrite path_eqb_neq by apply new_not_ver. reflexivity. }
      assert (C2 : complete f2 ts fl) by (apply complete_frame with f; [apply Hunder | apply mid_complete, M]).
      assert (F2 : Fin f2).
      { constructor.
        - constructor.
          + unfold f2. apply wf_put, wf_del, (p_wf _ P1).
          + rewrite G2. rewrite path_eqb_neq by (unfold target; destruct base; discriminate).
            rewrite path_eqb_neq by (unfold tnew; destruct base; discriminate). apply (p_root _ P).
          + intros q n E. rewrite G2 in E. destruct (path_eqP (target base) q) as [<-|_].
            * inversion E; subst. apply cls_tgt. left. reflexivity.
            * destruct (path_eqb (tnew base) q); [discriminate | exact (p_cls _ P _ _ E)].
          + intros n E. rewrite G2, path_eqb_refl in E. inversion E; subst.
            exists ts, fl. split; [reflexivity|]. split; [left; reflexivity | exact C2].
        - rewrite G2, path_eqb_refl. reflexivity.
        - exact C2.
        - rewrite G2. rewrite path_eqb_neq by apply tgt_not_new. rewrite path_eqb_refl. reflexivity. }
      assert (Fr2 : forall ts', ts' <> ts -> fs_get f2 (ver base ts') = fs_get f0 (ver base ts')).
      { intros ts' Hne. rewrite <- (app_nil_r (ver base ts')), Hunder, app_nil_r. apply (p_frame _ P), Hne. }
      clearbody f2.
      destruct prev as [p|].
      * destruct (Hprev p eq_refl) as (tp & -> & Hkp).
        assert (Htp : tp <> ts) by (intros ->; exact (fresh Hkp)).
        apply walk_cons.
        -- apply G_inv, (f_inv _ F2).
        -- intros _. cbn. discriminate.
        -- cbn [exec remove_all]. intros f3 Ef. inversion Ef; subst f3. clear Ef. cbn [walk].
           set (f3 := fs_del_tree f2 (ver base tp)).
           assert (G3 : forall q, ~ prefix (ver base tp) q -> fs_get f3 q = fs_get f2 q).
           { intros q Hq. unfold f3. rewrite get_del_tree. destruct (is_prefixP (ver base tp) q); [contradiction | reflexivity]. }
           assert (Hts : forall q, ~ prefix (ver base tp) (ver base ts ++ q)).
           { intros q [r E]. apply ver_app_inj in E as [E _]. congruence. }
           assert (C3 : complete f3 ts fl).
           { apply complete_frame with f2; [|exact C2]. intro q. apply G3, Hts. }
           assert (Ht3 : fs_get f3 (target base) = Some (NLink (ver base ts))).
           { rewrite G3; [apply (f_tgt _ F2)|]. intros [r E]. exact (tgt_not_ver _ _ E). }
           assert (F3 : Fin f3).
           { constructor.
             - constructor.
               + apply wf_del_tree, (i_wf _ _ (f_inv _ F2)).
               + rewrite G3; [apply (i_root _ _ (f_inv _ F2))|]. intros [r E]. symmetry in E. exact (ver_nonempty _ _ E).
               + intros q n E. unfold f3 in E. rewrite get_del_tree in E.
                 destruct (is_prefix (ver base tp) q); [discriminate|]. exact (i_cls _ _ (f_inv _ F2) _ _ E).
               + intros n E. rewrite Ht3 in E. inversion E; subst.
                 exists ts, fl. split; [reflexivity|]. split; [left; reflexivity | exact C3].
             - exact Ht3.
             - exact C3.
             - rewrite G3; [apply (f_new _ F2)|]. intros [r E]. exact (new_not_ver _ _ E). }
           split; [apply G_inv, (f_inv _ F3)|]. split; [exact F3|].
           intros ts' Hne. destruct (path_eqP (ver base tp) (ver base ts')) as [E|E].
           ++ unfold f3. rewrite get_del_tree, E. destruct (is_prefixP (ver base ts') (ver base ts')) as [_|Hn]; [reflexivity|].
              exfalso. apply Hn, prefix_refl.
           ++ rewrite G3; [apply Fr2, Hne|]. intros [r Er]. rewrite <- (app_nil_r (ver base ts')) in Er.
              apply ver_app_inj in Er as [Er _]. apply E. congruence.
      * cbn [walk]. split; [apply G_inv, (f_inv _ F2)|]. split; [exact F2 | exact Fr2].
Qed.

(* the whole call *)
Lemma walk_write v prev :
  Inv_fs H f0 -> prev_ok H prev ->
  walk (is_fixed v && forallb simple_b fl) G (Post prev) f0 (write_steps v base prev ts fl).
Proof.
  intros I Hprev. unfold write_steps. cbn [app].
  apply walk_mkdirs; [exact I|]. intros f1 M1.
  apply walk_files with (fl1 := []); [exact M1 | reflexivity | |].
  { intro E. apply andb_true_iff in E as [_ E]. exact E. }
  intros f2 M2. pose proof (m_pre _ _ M2) as P2.
  assert (Hnew : fs_get f2 (tnew base) = None \/ exists t, fs_get f2 (tnew base) = Some (NLink t)).
  { destruct (fs_get f2 (tnew base)) as [n|] eqn:E; [|left; reflexivity].
    apply (p_cls _ P2) in E. apply cls_new_inv in E as (t0 & -> & _). right. eexists. reflexivity. }
  destruct v; cbn [is_fixed andb app].
  - (* Original: the symlink fails when a stale link exists *)
    destruct (fs_get f2 (tnew base)) as [n|] eqn:En.
    + cbn [walk exec]. split; [apply G_inv, pre_inv, P2|]. unfold symlink. rewrite En. reflexivity.
    + apply (walk_tail false prev f2 M2 En Hprev).
  - (* Fixed: remove a stale link first *)
    destruct (remove_link_spec f2 (tnew base) Hnew) as (f3 & E3 & U3 & W3).
    apply walk_cons.
    + apply G_inv, pre_inv, P2.
    + intros _. cbn [exec]. rewrite E3. discriminate.
    + cbn [exec]. rewrite E3. intros f' Ef. inversion Ef; subst f'. clear Ef.
      assert (Hn : tnew base <> base).
      { unfold tnew. intro E. apply (f_equal (@length comp)) in E. rewrite app_length in E. cbn in E. lia. }
      apply walk_tail; [|apply (upd1_same _ _ _ _ U3) | exact Hprev].
      constructor.
      * apply pre_upd1 with f2 (tnew base) None; auto.
        -- apply W3, (p_wf _ P2).
        -- unfold tnew. destruct base; discriminate.
        -- discriminate.
        -- intro E. symmetry in E. exact (tgt_not_new E).
        -- intros ts0 q _. apply new_not_ver.
      * rewrite (upd1_other _ _ _ _ _ U3 Hn). apply (m_base _ _ M2).
      * rewrite (upd1_other _ _ _ _ _ U3); [apply (m_dir _ _ M2)|].
        rewrite <- (app_nil_r (ver base ts)). apply new_not_ver.
      * intros key b. rewrite (upd1_other _ _ _ _ _ U3); [apply (m_part _ _ M2) | apply new_not_ver].
Qed.

End OneWrite.
End Base.
