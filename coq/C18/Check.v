(* C18 — executable correspondence interface. A case is a history of Write calls on one target
   below a fresh temp directory, with, per call, what the implementation was OBSERVED to do:
   the outcome (nil / error / the injected crash was reached), the whole directory tree after
   the call (version-directory names canonicalised to the index of the call that created them)
   and the distinct validated observations of a concurrent reader of the target.
   [check_case] replays the history on the model of the current tree (Fixed), compares, and
   evaluates the spec oracle on the observations alone. *)
From Kit Require Export C18.Model C18.Spec Lib.CheckLib.

Record opobs := mkOp {
  o_fresh : bool;          (* the call is made on a new Dir value (always so after a crash) *)
  o_files : files;         (* the file set, in the order the implementation wrote it *)
  o_crash : option Z;      (* Some j: the injected logger panics at its j-th call (1-based) *)
  o_out : outcome;         (* observed: nil = Done, error = Failed, panic reached = Crashed *)
  o_tree : fs;             (* observed tree below the temp root after the call *)
  o_views : list view      (* what the concurrent reader saw during the call *)
}.

Inductive case := Case (base : list N) (pre : bool) (ops : list opobs).

(* dir.go logs after every file, after the symlink and after the rename; the j-th log call of
   one Write therefore happens after this many filesystem steps of [write_steps]. *)
Definition log_prefix (v : variant) (nfiles : nat) (j : Z) : option nat :=
  let j := Z.to_nat j in
  let fx := if is_fixed v then 1 else 0 in
  if Nat.eqb j 0 then None
  else if Nat.leb j nfiles then Some (2 + j)
  else if Nat.eqb j (nfiles + 1) then Some (2 + nfiles + fx + 1)
  else if Nat.eqb j (nfiles + 2) then Some (2 + nfiles + fx + 2)
  else None.

Definition fs_sub (a b : fs) : bool :=
  forallb (fun e : path * node =>
             match fs_get b (fst e) with Some n => node_eqb n (snd e) | None => false end) a.
Definition fs_eqb (a b : fs) : bool := fs_sub a b && fs_sub b a.

Definition view_eqb (a b : view) : bool :=
  match a, b with
  | VAbsent, VAbsent => true
  | VBroken, VBroken => true
  | VSet x, VSet y => same_files_b x y
  | _, _ => false
  end.

(* every filesystem state the steps pass through, the initial one included *)
Fixpoint trace_steps (f : fs) (ss : list step) : list fs :=
  f :: match ss with
       | [] => []
       | s :: t => match exec f s with Some f' => trace_steps f' t | None => [] end
       end.

Record cst := mkC {
  c_st : st;               (* model state *)
  c_calls : list files;    (* file sets of the calls so far *)
  c_succ : bool;           (* some call was observed to return nil *)
  c_clean : bool;          (* so far: one Dir value, every call returned nil *)
  c_idx : N;
  c_model_ok : bool;
  c_oracle_ok : bool
}.

Definition is_done (o : outcome) : bool := outcome_eqb o Done.

Definition check_op (v : variant) (base : path) (c : cst) (o : opobs) : cst :=
  let tgt := target base in
  let idx := c_idx c in
  let s := if o_fresh o then mkSt (sfs (c_st c)) None else c_st c in
  let fl := o_files o in
  let crash := match o_crash o with Some j => log_prefix v (length fl) j | None => None end in
  let steps := write_steps v base (sprev s) idx fl in
  let run := match crash with Some k => firstn k steps | None => steps end in
  let '(s', out) := write v base s idx fl crash in
  let calls := fl :: c_calls c in
  let succ' := c_succ c || is_done (o_out o) in
  let clean' := c_clean c && is_done (o_out o) && ((idx =? 0)%N || negb (o_fresh o)) in
  let tview := resolve (o_tree o) tgt in
  let oracle :=
    view_ok_b calls succ' tview
    && forallb (view_ok_b calls (c_succ c)) (o_views o)
    && (if is_done (o_out o) then shows_b tview fl else true)
    && (if files_valid_b fl then negb (outcome_eqb (o_out o) Failed) else true)
    && (if clean' then Nat.eqb (length (ver_dirs (o_tree o) base)) 1 else true) in
  let model_views := map (fun f => resolve f tgt) (trace_steps (sfs s) run) in
  let model :=
    outcome_eqb out (o_out o) && fs_eqb (sfs s') (o_tree o)
    && forallb (fun w => existsb (view_eqb w) model_views) (o_views o) in
  mkC s' calls succ' clean' (idx + 1)%N (c_model_ok c && model) (c_oracle_ok c && oracle).

Definition init_fs (base : path) (pre : bool) : fs :=
  if pre then match mkdir_all fs0 base with Some f => f | None => fs0 end else fs0.

Definition check_ops (v : variant) (base : path) (pre : bool) (ops : list opobs) : cst :=
  fold_left (check_op v base) ops (mkC (mkSt (init_fs base pre) None) [] false true 0%N true true).

Definition oracle (c : case) : bool :=
  match c with Case b pre ops => c_oracle_ok (check_ops Fixed (map CN b) pre ops) end.

Definition model_agrees (v : variant) (c : case) : bool :=
  match c with Case b pre ops => c_model_ok (check_ops v (map CN b) pre ops) end.

(* 0 = agree and oracle holds; 1 = model and implementation differ; 2 = the implementation's
   observed behaviour violates the spec. *)
Definition check_case (c : case) : Z :=
  if negb (oracle c) then 2 else if negb (model_agrees Fixed c) then 1 else 0.

Definition run_cases (cs : list (Z * case)) : list (Z * Z) := failures check_case cs.
