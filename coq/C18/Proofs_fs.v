(* C18 — lemmas about the filesystem model: equality tests, prefixes, the association-list
   operations seen through [fs_get], and the effect of every POSIX step as a pointwise
   description of [fs_get] afterwards. *)
From Kit Require Import C18.Model.
From Coq Require Import Permutation.

(* ------------------------------------------------------------------------------------- *)
(* equality tests                                                                          *)

Lemma comp_eqb_eq a b : comp_eqb a b = true <-> a = b.
Proof.
  destruct a, b; cbn [comp_eqb]; split; intro H; try discriminate; try reflexivity.
  - apply N.eqb_eq in H. congruence.
  - inversion H. apply N.eqb_refl.
  - apply N.eqb_eq in H. congruence.
  - inversion H. apply N.eqb_refl.
Qed.

Lemma path_eqb_eq p q : path_eqb p q = true <-> p = q.
Proof.
  revert q. induction p as [|a p IH]; intros [|b q]; cbn [path_eqb]; split; intro H;
    try discriminate; try reflexivity.
  - apply andb_true_iff in H as [H1 H2]. apply comp_eqb_eq in H1. apply IH in H2. congruence.
  - inversion H; subst. apply andb_true_iff. split; [apply comp_eqb_eq | apply IH]; reflexivity.
Qed.

Lemma path_eqb_refl p : path_eqb p p = true.
Proof. apply path_eqb_eq. reflexivity. Qed.

Lemma path_eqb_neq p q : p <> q -> path_eqb p q = false.
Proof. intro H. destruct (path_eqb p q) eqn:E; [apply path_eqb_eq in E; contradiction | reflexivity]. Qed.

Lemma path_eqP p q : reflect (p = q) (path_eqb p q).
Proof. destruct (path_eqb p q) eqn:E; constructor; [apply path_eqb_eq, E|]. intro H. apply path_eqb_eq in H. congruence. Qed.

Lemma path_eq_dec (p q : path) : {p = q} + {p <> q}.
Proof. destruct (path_eqP p q); [left | right]; assumption. Qed.

Definition prefix (p q : path) : Prop := exists r, q = p ++ r.

Lemma is_prefix_iff p q : is_prefix p q = true <-> prefix p q.
Proof.
  revert q. induction p as [|a p IH]; intros q; cbn [is_prefix].
  - split; [intros _; exists q; reflexivity | reflexivity].
  - destruct q as [|b q].
    + split; [discriminate | intros [r Hr]; discriminate].
    + split.
      * intro H. apply andb_true_iff in H as [H1 H2]. apply comp_eqb_eq in H1. apply IH in H2 as [r Hr].
        exists r. cbn. congruence.
      * intros [r Hr]. cbn in Hr. inversion Hr; subst. apply andb_true_iff. split.
        -- apply comp_eqb_eq. reflexivity.
        -- apply IH. exists r. reflexivity.
Qed.

Lemma is_prefixP p q : reflect (prefix p q) (is_prefix p q).
Proof.
  destruct (is_prefix p q) eqn:E; constructor; [apply is_prefix_iff, E|].
  intro H. apply is_prefix_iff in H. congruence.
Qed.

Lemma prefix_refl p : prefix p p.
Proof. exists []. symmetry. apply app_nil_r. Qed.

Lemma prefix_app p r : prefix p (p ++ r).
Proof. exists r. reflexivity. Qed.

Lemma prefix_length p q : prefix p q -> length p <= length q.
Proof. intros [r ->]. rewrite app_length. lia. Qed.

Lemma prefix_trans p q r : prefix p q -> prefix q r -> prefix p r.
Proof. intros [a ->] [b ->]. exists (a ++ b). symmetry. apply app_assoc. Qed.

(* a prefix of [p ++ [c]] is a prefix of p or the whole path *)
Lemma prefix_snoc q p c : prefix q (p ++ [c]) <-> prefix q p \/ q = p ++ [c].
Proof.
  split.
  - intros [r Hr]. induction r as [|x r _] using rev_ind.
    + right. rewrite app_nil_r in Hr. congruence.
    + left. rewrite app_assoc in Hr. apply app_inj_tail in Hr as [Hr _]. exists r. exact Hr.
  - intros [[r ->] | ->].
    + exists (r ++ [c]). symmetry. apply app_assoc.
    + apply prefix_refl.
Qed.

(* two prefixes of one path are comparable *)
Lemma app_eq_prefix (p q a b : path) : p ++ a = q ++ b -> prefix p q \/ prefix q p.
Proof.
  revert q. induction p as [|x p IH]; intros q H.
  - left. exists q. reflexivity.
  - destruct q as [|y q].
    + right. exists (x :: p). reflexivity.
    + cbn in H. inversion H; subst. destruct (IH _ H2) as [[r ->] | [r ->]].
      * left. exists r. reflexivity.
      * right. exists r. reflexivity.
Qed.

Lemma removelast_snoc {A} (l : list A) a : removelast (l ++ [a]) = l.
Proof. apply removelast_last. Qed.

(* ------------------------------------------------------------------------------------- *)
(* association-list operations through fs_get                                              *)

Definition wf (f : fs) : Prop := NoDup (map fst f).

Lemma get_in f p n : fs_get f p = Some n -> In (p, n) f.
Proof.
  induction f as [|[q m] t IH]; cbn [fs_get]; [discriminate|].
  destruct (path_eqP q p) as [->|Hne]; intro H.
  - inversion H; subst. left. reflexivity.
  - right. apply IH, H.
Qed.

Lemma get_none_notin f p : fs_get f p = None -> ~ In p (map fst f).
Proof.
  induction f as [|[q m] t IH]; cbn [fs_get map fst]; [intros _ []|].
  destruct (path_eqP q p) as [->|Hne]; [discriminate|]. intros H [E|E]; [contradiction | exact (IH H E)].
Qed.

Lemma in_get f p n : wf f -> In (p, n) f -> fs_get f p = Some n.
Proof.
  unfold wf. induction f as [|[q m] t IH]; cbn [fs_get map fst]; [intros _ []|].
  intros Hnd [E|E].
  - inversion E; subst. rewrite path_eqb_refl. reflexivity.
  - inversion Hnd as [|? ? Hnot Hnd']; subst. destruct (path_eqP q p) as [->|Hne].
    + exfalso. apply Hnot. apply (in_map fst) in E. exact E.
    + apply IH; assumption.
Qed.

Lemma get_del f p q : fs_get (fs_del f p) q = if path_eqb p q then None else fs_get f q.
Proof.
  unfold fs_del. induction f as [|[a m] t IH]; cbn [filter fs_get fst].
  - destruct (path_eqb p q); reflexivity.
  - destruct (path_eqP a p) as [->|Hap]; cbn [negb].
    + rewrite IH. destruct (path_eqP p q) as [->|Hpq]; reflexivity.
    + cbn [fs_get]. destruct (path_eqP a q) as [->|Haq].
      * rewrite path_eqb_neq by congruence. reflexivity.
      * exact IH.
Qed.

Lemma get_put f p n q : fs_get (fs_put f p n) q = if path_eqb p q then Some n else fs_get f q.
Proof.
  unfold fs_put. cbn [fs_get]. destruct (path_eqP p q) as [->|H]; [reflexivity|].
  rewrite get_del. rewrite path_eqb_neq by assumption. reflexivity.
Qed.

Lemma get_del_tree f p q : fs_get (fs_del_tree f p) q = if is_prefix p q then None else fs_get f q.
Proof.
  unfold fs_del_tree. induction f as [|[a m] t IH]; cbn [filter fs_get fst].
  - destruct (is_prefix p q); reflexivity.
  - destruct (is_prefix p a) eqn:Epa; cbn [negb].
    + rewrite IH. destruct (is_prefix p q) eqn:Epq; [reflexivity|].
      destruct (path_eqP a q) as [->|Haq]; [congruence | reflexivity].
    + cbn [fs_get]. destruct (path_eqP a q) as [->|Haq].
      * rewrite Epa. reflexivity.
      * exact IH.
Qed.

Lemma wf_filter f g : wf f -> wf (filter g f).
Proof.
  unfold wf. induction f as [|[a m] t IH]; cbn [filter map fst]; [intros H; exact H|].
  intros H. inversion H as [|? ? Hnot Hnd]; subst. destruct (g (a, m)); cbn [map fst].
  - constructor; [|apply IH, Hnd]. intro Hin. apply Hnot. apply in_map_iff in Hin as [e [He Hin]].
    apply filter_In in Hin as [Hin _]. apply in_map_iff. exists e. split; assumption.
  - apply IH, Hnd.
Qed.

Lemma wf_del f p : wf f -> wf (fs_del f p).
Proof. apply wf_filter. Qed.

Lemma wf_del_tree f p : wf f -> wf (fs_del_tree f p).
Proof. apply wf_filter. Qed.

Lemma wf_put f p n : wf f -> wf (fs_put f p n).
Proof.
  intro H. unfold fs_put, wf. cbn [map fst]. constructor; [|apply wf_del, H].
  apply get_none_notin. rewrite get_del, path_eqb_refl. reflexivity.
Qed.

Lemma is_dir_true f p : is_dir f p = true <-> fs_get f p = Some NDir.
Proof.
  unfold is_dir. destruct (fs_get f p) as [[| |]|]; split; intro H; try discriminate; reflexivity.
Qed.

(* ------------------------------------------------------------------------------------- *)
(* the POSIX steps, pointwise                                                              *)

(* f' is f with the single path p rebound to o *)
Definition upd1 (f f' : fs) (p : path) (o : option node) : Prop :=
  forall q, fs_get f' q = if path_eqb p q then o else fs_get f q.

Lemma upd1_same f f' p o : upd1 f f' p o -> fs_get f' p = o.
Proof. intro H. rewrite H, path_eqb_refl. reflexivity. Qed.

Lemma upd1_other f f' p o q : upd1 f f' p o -> p <> q -> fs_get f' q = fs_get f q.
Proof. intros H Hne. rewrite H, path_eqb_neq by assumption. reflexivity. Qed.

Lemma upd1_put f p n : upd1 f (fs_put f p n) p (Some n).
Proof. intro q. apply get_put. Qed.

Lemma upd1_del f p : upd1 f (fs_del f p) p None.
Proof. intro q. apply get_del. Qed.

(* mkdir -p: when everything already at a prefix of p is a directory, it succeeds, every prefix
   of p is a directory afterwards and nothing else changes *)
Lemma mkdir_chain_spec rest : forall pre f,
  fs_get f pre = Some NDir ->
  (forall q n, prefix q (pre ++ rest) -> fs_get f q = Some n -> n = NDir) ->
  exists f', mkdir_chain f (prefixes_from pre rest) = Some f' /\
    (forall q, prefix pre q -> prefix q (pre ++ rest) -> fs_get f' q = Some NDir) /\
    (forall q, ~ (prefix pre q /\ prefix q (pre ++ rest)) -> fs_get f' q = fs_get f q) /\
    (wf f -> wf f').
Proof.
  induction rest as [|c r IH]; intros pre f Hpre Hdirs; cbn [prefixes_from mkdir_chain].
  - exists f. split; [reflexivity|]. split; [|split; [reflexivity | tauto]].
    intros q [a Ha] [b Hb]. rewrite app_nil_r in Hb. subst q.
    assert (a = []) as ->.
    { apply (f_equal (@length comp)) in Hb. rewrite !app_length in Hb. destruct a; [reflexivity | cbn in Hb; lia]. }
    rewrite app_nil_r. exact Hpre.
  - set (p1 := pre ++ [c]).
    assert (Hp1 : prefix p1 (pre ++ c :: r)).
    { exists r. unfold p1. rewrite <- app_assoc. reflexivity. }
    assert (exists f1, mkdir1 f p1 = Some f1 /\ upd1 f f1 p1 (Some NDir) /\ (wf f -> wf f1))
      as (f1 & E1 & U1 & W1).
    { unfold mkdir1. destruct (fs_get f p1) as [n|] eqn:Eg.
      - pose proof (Hdirs _ _ Hp1 Eg) as En. subst n. exists f. split; [reflexivity|]. split; [|tauto].
        intro q. destruct (path_eqP p1 q) as [<-|]; [exact Eg | reflexivity].
      - unfold parent, p1. rewrite removelast_snoc. unfold is_dir. rewrite Hpre.
        exists (fs_put f (pre ++ [c]) NDir). split; [reflexivity|]. split; [apply upd1_put|].
        apply wf_put. }
    rewrite E1.
    assert (Happ : p1 ++ r = pre ++ c :: r) by (unfold p1; rewrite <- app_assoc; reflexivity).
    destruct (IH p1 f1) as (f' & E' & Hin & Hout & W').
    + apply (upd1_same _ _ _ _ U1).
    + intros q n Hq Hg. rewrite Happ in Hq. rewrite U1 in Hg.
      destruct (path_eqb p1 q); [congruence | exact (Hdirs _ _ Hq Hg)].
    + exists f'. split; [exact E'|]. split; [|split].
      * intros q Hq1 Hq2. destruct (path_eq_dec q pre) as [->|Hne].
        -- rewrite Hout.
           ++ rewrite (upd1_other _ _ _ _ _ U1); [exact Hpre|].
              unfold p1. intro E. apply (f_equal (@length comp)) in E. rewrite app_length in E. cbn in E. lia.
           ++ intros [[a Ha] _]. unfold p1 in Ha. apply (f_equal (@length comp)) in Ha.
              rewrite !app_length in Ha. cbn in Ha. lia.
        -- apply Hin; [|rewrite Happ; exact Hq2].
           destruct Hq1 as [a ->]. destruct Hq2 as [b Hb]. rewrite <- app_assoc in Hb.
           apply app_inv_head in Hb. destruct a as [|x a]; [rewrite app_nil_r in Hne; contradiction|].
           cbn in Hb. inversion Hb; subst. exists a. unfold p1. rewrite <- app_assoc. reflexivity.
      * intros q Hq. rewrite Hout.
        -- apply (upd1_other _ _ _ _ _ U1). intros <-. apply Hq. split; [|exact Hp1].
           exists [c]. reflexivity.
        -- intros [Ha Hb]. apply Hq. rewrite Happ in Hb. split; [|exact Hb].
           apply prefix_trans with p1; [exists [c]; reflexivity | exact Ha].
      * tauto.
Qed.

Lemma mkdir_all_spec f p :
  fs_get f [] = Some NDir ->
  (forall q n, prefix q p -> fs_get f q = Some n -> n = NDir) ->
  exists f', mkdir_all f p = Some f' /\
    (forall q, prefix q p -> fs_get f' q = Some NDir) /\
    (forall q, ~ prefix q p -> fs_get f' q = fs_get f q) /\
    (wf f -> wf f').
Proof.
  intros Hroot Hdirs. destruct (mkdir_chain_spec p [] f Hroot Hdirs) as (f' & E & Hin & Hout & W).
  exists f'. split; [exact E|]. split; [|split; [|exact W]].
  - intros q Hq. apply Hin; [exists q; reflexivity | exact Hq].
  - intros q Hq. apply Hout. intros [_ H]. exact (Hq H).
Qed.

Lemma write_file_spec f p b f' :
  write_file f p b = Some f' ->
  p <> [] /\ fs_get f (parent p) = Some NDir /\
  (fs_get f p = None \/ exists b0, fs_get f p = Some (NFile b0)) /\
  f' = fs_put f p (NFile b).
Proof.
  unfold write_file. destruct p as [|c p]; [discriminate|].
  destruct (is_dir f (parent (c :: p))) eqn:Ed; [|discriminate]. apply is_dir_true in Ed.
  destruct (fs_get f (c :: p)) as [[|b0|]|] eqn:Eg; try discriminate; intro H; inversion H; subst;
    (split; [discriminate|]; split; [exact Ed|]; split; [|reflexivity]); [right; exists b0|left]; reflexivity.
Qed.

Lemma write_file_ok f p b :
  p <> [] -> fs_get f (parent p) = Some NDir ->
  (fs_get f p = None \/ exists b0, fs_get f p = Some (NFile b0)) ->
  write_file f p b = Some (fs_put f p (NFile b)).
Proof.
  intros Hp Hd Hg. unfold write_file. destruct p as [|c p]; [contradiction|].
  apply is_dir_true in Hd. rewrite Hd. destruct Hg as [-> | [b0 ->]]; reflexivity.
Qed.

Lemma remove_link_spec f p :
  (fs_get f p = None \/ exists t, fs_get f p = Some (NLink t)) ->
  exists f', remove_if_exists f p = Some f' /\ upd1 f f' p None /\ (wf f -> wf f').
Proof.
  intros [E | [t E]]; unfold remove_if_exists; rewrite E.
  - exists f. split; [reflexivity|]. split; [|tauto]. intro q.
    destruct (path_eqP p q) as [<-|]; [exact E | reflexivity].
  - exists (fs_del f p). split; [reflexivity|]. split; [apply upd1_del | apply wf_del].
Qed.

Lemma symlink_spec f c a f' :
  symlink f c a = Some f' ->
  fs_get f a = None /\ fs_get f (parent a) = Some NDir /\ f' = fs_put f a (NLink c).
Proof.
  unfold symlink. destruct (fs_get f a); [discriminate|].
  destruct (is_dir f (parent a)) eqn:Ed; [|discriminate]. apply is_dir_true in Ed.
  intro H. inversion H. auto.
Qed.

Lemma symlink_ok f c a :
  fs_get f a = None -> fs_get f (parent a) = Some NDir -> symlink f c a = Some (fs_put f a (NLink c)).
Proof. intros E Hd. unfold symlink. rewrite E. apply is_dir_true in Hd. rewrite Hd. reflexivity. Qed.

Lemma rename_link_ok f o n t :
  fs_get f o = Some (NLink t) -> fs_get f n <> Some NDir -> fs_get f (parent n) = Some NDir ->
  rename f o n = Some (fs_put (fs_del f o) n (NLink t)).
Proof.
  intros Eo En Hd. unfold rename. rewrite Eo. apply is_dir_true in Hd. rewrite Hd.
  destruct (fs_get f n) as [[| |]|]; try reflexivity. contradiction.
Qed.
