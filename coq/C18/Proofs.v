(* C18 — the theorems: what a reader of the target sees at every reachable disk state (every
   history of Writes, crashed at any step or not, clean restarts), recovery after any crash on
   the current tree, garbage collection without crashes, what may be left behind, and the
   witness of the stale-link defect on the code before the fix. *)
From Kit Require Import C18.Model C18.Spec C18.Check C18.Proofs_fs C18.Proofs_inv.
From Coq Require Import Permutation.

(* ------------------------------------------------------------------------------------- *)
(* small list facts                                                                        *)

Lemma skipn_length_app {A} (p q : list A) : skipn (length p) (p ++ q) = q.
Proof. induction p as [|a p IH]; [reflexivity | exact IH]. Qed.

Lemma all_some_spec {A B} (g : A -> option B) (l : list A) :
  (forall x, In x l -> exists a, g x = Some a) ->
  exists r, all_some (map g l) = Some r /\
            forall a, In a r <-> exists x, In x l /\ g x = Some a.
Proof.
  induction l as [|x l IH]; intro Hall; cbn [map all_some].
  - exists []. split; [reflexivity|]. intro a. split; [intros [] | intros (x & [] & _)].
  - destruct (Hall x (or_introl eq_refl)) as [a0 Ea]. rewrite Ea.
    destruct IH as (r & Er & Hr); [intros y Hy; apply Hall; right; exact Hy|].
    rewrite Er. exists (a0 :: r). split; [reflexivity|]. intro a. split.
    + intros [<- | Hin]; [exists x; split; [left; reflexivity | exact Ea]|].
      apply Hr in Hin as (y & Hy & Ey). exists y. split; [right; exact Hy | exact Ey].
    + intros (y & [<- | Hy] & Ey); [left; congruence|]. right. apply Hr. exists y. auto.
Qed.

Lemma nodup_app_l {A} (a b : list A) : NoDup (a ++ b) -> NoDup a.
Proof.
  induction a as [|x a IH]; cbn [app]; intro H; [constructor|]. inversion H as [|? ? Hnot Hnd]; subst.
  constructor; [intro Hin; apply Hnot, in_or_app; left; exact Hin | exact (IH Hnd)].
Qed.

Lemma nodup_singleton {A} (l : list A) (a : A) :
  NoDup l -> (forall x, In x l <-> x = a) -> l = [a].
Proof.
  intros Hnd Hin. destruct l as [|x l].
  - exfalso. apply (proj2 (Hin a) eq_refl).
  - assert (x = a) as -> by (apply Hin; left; reflexivity).
    destruct l as [|y l]; [reflexivity|]. exfalso.
    assert (y = a) as -> by (apply Hin; right; left; reflexivity).
    inversion Hnd as [|? ? Hnot _]; subst. apply Hnot. left. reflexivity.
Qed.

(* a prefix of a list of steps that cannot fail cannot fail *)
Lemma walk_prefix_ok m (G Q : fs -> Prop) ss : forall f k f' ok,
  walk m G Q f ss -> m = true -> run_steps f (firstn k ss) = (f', ok) -> ok = true.
Proof.
  induction ss as [|s1 ss IH]; intros f k f' ok W Em R.
  - rewrite firstn_nil in R. cbn in R. inversion R. reflexivity.
  - destruct k as [|k]; cbn [firstn run_steps] in R; [inversion R; reflexivity|].
    cbn [walk] in W. destruct W as [_ W]. destruct (exec f s1) as [f1|].
    + exact (IH _ _ _ _ W Em R).
    + congruence.
Qed.

Section Base.
Variable base : path.

Notation tgt := (target base).

(* ------------------------------------------------------------------------------------- *)
(* what the invariant means for a reader                                                   *)

Lemma strictly_below_ver_file ts k : strictly_below (ver base ts) (ver base ts ++ [CN k]) = true.
Proof.
  unfold strictly_below. apply andb_true_iff. split.
  - apply is_prefix_iff, prefix_app.
  - apply negb_true_iff, path_eqb_neq. intro E. apply (f_equal (@length comp)) in E.
    rewrite app_length in E. cbn in E. lia.
Qed.

Lemma strictly_below_inv p q : strictly_below p q = true -> exists r, q = p ++ r /\ r <> [].
Proof.
  unfold strictly_below. intro E. apply andb_true_iff in E as [E1 E2].
  apply is_prefix_iff in E1 as [r ->]. exists r. split; [reflexivity|]. intros ->.
  rewrite app_nil_r, path_eqb_refl in E2. discriminate.
Qed.

(* a complete version directory lists as exactly its file set *)
Lemma list_dir_complete H f ts fl :
  wf f -> allcls base H f -> complete base f ts fl ->
  exists l, list_dir f (ver base ts) = Some l /\ same_files l fl.
Proof.
  intros W C [Hd Hf]. unfold list_dir.
  set (p := ver base ts).
  assert (Hent : forall e, In e (below f p) ->
            exists k b, e = (p ++ [CN k], NFile b) /\ fs_get f (p ++ [CN k]) = Some (NFile b)).
  { intros [q n] He. apply filter_In in He as [Hin Hsb]. cbn [fst] in Hsb.
    apply strictly_below_inv in Hsb as (r & -> & Hr).
    pose proof (in_get _ _ _ W Hin) as Eg.
    destruct (cls_under _ _ _ _ _ (C _ _ Eg)) as [_ [[-> _] | (k & b & fl0 & -> & -> & _)]];
      [contradiction|]. exists k, b. split; [reflexivity | exact Eg]. }
  destruct (all_some_spec (as_file p) (below f p)) as (l & El & Hl).
  { intros e He. destruct (Hent e He) as (k & b & -> & _). exists ([k], b).
    unfold as_file. cbn [fst snd]. rewrite skipn_length_app. reflexivity. }
  exists l. split; [exact El|]. split.
  - intros a Ha. apply Hl in Ha as (e & He & Ea). destruct (Hent e He) as (k & b & -> & Eg).
    unfold as_file in Ea. cbn [fst snd] in Ea. rewrite skipn_length_app in Ea. inversion Ea; subst a.
    apply Hf. exact Eg.
  - intros [key b] Hin. apply Hf in Hin. pose proof Hin as Hin0.
    destruct (cls_under _ _ _ _ _ (C _ _ Hin)) as [_ [[_ Hn] | (k & b0 & fl0 & Ek & Hn & _)]];
      [discriminate|]. inversion Hn; subst b0.
    change [CN k] with (keypath [k]) in Ek. apply keypath_inj in Ek. subst key.
    apply Hl. exists (p ++ [CN k], NFile b). split.
    + apply filter_In. split; [apply get_in, Hin0 | apply strictly_below_ver_file].
    + unfold as_file. cbn [fst snd]. rewrite skipn_length_app. reflexivity.
Qed.

Lemma inv_view H f : Inv_fs base H f ->
  (fs_get f tgt = None /\ resolve f tgt = VAbsent) \/
  (fs_get f tgt <> None /\ exists ts fl, In (ts, fl) H /\ shows (resolve f tgt) fl).
Proof.
  intros [W R C T]. destruct (fs_get f tgt) as [n|] eqn:E.
  - right. split; [discriminate|]. destruct (T n E) as (ts & fl & -> & Hin & Hc).
    exists ts, fl. split; [exact Hin|]. unfold resolve. rewrite E. rewrite (proj1 Hc).
    destruct (list_dir_complete H f ts fl W C Hc) as (l & El & Hs). unfold view_dir. rewrite El.
    exists l. auto.
  - left. split; [reflexivity|]. unfold resolve. rewrite E. reflexivity.
Qed.

(* a finished Write: the reader sees the new set *)
Lemma fin_view H ts fl f : Fin base H ts fl f -> shows (resolve f tgt) fl.
Proof.
  intros [I Et Hc _]. unfold resolve. rewrite Et, (proj1 Hc).
  destruct (list_dir_complete _ f ts fl (i_wf _ _ _ I) (i_cls _ _ _ I) Hc) as (l & El & Hs).
  unfold view_dir. rewrite El. exists l. auto.
Qed.

(* ------------------------------------------------------------------------------------- *)
(* no step of Write ever unbinds the target                                                *)

Definition step_safe (s : step) : Prop :=
  match s with
  | SRemove p => p <> tgt
  | SRename o n => o <> tgt
  | SRemoveAll p => ~ prefix p tgt
  | _ => True
  end.

Lemma mkdir_chain_keeps ps : forall f f' q,
  mkdir_chain f ps = Some f' -> fs_get f q <> None -> fs_get f' q <> None.
Proof.
  induction ps as [|p ps IH]; intros f f' q E Hq; cbn [mkdir_chain] in E.
  - inversion E; subst. exact Hq.
  - destruct (mkdir1 f p) as [f1|] eqn:E1; [|discriminate]. apply (IH _ _ _ E).
    unfold mkdir1 in E1. destruct (fs_get f p) as [[| |]|] eqn:Ep; try discriminate.
    + inversion E1; subst. exact Hq.
    + destruct (is_dir f (parent p)); [|discriminate]. inversion E1; subst.
      rewrite get_put. destruct (path_eqb p q); [discriminate | exact Hq].
Qed.

Lemma exec_keeps f s f' :
  exec f s = Some f' -> step_safe s -> fs_get f tgt <> None -> fs_get f' tgt <> None.
Proof.
  destruct s as [p|p b|p|c a|o n|p]; cbn [exec step_safe]; intros E Hs Hq.
  - exact (mkdir_chain_keeps _ _ _ _ E Hq).
  - apply write_file_spec in E as (_ & _ & _ & ->). rewrite get_put.
    destruct (path_eqb p tgt); [discriminate | exact Hq].
  - unfold remove_if_exists in E. destruct (fs_get f p) as [[| |]|]; try (inversion E; subst; exact Hq);
      try (destruct (has_children f p); [discriminate|]); inversion E; subst;
      rewrite get_del, path_eqb_neq by exact Hs; exact Hq.
  - apply symlink_spec in E as (_ & _ & ->). rewrite get_put.
    destruct (path_eqb a tgt); [discriminate | exact Hq].
  - unfold rename in E. destruct (fs_get f o) as [[| |]|]; try discriminate;
      (destruct (fs_get f n) as [[| |]|]; try discriminate);
      (destruct (is_dir f (parent n)); [|discriminate]); inversion E; subst;
      rewrite get_put; (destruct (path_eqb n tgt); [discriminate|]);
      rewrite get_del, path_eqb_neq by exact Hs; exact Hq.
  - unfold remove_all in E. inversion E; subst. rewrite get_del_tree.
    destruct (is_prefixP p tgt); [contradiction | exact Hq].
Qed.

Lemma run_keeps ss : forall f, Forall step_safe ss ->
  fs_get f tgt <> None -> fs_get (fst (run_steps f ss)) tgt <> None.
Proof.
  induction ss as [|s ss IH]; intros f Hs Hq; cbn [run_steps]; [exact Hq|].
  inversion Hs as [|? ? H1 H2]; subst. destruct (exec f s) as [f'|] eqn:E; [|exact Hq].
  apply IH; [exact H2 | exact (exec_keeps _ _ _ E H1 Hq)].
Qed.

Lemma write_steps_safe v H prev ts fl :
  prev_ok base H prev -> Forall step_safe (write_steps v base prev ts fl).
Proof.
  intro Hp. unfold write_steps. repeat (apply Forall_cons; [exact I|]). cbn [app].
  apply Forall_app. split; [apply Forall_forall; intros s Hs; apply in_map_iff in Hs as (kb & <- & _); exact I|].
  apply Forall_app. split.
  - destruct (is_fixed v); [|constructor]. constructor; [|constructor]. cbn. intro E. exact (tgt_not_new base (eq_sym E)).
  - apply Forall_cons; [exact I|]. apply Forall_cons; [cbn; intro E; exact (tgt_not_new base (eq_sym E))|].
    destruct prev as [p|]; [|constructor]. constructor; [|constructor]. cbn.
    destruct (Hp p eq_refl) as (tp & -> & _). intros [r E]. exact (tgt_not_ver base _ _ E).
Qed.

Lemma Forall_firstn {A} (P : A -> Prop) k : forall l, Forall P l -> Forall P (firstn k l).
Proof.
  induction k as [|k IH]; intros l Hl; [constructor|]. destruct l as [|a l]; [constructor|].
  inversion Hl; subst. cbn. constructor; [assumption | apply IH; assumption].
Qed.

(* ------------------------------------------------------------------------------------- *)
(* one call of Write, as a state transition                                                *)

Definition files_simple (fl : files) : Prop := forall k, In k (map fst fl) -> simple_key k.

Lemma files_simple_b fl : files_simple fl -> forallb simple_b fl = true.
Proof.
  intro Hs. apply forallb_forall. intros [k b] Hin. unfold simple_b. cbn [fst].
  apply Nat.eqb_eq. apply Hs. apply (in_map fst) in Hin. exact Hin.
Qed.

Lemma prev_ok_mono H H' prev : incl H H' -> prev_ok base H prev -> prev_ok base H' prev.
Proof.
  intros Hi Hp p E. destruct (Hp p E) as (ts & -> & Hk). exists ts. split; [reflexivity|].
  apply in_map_iff in Hk as [[a b] [Ea Hin]]. cbn in Ea. subst a. apply in_known with b. apply Hi, Hin.
Qed.

Lemma write_step v H s ts fl crash :
  Inv base H s -> ~ known H ts -> NoDup (map fst fl) ->
  let '(s', out) := write v base s ts fl crash in
  Inv base ((ts, fl) :: H) s' /\
  (fs_get (sfs s) tgt <> None -> fs_get (sfs s') tgt <> None) /\
  (out = Done -> crash = None /\ Post base H ts fl (sfs s) (sprev s) (sfs s') /\ sprev s' = Some (ver base ts)) /\
  (v = Fixed -> files_simple fl -> out <> Failed) /\
  (crash = None -> out <> Crashed).
Proof.
  intros [I Hp] Hfresh Hnd.
  pose proof (walk_write base H ts fl (sfs s) Hfresh Hnd (Inv_fs base ((ts, fl) :: H)) (fun f If => If)
                         v (sprev s) I Hp) as W.
  pose proof (write_steps_safe v H (sprev s) ts fl Hp) as Hsafe.
  assert (Hi : incl H ((ts, fl) :: H)) by (intros x Hx; right; exact Hx).
  unfold write. destruct crash as [k|].
  - pose proof (walk_prefix _ _ _ _ _ k W) as G1.
    pose proof (run_keeps _ (sfs s) (Forall_firstn _ k _ Hsafe)) as K1.
    destruct (run_steps (sfs s) (firstn k (write_steps v base (sprev s) ts fl))) as [f' ok] eqn:R.
    cbn [fst] in G1, K1.
    assert (Hm : is_fixed v && forallb simple_b fl = true -> ok = true).
    { intro Em. exact (walk_prefix_ok _ _ _ _ _ _ _ _ W Em R). }
    destruct ok; cbn [sfs sprev].
    + split; [split; [exact G1 | intros p E; discriminate]|]. split; [exact K1|].
      split; [discriminate|]. split; [discriminate | discriminate].
    + split; [split; [exact G1 | exact (prev_ok_mono _ _ _ Hi Hp)]|]. split; [exact K1|].
      split; [discriminate|]. split; [|discriminate].
      intros -> Hs _. cbn [is_fixed andb] in Hm. specialize (Hm (files_simple_b _ Hs)). discriminate.
  - pose proof (run_keeps _ (sfs s) Hsafe) as K1.
    destruct (run_steps (sfs s) (write_steps v base (sprev s) ts fl)) as [f' ok] eqn:R.
    destruct (walk_run _ _ _ _ _ _ _ W R) as (G1 & Q1 & M1). cbn [fst] in K1.
    destruct ok; cbn [sfs sprev].
    + split; [split; [exact G1|]|].
      { intros p E. inversion E; subst. exists ts. split; [reflexivity | left; reflexivity]. }
      split; [exact K1|]. split; [intros _; auto|]. split; discriminate.
    + split; [split; [exact G1 | exact (prev_ok_mono _ _ _ Hi Hp)]|]. split; [exact K1|].
      split; [discriminate|]. split; [|discriminate].
      intros -> Hs _. cbn [is_fixed andb] in M1. specialize (M1 (files_simple_b _ Hs)). discriminate.
Qed.

(* ------------------------------------------------------------------------------------- *)
(* histories                                                                               *)

Fixpoint ops_hist (h : list op) : hist :=
  match h with
  | [] => []
  | OWrite ts fl _ :: t => (ts, fl) :: ops_hist t
  | ORestart :: t => ops_hist t
  end.

(* the inputs of a history are well-formed: every call draws a new timestamp (UnixNano of a
   later instant), every file set is a map (unique names) *)
Definition ops_ok (h : list op) : Prop :=
  NoDup (map fst (ops_hist h)) /\ forall ts fl, In (ts, fl) (ops_hist h) -> NoDup (map fst fl).

Definition calls_of (h : list op) : list files := map snd (ops_hist h).
Definition some_done (outs : list outcome) : bool := existsb (outcome_eqb Done) outs.

Lemma ops_ok_tail o t : ops_ok (o :: t) -> ops_ok t.
Proof.
  intros [Hn Hf]. destruct o as [ts fl c|]; cbn [ops_hist map fst] in *; [|split; assumption].
  split; [inversion Hn; assumption | intros a b Hin; apply (Hf a b); right; exact Hin].
Qed.

Lemma run_hist_inv v : forall h H0 s0,
  Inv base H0 s0 -> NoDup (map fst (ops_hist h) ++ map fst H0) ->
  (forall ts fl, In (ts, fl) (ops_hist h) -> NoDup (map fst fl)) ->
  let '(s, outs) := run_hist v base s0 h in
  exists H1, Inv base H1 s /\
    (forall x, In x H1 <-> In x (ops_hist h) \/ In x H0) /\
    (fs_get (sfs s0) tgt <> None \/ some_done outs = true -> fs_get (sfs s) tgt <> None).
Proof.
  induction h as [|o h IH]; intros H0 s0 I0 Hnd Hfl; cbn [run_hist].
  - exists H0. split; [exact I0|]. split; [intro x; cbn; tauto|]. intros [Hq | Hd]; [exact Hq | discriminate].
  - destruct o as [ts fl crash|]; cbn [run_op ops_hist] in *.
    + assert (Hfresh : ~ known H0 ts).
      { cbn [map fst app] in Hnd. inversion Hnd as [|? ? Hnot _]; subst. intro Hk. apply Hnot.
        apply in_or_app. right. exact Hk. }
      pose proof (write_step v H0 s0 ts fl crash I0 Hfresh (Hfl ts fl (or_introl eq_refl))) as Hw.
      destruct (write v base s0 ts fl crash) as [s1 r]. destruct Hw as (I1 & K1 & D1 & _).
      specialize (IH ((ts, fl) :: H0) s1 I1).
      destruct (run_hist v base s1 h) as [s2 r2]. destruct IH as (H1 & I2 & Hin & K2).
      * cbn [map fst app] in Hnd |- *. exact (Permutation_NoDup (Permutation_middle _ _ _) Hnd).
      * intros a b Hab. apply (Hfl a b). right. exact Hab.
      * exists H1. split; [exact I2|]. split.
        -- intro x. rewrite Hin. cbn [In]. tauto.
        -- intros [Hq | Hd]; apply K2.
           ++ left. apply K1, Hq.
           ++ cbn [app some_done existsb] in Hd. apply orb_true_iff in Hd as [Hd | Hd]; [|right; exact Hd].
              left. destruct r; try discriminate. destruct D1 as (_ & [F _] & _); [reflexivity|].
              rewrite (f_tgt _ _ _ _ _ F). discriminate.
    + specialize (IH H0 (mkSt (sfs s0) None)).
      destruct (run_hist v base (mkSt (sfs s0) None) h) as [s2 r2].
      destruct IH as (H1 & I2 & Hin & K2).
      * destruct I0 as [I0 _]. split; [exact I0 | intros p E; discriminate].
      * exact Hnd.
      * exact Hfl.
      * exists H1. split; [exact I2|]. split; [exact Hin | exact K2].
Qed.


(* ------------------------------------------------------------------------------------- *)
(* the starting disk: an empty temp root, the base directory made beforehand or not         *)

Lemma start_inv f :
  wf f -> fs_get f [] = Some NDir ->
  (forall p n, fs_get f p = Some n -> prefix p base /\ n = NDir) ->
  Inv_fs base [] f.
Proof.
  intros W R Hall. constructor; [exact W | exact R | |].
  - intros p n E. destruct (Hall p n E) as [Hp ->]. apply cls_base, Hp.
  - intros n E. destruct (Hall _ _ E) as [Hp _]. exfalso.
    eapply (prefix_base_short base); [exact Hp | reflexivity].
Qed.

Lemma init_inv pre : Inv_fs base [] (init_fs base pre).
Proof.
  assert (I0 : Inv_fs base [] fs0).
  { apply start_inv.
    - unfold wf, fs0. cbn. constructor; [intros [] | constructor].
    - reflexivity.
    - intros p n E. unfold fs0 in E. cbn [fs_get] in E. destruct (path_eqP [] p) as [<-|]; [|discriminate].
      inversion E. split; [exists base; reflexivity | reflexivity]. }
  unfold init_fs. destruct pre; [|exact I0].
  destruct (mkdir_all_spec fs0 base eq_refl) as (f' & E & Hin & Hout & W).
  { intros q n _ Eq. unfold fs0 in Eq. cbn [fs_get] in Eq. destruct (path_eqb [] q); [|discriminate].
    inversion Eq. reflexivity. }
  rewrite E. apply start_inv.
  - apply W, (i_wf _ _ _ I0).
  - apply Hin. exists base. reflexivity.
  - intros p n Ep. destruct (is_prefixP p base) as [Hp|Hp].
    + rewrite (Hin p Hp) in Ep. inversion Ep. auto.
    + rewrite (Hout p Hp) in Ep. unfold fs0 in Ep. cbn [fs_get] in Ep.
      destruct (path_eqP [] p) as [<-|]; [|discriminate]. exfalso. apply Hp. exists base. reflexivity.
Qed.

Definition start (pre : bool) : st := mkSt (init_fs base pre) None.

Lemma start_Inv pre : Inv base [] (start pre).
Proof. split; [apply init_inv | intros p E; discriminate]. Qed.

Lemma run_from_start v pre h s outs :
  ops_ok h -> run_hist v base (start pre) h = (s, outs) ->
  exists H1, Inv base H1 s /\ (forall x, In x H1 <-> In x (ops_hist h)) /\
             (some_done outs = true -> fs_get (sfs s) tgt <> None).
Proof.
  intros [Hn Hf] R. pose proof (run_hist_inv v h [] (start pre) (start_Inv pre)) as X.
  rewrite R in X. destruct X as (H1 & I1 & Hin & K).
  - cbn [map]. rewrite app_nil_r. exact Hn.
  - exact Hf.
  - exists H1. split; [exact I1|]. split; [intro x; rewrite Hin; cbn; tauto|]. intro Hd. apply K. right. exact Hd.
Qed.

(* ------------------------------------------------------------------------------------- *)
(* C18_always_complete_set                                                                 *)

Lemma always_complete_set v pre h s outs :
  ops_ok h -> run_hist v base (start pre) h = (s, outs) ->
  view_ok (calls_of h) (some_done outs) (resolve (sfs s) tgt).
Proof.
  intros Hok R. destruct (run_from_start v pre h s outs Hok R) as (H1 & [I1 _] & Hin & K).
  destruct (inv_view H1 (sfs s) I1) as [[En Ev] | [_ (ts & fl & Hfl & Hs)]].
  - left. split; [exact Ev|]. destruct (some_done outs); [|reflexivity]. exfalso. exact (K eq_refl En).
  - right. exists fl. split; [|exact Hs]. apply Hin in Hfl. unfold calls_of.
    apply (in_map snd) in Hfl. exact Hfl.
Qed.

(* ------------------------------------------------------------------------------------- *)
(* C18_recovery                                                                            *)

Lemma known_iff H1 h ts : (forall x, In x H1 <-> In x (ops_hist h)) ->
  known H1 ts <-> In ts (map fst (ops_hist h)).
Proof.
  intro Hin. unfold known. split; intro Hk; apply in_map_iff in Hk as (x & E & Hx); apply in_map_iff;
    exists x; (split; [exact E | apply Hin, Hx]).
Qed.

Lemma recovery pre h s outs prev ts fl :
  ops_ok h -> run_hist Fixed base (start pre) h = (s, outs) ->
  prev = None \/ prev = sprev s ->
  ~ In ts (map fst (ops_hist h)) -> files_valid fl ->
  exists s', write Fixed base (mkSt (sfs s) prev) ts fl None = (s', Done) /\
             shows (resolve (sfs s') tgt) fl.
Proof.
  intros Hok R Hprev Hfresh [Hnd Hsimple].
  destruct (run_from_start Fixed pre h s outs Hok R) as (H1 & [I1 P1] & Hin & _).
  assert (I : Inv base H1 (mkSt (sfs s) prev)).
  { split; [exact I1|]. cbn [sprev]. destruct Hprev as [-> | ->]; [intros p E; discriminate | exact P1]. }
  assert (Hf : ~ known H1 ts) by (intro Hk; apply Hfresh; apply (known_iff H1 h ts Hin), Hk).
  pose proof (write_step Fixed H1 _ ts fl None I Hf Hnd) as X.
  destruct (write Fixed base (mkSt (sfs s) prev) ts fl None) as [s' out].
  destruct X as (_ & _ & D & NF & NC). exists s'.
  assert (out = Done) as ->.
  { destruct out; [reflexivity | exfalso; exact (NF eq_refl Hsimple eq_refl) | exfalso; exact (NC eq_refl eq_refl)]. }
  split; [reflexivity|]. destruct (D eq_refl) as (_ & [F _] & _). exact (fin_view _ _ _ _ F).
Qed.

(* ------------------------------------------------------------------------------------- *)
(* C18_no_crash_gc                                                                         *)

Definition vers_are (f : fs) (l : list N) : Prop := forall t, fs_get f (ver base t) <> None <-> In t l.

Definition gc_ok (s : st) : Prop :=
  (sprev s = None /\ vers_are (sfs s) []) \/ exists cur, sprev s = Some (ver base cur) /\ vers_are (sfs s) [cur].

Definition clean_op (o : op) : Prop :=
  match o with OWrite _ fl None => files_simple fl | _ => False end.

Lemma gc_step H s ts fl :
  Inv base H s -> gc_ok s -> ~ known H ts -> NoDup (map fst fl) -> files_simple fl ->
  let '(s', out) := write Fixed base s ts fl None in
  out = Done /\ Inv base ((ts, fl) :: H) s' /\ sprev s' = Some (ver base ts) /\ vers_are (sfs s') [ts].
Proof.
  intros I Hg Hf Hnd Hs. pose proof (write_step Fixed H s ts fl None I Hf Hnd) as X.
  destruct (write Fixed base s ts fl None) as [s' out]. destruct X as (I' & _ & D & NF & NC).
  assert (out = Done) as ->.
  { destruct out; [reflexivity | exfalso; exact (NF eq_refl Hs eq_refl) | exfalso; exact (NC eq_refl eq_refl)]. }
  destruct (D eq_refl) as (_ & [F Fr] & Ep). split; [reflexivity|]. split; [exact I'|]. split; [exact Ep|].
  intro t. destruct (N.eq_dec t ts) as [->|Hne].
  - split; [intros _; left; reflexivity|]. intros _. rewrite (proj1 (f_complete _ _ _ _ _ F)). discriminate.
  - split; [|intros [E|[]]; congruence]. intro Hb. exfalso. apply Hb. rewrite (Fr t Hne).
    assert (Hnone : forall l, vers_are (sfs s) l -> ~ In t l -> fs_get (sfs s) (ver base t) = None).
    { intros l Hv Hn. destruct (fs_get (sfs s) (ver base t)) eqn:E; [|reflexivity].
      exfalso. apply Hn, Hv. rewrite E. discriminate. }
    destruct Hg as [[-> Hv] | (cur & -> & Hv)].
    + apply (Hnone [] Hv). intros [].
    + destruct (path_eqP (ver base cur) (ver base t)) as [_|Hc]; [reflexivity|].
      apply (Hnone [cur] Hv). intros [E|[]]. apply Hc. congruence.
Qed.

Lemma run_hist_gc : forall h H0 s0,
  Inv base H0 s0 -> gc_ok s0 -> NoDup (map fst (ops_hist h) ++ map fst H0) ->
  (forall ts fl, In (ts, fl) (ops_hist h) -> NoDup (map fst fl)) ->
  Forall clean_op h ->
  let '(s, outs) := run_hist Fixed base s0 h in
  Forall (eq Done) outs /\ gc_ok s.
Proof.
  induction h as [|o h IH]; intros H0 s0 I0 G0 Hnd Hfl Hc; cbn [run_hist].
  - split; [constructor | exact G0].
  - inversion Hc as [|? ? Ho Hc']; subst. destruct o as [ts fl [k|]|]; cbn [clean_op] in Ho; try contradiction.
    cbn [run_op ops_hist] in *.
    assert (Hfresh : ~ known H0 ts).
    { cbn [map fst app] in Hnd. inversion Hnd as [|? ? Hnot _]; subst. intro Hk. apply Hnot.
      apply in_or_app. right. exact Hk. }
    pose proof (gc_step H0 s0 ts fl I0 G0 Hfresh (Hfl ts fl (or_introl eq_refl)) Ho) as X.
    destruct (write Fixed base s0 ts fl None) as [s1 r]. destruct X as (-> & I1 & Ep & Hv).
    specialize (IH ((ts, fl) :: H0) s1 I1).
    destruct (run_hist Fixed base s1 h) as [s2 r2]. destruct IH as [D2 G2].
    + right. exists ts. auto.
    + cbn [map fst app] in Hnd |- *. exact (Permutation_NoDup (Permutation_middle _ _ _) Hnd).
    + intros a b Hab. apply (Hfl a b). right. exact Hab.
    + exact Hc'.
    + split; [constructor; [reflexivity | exact D2] | exact G2].
Qed.

Lemma ver_dirs_in f t : In t (ver_dirs f base) <-> In (ver base t) (map fst f).
Proof.
  unfold ver_dirs. rewrite in_flat_map. split.
  - intros ([p n] & Hin & Ht). cbn [fst] in Ht. destruct (is_prefixP base p) as [[r ->]|]; [|destruct Ht].
    rewrite skipn_length_app in Ht. destruct r as [|[| | |t0] [|? ?]]; cbn [In] in Ht; try contradiction.
    destruct Ht as [<-|[]]. apply in_map_iff. exists (base ++ [CVer t0], n). auto.
  - intro Hin. apply in_map_iff in Hin as ([p n] & E & Hin). cbn [fst] in E. subst p.
    exists (ver base t, n). split; [exact Hin|]. cbn [fst].
    destruct (is_prefixP base (ver base t)) as [_|Hn]; [|exfalso; apply Hn, prefix_app].
    unfold ver. rewrite skipn_length_app. left. reflexivity.
Qed.

Lemma ver_dirs_nodup f : wf f -> NoDup (ver_dirs f base).
Proof.
  unfold wf. induction f as [|[p n] f IH]; intro W; [constructor|].
  cbn [map fst] in W. inversion W as [|? ? Hnot W']; subst.
  change (ver_dirs ((p, n) :: f) base)
    with ((if is_prefix base p then match skipn (length base) p with [CVer ts] => [ts] | _ => [] end else [])
          ++ ver_dirs f base).
  destruct (is_prefixP base p) as [[r ->]|]; [|apply IH, W'].
  rewrite skipn_length_app. destruct r as [|[| | |t0] [|? ?]]; try (apply IH, W').
  cbn [app]. constructor; [|apply IH, W']. intro Hin. apply ver_dirs_in in Hin. exact (Hnot Hin).
Qed.

Lemma ver_dirs_single f ts : wf f -> vers_are f [ts] -> ver_dirs f base = [ts].
Proof.
  intros W Hv. apply nodup_singleton; [apply ver_dirs_nodup, W|]. intro t. rewrite ver_dirs_in. split.
  - intro Hin. apply in_map_iff in Hin as ([p n] & E & Hin). cbn [fst] in E. subst p.
    assert (Hb : fs_get f (ver base t) <> None) by (rewrite (in_get _ _ _ W Hin); discriminate).
    apply Hv in Hb as [E|[]]. congruence.
  - intros ->. destruct (fs_get f (ver base ts)) as [n|] eqn:E.
    + apply get_in in E. apply (in_map fst) in E. exact E.
    + exfalso. apply (proj2 (Hv ts)); [left; reflexivity | exact E].
Qed.

Lemma run_hist_app v : forall h1 h2 s0,
  run_hist v base s0 (h1 ++ h2) =
  let '(s1, r1) := run_hist v base s0 h1 in
  let '(s2, r2) := run_hist v base s1 h2 in (s2, r1 ++ r2).
Proof.
  induction h1 as [|o h1 IH]; intros h2 s0; cbn [app run_hist].
  - destruct (run_hist v base s0 h2) as [s2 r2]. reflexivity.
  - destruct (run_op v base s0 o) as [sa ra]. rewrite IH.
    destruct (run_hist v base sa h1) as [s1 r1]. destruct (run_hist v base s1 h2) as [s2 r2].
    rewrite app_assoc. reflexivity.
Qed.

Lemma ops_hist_app h1 h2 : ops_hist (h1 ++ h2) = ops_hist h1 ++ ops_hist h2.
Proof.
  induction h1 as [|[ts fl c|] h1 IH]; cbn [app ops_hist]; [reflexivity | rewrite IH; reflexivity | exact IH].
Qed.

Lemma vers_empty_start pre : vers_are (init_fs base pre) [].
Proof.
  intro t. split; [|intros []]. intro Hb. destruct (fs_get (init_fs base pre) (ver base t)) as [n|] eqn:E; [|contradiction].
  apply (i_cls _ _ _ (init_inv pre)) in E. rewrite <- (app_nil_r (ver base t)) in E.
  destruct (cls_under _ _ _ _ _ E) as [[] _].
Qed.

Lemma no_crash_gc pre h ts fl s outs :
  ops_ok (h ++ [OWrite ts fl None]) -> Forall clean_op (h ++ [OWrite ts fl None]) ->
  run_hist Fixed base (start pre) (h ++ [OWrite ts fl None]) = (s, outs) ->
  Forall (eq Done) outs /\ ver_dirs (sfs s) base = [ts].
Proof.
  intros [Hn Hf] Hc R. pose proof (run_hist_gc (h ++ [OWrite ts fl None]) [] (start pre) (start_Inv pre)) as X.
  rewrite R in X. destruct X as [D G].
  - left. split; [reflexivity | apply vers_empty_start].
  - cbn [map]. rewrite app_nil_r. exact Hn.
  - exact Hf.
  - exact Hc.
  - split; [exact D|].
    (* the last op decides what is on disk *)
    rewrite run_hist_app in R. destruct (run_hist Fixed base (start pre) h) as [s1 r1] eqn:R1.
    cbn [run_hist run_op] in R.
    assert (Hok1 : ops_ok h).
    { rewrite ops_hist_app, map_app in Hn. split; [exact (nodup_app_l _ _ Hn)|].
      intros a b Hab. apply (Hf a b). rewrite ops_hist_app. apply in_or_app. left. exact Hab. }
    destruct (run_from_start Fixed pre h s1 r1 Hok1 R1) as (H1 & I1 & Hin & _).
    pose proof (run_hist_gc h [] (start pre) (start_Inv pre)) as Y. rewrite R1 in Y.
    destruct Y as [_ G1].
    + left. split; [reflexivity | apply vers_empty_start].
    + cbn [map]. rewrite app_nil_r. exact (proj1 Hok1).
    + exact (proj2 Hok1).
    + apply Forall_app in Hc as [Hc _]. exact Hc.
    + apply Forall_app in Hc as [_ Hc]. inversion Hc as [|? ? Hs _]; subst. cbn [clean_op] in Hs.
      assert (Hfresh : ~ known H1 ts).
      { intro Hk. apply (known_iff H1 h ts Hin) in Hk. rewrite ops_hist_app, map_app in Hn.
        cbn [ops_hist map fst] in Hn. apply NoDup_remove_2 in Hn. apply Hn. rewrite app_nil_r. exact Hk. }
      assert (Hndf : NoDup (map fst fl)).
      { apply (Hf ts fl). rewrite ops_hist_app. apply in_or_app. right. left. reflexivity. }
      pose proof (gc_step H1 s1 ts fl I1 G1 Hfresh Hndf Hs) as Z.
      destruct (write Fixed base s1 ts fl None) as [s2 r2]. destruct Z as (_ & [I2 _] & _ & Hv).
      inversion R; subst s. apply ver_dirs_single; [exact (i_wf _ _ _ I2) | exact Hv].
Qed.

(* ------------------------------------------------------------------------------------- *)
(* the code before the fix: once <target>.new exists, every Write fails, and leaves it      *)

Definition grows (s : step) : Prop :=
  match s with SMkdirAll _ | SWriteFile _ _ => True | _ => False end.

Lemma exec_grows f s f' q : grows s -> exec f s = Some f' -> fs_get f q <> None -> fs_get f' q <> None.
Proof.
  destruct s as [p|p b|p|c a|o n|p]; cbn [exec grows]; intros Hg E Hq; try contradiction.
  - exact (mkdir_chain_keeps _ _ _ _ E Hq).
  - apply write_file_spec in E as (_ & _ & _ & ->). rewrite get_put.
    destruct (path_eqb p q); [discriminate | exact Hq].
Qed.

Lemma stuck_steps ss c q rest : forall f, Forall grows ss -> fs_get f q <> None ->
  snd (run_steps f (ss ++ SSymlink c q :: rest)) = false /\
  fs_get (fst (run_steps f (ss ++ SSymlink c q :: rest))) q <> None.
Proof.
  induction ss as [|s ss IH]; intros f Hg Hq; cbn [app run_steps].
  - cbn [exec]. unfold symlink. destruct (fs_get f q) eqn:Eq; [|contradiction]. cbn [fst snd].
    split; [reflexivity|]. rewrite Eq. discriminate.
  - inversion Hg as [|? ? G1 G2]; subst. destruct (exec f s) as [f'|] eqn:E.
    + apply IH; [exact G2 | exact (exec_grows _ _ _ _ G1 E Hq)].
    + cbn. split; [reflexivity | exact Hq].
Qed.

Lemma stale_new_stuck s ts fl :
  fs_get (sfs s) (tnew base) <> None ->
  exists s', write Original base s ts fl None = (s', Failed) /\ fs_get (sfs s') (tnew base) <> None.
Proof.
  intro Hq. unfold write.
  set (pre := SMkdirAll base :: SMkdirAll (ver base ts)
              :: map (fun kb : key * bytes => SWriteFile (ver base ts ++ keypath (fst kb)) (snd kb)) fl).
  set (rest := SRename (tnew base) (target base) :: match sprev s with Some p => [SRemoveAll p] | None => [] end).
  assert (Es : write_steps Original base (sprev s) ts fl = pre ++ SSymlink (ver base ts) (tnew base) :: rest)
    by reflexivity.
  assert (Hpre : Forall grows pre).
  { unfold pre. repeat (constructor; [exact I|]). apply Forall_forall. intros x Hx.
    apply in_map_iff in Hx as (kb & <- & _). exact I. }
  rewrite Es. clearbody pre rest.
  destruct (stuck_steps pre (ver base ts) (tnew base) rest (sfs s)) as [E1 E2]; [exact Hpre | exact Hq|].
  - destruct (run_steps (sfs s) (pre ++ SSymlink (ver base ts) (tnew base) :: rest)) as [f' ok].
    cbn [fst snd] in E1, E2. subst ok. eexists. split; [reflexivity | exact E2].
Qed.

End Base.

(* the witness: base directory [7], one file; the process dies after the Symlink (4 steps: two
   MkdirAll, one WriteFile, the Symlink) and before the Rename *)
Definition stale_witness : list op := [OWrite 0 [([0%N], [1%N])] (Some 4)].

Lemma stale_new_refuted :
  exists base h ts fl s outs,
    ops_ok h /\ run_hist Original base (start base false) h = (s, outs) /\
    ~ In ts (map fst (ops_hist h)) /\ files_valid fl /\
    fs_get (sfs s) (tnew base) <> None /\
    snd (write Original base (mkSt (sfs s) None) ts fl None) = Failed.
Proof.
  exists [CN 7], stale_witness, 1%N, [([0%N], [2%N])].
  eexists. eexists. split; [|split; [vm_compute; reflexivity|]].
  - split; [cbn; constructor; [intros [] | constructor]|].
    intros ts fl [E|[]]. inversion E; subst. cbn. constructor; [intros [] | constructor].
  - split; [cbn; intros [E|[]]; discriminate|]. split.
    + split; [cbn; constructor; [intros [] | constructor]|]. intros k [<-|[]]. reflexivity.
    + split; [vm_compute; discriminate | vm_compute; reflexivity].
Qed.

(* the same history on the current tree recovers (non-vacuity of [recovery]) *)
Example recovery_witness :
  snd (write Fixed [CN 7] (mkSt (sfs (fst (run_hist Fixed [CN 7] (start [CN 7] false) stale_witness))) None)
             1%N [([0%N], [2%N])] None) = Done.
Proof. vm_compute. reflexivity. Qed.

(* ------------------------------------------------------------------------------------- *)
(* C18_leak_only_dirs: everything on disk after any history is accounted for               *)

Lemma leak_only_dirs base v pre h s outs p n :
  ops_ok h ->
  run_hist v base (start base pre) h = (s, outs) ->
  fs_get (sfs s) p = Some n ->
  (prefix p base /\ n = NDir) \/
  (exists ts, In ts (map fst (ops_hist h)) /\
     ((p = ver base ts /\ n = NDir) \/
      (p = target base /\ n = NLink (ver base ts)) \/
      (p = tnew base /\ n = NLink (ver base ts)))) \/
  (exists ts fl k b, In (ts, fl) (ops_hist h) /\ In ([k], b) fl /\
     p = ver base ts ++ [CN k] /\ n = NFile b).
Proof.
  intros Hok R E. destruct (run_from_start base v pre h s outs Hok R) as (H1 & [I1 _] & Hin & _).
  pose proof (known_iff H1 h) as Hk.
  destruct (i_cls _ _ _ I1 _ _ E) as [q Hq|ts Hts|ts k b fl Hfl Hb|ts Hts|ts Hts].
  - left. auto.
  - right. left. exists ts. split; [apply (Hk ts Hin), Hts | auto].
  - right. right. exists ts, fl, k, b. split; [apply Hin, Hfl | auto].
  - right. left. exists ts. split; [apply (Hk ts Hin), Hts | auto].
  - right. left. exists ts. split; [apply (Hk ts Hin), Hts | auto].
Qed.
