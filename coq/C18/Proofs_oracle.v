(* C18 — the boolean oracles of Spec.v / Check.v decide the spec predicates. *)
From Kit Require Import C18.Model C18.Spec C18.Check.

Lemma key_eqb_eq a b : key_eqb a b = true <-> a = b.
Proof.
  revert b. induction a as [|x a IH]; intros [|y b]; cbn [key_eqb]; split; intro H;
    try discriminate; try reflexivity.
  - apply andb_true_iff in H as [H1 H2]. apply N.eqb_eq in H1. apply IH in H2. congruence.
  - inversion H; subst. apply andb_true_iff. split; [apply N.eqb_refl | apply IH; reflexivity].
Qed.

Lemma file_eqb_eq x y : file_eqb x y = true <-> x = y.
Proof.
  destruct x as [k b], y as [k' b']. unfold file_eqb. cbn [fst snd]. rewrite andb_true_iff, key_eqb_eq, eqb_listN_spec.
  split; [intros [-> ->]; reflexivity | intro E; inversion E; auto].
Qed.

Lemma file_mem_in x l : file_mem x l = true <-> In x l.
Proof.
  unfold file_mem. rewrite existsb_exists. split.
  - intros (y & Hy & E). apply file_eqb_eq in E. subst y. exact Hy.
  - intro Hin. exists x. split; [exact Hin | apply file_eqb_eq; reflexivity].
Qed.

Lemma same_files_b_sound a b : same_files_b a b = true <-> same_files a b.
Proof.
  unfold same_files_b, same_files, incl. rewrite andb_true_iff, !forallb_forall.
  split; intros [H1 H2]; split; intros x Hx; apply file_mem_in; auto.
Qed.

Lemma shows_b_sound v fl : shows_b v fl = true <-> shows v fl.
Proof.
  unfold shows_b, shows. destruct v as [|l|].
  - split; [discriminate | intros (l & E & _); discriminate].
  - rewrite same_files_b_sound. split.
    + intro Hs. exists l. auto.
    + intros (l' & E & Hs). inversion E; subst. exact Hs.
  - split; [discriminate | intros (l & E & _); discriminate].
Qed.

Lemma view_ok_b_sound calls succeeded v : view_ok_b calls succeeded v = true <-> view_ok calls succeeded v.
Proof.
  unfold view_ok_b, view_ok. destruct v as [|l|].
  - rewrite negb_true_iff. split.
    + intro E. left. auto.
    + intros [[_ E] | (fl & _ & Hs)]; [exact E|]. destruct Hs as (l & E & _). discriminate.
  - rewrite existsb_exists. split.
    + intros (fl & Hin & Hs). right. exists fl. split; [exact Hin | apply shows_b_sound, Hs].
    + intros [[E _] | (fl & Hin & Hs)]; [discriminate|]. exists fl. split; [exact Hin | apply shows_b_sound, Hs].
  - split; [discriminate|]. intros [[E _] | (fl & _ & (l & E & _))]; discriminate.
Qed.

Lemma nodup_keys_sound l : nodup_keys l = true <-> NoDup l.
Proof.
  induction l as [|k l IH]; cbn [nodup_keys].
  - split; [constructor | reflexivity].
  - rewrite andb_true_iff, negb_true_iff, IH. split.
    + intros [Hn Hd]. constructor; [|exact Hd]. intro Hin.
      assert (existsb (key_eqb k) l = true); [|congruence].
      apply existsb_exists. exists k. split; [exact Hin | apply key_eqb_eq; reflexivity].
    + intro Hd. inversion Hd as [|? ? Hnot Hd']; subst. split; [|exact Hd'].
      destruct (existsb (key_eqb k) l) eqn:E; [|reflexivity]. exfalso. apply Hnot.
      apply existsb_exists in E as (y & Hy & Ey). apply key_eqb_eq in Ey. subst y. exact Hy.
Qed.

Lemma files_valid_b_sound fl : files_valid_b fl = true <-> files_valid fl.
Proof.
  unfold files_valid_b, files_valid, simple_key. rewrite andb_true_iff, nodup_keys_sound, forallb_forall.
  split; intros [H1 H2]; (split; [exact H1|]); intros k Hk; apply Nat.eqb_eq, H2, Hk.
Qed.

(* ------------------------------------------------------------------------------------- *)
(* the oracle of a whole case                                                              *)

(* what the observations of a history must satisfy; [calls], [succ], [clean], [idx]: the file
   sets of the calls before, whether one of them returned nil, whether so far one Dir value
   made only successful calls, the number of calls before *)
Fixpoint obs_spec (base : path) (calls : list files) (succ clean : bool) (idx : N)
                  (ops : list opobs) : Prop :=
  match ops with
  | [] => True
  | o :: t =>
    let fl := o_files o in
    let calls' := fl :: calls in
    let succ' := succ || is_done (o_out o) in
    let clean' := clean && is_done (o_out o) && ((idx =? 0)%N || negb (o_fresh o)) in
    let tview := resolve (o_tree o) (target base) in
    view_ok calls' succ' tview /\
    Forall (view_ok calls' succ) (o_views o) /\
    (o_out o = Done -> shows tview fl) /\
    (files_valid fl -> o_out o <> Failed) /\
    (clean' = true -> length (ver_dirs (o_tree o) base) = 1) /\
    obs_spec base calls' succ' clean' (idx + 1)%N t
  end.

Definition op_oracle (base : path) (calls : list files) (succ clean : bool) (idx : N) (o : opobs) : bool :=
  let fl := o_files o in
  let calls' := fl :: calls in
  let succ' := succ || is_done (o_out o) in
  let clean' := clean && is_done (o_out o) && ((idx =? 0)%N || negb (o_fresh o)) in
  let tview := resolve (o_tree o) (target base) in
  view_ok_b calls' succ' tview
  && forallb (view_ok_b calls' succ) (o_views o)
  && (if is_done (o_out o) then shows_b tview fl else true)
  && (if files_valid_b fl then negb (outcome_eqb (o_out o) Failed) else true)
  && (if clean' then Nat.eqb (length (ver_dirs (o_tree o) base)) 1 else true).

Lemma check_op_proj v base c o :
  let c' := check_op v base c o in
  c_calls c' = o_files o :: c_calls c /\
  c_succ c' = c_succ c || is_done (o_out o) /\
  c_clean c' = c_clean c && is_done (o_out o) && ((c_idx c =? 0)%N || negb (o_fresh o)) /\
  c_idx c' = (c_idx c + 1)%N /\
  c_oracle_ok c' = c_oracle_ok c && op_oracle base (c_calls c) (c_succ c) (c_clean c) (c_idx c) o.
Proof.
  unfold check_op.
  destruct (write v base (if o_fresh o then mkSt (sfs (c_st c)) None else c_st c) (c_idx c) (o_files o)
              match o_crash o with Some j => log_prefix v (length (o_files o)) j | None => None end) as [s' out].
  cbn [c_calls c_succ c_clean c_idx c_oracle_ok]. unfold op_oracle. auto.
Qed.

Lemma op_oracle_sound base calls succ clean idx o :
  op_oracle base calls succ clean idx o = true <->
  (let fl := o_files o in
   let calls' := fl :: calls in
   let succ' := succ || is_done (o_out o) in
   let clean' := clean && is_done (o_out o) && ((idx =? 0)%N || negb (o_fresh o)) in
   let tview := resolve (o_tree o) (target base) in
   view_ok calls' succ' tview /\
   Forall (view_ok calls' succ) (o_views o) /\
   (o_out o = Done -> shows tview fl) /\
   (files_valid fl -> o_out o <> Failed) /\
   (clean' = true -> length (ver_dirs (o_tree o) base) = 1)).
Proof.
  unfold op_oracle. cbv zeta.
  match goal with |- _ <-> ?R => set (rhs := R) end.
  do 4 rewrite andb_true_iff. rewrite view_ok_b_sound. subst rhs.
  assert (E2 : forallb (view_ok_b (o_files o :: calls) succ) (o_views o) = true
               <-> Forall (view_ok (o_files o :: calls) succ) (o_views o)).
  { rewrite forallb_forall, Forall_forall. split; intros Hx x Hin; apply view_ok_b_sound, Hx, Hin. }
  assert (E3 : (if is_done (o_out o) then shows_b (resolve (o_tree o) (target base)) (o_files o) else true) = true
               <-> (o_out o = Done -> shows (resolve (o_tree o) (target base)) (o_files o))).
  { destruct (o_out o); cbn [is_done outcome_eqb].
    - rewrite shows_b_sound. tauto.
    - split; [discriminate | reflexivity].
    - split; [discriminate | reflexivity]. }
  assert (E4 : (if files_valid_b (o_files o) then negb (outcome_eqb (o_out o) Failed) else true) = true
               <-> (files_valid (o_files o) -> o_out o <> Failed)).
  { destruct (files_valid_b (o_files o)) eqn:Ev.
    - apply files_valid_b_sound in Ev. destruct (o_out o); cbn [outcome_eqb negb].
      + split; [discriminate | reflexivity].
      + split; [discriminate | intro X; exfalso; exact (X Ev eq_refl)].
      + split; [discriminate | reflexivity].
    - split; [|reflexivity]. intros _ Hv. apply files_valid_b_sound in Hv. congruence. }
  assert (E5 : forall cl : bool,
             (if cl then Nat.eqb (length (ver_dirs (o_tree o) base)) 1 else true) = true
             <-> (cl = true -> length (ver_dirs (o_tree o) base) = 1)).
  { intros [|].
    - rewrite Nat.eqb_eq. tauto.
    - split; [discriminate | reflexivity]. }
  rewrite E2, E3, E4, E5. tauto.
Qed.

Lemma check_ops_sound v base : forall ops c,
  c_oracle_ok (fold_left (check_op v base) ops c) = true <->
  c_oracle_ok c = true /\ obs_spec base (c_calls c) (c_succ c) (c_clean c) (c_idx c) ops.
Proof.
  induction ops as [|o t IH]; intro c; cbn [fold_left obs_spec]; [tauto|].
  rewrite IH. destruct (check_op_proj v base c o) as (-> & -> & -> & -> & ->).
  rewrite andb_true_iff, op_oracle_sound. cbv zeta. tauto.
Qed.

Lemma oracle_sound b pre ops :
  oracle (Case b pre ops) = true <-> obs_spec (map CN b) [] false true 0%N ops.
Proof.
  unfold oracle, check_ops. rewrite check_ops_sound. cbn [c_oracle_ok c_calls c_succ c_clean c_idx]. tauto.
Qed.
