(* C13 — lock.OuterCancel: the cause carried by a cancelled reader context, and freshness of the
   rcancels index.  Invariants for all schedules. *)
From Kit Require Import C13.Model_Outer C13.Spec C13.Proofs_Outer.
Local Open Scope Z_scope.

(* ------------------------------------------------------------------------------------- *)
(* CAUSE *)

Definition cause_ok (cd : Z -> bool) (r : rrec) : Prop :=
  match r_cause r with
  | None => r_done r = false /\ cd (r_ctx r) = false
  | Some CConfigured => r_done r = true
  | Some CParent => cd (r_ctx r) = true
  end.

Lemma Forall_set_nth {A} (P : A -> Prop) n x l : Forall P l -> P x -> Forall P (set_nth n x l).
Proof.
  intros H Hx. revert n. induction H; intros [|n]; cbn; constructor; auto.
Qed.

Lemma Forall_nth {A} (P : A -> Prop) l n x : Forall P l -> nth_error l n = Some x -> P x.
Proof. intros H E. rewrite Forall_forall in H. apply H. eapply nth_error_In; eauto. Qed.

Lemma cause_spawn_all cd m t0 b l : Forall (cause_ok cd) l -> Forall (cause_ok cd) (spawn_all m t0 b l).
Proof.
  unfold spawn_all. revert l. induction m as [|[i j] m IH]; intros l H; [exact H|].
  cbn [fold_left snd]. apply IH. destruct (nth_error l j) as [r|] eqn:E; auto.
  destruct (r_at r); auto. apply Forall_set_nth; auto.
  pose proof (Forall_nth _ _ _ _ H E) as Hr. unfold cause_ok in *. cbn. exact Hr.
Qed.

Lemma cause_rcancel s n y : Forall (cause_ok (cdn s)) (recs s) ->
  Forall (cause_ok (cdn s)) (recs (rcancel s n y)) /\ cdn (rcancel s n y) = cdn s.
Proof.
  intro H. unfold rcancel. destruct (nth_error (recs s) n) as [r|] eqn:E; auto.
  destruct (r_done r) eqn:Ed; auto. cbn. split; auto. apply Forall_set_nth; auto.
  pose proof (Forall_nth _ _ _ _ H E) as Hr. unfold cause_ok in *. cbn.
  destruct (r_cause r) as [[|]|]; auto.
Qed.

Lemma cause_clear_at s n : Forall (cause_ok (cdn s)) (recs s) ->
  Forall (cause_ok (cdn s)) (recs (clear_at s n)) /\ cdn (clear_at s n) = cdn s.
Proof.
  intro H. unfold clear_at. destruct (nth_error (recs s) n) as [r|] eqn:E; auto. cbn. split; auto.
  apply Forall_set_nth; auto. pose proof (Forall_nth _ _ _ _ H E) as Hr. unfold cause_ok in *. exact Hr.
Qed.

Lemma cause_mark_parent cd c l : Forall (cause_ok cd) l ->
  Forall (cause_ok (upd cd c true)) (mark_parent c l).
Proof.
  intro H. unfold mark_parent. induction H as [|r l Hr _ IH]; cbn; constructor; auto.
  unfold cause_ok in *. unfold upd. destruct (Z.eqb_spec (r_ctx r) c) as [Ec|Ec]; cbn.
  - rewrite Ec, Z.eqb_refl. destruct (r_cause r) as [[|]|]; auto.
  - destruct (Z.eqb_spec (r_ctx r) c); [contradiction|]. exact Hr.
Qed.

Definition cinv3 (s : ostate) : Prop := Forall (cause_ok (cdn s)) (recs s).

Lemma cinv3_step s e s' : cinv3 s -> ostep s e = Some s' -> cinv3 s'.
Proof.
  unfold cinv3. intros I H.
  destruct e; cbn in H;
    repeat match type of H with
           | match ?x with _ => _ end = Some _ => destruct x eqn:?; try discriminate
           | (if ?x then _ else _) = Some _ => destruct x eqn:?; try discriminate
           end;
    try (inversion H; subst s'; clear H; cbn; exact I).
  - inversion H; subst s'. unfold shut_lock. destruct (ch_send (shut s) t) as [c' ok]; destruct ok; exact I.
  - inversion H; subst s'. unfold shut_lock. destruct (ch_send (shut s) t) as [c' ok]; destruct ok; exact I.
  - (* ORRelease *) inversion H; subst s'; clear H. cbn.
    destruct (cause_rcancel s r ByOwn I) as [A B]. rewrite B. exact A.
  - (* RunRegW *) inversion H; subst s'; clear H. cbn. now apply cause_spawn_all.
  - (* RunRegR *) inversion H; subst s'; clear H. cbn. apply Forall_app. split; auto.
    constructor; [|constructor]. unfold cause_ok; cbn. destruct (cdn s c) eqn:E; auto.
  - (* RunDeferGo *) inversion H; subst s'; clear H. cbn. now apply cause_spawn_all.
  - (* OGrace *) inversion H; subst s'; clear H.
    destruct (cause_clear_at s r I) as [A B].
    pose proof (cause_rcancel (clear_at s r) r (if closed s then ByShutdown else ByWriter)) as C.
    rewrite B in C. destruct (C A) as [C1 C2]. rewrite C2. exact C1.
  - (* OCancel *) inversion H; subst s'; clear H. cbn. now apply cause_mark_parent.
Qed.

Lemma cinv3_run g es : forall s, orun (oinit g) es = Some s -> cinv3 s.
Proof.
  assert (G : forall s s', cinv3 s -> orun s es = Some s' -> cinv3 s').
  { induction es as [|e es IH]; cbn; intros s s' Hi Hr.
    - inversion Hr; subst; exact Hi.
    - unfold orun in Hr; cbn in Hr. destruct (ostep s e) as [s1|] eqn:E; [|discriminate].
      eapply IH; [eapply cinv3_step; eauto | exact Hr]. }
  intros s Hr. eapply G; eauto. constructor.
Qed.

(* CAUSE: a reader context is live iff it has no cause; a context that ended carries the
   configured cause whenever it was ended by rcancel (own release, a writer after the grace
   period, shutdown) before the parent ended, and the parent's cause only if the parent ended. *)
Lemma outer_cause : forall g es s n r, orun (oinit g) es = Some s -> nth_error (recs s) n = Some r ->
  (r_cause r = None <-> rctx_done s r = false) /\
  (r_cause r = Some CParent -> cdn s (r_ctx r) = true) /\
  (r_done r = true -> cdn s (r_ctx r) = false -> r_cause r = Some CConfigured).
Proof.
  intros g es s n r Hr Hn. pose proof (Forall_nth _ _ _ _ (cinv3_run g es s Hr) Hn) as H.
  unfold cause_ok, rctx_done in *. destruct (r_cause r) as [[|]|].
  - repeat split; try discriminate; auto. rewrite H. discriminate.
  - repeat split; try discriminate; auto.
    + rewrite H, orb_true_r. discriminate.
    + intros _ E. congruence.
  - destruct H as [A B]. repeat split; auto; try discriminate.
    + now rewrite A, B.
    + intros E. congruence.
Qed.

(* ------------------------------------------------------------------------------------- *)
(* INDEX FRESHNESS *)

Definition same_core (l l' : list rrec) : Prop :=
  forall n r, nth_error l n = Some r ->
              exists r', nth_error l' n = Some r' /\ r_idx r' = r_idx r /\ r_done r' = r_done r.

Lemma same_core_refl l : same_core l l.
Proof. intros n r E. eauto. Qed.

Lemma same_core_trans l1 l2 l3 : same_core l1 l2 -> same_core l2 l3 -> same_core l1 l3.
Proof.
  intros A B n r E. destruct (A n r E) as (r2 & E2 & I2 & D2). destruct (B n r2 E2) as (r3 & E3 & I3 & D3).
  exists r3. repeat split; congruence.
Qed.

Lemma same_core_set_nth l n r r' : nth_error l n = Some r -> r_idx r' = r_idx r -> r_done r' = r_done r ->
  same_core l (set_nth n r' l).
Proof.
  intros E Hi Hd m x Ex. destruct (Nat.eq_dec n m) as [->|Hne].
  - rewrite nth_set_nth_same by (apply nth_error_Some; congruence). exists r'. split; auto.
    rewrite E in Ex. inversion Ex; subst. auto.
  - rewrite nth_set_nth_other by auto. eauto.
Qed.

Lemma same_core_spawn_all m t0 b l : same_core l (spawn_all m t0 b l).
Proof.
  unfold spawn_all. revert l. induction m as [|[i j] m IH]; intro l; [apply same_core_refl|].
  cbn [fold_left snd]. eapply same_core_trans; [|apply IH].
  destruct (nth_error l j) as [r|] eqn:E; [|apply same_core_refl].
  destruct (r_at r); [apply same_core_refl|]. eapply same_core_set_nth; eauto.
Qed.

Lemma same_core_mark_parent c l : same_core l (mark_parent c l).
Proof.
  intros n r E. unfold mark_parent. rewrite nth_error_map, E. cbn.
  destruct (r_ctx r =? c); eexists; split; eauto.
Qed.

Lemma same_core_clear_at s n : same_core (recs s) (recs (clear_at s n)).
Proof.
  unfold clear_at. destruct (nth_error (recs s) n) as [r|] eqn:E; [|apply same_core_refl].
  cbn. eapply same_core_set_nth; eauto.
Qed.

Record kinv (s : ostate) : Prop := {
  k_ent : forall i n, In (i, n) (rcs s) ->
          exists r, nth_error (recs s) n = Some r /\ r_idx r = i /\ r_done r = false;
  k_lt : (forall t, runpc s <> RunWait t) -> forall i n, In (i, n) (rcs s) -> 0 <= i < rcx s;
  k_nd : NoDup (map fst (rcs s));
  k_pos : 0 <= rcx s
}.

Lemma kinv_init g : kinv (oinit g).
Proof. constructor; cbn; try tauto; try constructor; lia. Qed.

(* steps that keep rcancels / rcancelx and only refine the records *)
Lemma kinv_frame s s' : kinv s -> rcs s' = rcs s -> rcx s' = rcx s -> same_core (recs s) (recs s') ->
  ((forall t, runpc s' <> RunWait t) -> (forall t, runpc s <> RunWait t)) -> kinv s'.
Proof.
  intros K E1 E2 Hc Hr. constructor; rewrite ?E1, ?E2; try apply K.
  - intros i n Hin. destruct (k_ent s K i n Hin) as (r & A & B & C).
    destruct (Hc n r A) as (r' & A' & B' & C'). exists r'. repeat split; congruence.
  - intros Hw. apply (k_lt s K). auto.
Qed.

Lemma del_idx_in i m p : In p (del_idx i m) <-> In p m /\ fst p <> i.
Proof.
  unfold del_idx. rewrite filter_In. destruct (Z.eqb_spec (fst p) i); cbn; intuition congruence.
Qed.

Lemma del_idx_nodup i m : NoDup (map fst m) -> NoDup (map fst (del_idx i m)).
Proof.
  induction m as [|p m IH]; cbn; intro H; [constructor|]. inversion H; subst.
  destruct (Z.eqb_spec (fst p) i); cbn; auto. constructor; auto.
  intro Hin. apply in_map_iff in Hin as (q & Hq & Hin). apply del_idx_in in Hin as [Hin _].
  apply H2. apply in_map_iff. eauto.
Qed.

Lemma kinv_rcancel s n y : kinv s -> kinv (rcancel s n y).
Proof.
  intro K. unfold rcancel. destruct (nth_error (recs s) n) as [r|] eqn:E; auto.
  destruct (r_done r) eqn:Ed; auto. constructor; cbn.
  - intros i m Hin. apply del_idx_in in Hin as [Hin Hne]. cbn in Hne.
    destruct (k_ent s K i m Hin) as (r0 & A & B & C).
    destruct (Nat.eq_dec n m) as [->|Hnm].
    + exfalso. rewrite E in A. inversion A; subst. congruence.
    + rewrite nth_set_nth_other by auto. eauto.
  - intros Hw i m Hin. apply del_idx_in in Hin as [Hin _]. eapply (k_lt s K); eauto.
  - apply del_idx_nodup. apply K.
  - apply K.
Qed.

Lemma rcancel_runpc s n y : runpc (rcancel s n y) = runpc s.
Proof. destruct (rcancel_fields s n y) as (_ & _ & A & _). exact A. Qed.

Lemma kinv_step s e s' : oinv2 s -> kinv s -> ostep s e = Some s' -> kinv s'.
Proof.
  intros I K H.
  destruct e; cbn in H;
    repeat match type of H with
           | match ?x with _ => _ end = Some _ => destruct x eqn:?; try discriminate
           | (if ?x then _ else _) = Some _ => destruct x eqn:?; try discriminate
           end;
    try (inversion H; subst s'; clear H;
         apply (kinv_frame s); cbn; auto using same_core_refl; fail).
  - inversion H; subst s'. unfold shut_lock. destruct (ch_send (shut s) t) as [c' ok]; destruct ok;
      apply (kinv_frame s); cbn; auto using same_core_refl.
  - inversion H; subst s'. unfold shut_lock. destruct (ch_send (shut s) t) as [c' ok]; destruct ok;
      apply (kinv_frame s); cbn; auto using same_core_refl.
  - (* ORRelease *)
    inversion H; subst s'; clear H. pose proof (kinv_rcancel s r ByOwn K) as K2.
    apply (kinv_frame _ _ K2); cbn; auto using same_core_refl.
  - (* RunRecv *) inversion H; subst s'; clear H.
    apply (kinv_frame s); cbn; auto using same_core_refl. intros _ t. rewrite Heqr. discriminate.
  - (* RunSeeClosed *) inversion H; subst s'; clear H.
    apply (kinv_frame s); cbn; auto using same_core_refl. intros _ t. rewrite Heqr. discriminate.
  - (* RunTakeSlot *) inversion H; subst s'; clear H.
    apply (kinv_frame s); cbn; auto using same_core_refl. intros _ t. rewrite Heqr. discriminate.
  - (* RunCtxDone *) inversion H; subst s'; clear H.
    apply (kinv_frame s); cbn; auto using same_core_refl. intros _ t1. rewrite Heqr. discriminate.
  - (* RunRegW *) inversion H; subst s'; clear H. constructor; cbn.
    + intros i n Hin. destruct (k_ent s K i n Hin) as (r & A & B & C).
      destruct (same_core_spawn_all (rcs s) (now s) (SpW t) (recs s) n r A) as (r' & A' & B' & C').
      exists r'. repeat split; congruence.
    + intros Hw. exfalso. eapply Hw; eauto.
    + apply K.
    + lia.
  - (* RunRegR *) inversion H; subst s'; clear H.
    assert (Hlt : forall i n, In (i, n) (rcs s) -> 0 <= i < rcx s).
    { apply (k_lt s K). intros t0. rewrite Heqr. discriminate. }
    constructor; cbn.
    + intros i n [Heq|Hin].
      * inversion Heq; subst. rewrite nth_error_app2 by lia. rewrite Nat.sub_diag. cbn. eauto.
      * apply del_idx_in in Hin as [Hin _]. destruct (k_ent s K i n Hin) as (r & A & B & C).
        exists r. split; auto. rewrite nth_error_app1; auto. apply nth_error_Some. congruence.
    + intros _ i n [Heq|Hin].
      * inversion Heq; subst. pose proof (k_pos s K). lia.
      * apply del_idx_in in Hin as [Hin _]. specialize (Hlt i n Hin). lia.
    + constructor.
      * intro Hin. apply in_map_iff in Hin as ([i n] & Hq & Hin). cbn in Hq. subst.
        apply del_idx_in in Hin as [_ Hne]. cbn in Hne. congruence.
      * apply del_idx_nodup. apply K.
    + pose proof (k_pos s K). lia.
  - (* RunGrantW *) inversion H; subst s'; clear H.
    assert (Hemp : rcs s = []).
    { destruct (rcs s) as [|[i n] m] eqn:E; auto. exfalso.
      destruct (k_ent s K i n) as (r & A & B & C); [rewrite E; now left|].
      apply Z.eqb_eq in Heqb. rewrite (o_wg s I) in Heqb.
      pose proof (live_zero_done _ Heqb _ _ A). congruence. }
    constructor; cbn; rewrite ?Hemp; try apply K.
    + intros i n [].
    + intros _ i n [].
    + constructor.
  - (* RunDeferGo *) inversion H; subst s'; clear H.
    apply (kinv_frame s); cbn; auto using same_core_spawn_all. intros _ t. rewrite Heqr. discriminate.
  - (* OGrace *) inversion H; subst s'; clear H. apply kinv_rcancel.
    apply (kinv_frame s); auto using same_core_clear_at; unfold clear_at;
      destruct (nth_error (recs s) r); auto.
  - (* OCancel *) inversion H; subst s'; clear H.
    apply (kinv_frame s); cbn; auto using same_core_mark_parent.
Qed.

Lemma kinv_run g es : forall s, orun (oinit g) es = Some s -> oinv2 s /\ kinv s.
Proof.
  assert (G : forall s s', oinv2 s /\ kinv s -> orun s es = Some s' -> oinv2 s' /\ kinv s').
  { induction es as [|e es IH]; cbn; intros s s' Hi Hr.
    - inversion Hr; subst; exact Hi.
    - unfold orun in Hr; cbn in Hr. destruct (ostep s e) as [s1|] eqn:E; [|discriminate].
      eapply IH; [|exact Hr]. destruct Hi as [A B]. split; [eapply oinv2_step | eapply kinv_step]; eauto. }
  intros s Hr. eapply G; eauto. split; [apply oinv2_init | apply kinv_init].
Qed.

Lemma del_idx_id i m : (forall p, In p m -> fst p <> i) -> del_idx i m = m.
Proof.
  unfold del_idx. induction m as [|p m IH]; cbn; intro H; auto.
  destruct (Z.eqb_spec (fst p) i) as [E|E]; [exfalso; apply (H p); auto|]. cbn. f_equal. apply IH. auto.
Qed.

(* INDEX FRESH: whenever Run is about to register a reader (it holds the token and is at the
   rcancelLock section of handleHold), no entry of rcancels has the index [rcancelx] it is going
   to use - also after a writer has reset rcancelx to 0, because wg.Wait() has emptied the map
   before any new registration.  Every entry of the map is a live (not done) record carrying that
   index, and indices are pairwise distinct. *)
Lemma outer_index_fresh : forall g es s t c, orun (oinit g) es = Some s ->
  runpc s = RunReg (HR t c) ->
  (forall i n, In (i, n) (rcs s) -> i <> rcx s) /\ del_idx (rcx s) (rcs s) = rcs s.
Proof.
  intros g es s t c Hr Hp. destruct (kinv_run g es s Hr) as [_ K].
  assert (Hlt : forall i n, In (i, n) (rcs s) -> i <> rcx s).
  { intros i n Hin. assert (0 <= i < rcx s); [|lia]. eapply (k_lt s K); eauto.
    intros t0. rewrite Hp. discriminate. }
  split; [exact Hlt|]. apply del_idx_id. intros [i n] Hin. cbn. eauto.
Qed.

Lemma outer_rcancels_live : forall g es s i n, orun (oinit g) es = Some s -> In (i, n) (rcs s) ->
  exists r, nth_error (recs s) n = Some r /\ r_idx r = i /\ r_done r = false.
Proof. intros g es s i n Hr. destruct (kinv_run g es s Hr) as [_ K]. apply (k_ent s K). Qed.

(* ------------------------------------------------------------------------------------- *)
(* REGISTRATIONS COME ONLY WITH A GRANT.  For ANY state and event: an entry of rcancels that  *)
(* is new after the step was made by Run's registration step for a reader request, and the    *)
(* same step posts the grant (PGrant of that very record) into the requesting thread's        *)
(* response cell.  No other event adds an entry; in particular the three ways an RLock        *)
(* reports an error leave rcancels and the WaitGroup untouched (C13_outer_error_holds_nothing). *)

Lemma rcancel_rcs_subset s n y p : In p (rcs (rcancel s n y)) -> In p (rcs s).
Proof.
  unfold rcancel. destruct (nth_error (recs s) n) as [r|]; auto. destruct (r_done r); auto.
  cbn. intro H. apply del_idx_in in H. tauto.
Qed.

Lemma clear_at_rcs s n : rcs (clear_at s n) = rcs s.
Proof. unfold clear_at. destruct (nth_error (recs s) n); reflexivity. Qed.

Lemma outer_entry_only_with_grant : forall s e s' p,
  ostep s e = Some s' -> In p (rcs s') -> ~ In p (rcs s) ->
  e = RunRegR /\ exists t c, runpc s = RunReg (HR t c) /\ snd p = length (recs s) /\
                             fst p = rcx s /\ resps s' t = Some (PGrant (snd p)) /\
                             wg s' = wg s + 1.
Proof.
  intros s e s' p H Hin Hnot.
  destruct e; cbn in H;
    repeat match type of H with
           | match ?x with _ => _ end = Some _ => destruct x eqn:?; try discriminate
           | (if ?x then _ else _) = Some _ => destruct x eqn:?; try discriminate
           end;
    try (inversion H; subst s'; clear H; cbn in Hin; contradiction).
  - inversion H; subst s'. unfold shut_lock in Hin. destruct (ch_send (shut s) t) as [c' ok]; destruct ok;
      cbn in Hin; contradiction.
  - inversion H; subst s'. unfold shut_lock in Hin. destruct (ch_send (shut s) t) as [c' ok]; destruct ok;
      cbn in Hin; contradiction.
  - (* ORRelease *) inversion H; subst s'; clear H. cbn in Hin. apply rcancel_rcs_subset in Hin. contradiction.
  - (* RunRegR *) inversion H; subst s'; clear H. cbn in Hin. destruct Hin as [Heq|Hin].
    + subst p. split; auto. exists t, c. cbn. rewrite upd_same. repeat split; auto.
    + apply del_idx_in in Hin. tauto.
  - (* OGrace *) inversion H; subst s'; clear H. apply rcancel_rcs_subset in Hin.
    rewrite clear_at_rcs in Hin. contradiction.
Qed.
