(* C13 — lock.Context (/repo/concurrency/lock/context.go) as an event system. Definitions only.

     func (c *Context) Lock(ctx) error {           [XCall t w ctx]   (w = true: Lock, false: RLock)
        select {
        case <-ctx.Done():       return ctx.Err()  [XErr t]    enabled iff ctx is done
        case c.locked <- struct{}{}:               [XTake t]   enabled iff the 1-slot token is free
             c.lock.Lock()  /  c.lock.RLock()      [XRW t]     (sync.RWMutex; blocks while incompatible)
             return nil }
     }
     func (c *Context) Unlock() { c.lock.Unlock()  [XUnlockA t]
                                  <-c.locked }     [XUnlockB t]   (blocks on an empty channel)
     RLock / RUnlock likewise with RLock / RUnlock.

   When both select cases are ready Go chooses at random: both events are enabled.  Which of
   several goroutines blocked in the select obtains a freed token is left nondeterministic
   (the property does not claim FIFO for this lock).  [XCancel c]: the environment ends
   context c (irreversible).  Ghost [xres t]: outcome of t's last acquisition
   (Some true = nil error, Some false = ctx.Err()). *)
From Kit Require Export C13.Common.

Inductive xpc :=
| XIdle
| XSel (w : bool) (c : Z)      (* blocked in / about to evaluate the select *)
| XTok (w : bool)              (* sent the token; about to call c.lock.Lock()/RLock() *)
| XHold (w : bool)             (* the call returned nil: inside the critical section *)
| XRel (w : bool).             (* c.lock released; about to receive the token back *)

Record xstate := mkx {
  tok : bool;                  (* c.locked holds the token *)
  rww : bool;                  (* c.lock is write-locked *)
  rwr : nat;                   (* c.lock reader count *)
  cdone : Z -> bool;           (* which contexts are done *)
  xpcs : tid -> xpc;
  xres : tid -> option bool    (* ghost *)
}.

Inductive xev :=
| XCall (t : tid) (w : bool) (c : Z)
| XTake (t : tid)
| XRW (t : tid)
| XErr (t : tid)
| XUnlockA (t : tid)
| XUnlockB (t : tid)
| XCancel (c : Z).

Definition xinit : xstate :=
  mkx false false 0%nat (fun _ => false) (fun _ => XIdle) (fun _ => None).

Definition xstep (s : xstate) (e : xev) : option xstate :=
  match e with
  | XCall t w c =>
      match xpcs s t with
      | XIdle => Some (mkx (tok s) (rww s) (rwr s) (cdone s) (upd (xpcs s) t (XSel w c)) (upd (xres s) t None))
      | _ => None
      end
  | XTake t =>
      match xpcs s t with
      | XSel w c => if tok s then None
                    else Some (mkx true (rww s) (rwr s) (cdone s) (upd (xpcs s) t (XTok w)) (xres s))
      | _ => None
      end
  | XRW t =>
      match xpcs s t with
      | XTok true =>
          if rww s || negb (Nat.eqb (rwr s) 0) then None
          else Some (mkx (tok s) true (rwr s) (cdone s) (upd (xpcs s) t (XHold true)) (upd (xres s) t (Some true)))
      | XTok false =>
          if rww s then None
          else Some (mkx (tok s) false (S (rwr s)) (cdone s) (upd (xpcs s) t (XHold false)) (upd (xres s) t (Some true)))
      | _ => None
      end
  | XErr t =>
      match xpcs s t with
      | XSel w c => if cdone s c
                    then Some (mkx (tok s) (rww s) (rwr s) (cdone s) (upd (xpcs s) t XIdle) (upd (xres s) t (Some false)))
                    else None
      | _ => None
      end
  | XUnlockA t =>
      match xpcs s t with
      | XHold true => Some (mkx (tok s) false (rwr s) (cdone s) (upd (xpcs s) t (XRel true)) (xres s))
      | XHold false => Some (mkx (tok s) (rww s) (pred (rwr s)) (cdone s) (upd (xpcs s) t (XRel false)) (xres s))
      | _ => None
      end
  | XUnlockB t =>
      match xpcs s t with
      | XRel w => if tok s
                  then Some (mkx false (rww s) (rwr s) (cdone s) (upd (xpcs s) t XIdle) (xres s))
                  else None
      | _ => None
      end
  | XCancel c => Some (mkx (tok s) (rww s) (rwr s) (upd (cdone s) c true) (xpcs s) (xres s))
  end.

Definition xrun := run xstep.

(* t occupies the lock: it owns the token (from the send until the receive) *)
Definition owns (s : xstate) (t : tid) : Prop :=
  match xpcs s t with XTok _ | XHold _ | XRel _ => True | _ => False end.
