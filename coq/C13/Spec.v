(* C13 — what the property demands of the five lock primitives, written from the property text
   (properties.jsonl, id C13) and the packages' doc comments ("Mutex is a mutex lock whose lock
   and unlock operations are first-in-first-out", "The map is pruned automatically when all locks
   have been released for a key", "Locking can return early with an error if the context is
   done. No error response means the lock is acquired"), NOT from the code.

   Part 1: predicates over sets of threads (any number of threads), used by the theorems.
   Part 2: the same demands as boolean oracles over what the harness OBSERVES of the
           implementation at the quiescent points of a scripted run (finitely many threads),
           with the lemmas tying each oracle to its predicate (Proofs_Oracle.v). *)
From Kit Require Export C13.Common.

(* ===================================================================================== *)
(* 1. Predicates                                                                           *)

(* "never admit two exclusive holders - or, for the read/write variants, a writer together with
   a reader that has not been told to stop - for the same lock or key at once".
   [holdsW t] : t is inside an exclusive critical section of the lock/key;
   [holdsR t] : t is inside a shared one and has not been told to stop. *)
Definition excl (holdsW holdsR : tid -> Prop) : Prop :=
  (forall t1 t2, holdsW t1 -> holdsW t2 -> t1 = t2) /\
  (forall t1 t2, holdsW t1 -> holdsR t2 -> False).

(* "FIFO locks grant in arrival order": the k-th grant goes to the k-th arrival - the log of
   grants is a prefix of the log of arrivals. *)
Definition fifo (arrivals grants : list tid) : Prop := exists rest, arrivals = grants ++ rest.

(* "the FIFO map's per-key entries disappear when the last holder or waiter leaves" (and exist
   while there is one): the entry of a key is present iff some thread holds or waits for it. *)
Definition no_leak (present : bool) (user : tid -> Prop) : Prop :=
  present = true <-> exists t, user t.

(* why a reader's context ended (outer-cancel lock): "no reader cancelled for any other reason
   than its own release, its parent context, a writer or shutdown" *)
Inductive why := ByOwn | ByParent | ByWriter | ByShutdown.

(* ===================================================================================== *)
(* 2. Observations and oracles                                                             *)

(* what the harness knows about thread i at a quiescent point *)
Inductive tstat :=
| TIdle                (* no call in flight, holds nothing *)
| TWaitW (k : key)     (* an exclusive acquisition of k has not returned *)
| TWaitR (k : key)     (* a shared acquisition of k has not returned *)
| THoldW (k : key)     (* exclusive acquisition returned nil, not yet released *)
| THoldR (k : key)     (* shared acquisition returned nil, not released, not told to stop *)
| TTold (k : key).     (* shared, not released, but its context has been cancelled (told to stop) *)

(* outcome of the last acquisition of thread i *)
Inductive tres := RNone | ROk | RCtxErr | RClosed.

Definition tstat_eqb (a b : tstat) : bool :=
  match a, b with
  | TIdle, TIdle => true
  | TWaitW k, TWaitW k' | TWaitR k, TWaitR k' | THoldW k, THoldW k' | THoldR k, THoldR k'
  | TTold k, TTold k' => Z.eqb k k'
  | _, _ => false
  end.

Definition tres_eqb (a b : tres) : bool :=
  match a, b with
  | RNone, RNone | ROk, ROk | RCtxErr, RCtxErr | RClosed, RClosed => true
  | _, _ => false
  end.

Definition is_holdW (k : key) (s : tstat) : bool := match s with THoldW k' => Z.eqb k k' | _ => false end.
Definition is_holdR (k : key) (s : tstat) : bool := match s with THoldR k' => Z.eqb k k' | _ => false end.
Definition is_told (k : key) (s : tstat) : bool := match s with TTold k' => Z.eqb k k' | _ => false end.
Definition is_waitW (k : key) (s : tstat) : bool := match s with TWaitW k' => Z.eqb k k' | _ => false end.
Definition is_waitR (k : key) (s : tstat) : bool := match s with TWaitR k' => Z.eqb k k' | _ => false end.
Definition is_user (k : key) (s : tstat) : bool :=
  match s with TIdle => false | TWaitW k' | TWaitR k' | THoldW k' | THoldR k' | TTold k' => Z.eqb k k' end.

Definition count {A} (p : A -> bool) (l : list A) : nat := length (filter p l).

(* exclusion on one key, over the observed statuses *)
Definition excl_key_obs (st : list tstat) (k : key) : bool :=
  (count (is_holdW k) st <=? 1)%nat &&
  ((count (is_holdW k) st =? 0)%nat || (count (is_holdR k) st =? 0)%nat).

Definition excl_obs (keys : list key) (st : list tstat) : bool :=
  forallb (excl_key_obs st) keys.

(* FIFO on the observed logs *)
Fixpoint prefixZ (a b : list Z) : bool :=
  match a, b with
  | [], _ => true
  | x :: a', y :: b' => Z.eqb x y && prefixZ a' b'
  | _ :: _, [] => false
  end.

Definition fifo_obs (arrivals grants : list tid) : bool := prefixZ grants arrivals.

(* no leak: the entry count equals the number of keys in use *)
Definition used_keys (keys : list key) (st : list tstat) : Z :=
  Z.of_nat (count (fun k => existsb (is_user k) st) keys).

Definition no_leak_obs (keys : list key) (st : list tstat) (entries : Z) : bool :=
  Z.eqb entries (used_keys keys st).

(* "a waiter whose context ends stops waiting", at a quiescent point: no call is still in flight
   whose context is done.  [ctx_of i] = the context passed by thread i's call in flight. *)
Fixpoint no_dead_waiter (st : list tstat) (ctxs : list Z) (done : list Z) : bool :=
  match st, ctxs with
  | s :: st', c :: ctxs' =>
      (match s with TWaitW _ | TWaitR _ => negb (memz c done) | _ => true end)
      && no_dead_waiter st' ctxs' done
  | _, _ => true
  end.

(* "an acquisition that reports an error holds nothing" / no stuck lock, at a quiescent point:
   nobody waits for a key that nobody holds.  A shared acquisition may also wait behind a
   waiting exclusive one (writer preference is allowed, not demanded); a reader that was told to
   stop but has not released yet still counts as holding here (the writer may have to wait for
   the grace period). *)
Definition no_idle_wait_key (st : list tstat) (k : key) : bool :=
  let held := negb ((count (is_holdW k) st =? 0)%nat) || negb ((count (is_holdR k) st =? 0)%nat)
              || negb ((count (is_told k) st =? 0)%nat) in
  let ww := negb ((count (is_waitW k) st =? 0)%nat) in
  let wr := negb ((count (is_waitR k) st =? 0)%nat) in
  implb ww held && implb wr (held || ww).

Definition no_idle_wait (keys : list key) (st : list tstat) : bool :=
  forallb (no_idle_wait_key st) keys.

(* a thread whose last acquisition reported an error is not a holder *)
Fixpoint err_holds_nothing (st : list tstat) (res : list tres) : bool :=
  match st, res with
  | s :: st', r :: res' =>
      (match r, s with
       | (RCtxErr | RClosed), (THoldW _ | THoldR _ | TTold _) => false
       | _, _ => true
       end) && err_holds_nothing st' res'
  | _, _ => true
  end.

(* outer-cancel lock, "an acquisition that reports an error holds nothing": every registration of
   the lock (an entry of rcancels, counted in the WaitGroup a writer waits for) belongs to a reader
   whose RLock returned nil and that has not released - so there are at most as many as there are
   such readers.  (While the lock runs; after shutdown the leftovers are cancelled by Run.) *)
Definition is_reader (s : tstat) : bool := match s with THoldR _ | TTold _ => true | _ => false end.

Definition owned_entries_obs (st : list tstat) (entries : Z) : bool :=
  (entries <=? Z.of_nat (count is_reader st))%Z.
