(* C13 — fifo.Map (/repo/concurrency/fifo/map.go) as an event system. Definitions only.

     func (a *fifoMap[T]) Lock(key T) {
        a.lock.Lock()                                   \
        m, ok := a.items[key]                            |
        if !ok { m = &mapItem{mutex: New()}; a.items[key] = m }   |  [MLockA t k]
        m.ilen++                                         |
        a.lock.Unlock()                                 /
        m.mutex.Lock()                                     [MLockB t]   (send; may park)
     }
     func (a *fifoMap[T]) Unlock(key T) {
        a.lock.Lock()                                   \
        m := a.items[key]                                |  [MUnlockA t k]   (nil m => panic)
        m.ilen--; if m.ilen == 0 { delete(a.items, key) }|
        a.lock.Unlock()                                 /
        m.mutex.Unlock()                                   [MUnlockB t]  (receive; hands over)
     }

   The regions bracketed by a.lock contain no blocking operation, so each is one atomic event
   (a.lock itself is a fifo.Mutex; the order in which threads pass it is the order of the
   events in the schedule).  Between the A and the B event of a call every other thread may run:
   these are the context switches "between the look-up and the mutex operation".

   Heap: a [mapItem] is allocated with a fresh object id; [objs o] is the channel of its mutex.
   The thread remembers the object it looked up ([MAt k o] ... [MRel o]); note that Unlock
   releases the object found BY ITS OWN LOOK-UP, not the one the thread acquired.
   Ghost: [it_users] (threads between their ilen++ and ilen--), [karr]/[kgrants] (per key, order
   of arrival at the key mutex / order of grants).
   [ilen] is a uint64, modelled as an unbounded [Z]: an overflow of ilen++ would need 2^64 goroutines
   inside Lock at once (assumption: fewer), and the underflow of ilen-- is excluded by
   C13_fifomap_count (an entry that exists has ilen >= 1). *)
From Kit Require Export C13.Common.

Inductive mpc :=
| MIdle
| MAt (k : key) (o : oid)      (* counted in ilen, about to call m.mutex.Lock() *)
| MWait (k : key) (o : oid)    (* parked in the send *)
| MHold (k : key) (o : oid)    (* inside the critical section of key k *)
| MRel (o : oid).              (* Unlock: ilen-- done, about to call m.mutex.Unlock() *)

Record item := mkit { it_obj : oid; it_len : Z; it_users : list tid }.

Record mstate := mkm {
  items : key -> option item;
  objs : oid -> chan1;
  next : oid;
  mpcs : tid -> mpc;
  mpanic : bool;
  karr : key -> list tid;       (* ghost *)
  kgrants : key -> list tid     (* ghost *)
}.

Inductive mev :=
| MLockA (t : tid) (k : key)
| MLockB (t : tid)
| MUnlockA (t : tid) (k : key)
| MUnlockB (t : tid).

Definition minit : mstate :=
  mkm (fun _ => None) (fun _ => ch_empty) 0%nat (fun _ => MIdle) false (fun _ => []) (fun _ => []).

Definition mstep (s : mstate) (e : mev) : option mstate :=
  if mpanic s then None else
  match e with
  | MLockA t k =>
      match mpcs s t with
      | MIdle =>
          match items s k with
          | Some it =>
              Some (mkm (upd (items s) k (Some (mkit (it_obj it) (it_len it + 1)%Z (t :: it_users it))))
                        (objs s) (next s) (upd (mpcs s) t (MAt k (it_obj it))) false (karr s) (kgrants s))
          | None =>
              let o := next s in
              Some (mkm (upd (items s) k (Some (mkit o 1 [t])))
                        (updn (objs s) o ch_empty) (S o) (upd (mpcs s) t (MAt k o)) false
                        (karr s) (kgrants s))
          end
      | _ => None
      end
  | MLockB t =>
      match mpcs s t with
      | MAt k o =>
          let '(c', ok) := ch_send (objs s o) t in
          Some (mkm (items s) (updn (objs s) o c') (next s)
                    (upd (mpcs s) t (if ok then MHold k o else MWait k o)) false
                    (upd (karr s) k (karr s k ++ [t]))
                    (if ok then upd (kgrants s) k (kgrants s k ++ [t]) else kgrants s))
      | _ => None
      end
  | MUnlockA t k =>
      match mpcs s t with
      | MHold k' _ =>
          if negb (Z.eqb k k') then None else
          match items s k with
          | None =>                                         (* m == nil: m.ilen-- panics *)
              Some (mkm (items s) (objs s) (next s) (mpcs s) true (karr s) (kgrants s))
          | Some it =>
              let n := (it_len it - 1)%Z in
              let users := remz t (it_users it) in
              Some (mkm (upd (items s) k (if Z.eqb n 0 then None
                                          else Some (mkit (it_obj it) n users)))
                        (objs s) (next s) (upd (mpcs s) t (MRel (it_obj it))) false
                        (karr s) (kgrants s))
          end
      | _ => None
      end
  | MUnlockB t =>
      match mpcs s t with
      | MRel o =>
          match ch_recv (objs s o) with
          | None => None                                   (* would block *)
          | Some (c', None) =>
              Some (mkm (items s) (updn (objs s) o c') (next s) (upd (mpcs s) t MIdle) false
                        (karr s) (kgrants s))
          | Some (c', Some t') =>
              match mpcs s t' with
              | MWait k' _ =>
                  Some (mkm (items s) (updn (objs s) o c') (next s)
                            (upd (upd (mpcs s) t MIdle) t' (MHold k' o)) false
                            (karr s) (upd (kgrants s) k' (kgrants s k' ++ [t'])))
              | _ =>                                       (* a parked sender is always MWait *)
                  Some (mkm (items s) (updn (objs s) o c') (next s) (upd (mpcs s) t MIdle) false
                            (karr s) (kgrants s))
              end
          end
      | _ => None
      end
  end.

Definition mrun := run mstep.

(* thread t is between its ilen++ and its ilen-- on key k *)
Definition between (s : mstate) (t : tid) (k : key) : Prop :=
  exists o, mpcs s t = MAt k o \/ mpcs s t = MWait k o \/ mpcs s t = MHold k o.

Definition present (s : mstate) (k : key) : bool :=
  match items s k with Some _ => true | None => false end.

(* what the verif-only accessor Len() returns, restricted to a finite universe of keys *)
Definition entry_count (s : mstate) (ks : list key) : Z :=
  Z.of_nat (length (filter (present s) ks)).
