(* C13 — lock.OuterCancel: transition facts (any state) and invariants (all schedules). *)
From Kit Require Import C13.Model_Outer C13.Spec.
Local Open Scope Z_scope.

Lemma nth_set_nth_same {A} n (x : A) l : (n < length l)%nat -> nth_error (set_nth n x l) n = Some x.
Proof. revert n; induction l as [|y l IH]; intros [|n] H; cbn in *; try lia; auto. apply IH; lia. Qed.

Lemma nth_set_nth_other {A} n m (x : A) l : n <> m -> nth_error (set_nth n x l) m = nth_error l m.
Proof. revert n m; induction l as [|y l IH]; intros [|n] [|m] H; cbn; auto; try congruence. Qed.

Lemma length_set_nth {A} n (x : A) l : length (set_nth n x l) = length l.
Proof. revert n; induction l as [|y l IH]; intros [|n]; cbn; auto. Qed.

(* ------------------------------------------------------------------------------------- *)
(* WHO can end a reader's context.  For ANY state s (reachable or not) and any event e: if   *)
(* record n's own [done] flag goes from false to true, then e is the owner's release, or the *)
(* record's rcancelGrace goroutine — and that one runs only after shutdown, or when the      *)
(* grace period has elapsed since it was spawned.                                            *)

Lemma spawn_all_done m t0 b l n r' :
  nth_error (spawn_all m t0 b l) n = Some r' ->
  exists r, nth_error l n = Some r /\ r_done r' = r_done r /\ r_tid r' = r_tid r /\
            r_ctx r' = r_ctx r /\ r_why r' = r_why r /\ r_idx r' = r_idx r /\
            ((r_at r' = r_at r /\ r_by r' = r_by r) \/
             (r_at r = None /\ r_at r' = Some t0 /\ r_by r' = Some b)).
Proof.
  revert l r'. induction m as [|[i j] m IH]; cbn; intros l r' H.
  - exists r'. repeat split; auto.
  - apply IH in H as (r1 & H1 & Hd & Ht & Hc & Hy & Hi & Ha).
    destruct (nth_error l j) as [r0|] eqn:E0.
    + destruct (r_at r0) eqn:Eat.
      * exists r1. repeat split; auto.
      * destruct (Nat.eq_dec j n) as [Heq|Hne]; [subst j|].
        -- rewrite nth_set_nth_same in H1 by (apply nth_error_Some; congruence).
           inversion H1; subst r1; cbn in *. exists r0. repeat split; auto.
           destruct Ha as [[Ha Hb]|(Ha & _)]; [right; repeat split; auto; congruence | discriminate].
        -- rewrite nth_set_nth_other in H1 by auto. exists r1. repeat split; auto.
    + exists r1. repeat split; auto.
Qed.

Definition done_of (s : ostate) (n : nat) : bool :=
  match nth_error (recs s) n with Some r => r_done r | None => false end.

Lemma rcancel_other s n y m : n <> m -> nth_error (recs (rcancel s n y)) m = nth_error (recs s) m.
Proof.
  intro H. unfold rcancel. destruct (nth_error (recs s) n) as [r|]; auto.
  destruct (r_done r); auto. cbn. now apply nth_set_nth_other.
Qed.

Lemma clear_at_done s n m : done_of (clear_at s n) m = done_of s m.
Proof.
  unfold done_of, clear_at. destruct (nth_error (recs s) n) as [r|] eqn:E; auto. cbn.
  destruct (Nat.eq_dec n m) as [->|Hne].
  - rewrite nth_set_nth_same by (apply nth_error_Some; congruence). now rewrite E.
  - now rewrite nth_set_nth_other.
Qed.

Lemma mark_parent_done c l n :
  match nth_error (mark_parent c l) n with Some r => r_done r | None => false end =
  match nth_error l n with Some r => r_done r | None => false end.
Proof.
  unfold mark_parent. rewrite nth_error_map. destruct (nth_error l n) as [r|]; cbn; auto.
  destruct (r_ctx r =? c); auto.
Qed.

Lemma outer_done_reasons : forall s e s' n,
  ostep s e = Some s' -> done_of s n = false -> done_of s' n = true ->
  (exists t, e = ORRelease t /\ opcs s t = ORHold n) \/
  (e = OGrace n /\
   exists r a, nth_error (recs s) n = Some r /\ r_at r = Some a /\
               (closed s = true \/ a + grace s <= now s)).
Proof.
  intros s e s' n Hstep H0 H1.
  destruct e; cbn in Hstep;
    repeat match type of Hstep with
           | match ?x with _ => _ end = Some _ => destruct x eqn:?; try discriminate
           | (if ?x then _ else _) = Some _ => destruct x eqn:?; try discriminate
           end;
    try (inversion Hstep; subst s'; clear Hstep; unfold done_of in *; cbn in *; congruence).
  - (* OWClosed *) inversion Hstep; subst s'. unfold shut_lock in H1.
    destruct (ch_send (shut s) t) as [c' ok]; destruct ok; unfold done_of in *; cbn in *; congruence.
  - inversion Hstep; subst s'. unfold shut_lock in H1.
    destruct (ch_send (shut s) t) as [c' ok]; destruct ok; unfold done_of in *; cbn in *; congruence.
  - (* ORRelease *)
    inversion Hstep; subst s'; clear Hstep. left. exists t. split; auto.
    destruct (Nat.eq_dec r n) as [->|Hne]; auto.
    exfalso. unfold done_of in *. cbn in H1. rewrite rcancel_other in H1 by auto. congruence.
  - (* RunRegW *)
    inversion Hstep; subst s'; clear Hstep. exfalso. unfold done_of in *; cbn in *.
    destruct (nth_error (spawn_all _ _ _ _) n) as [r'|] eqn:E; [|discriminate].
    apply spawn_all_done in E as (r & Hr & Hd & _). rewrite Hr in H0. congruence.
  - (* RunRegR *)
    inversion Hstep; subst s'; clear Hstep. exfalso. unfold done_of in *; cbn in *.
    destruct (lt_dec n (length (recs s))).
    + rewrite nth_error_app1 in H1 by auto. congruence.
    + rewrite nth_error_app2 in H1 by lia. destruct (n - length (recs s))%nat as [|k]; cbn in H1;
        [discriminate | destruct k; discriminate].
  - (* RunDeferGo *)
    inversion Hstep; subst s'; clear Hstep. exfalso. unfold done_of in *; cbn in *.
    destruct (nth_error (spawn_all _ _ _ _) n) as [r'|] eqn:E; [|discriminate].
    apply spawn_all_done in E as (r & Hr & Hd & _). rewrite Hr in H0. congruence.
  - (* OGrace *)
    inversion Hstep; subst s'; clear Hstep.
    destruct (Nat.eq_dec r n) as [->|Hne].
    + right. split; auto. exists r0, z. repeat split; auto.
      apply orb_true_iff in Heqb as [Hc|Ht].
      * apply orb_true_iff in Hc as [Hc|Hd]; [now left|].
        exfalso. unfold done_of in H0. rewrite Heqo in H0. congruence.
      * right. lia.
    + exfalso. unfold done_of in H1. rewrite rcancel_other in H1 by auto.
      fold (done_of (clear_at s r) n) in H1. rewrite clear_at_done in H1. congruence.
  - (* OCancel *)
    inversion Hstep; subst s'; clear Hstep. exfalso. unfold done_of in *; cbn in *.
    rewrite mark_parent_done in H1. congruence.
Qed.

(* ------------------------------------------------------------------------------------- *)
(* Invariants for all schedules: the token of o.lock, the WaitGroup and the reader records.  *)

Definition live (l : list rrec) : Z := Z.of_nat (length (filter (fun r => negb (r_done r)) l)).

Lemma live_nonneg l : 0 <= live l.
Proof. unfold live. lia. Qed.

Lemma live_app l r : live (l ++ [r]) = live l + (if r_done r then 0 else 1).
Proof. unfold live. rewrite filter_app, app_length. cbn. destruct (r_done r); cbn; lia. Qed.

Lemma live_zero_done l : live l = 0 -> forall n r, nth_error l n = Some r -> r_done r = true.
Proof.
  unfold live. induction l as [|a l IH]; intros H n r E; [destruct n; discriminate|].
  cbn in H. destruct (r_done a) eqn:Ea; cbn in H.
  - destruct n; cbn in E; [inversion E; subst; auto | eapply IH; eauto].
  - lia.
Qed.

Lemma live_set_nth_same l n r r' : nth_error l n = Some r -> r_done r' = r_done r ->
  live (set_nth n r' l) = live l.
Proof.
  unfold live. revert n. induction l as [|a l IH]; intros [|n] E Hd; cbn in *; try discriminate.
  - inversion E; subst. rewrite Hd. destruct (r_done r); reflexivity.
  - specialize (IH n E Hd). destruct (r_done a); cbn; lia.
Qed.

Lemma live_set_nth_done l n r r' : nth_error l n = Some r -> r_done r = false -> r_done r' = true ->
  live (set_nth n r' l) = live l - 1.
Proof.
  unfold live. revert n. induction l as [|a l IH]; intros [|n] E H0 H1; cbn [set_nth nth_error filter] in *;
    try discriminate.
  - inversion E; subst. rewrite H0, H1. cbn [negb length]. rewrite Nat2Z.inj_succ. lia.
  - specialize (IH n E H0 H1). destruct (r_done a); cbn [negb length]; rewrite ?Nat2Z.inj_succ; lia.
Qed.

Lemma live_spawn_all m t0 b l : live (spawn_all m t0 b l) = live l.
Proof.
  unfold spawn_all. revert l. induction m as [|[i j] m IH]; intro l; [reflexivity|].
  cbn [fold_left snd]. rewrite IH. destruct (nth_error l j) as [r|] eqn:E; auto. destruct (r_at r); auto.
  eapply live_set_nth_same; eauto.
Qed.

Lemma live_mark_parent c l : live (mark_parent c l) = live l.
Proof.
  unfold live, mark_parent. induction l as [|a l IH]; cbn; auto.
  destruct (r_ctx a =? c); cbn; destruct (r_done a); cbn; lia.
Qed.

Record oinv2 (s : ostate) : Prop := {
  o_wg : wg s = live (recs s);
  o_slot : oslot s = false <-> owner s = NoOwner;
  o_run : owner s = OwnRun <-> (exists h, runpc s = RunReg h) \/ (exists t, runpc s = RunWait t);
  o_w : forall t, owner s = OwnW t -> live (recs s) = 0;
  o_hold : forall t, opcs s t = OWHoldSlot -> owner s = OwnW t /\ resps s t <> Some PSlot;
  o_resp : forall t, resps s t = Some PSlot -> owner s = OwnW t
}.

Lemma oinv2_init g : oinv2 (oinit g).
Proof.
  constructor; cbn; try discriminate; auto.
  - tauto.
  - split; [discriminate | intros [[h H]|[t H]]; discriminate].
Qed.

(* steps that leave the token, the WaitGroup, the records and Run's pc alone *)
Lemma oinv2_frame s s' : oinv2 s ->
  wg s' = wg s -> live (recs s') = live (recs s) -> oslot s' = oslot s -> owner s' = owner s ->
  runpc s' = runpc s ->
  (forall t, opcs s' t = OWHoldSlot -> opcs s t = OWHoldSlot /\ resps s' t = resps s t) ->
  (forall t, resps s' t = Some PSlot -> resps s t = Some PSlot) ->
  oinv2 s'.
Proof.
  intros I E1 E2 E3 E4 E5 H5 H6. constructor.
  - rewrite E1, E2. apply I.
  - rewrite E3, E4. apply I.
  - rewrite E4, E5. apply I.
  - intros t. rewrite E4, E2. apply I.
  - intros t Ht. rewrite E4. destruct (H5 t Ht) as [A B]. rewrite B. apply (o_hold s I t A).
  - intros t Ht. rewrite E4. apply (o_resp s I). auto.
Qed.

Lemma rcancel_fields s n y :
  oslot (rcancel s n y) = oslot s /\ owner (rcancel s n y) = owner s /\
  runpc (rcancel s n y) = runpc s /\ opcs (rcancel s n y) = opcs s /\ resps (rcancel s n y) = resps s.
Proof.
  unfold rcancel. destruct (nth_error (recs s) n) as [r|]; auto. destruct (r_done r); auto.
Qed.

Lemma rcancel_live s n y : wg s = live (recs s) ->
  wg (rcancel s n y) = live (recs (rcancel s n y)) /\
  (live (recs s) = 0 -> live (recs (rcancel s n y)) = 0).
Proof.
  intro H. unfold rcancel. destruct (nth_error (recs s) n) as [r|] eqn:E; auto.
  destruct (r_done r) eqn:Ed; auto. cbn.
  rewrite (live_set_nth_done _ _ r) by auto. split; [lia|].
  intro Hz. pose proof (live_zero_done _ Hz _ _ E). congruence.
Qed.

Lemma clear_at_fields s n :
  wg (clear_at s n) = wg s /\ live (recs (clear_at s n)) = live (recs s) /\
  oslot (clear_at s n) = oslot s /\ owner (clear_at s n) = owner s /\
  runpc (clear_at s n) = runpc s /\ opcs (clear_at s n) = opcs s /\ resps (clear_at s n) = resps s.
Proof.
  unfold clear_at. destruct (nth_error (recs s) n) as [r|] eqn:E; [|repeat split; reflexivity]. cbn.
  repeat split; auto. eapply live_set_nth_same; eauto.
Qed.

Lemma oinv2_rcancel s n y : oinv2 s -> oinv2 (rcancel s n y).
Proof.
  intros I. destruct (rcancel_fields s n y) as (E1 & E2 & E3 & E4 & E5).
  destruct (rcancel_live s n y (o_wg s I)) as [L1 L2].
  constructor.
  - exact L1.
  - rewrite E1, E2. apply I.
  - rewrite E2, E3. apply I.
  - intros t. rewrite E2. intro Ho. apply L2. eapply (o_w s I); eauto.
  - intros t. rewrite E4, E2, E5. apply I.
  - intros t. rewrite E5, E2. apply I.
Qed.

Lemma upd_eq {A} (f : Z -> A) x v y : upd f x v y = if Z.eqb y x then v else f y.
Proof. reflexivity. Qed.

(* finishes the two pointwise side conditions of [oinv2_frame] for steps that only move thread
   pcs / resp cells around without creating a slot holder or a slot grant *)
Ltac frame_tac I :=
  apply (oinv2_frame _ _ I); cbn; try reflexivity;
  (let x := fresh "x" in
   intros x; rewrite ?upd_eq;
   repeat match goal with |- context [Z.eqb ?a ?b] => destruct (Z.eqb_spec a b); subst end;
   try discriminate; auto).

Lemma run_idle_not_owner s : oinv2 s ->
  (forall h, runpc s <> RunReg h) -> (forall t, runpc s <> RunWait t) -> owner s <> OwnRun.
Proof.
  intros I H1 H2 Ho. apply (o_run s I) in Ho as [[h E]|[t E]]; [eapply H1 | eapply H2]; eauto.
Qed.

Lemma oinv2_runpc s p : oinv2 s ->
  (forall h, runpc s <> RunReg h) -> (forall t, runpc s <> RunWait t) ->
  (forall h, p <> RunReg h) -> (forall t, p <> RunWait t) ->
  oinv2 (set_run s p).
Proof.
  intros I H1 H2 H3 H4. constructor; cbn; try apply I.
  split.
  - intro Ho. exfalso. eapply run_idle_not_owner; eauto.
  - intros [[h E]|[t E]]; exfalso; [eapply H3 | eapply H4]; eauto.
Qed.

Lemma step_w s e s' t : oinv2 s ->
  e = OWCall t \/ e = OWSendCh t \/ e = OWClosed t \/ e = OWGot t \/ e = OWUnlock t ->
  ostep s e = Some s' -> oinv2 s'.
Proof.
  intros I [ -> | [ -> | [ -> | [ -> | -> ] ] ] ] H; cbn in H.
  - destruct (opcs s t) eqn:Ep; try discriminate. inversion H; subst s'. frame_tac I.
  - destruct (opcs s t) eqn:Ep; try discriminate. destruct (ch s); try discriminate.
    inversion H; subst s'. frame_tac I.
  - assert (Hs : oinv2 (shut_lock s t)).
    { unfold shut_lock. destruct (ch_send (shut s) t) as [c' ok]. destruct ok; frame_tac I. }
    destruct (opcs s t); try discriminate; destruct (closed s); try discriminate;
      inversion H; subst s'; exact Hs.
  - destruct (opcs s t) eqn:Ep; try discriminate. destruct (resps s t) as [[| |]|] eqn:Er; try discriminate.
    inversion H; subst s'; clear H. pose proof (o_resp s I t Er) as Ho.
    constructor; cbn; try apply I.
    + intros x. rewrite !upd_eq. destruct (Z.eqb_spec x t) as [->|]; [split; [auto|discriminate]|apply I].
    + intros x. rewrite !upd_eq. destruct (Z.eqb_spec x t) as [->|]; [discriminate|apply I].
  - destruct (opcs s t) eqn:Ep; try discriminate.
    + (* releases the token of o.lock *)
      destruct (oslot s) eqn:Es; try discriminate. inversion H; subst s'; clear H.
      destruct (o_hold s I t Ep) as [Ho Hr].
      constructor; cbn.
      * apply (o_wg s I).
      * tauto.
      * split; [discriminate|]. intro Hx. apply (o_run s I) in Hx. congruence.
      * discriminate.
      * intros x. rewrite upd_eq. destruct (Z.eqb_spec x t); [discriminate|].
        intro Hx. destruct (o_hold s I x Hx) as [Hox _]. congruence.
      * intros x Hx. pose proof (o_resp s I x Hx) as Hox. assert (x = t) by congruence. subst. contradiction.
    + (* shutdownLock.Unlock *)
      destruct (ch_recv (shut s)) as [[c' [t'|]]|]; try discriminate; inversion H; subst s'; frame_tac I.
Qed.

Lemma step_r s e s' t : oinv2 s ->
  (exists c, e = ORCall t c) \/ e = ORSendCh t \/ e = ORClosed t \/ e = ORCtx t \/ e = ORGot t \/ e = ORRelease t ->
  ostep s e = Some s' -> oinv2 s'.
Proof.
  intros I [ [c -> ] | [ -> | [ -> | [ -> | [ -> | -> ] ] ] ] ] H; cbn in H.
  - destruct (opcs s t) eqn:Ep; try discriminate. inversion H; subst s'. frame_tac I.
  - destruct (opcs s t) eqn:Ep; try discriminate. destruct (ch s); try discriminate.
    inversion H; subst s'. frame_tac I.
  - destruct (opcs s t) eqn:Ep; try discriminate; destruct (closed s); try discriminate;
      inversion H; subst s'; frame_tac I.
  - destruct (opcs s t) eqn:Ep; try discriminate. destruct (cdn s c); try discriminate.
    inversion H; subst s'. frame_tac I.
  - destruct (opcs s t) eqn:Ep; try discriminate. destruct (resps s t) as [[| |]|] eqn:Er; try discriminate;
      inversion H; subst s'; frame_tac I.
  - destruct (opcs s t) eqn:Ep; try discriminate. inversion H; subst s'; clear H.
    pose proof (oinv2_rcancel s r ByOwn I) as I2. destruct (rcancel_fields s r ByOwn) as (_ & _ & _ & E4 & E5).
    apply (oinv2_frame _ _ I2); cbn; try reflexivity; intros x; rewrite ?upd_eq, ?E4;
      destruct (Z.eqb_spec x t); try discriminate; auto.
Qed.

Lemma step_run s e s' : oinv2 s ->
  e = RunRecv \/ e = RunSeeClosed \/ e = RunTakeSlot \/ e = RunCtxDone \/ e = RunRegW \/
  e = RunRegR \/ e = RunGrantW \/ e = RunDeferGo ->
  ostep s e = Some s' -> oinv2 s'.
Proof.
  intros I [ -> | [ -> | [ -> | [ -> | [ -> | [ -> | [ -> | -> ] ] ] ] ] ] ] H; cbn in H.
  - (* RunRecv *)
    destruct (runpc s) eqn:Er; try discriminate. destruct (ch s) as [h|] eqn:Ec; try discriminate.
    inversion H; subst s'; clear H.
    apply (oinv2_runpc (set_ch s None)); try (cbn; rewrite Er; discriminate); try discriminate.
    frame_tac I.
  - (* RunSeeClosed *)
    destruct (runpc s) eqn:Er; try discriminate. destruct (closed s); try discriminate.
    inversion H; subst s'; clear H.
    apply oinv2_runpc; auto; try (rewrite Er; discriminate); discriminate.
  - (* RunTakeSlot *)
    destruct (runpc s) eqn:Er; try discriminate. destruct (oslot s) eqn:Es; try discriminate.
    inversion H; subst s'; clear H.
    assert (Hno : owner s = NoOwner) by (apply (o_slot s I); auto).
    constructor; cbn.
    + apply (o_wg s I).
    + split; discriminate.
    + split; eauto.
    + discriminate.
    + intros x Hx. destruct (o_hold s I x Hx). congruence.
    + intros x Hx. pose proof (o_resp s I x Hx). congruence.
  - (* RunCtxDone *)
    destruct (runpc s) as [|[t|t c]| | | |] eqn:Er; try discriminate. destruct (cdn s c); try discriminate.
    inversion H; subst s'; clear H.
    apply (oinv2_runpc (set_resp s t (Some PErr))); try (cbn; rewrite Er; discriminate); try discriminate.
    constructor; cbn; try apply I.
    + intros x Hx. destruct (o_hold s I x Hx) as [A B]. split; auto. rewrite upd_eq.
      destruct (Z.eqb_spec x t); [discriminate | auto].
    + intros x. rewrite upd_eq. destruct (Z.eqb_spec x t); [discriminate | apply (o_resp s I)].
  - (* RunRegW *)
    destruct (runpc s) as [| |[t|t c]| | |] eqn:Er; try discriminate.
    inversion H; subst s'; clear H.
    assert (Ho : owner s = OwnRun) by (apply (o_run s I); left; eauto).
    constructor; cbn.
    + rewrite live_spawn_all. apply (o_wg s I).
    + apply (o_slot s I).
    + split; eauto.
    + intros x Hx. congruence.
    + apply (o_hold s I).
    + apply (o_resp s I).
  - (* RunRegR *)
    destruct (runpc s) as [| |[t|t c]| | |] eqn:Er; try discriminate.
    inversion H; subst s'; clear H.
    assert (Ho : owner s = OwnRun) by (apply (o_run s I); left; eauto).
    constructor; cbn.
    + rewrite live_app. cbn. rewrite (o_wg s I). reflexivity.
    + tauto.
    + split; [discriminate | intros [[? ?]|[? ?]]; discriminate].
    + discriminate.
    + intros x Hx. destruct (o_hold s I x Hx). congruence.
    + intros x. rewrite upd_eq. destruct (Z.eqb_spec x t); [discriminate|].
      intro Hx. pose proof (o_resp s I x Hx). congruence.
  - (* RunGrantW *)
    destruct (runpc s) as [| | |t| |] eqn:Er; try discriminate.
    destruct (Z.eqb_spec (wg s) 0) as [Hz|]; try discriminate.
    inversion H; subst s'; clear H.
    assert (Ho : owner s = OwnRun) by (apply (o_run s I); right; eauto).
    assert (Hs : oslot s = true).
    { destruct (oslot s) eqn:E; auto. apply (o_slot s I) in E. congruence. }
    constructor; cbn.
    + apply (o_wg s I).
    + rewrite Hs. split; discriminate.
    + split; [discriminate | intros [[? ?]|[? ?]]; discriminate].
    + intros x _. rewrite <- (o_wg s I). exact Hz.
    + intros x Hx. destruct (o_hold s I x Hx). congruence.
    + intros x. rewrite upd_eq. destruct (Z.eqb_spec x t) as [->|]; [auto|].
      intro Hx. pose proof (o_resp s I x Hx). congruence.
  - (* RunDeferGo *)
    destruct (runpc s) eqn:Er; try discriminate. inversion H; subst s'; clear H.
    apply (oinv2_runpc (set_recs s (wg s) (rcx s) (rcs s) (spawn_all (rcs s) (now s) SpShutdown (recs s))));
      try (cbn; rewrite Er; discriminate); try discriminate.
    apply (oinv2_frame _ _ I); cbn; auto. apply live_spawn_all.
Qed.

Lemma step_env s e s' : oinv2 s ->
  (exists n, e = OGrace n) \/ (exists c, e = OCancel c) \/ e = OShutdown \/ (exists d, e = OAdvance d) ->
  ostep s e = Some s' -> oinv2 s'.
Proof.
  intros I [ [n -> ] | [ [c -> ] | [ -> | [d -> ] ] ] ] H; cbn in H.
  - destruct (nth_error (recs s) n) as [r|] eqn:En; try discriminate.
    destruct (r_at r); try discriminate.
    destruct (closed s || r_done r || (z + grace s <=? now s)); try discriminate.
    inversion H; subst s'; clear H. apply oinv2_rcancel.
    destruct (clear_at_fields s n) as (E1 & E2 & E3 & E4 & E5 & E6 & E7).
    apply (oinv2_frame _ _ I); auto; intros x; rewrite ?E6, ?E7; auto.
  - inversion H; subst s'; clear H. apply (oinv2_frame _ _ I); cbn; auto. apply live_mark_parent.
  - inversion H; subst s'; clear H. apply (oinv2_frame _ _ I); cbn; auto.
  - destruct (d <? 0); try discriminate. inversion H; subst s'; clear H.
    apply (oinv2_frame _ _ I); cbn; auto.
Qed.

Lemma oinv2_step s e s' : oinv2 s -> ostep s e = Some s' -> oinv2 s'.
Proof.
  intros I H. destruct e.
  - refine (step_w s _ s' t I _ H); auto.
  - refine (step_w s _ s' t I _ H); auto.
  - refine (step_w s _ s' t I _ H); auto.
  - refine (step_w s _ s' t I _ H); auto.
  - refine (step_w s _ s' t I _ H); auto 6.
  - refine (step_r s _ s' t I _ H); eauto.
  - refine (step_r s _ s' t I _ H); auto.
  - refine (step_r s _ s' t I _ H); auto.
  - refine (step_r s _ s' t I _ H); auto 6.
  - refine (step_r s _ s' t I _ H); auto 7.
  - refine (step_r s _ s' t I _ H); auto 8.
  - refine (step_run s _ s' I _ H); auto.
  - refine (step_run s _ s' I _ H); auto.
  - refine (step_run s _ s' I _ H); auto.
  - refine (step_run s _ s' I _ H); auto 6.
  - refine (step_run s _ s' I _ H); auto 7.
  - refine (step_run s _ s' I _ H); auto 8.
  - refine (step_run s _ s' I _ H); auto 9.
  - refine (step_run s _ s' I _ H); auto 10.
  - refine (step_env s _ s' I _ H); eauto.
  - refine (step_env s _ s' I _ H); eauto.
  - refine (step_env s _ s' I _ H); auto.
  - refine (step_env s _ s' I _ H); eauto 6.
Qed.

Lemma oinv2_run g es : forall s, orun (oinit g) es = Some s -> oinv2 s.
Proof.
  assert (G : forall s s', oinv2 s -> orun s es = Some s' -> oinv2 s').
  { induction es as [|e es IH]; cbn; intros s s' Hi Hr.
    - inversion Hr; subst; exact Hi.
    - unfold orun in Hr; cbn in Hr. destruct (ostep s e) as [s1|] eqn:E; [|discriminate].
      eapply IH; [eapply oinv2_step; eauto | exact Hr]. }
  intros s Hr. eapply G; eauto. apply oinv2_init.
Qed.

(* WRITER AFTER READERS / NO READER DURING WRITER: in every reachable state in which a writer
   holds the token of o.lock (from the moment Run replies to it until its unlock), every reader
   record that exists is done (released or cancelled) - so the writer was granted only after all
   earlier readers, and no reader has been admitted since. *)
Lemma outer_writer_excludes_readers : forall g es s t n r, orun (oinit g) es = Some s ->
  opcs s t = OWHoldSlot -> nth_error (recs s) n = Some r -> r_done r = true.
Proof.
  intros g es s t n r Hr Ht Hn. pose proof (oinv2_run g es s Hr) as I.
  destruct (o_hold s I t Ht) as [Ho _]. eapply live_zero_done; eauto. eapply (o_w s I); eauto.
Qed.

Lemma outer_no_live_reader_with_slot_writer : forall g es s t t', orun (oinit g) es = Some s ->
  opcs s t = OWHoldSlot -> ~ rholds s t'.
Proof.
  intros g es s t t' Hr Ht (n & r & Hp & Hn & Hd).
  pose proof (outer_writer_excludes_readers g es s t n r Hr Ht Hn) as Hdone.
  unfold rctx_done in Hd. rewrite Hdone in Hd. discriminate.
Qed.

(* the token is held by at most one writer *)
Lemma outer_slot_excl : forall g es s t1 t2, orun (oinit g) es = Some s ->
  opcs s t1 = OWHoldSlot -> opcs s t2 = OWHoldSlot -> t1 = t2.
Proof.
  intros g es s t1 t2 Hr H1 H2. pose proof (oinv2_run g es s Hr) as I.
  destruct (o_hold s I t1 H1) as [A _]. destruct (o_hold s I t2 H2) as [B _]. congruence.
Qed.

(* the WaitGroup counts exactly the reader records that are not done; a writer is granted only
   when it is zero *)
Lemma outer_wg_counts : forall g es s, orun (oinit g) es = Some s -> wg s = live (recs s).
Proof. intros g es s Hr. apply (o_wg s (oinv2_run g es s Hr)). Qed.

(* an acquisition that reports an error changes nothing but the caller's own pc and result *)
Lemma outer_error_holds_nothing_step : forall s e s' t,
  e = ORCtx t \/ e = ORClosed t \/ (e = ORGot t /\ resps s t = Some PErr) ->
  ostep s e = Some s' ->
  recs s' = recs s /\ wg s' = wg s /\ oslot s' = oslot s /\ owner s' = owner s /\ rcs s' = rcs s /\
  opcs s' t = OIdle /\ (ores s' t = RCtxErr \/ ores s' t = RClosed) /\
  (forall x, x <> t -> opcs s' x = opcs s x).
Proof.
  intros s e s' t [ -> | [ -> | [ -> Hr ] ] ] H; cbn in H.
  - destruct (opcs s t); try discriminate. destruct (cdn s c); try discriminate.
    inversion H; subst; cbn. rewrite !upd_same. repeat split; auto. intros; now rewrite upd_other.
  - destruct (opcs s t); try discriminate; destruct (closed s); try discriminate;
      inversion H; subst; cbn; rewrite !upd_same; repeat split; auto; intros; now rewrite upd_other.
  - destruct (opcs s t); try discriminate. rewrite Hr in H.
    inversion H; subst; cbn. rewrite !upd_same. repeat split; auto. intros; now rewrite upd_other.
Qed.

(* non-vacuity: two readers, a writer arrives, one reader releases, the other is cancelled by the
   grace timer (not before [grace] has elapsed), the writer is granted *)
Example outer_example :
  match orun (oinit 50) [ORCall 1 7; ORSendCh 1; RunRecv; RunTakeSlot; RunRegR; ORGot 1;
                         ORCall 2 8; ORSendCh 2; RunRecv; RunTakeSlot; RunRegR; ORGot 2;
                         OWCall 3; OWSendCh 3; RunRecv; RunTakeSlot; RunRegW;
                         ORRelease 1] with
  | Some s => ostep s RunGrantW = None /\ ostep s (OGrace 1) = None /\
      match orun s [OAdvance 50; OGrace 1; RunGrantW; OWGot 3] with
      | Some s2 => opcs s2 3 = OWHoldSlot /\ done_of s2 0 = true /\ done_of s2 1 = true
      | None => False
      end
  | None => False
  end.
Proof. vm_compute. repeat split. Qed.

(* GRACE: while the lock is running, the rcancelGrace goroutine of a reader that has not
   released can run only when the grace period has elapsed since it was spawned (and it is
   spawned only by a writer's handleHold or by Run's deferred function, see [spawn_all]). *)
Lemma outer_grace : forall s s' n, ostep s (OGrace n) = Some s' ->
  done_of s n = false -> closed s = false ->
  exists r a, nth_error (recs s) n = Some r /\ r_at r = Some a /\ a + grace s <= now s.
Proof.
  intros s s' n H Hd Hc. cbn in H. unfold done_of in Hd.
  destruct (nth_error (recs s) n) as [r|] eqn:En; try discriminate.
  destruct (r_at r) as [a|] eqn:Ea; try discriminate.
  rewrite Hc, Hd in H. cbn in H. destruct (a + grace s <=? now s) eqn:El; try discriminate.
  exists r, a. repeat split; auto. lia.
Qed.
