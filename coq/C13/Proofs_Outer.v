(* C13 — lock.OuterCancel: transition facts (any state) and invariants (all schedules). *)
From Kit Require Import C13.Model_Outer C13.Spec.
Local Open Scope Z_scope.

Lemma nth_set_nth_same {A} n (x : A) l : (n < length l)%nat -> nth_error (set_nth n x l) n = Some x.
Proof. revert n; induction l as [|y l IH]; intros [|n] H; cbn in *; try lia; auto. apply IH; lia. Qed.

Lemma nth_set_nth_other {A} n m (x : A) l : n <> m -> nth_error (set_nth n x l) m = nth_error l m.
Proof. revert n m; induction l as [|y l IH]; intros [|n] [|m] H; cbn; auto; try congruence. Qed.

Lemma length_set_nth {A} n (x : A) l : length (set_nth n x l) = length l.
Proof. revert n; induction l as [|y l IH]; intros [|n]; cbn; auto. Qed.

(* ------------------------------------------------------------------------------------- *)
(* WHO can end a reader's context.  For ANY state s (reachable or not) and any event e: if   *)
(* record n's own [done] flag goes from false to true, then e is the owner's release, or the *)
(* record's rcancelGrace goroutine — and that one runs only after shutdown, or when the      *)
(* grace period has elapsed since it was spawned.                                            *)

Lemma spawn_all_done m t0 b l n r' :
  nth_error (spawn_all m t0 b l) n = Some r' ->
  exists r, nth_error l n = Some r /\ r_done r' = r_done r /\ r_tid r' = r_tid r /\
            r_ctx r' = r_ctx r /\ r_why r' = r_why r /\ r_idx r' = r_idx r /\
            ((r_at r' = r_at r /\ r_by r' = r_by r) \/
             (r_at r = None /\ r_at r' = Some t0 /\ r_by r' = Some b)).
Proof.
  revert l r'. induction m as [|[i j] m IH]; cbn; intros l r' H.
  - exists r'. repeat split; auto.
  - apply IH in H as (r1 & H1 & Hd & Ht & Hc & Hy & Hi & Ha).
    destruct (nth_error l j) as [r0|] eqn:E0.
    + destruct (r_at r0) eqn:Eat.
      * exists r1. repeat split; auto.
      * destruct (Nat.eq_dec j n) as [Heq|Hne]; [subst j|].
        -- rewrite nth_set_nth_same in H1 by (apply nth_error_Some; congruence).
           inversion H1; subst r1; cbn in *. exists r0. repeat split; auto.
           destruct Ha as [[Ha Hb]|(Ha & _)]; [right; repeat split; auto; congruence | discriminate].
        -- rewrite nth_set_nth_other in H1 by auto. exists r1. repeat split; auto.
    + exists r1. repeat split; auto.
Qed.

Definition done_of (s : ostate) (n : nat) : bool :=
  match nth_error (recs s) n with Some r => r_done r | None => false end.

Lemma rcancel_other s n y m : n <> m -> nth_error (recs (rcancel s n y)) m = nth_error (recs s) m.
Proof.
  intro H. unfold rcancel. destruct (nth_error (recs s) n) as [r|]; auto.
  destruct (r_done r); auto. cbn. now apply nth_set_nth_other.
Qed.

Lemma clear_at_done s n m : done_of (clear_at s n) m = done_of s m.
Proof.
  unfold done_of, clear_at. destruct (nth_error (recs s) n) as [r|] eqn:E; auto. cbn.
  destruct (Nat.eq_dec n m) as [->|Hne].
  - rewrite nth_set_nth_same by (apply nth_error_Some; congruence). now rewrite E.
  - now rewrite nth_set_nth_other.
Qed.

Lemma mark_parent_done c l n :
  match nth_error (mark_parent c l) n with Some r => r_done r | None => false end =
  match nth_error l n with Some r => r_done r | None => false end.
Proof.
  unfold mark_parent. rewrite nth_error_map. destruct (nth_error l n) as [r|]; cbn; auto.
  destruct (r_ctx r =? c); auto.
Qed.

Lemma outer_done_reasons : forall s e s' n,
  ostep s e = Some s' -> done_of s n = false -> done_of s' n = true ->
  (exists t, e = ORRelease t /\ opcs s t = ORHold n) \/
  (e = OGrace n /\
   exists r a, nth_error (recs s) n = Some r /\ r_at r = Some a /\
               (closed s = true \/ a + grace s <= now s)).
Proof.
  intros s e s' n Hstep H0 H1.
  destruct e; cbn in Hstep;
    repeat match type of Hstep with
           | match ?x with _ => _ end = Some _ => destruct x eqn:?; try discriminate
           | (if ?x then _ else _) = Some _ => destruct x eqn:?; try discriminate
           end;
    try (inversion Hstep; subst s'; clear Hstep; unfold done_of in *; cbn in *; congruence).
  - (* OWClosed *) inversion Hstep; subst s'. unfold shut_lock in H1.
    destruct (ch_send (shut s) t) as [c' ok]; destruct ok; unfold done_of in *; cbn in *; congruence.
  - inversion Hstep; subst s'. unfold shut_lock in H1.
    destruct (ch_send (shut s) t) as [c' ok]; destruct ok; unfold done_of in *; cbn in *; congruence.
  - (* ORRelease *)
    inversion Hstep; subst s'; clear Hstep. left. exists t. split; auto.
    destruct (Nat.eq_dec r n) as [->|Hne]; auto.
    exfalso. unfold done_of in *. cbn in H1. rewrite rcancel_other in H1 by auto. congruence.
  - (* RunRegW *)
    inversion Hstep; subst s'; clear Hstep. exfalso. unfold done_of in *; cbn in *.
    destruct (nth_error (spawn_all _ _ _ _) n) as [r'|] eqn:E; [|discriminate].
    apply spawn_all_done in E as (r & Hr & Hd & _). rewrite Hr in H0. congruence.
  - (* RunRegR *)
    inversion Hstep; subst s'; clear Hstep. exfalso. unfold done_of in *; cbn in *.
    destruct (lt_dec n (length (recs s))).
    + rewrite nth_error_app1 in H1 by auto. congruence.
    + rewrite nth_error_app2 in H1 by lia. destruct (n - length (recs s))%nat as [|k]; cbn in H1;
        [discriminate | destruct k; discriminate].
  - (* RunDeferGo *)
    inversion Hstep; subst s'; clear Hstep. exfalso. unfold done_of in *; cbn in *.
    destruct (nth_error (spawn_all _ _ _ _) n) as [r'|] eqn:E; [|discriminate].
    apply spawn_all_done in E as (r & Hr & Hd & _). rewrite Hr in H0. congruence.
  - (* OGrace *)
    inversion Hstep; subst s'; clear Hstep.
    destruct (Nat.eq_dec r n) as [->|Hne].
    + right. split; auto. exists r0, z. repeat split; auto.
      apply orb_true_iff in Heqb as [Hc|Ht].
      * apply orb_true_iff in Hc as [Hc|Hd]; [now left|].
        exfalso. unfold done_of in H0. rewrite Heqo in H0. congruence.
      * right. lia.
    + exfalso. unfold done_of in H1. rewrite rcancel_other in H1 by auto.
      fold (done_of (clear_at s r) n) in H1. rewrite clear_at_done in H1. congruence.
  - (* OCancel *)
    inversion Hstep; subst s'; clear Hstep. exfalso. unfold done_of in *; cbn in *.
    rewrite mark_parent_done in H1. congruence.
Qed.
