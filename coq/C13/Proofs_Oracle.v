(* C13 — the boolean oracles of Spec.v / Check.v decide the Spec predicates on an observation
   (thread i of the harness = position i of the status list). *)
From Kit Require Import C13.Spec.
Local Open Scope Z_scope.

Lemma prefixZ_spec g a : prefixZ g a = true <-> exists rest, a = g ++ rest.
Proof.
  revert a. induction g as [|x g IH]; intros a; cbn.
  - split; [intros _; exists a; reflexivity | reflexivity].
  - destruct a as [|y a]; [split; [discriminate | intros [r Hr]; discriminate]|].
    rewrite andb_true_iff, Z.eqb_eq, IH. split.
    + intros [-> [r ->]]. exists r. reflexivity.
    + intros [r Hr]. inversion Hr; subst. split; eauto.
Qed.

(* FIFO oracle = the FIFO predicate *)
Lemma fifo_obs_sound arrivals grants : fifo_obs arrivals grants = true <-> fifo arrivals grants.
Proof. unfold fifo_obs, fifo. apply prefixZ_spec. Qed.

Lemma count_zero {A} (p : A -> bool) l :
  count p l = 0%nat <-> forall i x, nth_error l i = Some x -> p x = false.
Proof.
  unfold count. induction l as [|a l IH]; cbn.
  - split; [intros _ [|i] x E; discriminate | reflexivity].
  - destruct (p a) eqn:Ea; cbn.
    + split; [discriminate|]. intro H. specialize (H 0%nat a eq_refl). congruence.
    + rewrite IH. split.
      * intros H [|i] x E; cbn in E; [inversion E; subst; auto | eauto].
      * intros H i x E. apply (H (S i)). exact E.
Qed.

Lemma count_le1 {A} (p : A -> bool) l :
  (count p l <= 1)%nat <->
  forall i j x y, nth_error l i = Some x -> nth_error l j = Some y -> p x = true -> p y = true -> i = j.
Proof.
  induction l as [|a l IH].
  - split; [intros _ [|i] j x y E; discriminate | intros _; cbn; lia].
  - unfold count in *. cbn. destruct (p a) eqn:Ea; cbn.
    + split.
      * intros H. assert (Hz : length (filter p l) = 0%nat) by lia.
        pose proof (proj1 (count_zero p l) Hz) as Hn.
        intros [|i] [|j] x y E1 E2 P1 P2; cbn in *; auto.
        -- rewrite (Hn j y E2) in P2. discriminate.
        -- rewrite (Hn i x E1) in P1. discriminate.
        -- rewrite (Hn i x E1) in P1. discriminate.
      * intros H. assert (Hz : count p l = 0%nat).
        { apply count_zero. intros i x E. destruct (p x) eqn:Ex; auto.
          specialize (H 0%nat (S i) a x eq_refl E Ea Ex). discriminate. }
        unfold count in Hz. lia.
    + rewrite IH. split.
      * intros H [|i] [|j] x y E1 E2 P1 P2; cbn in *.
        -- reflexivity.
        -- inversion E1; subst. congruence.
        -- inversion E2; subst. congruence.
        -- f_equal. eauto.
      * intros H i j x y E1 E2 P1 P2. specialize (H (S i) (S j) x y E1 E2 P1 P2). lia.
Qed.

(* what the exclusion oracle decides, on positions of the status list: at most one exclusive
   holder of key k, and no shared holder (that has not been told to stop) together with one *)
Definition excl_at (st : list tstat) (k : key) : Prop :=
  (forall i j, nth_error st i = Some (THoldW k) -> nth_error st j = Some (THoldW k) -> i = j) /\
  (forall i j, nth_error st i = Some (THoldW k) -> nth_error st j = Some (THoldR k) -> False).

Lemma is_holdW_true k s : is_holdW k s = true <-> s = THoldW k.
Proof. destruct s; cbn; split; try discriminate; rewrite ?Z.eqb_eq; intro H; try inversion H; subst; auto. Qed.
Lemma is_holdR_true k s : is_holdR k s = true <-> s = THoldR k.
Proof. destruct s; cbn; split; try discriminate; rewrite ?Z.eqb_eq; intro H; try inversion H; subst; auto. Qed.

Lemma excl_key_obs_sound st k : excl_key_obs st k = true <-> excl_at st k.
Proof.
  unfold excl_key_obs, excl_at. rewrite andb_true_iff, orb_true_iff, Nat.leb_le, !Nat.eqb_eq, count_le1.
  split.
  - intros [H1 H2]. split.
    + intros i j E1 E2. eapply H1; eauto; apply is_holdW_true; reflexivity.
    + intros i j E1 E2. destruct H2 as [H2|H2].
      * pose proof (proj1 (count_zero _ _) H2 i _ E1) as Hf. cbn in Hf. rewrite Z.eqb_refl in Hf. discriminate.
      * pose proof (proj1 (count_zero _ _) H2 j _ E2) as Hf. cbn in Hf. rewrite Z.eqb_refl in Hf. discriminate.
  - intros [H1 H2]. split.
    + intros i j x y E1 E2 P1 P2. apply is_holdW_true in P1, P2. subst. eauto.
    + destruct (count (is_holdW k) st) eqn:Ec; [now left|]. right.
      apply count_zero. intros j y Ey. destruct (is_holdR k y) eqn:Er; auto. apply is_holdR_true in Er. subst.
      exfalso.
      assert (Hex : exists i, nth_error st i = Some (THoldW k)).
      { clear -Ec. unfold count in Ec. induction st as [|a st IH]; cbn in Ec; [discriminate|].
        destruct (is_holdW k a) eqn:Ea.
        - apply is_holdW_true in Ea. subst. exists 0%nat. reflexivity.
        - destruct (IH Ec) as [i Hi]. exists (S i). exact Hi. }
      destruct Hex as [i Hi]. eapply H2; eauto.
Qed.

Lemma excl_obs_sound keys st : excl_obs keys st = true <-> forall k, In k keys -> excl_at st k.
Proof.
  unfold excl_obs. rewrite forallb_forall. split; intros H k Hk; apply excl_key_obs_sound; auto.
Qed.

(* the no-leak oracle: the entry count equals the number of keys some thread holds or waits for *)
Lemma no_leak_obs_sound keys st entries :
  no_leak_obs keys st entries = true <-> entries = used_keys keys st.
Proof. unfold no_leak_obs. apply Z.eqb_eq. Qed.
