(* C13 — cmap.Mutex: exclusion for schedules in which no Delete / DeleteUnlock / DeleteRUnlock /
   Clear removes the entry of a key that another session holds or waits for ([safe_run]). *)
From Kit Require Import C13.Model_CMap C13.Spec.
Local Open Scope Z_scope.

(* what thread t's program counter says about the objects *)
Definition tinv (s : cstate) (t : tid) : Prop :=
  match cpcs s t with
  | CIdle | CNeed _ _ => True
  | CAt _ k o | CWaitW k o => citems s k = Some o
  | CWaitR k o => citems s k = Some o /\ In t (rw_rq (cobjs s o))
  | CInW k o => citems s k = Some o /\ rw_w (cobjs s o) = true /\
                rw_ann (cobjs s o) = Some t /\ rw_rs (cobjs s o) = []
  | CInR k o => citems s k = Some o /\ In t (rw_rs (cobjs s o))
  end.

Definition oinv (s : cstate) (o : oid) : Prop :=
  NoDup (rw_rs (cobjs s o)) /\ NoDup (rw_rq (cobjs s o)) /\
  (forall t, In t (rw_rs (cobjs s o)) -> exists k, cpcs s t = CInR k o) /\
  (forall t, In t (rw_rq (cobjs s o)) -> exists k, cpcs s t = CWaitR k o).

Record cinv (s : cstate) : Prop := {
  c_fatal : fatal s = false;
  c_next : forall k o, citems s k = Some o -> (o < cnext s)%nat;
  c_inj : forall k1 k2 o, citems s k1 = Some o -> citems s k2 = Some o -> k1 = k2;
  c_t : forall t, tinv s t;
  c_o : forall o, oinv s o
}.

Lemma cinv_init : cinv cinit.
Proof.
  constructor; cbn; try discriminate.
  - reflexivity.
  - intros t. exact I.
  - intros o. unfold oinv; cbn. repeat split; try constructor; intros t [].
Qed.

Lemma upd_eq {A} (f : Z -> A) x v y : upd f x v y = if Z.eqb y x then v else f y.
Proof. reflexivity. Qed.
Lemma updn_eq {A} (f : nat -> A) x v y : updn f x v y = if Nat.eqb y x then v else f y.
Proof. reflexivity. Qed.

Lemma memz_in x l : memz x l = true <-> In x l.
Proof.
  unfold memz. rewrite existsb_exists. split.
  - intros [y [Hy He]]. apply Z.eqb_eq in He. now subst.
  - intro H. exists x. split; auto. apply Z.eqb_refl.
Qed.

Lemma remz_in x t l : NoDup l -> (In x (remz t l) <-> In x l /\ x <> t).
Proof.
  induction l as [|y l IH]; cbn; intro Hnd; [tauto|].
  inversion Hnd; subst. destruct (Z.eqb_spec t y).
  - subst. split; [intro Hi; split; [now right| intro; subst; contradiction] | intros [[Heq|Hi] Hne]; [congruence|auto]].
  - cbn. rewrite IH by auto. split.
    + intros [Heq|[Hi Hne]]; [subst; split; [now left|congruence] | split; [now right|auto]].
    + intros [[Heq|Hi] Hne]; [now left | right; auto].
Qed.

Lemma remz_nodup t l : NoDup l -> NoDup (remz t l).
Proof.
  induction l as [|y l IH]; cbn; intro Hnd; [constructor|].
  inversion Hnd; subst. destruct (Z.eqb_spec t y); auto.
  constructor; auto. intro Hi. apply remz_in in Hi; tauto.
Qed.

Lemma NoDup_snoc {A} (l : list A) x : NoDup l -> ~ In x l -> NoDup (l ++ [x]).
Proof.
  induction l as [|y l IH]; cbn; intros Hnd Hn.
  - constructor; [intros []|constructor].
  - inversion Hnd; subst. constructor.
    + intro Hin. apply in_app_or in Hin as [Hin|[Heq|[]]]; [contradiction|]. apply Hn; now left.
    + apply IH; auto.
Qed.

Definition pko (p : cpc) : option (key * oid) :=
  match p with
  | CAt _ k o | CWaitW k o | CWaitR k o | CInW k o | CInR k o => Some (k, o)
  | _ => None
  end.

Lemma tinv_items s t k o : tinv s t -> pko (cpcs s t) = Some (k, o) -> citems s k = Some o.
Proof.
  unfold tinv. destruct (cpcs s t); cbn; intros H E; inversion E; subst; tauto.
Qed.

Lemma uses_pko s x k : uses s x k <-> exists o, pko (cpcs s x) = Some (k, o).
Proof.
  unfold uses. destruct (cpcs s x); cbn; split; try tauto; try (intros [? ?]; discriminate);
    try (intros ->; eexists; reflexivity); intros [? E]; inversion E; reflexivity.
Qed.

(* a thread whose pc and whose referenced entry/object are unchanged keeps its invariant *)
Lemma tinv_frame s s' x :
  cpcs s' x = cpcs s x ->
  (forall k o, pko (cpcs s x) = Some (k, o) -> citems s' k = citems s k /\ cobjs s' o = cobjs s o) ->
  tinv s x -> tinv s' x.
Proof.
  unfold tinv. intros Hp Hf. rewrite Hp.
  destruct (cpcs s x) eqn:E; auto; destruct (Hf k o eq_refl) as [H1 H2]; rewrite ?H1, ?H2; auto.
Qed.

Lemma oinv_frame s s' o :
  cobjs s' o = cobjs s o ->
  (forall t k, cpcs s t = CInR k o -> cpcs s' t = CInR k o) ->
  (forall t k, cpcs s t = CWaitR k o -> cpcs s' t = CWaitR k o) ->
  oinv s o -> oinv s' o.
Proof.
  unfold oinv. intros -> H1 H2 (A & B & C & D). repeat split; auto.
  - intros t Ht. destruct (C t Ht) as [k Hk]. eauto.
  - intros t Ht. destruct (D t Ht) as [k Hk]. eauto.
Qed.

(* ------------------------------------------------------------------------------------- *)
(* a step that changes only thread t's pc (t neither a registered reader nor a parked reader) *)
Lemma pc_only s t p' : cinv s ->
  (forall k o, cpcs s t <> CInR k o) -> (forall k o, cpcs s t <> CWaitR k o) ->
  tinv (set_pc s t p') t -> cinv (set_pc s t p').
Proof.
  intros I H1 H2 Ht. constructor; cbn.
  - apply (c_fatal s I).
  - apply (c_next s I).
  - apply (c_inj s I).
  - intros x. destruct (Z.eq_dec x t) as [->|Hx]; [exact Ht|].
    apply (tinv_frame s); [cbn; now rewrite upd_other | cbn; auto | apply I].
  - intros o. apply (oinv_frame s); [reflexivity | | | apply I]; cbn; intros x k Hx;
      (destruct (Z.eq_dec x t) as [->|Hn]; [exfalso; first [eapply H1; eassumption | eapply H2; eassumption] | now rewrite upd_other]).
Qed.

Lemma step_lookup s t m k s' : cinv s -> cstep s (CLookup t m k) = Some s' -> cinv s'.
Proof.
  intros I H. unfold cstep in H. rewrite (c_fatal s I) in H.
  destruct (cpcs s t) eqn:Ept; try discriminate. inversion H; subst s'; clear H.
  apply pc_only; auto; try (intros; congruence).
  unfold tinv; cbn. rewrite upd_same. destruct (citems s k) eqn:E; auto.
Qed.

Lemma step_create s t s' : cinv s -> cstep s (CCreate t) = Some s' -> cinv s'.
Proof.
  intros I H. unfold cstep in H. rewrite (c_fatal s I) in H.
  destruct (cpcs s t) as [|m k| | | | |] eqn:Ept; try discriminate.
  destruct (citems s k) as [o|] eqn:Eit; inversion H; subst s'; clear H.
  - apply pc_only; auto; try (intros; congruence). unfold tinv; cbn. now rewrite upd_same.
  - (* fresh RWMutex *)
    assert (Hfresh : forall x k2, pko (cpcs s x) <> Some (k2, cnext s)).
    { intros x k2 E. pose proof (tinv_items s x _ _ (c_t s I x) E) as E2.
      apply (c_next s I) in E2. lia. }
    constructor; cbn.
    + reflexivity.
    + intros k2 o2. rewrite upd_eq. destruct (Z.eqb_spec k2 k); [intro E; inversion E; lia|].
      intro E. apply (c_next s I) in E. lia.
    + intros k1 k2 o2. rewrite !upd_eq.
      destruct (Z.eqb_spec k1 k), (Z.eqb_spec k2 k); subst; auto; intros E1 E2.
      * inversion E1; subst. apply (c_next s I) in E2. lia.
      * inversion E2; subst. apply (c_next s I) in E1. lia.
      * eapply (c_inj s I); eauto.
    + intros x. destruct (Z.eq_dec x t) as [->|Hx].
      * unfold tinv; cbn. rewrite !upd_same. reflexivity.
      * apply (tinv_frame s); [cbn; now rewrite upd_other | | apply I].
        cbn. intros k2 o2 E. rewrite upd_eq, updn_eq.
        pose proof (tinv_items s x _ _ (c_t s I x) E) as E2.
        destruct (Z.eqb_spec k2 k); [congruence|].
        destruct (Nat.eqb_spec o2 (cnext s)); [subst; exfalso; eapply Hfresh; eauto | auto].
    + intros o. destruct (Nat.eq_dec o (cnext s)) as [->|Ho].
      * unfold oinv; cbn. rewrite updn_same. cbn. repeat split; try constructor; intros x [].
      * apply (oinv_frame s); [cbn; now rewrite updn_other | | | apply I]; cbn; intros x k2 Hx;
          (destruct (Z.eq_dec x t) as [->|Hn]; [congruence | now rewrite upd_other]).
Qed.

(* a step of thread t (at CAt or CWaitW on object o) that rewrites object o and t's pc *)
Lemma obj_step s t k o x' p' : cinv s ->
  (exists m, cpcs s t = CAt m k o) \/ cpcs s t = CWaitW k o ->
  let x := cobjs s o in
  (forall y, In y (rw_rs x) -> In y (rw_rs x')) ->
  (forall y, In y (rw_rq x) -> In y (rw_rq x')) ->
  NoDup (rw_rs x') -> NoDup (rw_rq x') ->
  (forall y, In y (rw_rs x') -> (y = t /\ p' = CInR k o) \/ In y (rw_rs x)) ->
  (forall y, In y (rw_rq x') -> (y = t /\ p' = CWaitR k o) \/ In y (rw_rq x)) ->
  (forall y k', y <> t -> cpcs s y = CInW k' o ->
                rw_w x' = true /\ rw_ann x' = Some y /\ rw_rs x' = []) ->
  tinv (set_pc (set_obj s o x') t p') t ->
  cinv (set_pc (set_obj s o x') t p').
Proof.
  intros I Hpc x Hrs Hrq Hnd1 Hnd2 Hrs' Hrq' Hw Ht.
  assert (Hnr : forall k2 o2, cpcs s t <> CInR k2 o2) by (destruct Hpc as [[m E]|E]; rewrite E; discriminate).
  assert (Hnq : forall k2 o2, cpcs s t <> CWaitR k2 o2) by (destruct Hpc as [[m E]|E]; rewrite E; discriminate).
  constructor; cbn.
  - apply (c_fatal s I).
  - apply (c_next s I).
  - apply (c_inj s I).
  - intros y. destruct (Z.eq_dec y t) as [->|Hy]; [exact Ht|].
    pose proof (c_t s I y) as Ty. unfold tinv in *. cbn. rewrite upd_other by auto.
    destruct (cpcs s y) as [|m2 k2|m2 k2 o2|k2 o2|k2 o2|k2 o2|k2 o2] eqn:Ey; auto;
      rewrite updn_eq; destruct (Nat.eqb_spec o2 o) as [->|Ho]; auto.
    + destruct Ty as [A B]. split; auto.
    + destruct Ty as [A B]. split; auto. eapply Hw; eauto.
    + destruct Ty as [A B]. split; auto.
  - intros o2. destruct (Nat.eq_dec o2 o) as [->|Ho].
    + destruct (c_o s I o) as (A & B & C & D). unfold oinv; cbn. rewrite updn_same.
      split; [exact Hnd1|]. split; [exact Hnd2|]. split.
      * intros y Hy. rewrite upd_eq. destruct (Hrs' y Hy) as [[-> ->]|Hin].
        -- rewrite Z.eqb_refl. eauto.
        -- destruct (C y Hin) as [k2 E]. destruct (Z.eqb_spec y t) as [->|]; [exfalso; eapply Hnr; eauto | eauto].
      * intros y Hy. rewrite upd_eq. destruct (Hrq' y Hy) as [[-> ->]|Hin].
        -- rewrite Z.eqb_refl. eauto.
        -- destruct (D y Hin) as [k2 E]. destruct (Z.eqb_spec y t) as [->|]; [exfalso; eapply Hnq; eauto | eauto].
    + apply (oinv_frame s); [cbn; now rewrite updn_other | | | apply I]; cbn; intros y k2 Hy;
        (destruct (Z.eq_dec y t) as [->|Hn];
         [exfalso; first [eapply Hnr; eassumption | eapply Hnq; eassumption] | now rewrite upd_other]).
Qed.

Lemma in_snoc {A} (l : list A) x y : In y (l ++ [x]) -> y = x \/ In y l.
Proof. intro H. apply in_app_or in H as [H|[H|[]]]; auto. Qed.

Lemma step_arrive s t s' : cinv s -> cstep s (CArrive t) = Some s' -> cinv s'.
Proof.
  intros I H. unfold cstep in H. rewrite (c_fatal s I) in H.
  destruct (cpcs s t) as [| |m k o| | | |] eqn:Ept; try discriminate.
  pose proof (c_t s I t) as Tt. unfold tinv in Tt. rewrite Ept in Tt.
  destruct (c_o s I o) as (A & B & C & D).
  assert (Hw0 : forall y k', y <> t -> cpcs s y = CInW k' o ->
            rw_w (cobjs s o) = true /\ rw_ann (cobjs s o) = Some y /\ rw_rs (cobjs s o) = []).
  { intros y k' _ Ey. pose proof (c_t s I y) as Ty. unfold tinv in Ty. rewrite Ey in Ty. tauto. }
  destruct m.
  - (* writer queues on the inner mutex *)
    inversion H; subst s'; clear H.
    eapply obj_step with (k := k); eauto; cbn; auto.
    unfold tinv; cbn. rewrite upd_same. exact Tt.
  - destruct (rw_ann (cobjs s o)) as [a|] eqn:Ean; inversion H; subst s'; clear H.
    + (* a writer is announced: the reader parks *)
      assert (Hnt : ~ In t (rw_rq (cobjs s o))) by (intro Hi; destruct (D t Hi) as [k2 E]; congruence).
      eapply obj_step with (k := k); eauto; cbn; auto.
      * intros y Hy. apply in_or_app; now left.
      * apply NoDup_snoc; auto.
      * intros y Hy. apply in_snoc in Hy as [->|Hy]; auto.
      * unfold tinv; cbn. rewrite upd_same, updn_same. cbn. split; auto. apply in_or_app; right; now left.
    + (* no writer around: the reader enters *)
      assert (Hnt : ~ In t (rw_rs (cobjs s o))) by (intro Hi; destruct (C t Hi) as [k2 E]; congruence).
      eapply obj_step with (k := k); eauto; cbn; auto.
      * intros y Hy. apply in_or_app; now left.
      * apply NoDup_snoc; auto.
      * intros y Hy. apply in_snoc in Hy as [->|Hy]; auto.
      * intros y k' Hy Ey. destruct (Hw0 y k' Hy Ey) as (_ & E & _). congruence.
      * unfold tinv; cbn. rewrite upd_same, updn_same. cbn. split; auto. apply in_or_app; right; now left.
Qed.

Lemma cinv_ext s1 s2 : citems s2 = citems s1 -> cobjs s2 = cobjs s1 -> cnext s2 = cnext s1 ->
  fatal s2 = fatal s1 -> (forall t, cpcs s2 t = cpcs s1 t) -> cinv s1 -> cinv s2.
Proof.
  intros E1 E2 E3 E4 E5 I. constructor.
  - rewrite E4. apply I.
  - rewrite E1, E3. apply I.
  - rewrite E1. apply I.
  - intros t. pose proof (c_t s1 I t) as T. unfold tinv in *. now rewrite E5, E1, E2.
  - intros o. pose proof (c_o s1 I o) as O. unfold oinv in *. rewrite E2.
    destruct O as (A & B & C & D). repeat split; auto; intros t Ht; rewrite E5; auto.
Qed.

Lemma step_announce s t s' : cinv s -> cstep s (CAnnounce t) = Some s' -> cinv s'.
Proof.
  intros I H. unfold cstep in H. rewrite (c_fatal s I) in H.
  destruct (cpcs s t) as [| | |k o| | |] eqn:Ept; try discriminate.
  destruct (rw_ann (cobjs s o)) eqn:Ean; try discriminate.
  destruct (memz t (rw_wq (cobjs s o))); inversion H; subst s'; clear H.
  pose proof (c_t s I t) as Tt. unfold tinv in Tt. rewrite Ept in Tt.
  destruct (c_o s I o) as (A & B & C & D).
  apply (cinv_ext (set_pc (set_obj s o
     (mkrw (rw_w (cobjs s o)) (Some t) (rw_rs (cobjs s o)) (remz t (rw_wq (cobjs s o))) (rw_rq (cobjs s o)))) t (CWaitW k o)));
    try reflexivity.
  - intros y. cbn. rewrite upd_eq. destruct (Z.eqb_spec y t) as [->|]; auto.
  - eapply obj_step with (k := k); eauto; cbn; auto.
    + intros y k' Hy Ey. pose proof (c_t s I y) as Ty. unfold tinv in Ty. rewrite Ey in Ty.
      destruct Ty as (_ & _ & E & _). congruence.
    + unfold tinv; cbn. rewrite upd_same. exact Tt.
Qed.

Lemma step_wgrant s t s' : cinv s -> cstep s (CWGrant t) = Some s' -> cinv s'.
Proof.
  intros I H. unfold cstep in H. rewrite (c_fatal s I) in H.
  destruct (cpcs s t) as [| | |k o| | |] eqn:Ept; try discriminate.
  destruct (rw_ann (cobjs s o)) as [a|] eqn:Ean; try discriminate.
  destruct (rw_w (cobjs s o)) eqn:Ew; try discriminate.
  destruct (rw_rs (cobjs s o)) eqn:Ers; try discriminate.
  destruct (Z.eqb_spec t a) as [<-|]; inversion H; subst s'; clear H.
  pose proof (c_t s I t) as Tt. unfold tinv in Tt. rewrite Ept in Tt.
  destruct (c_o s I o) as (A & B & C & D).
  eapply obj_step with (k := k); eauto; cbn; auto.
  - rewrite Ers. intros y [].
  - constructor.
  - intros y [].
  - intros y k' Hy Ey. pose proof (c_t s I y) as Ty. unfold tinv in Ty. rewrite Ey in Ty.
    destruct Ty as (_ & E & _). congruence.
  - unfold tinv; cbn. rewrite upd_same, updn_same. cbn. auto.
Qed.

(* sync.RWMutex.Unlock by the writer t inside object o: every parked reader is admitted *)
Lemma unlock_core s t k o : cinv s -> cpcs s t = CInW k o ->
  fatal (rw_unlock s o) = false /\
  cinv (set_pc (rw_unlock s o) t CIdle).
Proof.
  intros I Ept.
  pose proof (c_t s I t) as Tt. unfold tinv in Tt. rewrite Ept in Tt. destruct Tt as (Ti & Tw & Ta & Tr).
  destruct (c_o s I o) as (A & B & C & D).
  unfold rw_unlock. rewrite Tw, Tr. cbn [app]. split; [apply (c_fatal s I)|].
  set (rq := rw_rq (cobjs s o)).
  assert (Hadm : forall y, upd (admit_readers (cpcs s) rq) t CIdle y =
                 if Z.eqb y t then CIdle else
                 if memz y rq then match cpcs s y with CWaitR k2 o2 => CInR k2 o2 | p => p end else cpcs s y).
  { intros y. rewrite upd_eq. unfold admit_readers. reflexivity. }
  assert (Hrq : forall y, memz y rq = true -> exists k2, cpcs s y = CWaitR k2 o).
  { intros y Hy. apply memz_in in Hy. apply D. exact Hy. }
  assert (Hnrq : forall y k2, cpcs s y = CWaitR k2 o -> memz y rq = true).
  { intros y k2 Ey. apply memz_in. pose proof (c_t s I y) as Ty. unfold tinv in Ty. rewrite Ey in Ty. tauto. }
  constructor.
  - apply (c_fatal s I).
  - apply (c_next s I).
  - apply (c_inj s I).
  - intros y. unfold tinv. cbn [cpcs citems cobjs set_pc]. rewrite Hadm.
    destruct (Z.eqb_spec y t) as [->|Hy]; [exact Logic.I|].
    pose proof (c_t s I y) as Ty. unfold tinv in Ty.
    destruct (memz y rq) eqn:Em.
    + destruct (Hrq y Em) as [k2 Ey]. rewrite Ey in *. rewrite updn_same. cbn.
      split; [tauto|]. now apply memz_in.
    + destruct (cpcs s y) as [|m2 k2|m2 k2 o2|k2 o2|k2 o2|k2 o2|k2 o2] eqn:Ey; auto;
        rewrite updn_eq; destruct (Nat.eqb_spec o2 o) as [->|Ho]; auto.
      * rewrite (Hnrq y k2 Ey) in Em. discriminate.
      * exfalso. destruct Ty as (_ & _ & E & _). congruence.
      * exfalso. destruct Ty as (_ & Hin). rewrite Tr in Hin. destruct Hin.
  - intros o2. unfold oinv. cbn [cpcs cobjs set_pc]. destruct (Nat.eq_dec o2 o) as [->|Ho].
    + rewrite updn_same. cbn [rw_rs rw_rq]. split; [exact B|]. split; [constructor|]. split; [|intros y []].
      intros y Hy. rewrite Hadm. assert (Em : memz y rq = true) by now apply memz_in.
      destruct (Hrq y Em) as [k2 Ey].
      destruct (Z.eqb_spec y t) as [->|]; [congruence|]. rewrite Em, Ey. eauto.
    + rewrite updn_other by auto. destruct (c_o s I o2) as (A2 & B2 & C2 & D2).
      repeat split; auto; intros y Hy; rewrite Hadm.
      * destruct (C2 y Hy) as [k2 Ey]. destruct (Z.eqb_spec y t) as [->|]; [congruence|].
        rewrite Ey. destruct (memz y rq); eauto.
      * destruct (D2 y Hy) as [k2 Ey]. destruct (Z.eqb_spec y t) as [->|]; [congruence|].
        destruct (memz y rq) eqn:Em; [|rewrite Ey; eauto].
        destruct (Hrq y Em) as [k3 E3]. congruence.
Qed.

Lemma step_unlock s t k s' : cinv s -> cstep s (CUnlock t k) = Some s' -> cinv s'.
Proof.
  intros I H. unfold cstep in H. rewrite (c_fatal s I) in H.
  destruct (cpcs s t) as [| | | | |k' o|] eqn:Ept; try discriminate.
  destruct (Z.eqb_spec k k') as [<-|]; cbn in H; [|discriminate].
  pose proof (c_t s I t) as Tt. unfold tinv in Tt. rewrite Ept in Tt. destruct Tt as (Ti & _).
  rewrite Ti in H. inversion H; subst s'. apply (unlock_core s t k o I Ept).
Qed.

(* sync.RWMutex.RUnlock by reader t registered in object o *)
Lemma runlock_core s t k o : cinv s -> cpcs s t = CInR k o ->
  fatal (rw_runlock s o t) = false /\ cinv (set_pc (rw_runlock s o t) t CIdle).
Proof.
  intros I Ept.
  pose proof (c_t s I t) as Tt. unfold tinv in Tt. rewrite Ept in Tt. destruct Tt as (Ti & Tin).
  destruct (c_o s I o) as (A & B & C & D).
  unfold rw_runlock. destruct (rw_rs (cobjs s o)) as [|r0 rs0] eqn:Ers; [destruct Tin|].
  rewrite <- Ers in *. rewrite (proj2 (memz_in t _) Tin).
  split; [apply (c_fatal s I)|].
  constructor; cbn.
  - apply (c_fatal s I).
  - apply (c_next s I).
  - apply (c_inj s I).
  - intros y. unfold tinv. cbn. rewrite upd_eq. destruct (Z.eqb_spec y t) as [->|Hy]; [exact Logic.I|].
    pose proof (c_t s I y) as Ty. unfold tinv in Ty.
    destruct (cpcs s y) as [|m2 k2|m2 k2 o2|k2 o2|k2 o2|k2 o2|k2 o2] eqn:Ey; auto;
      rewrite updn_eq; destruct (Nat.eqb_spec o2 o) as [->|Ho]; auto; cbn.
    + exfalso. destruct Ty as (_ & _ & _ & E). rewrite E in Tin. destruct Tin.
    + destruct Ty as [T1 T2]. split; auto. apply remz_in; auto.
  - intros o2. unfold oinv. cbn. destruct (Nat.eq_dec o2 o) as [->|Ho].
    + rewrite updn_same. cbn. split; [now apply remz_nodup|]. split; [exact B|]. split.
      * intros y Hy. apply remz_in in Hy as [Hy Hne]; auto. rewrite upd_other by auto. auto.
      * intros y Hy. destruct (D y Hy) as [k2 Ey]. rewrite upd_eq.
        destruct (Z.eqb_spec y t) as [->|]; [congruence | eauto].
    + rewrite updn_other by auto. destruct (c_o s I o2) as (A2 & B2 & C2 & D2).
      repeat split; auto; intros y Hy; rewrite upd_eq.
      * destruct (C2 y Hy) as [k2 Ey]. destruct (Z.eqb_spec y t) as [->|]; [congruence | eauto].
      * destruct (D2 y Hy) as [k2 Ey]. destruct (Z.eqb_spec y t) as [->|]; [congruence | eauto].
Qed.

Lemma step_runlock s t k s' : cinv s -> cstep s (CRUnlock t k) = Some s' -> cinv s'.
Proof.
  intros I H. unfold cstep in H. rewrite (c_fatal s I) in H.
  destruct (cpcs s t) as [| | | | | |k' o] eqn:Ept; try discriminate.
  destruct (Z.eqb_spec k k') as [<-|]; cbn in H; [|discriminate].
  pose proof (c_t s I t) as Tt. unfold tinv in Tt. rewrite Ept in Tt. destruct Tt as (Ti & _).
  rewrite Ti in H. inversion H; subst s'. apply (runlock_core s t k o I Ept).
Qed.

Lemma delete_ok s k : cinv s -> (forall x, ~ uses s x k) ->
  cinv (set_items s (upd (citems s) k None)).
Proof.
  intros I Hs. constructor; cbn.
  - apply (c_fatal s I).
  - intros k2 o2. rewrite upd_eq. destruct (Z.eqb_spec k2 k); [discriminate | apply (c_next s I)].
  - intros k1 k2 o2. rewrite !upd_eq. destruct (Z.eqb_spec k1 k), (Z.eqb_spec k2 k); try discriminate.
    apply (c_inj s I).
  - intros x. apply (tinv_frame s); [reflexivity | | apply I]. cbn. intros k2 o2 E.
    split; auto. rewrite upd_eq. destruct (Z.eqb_spec k2 k) as [->|]; auto.
    exfalso. apply (Hs x). apply uses_pko. eauto.
  - intros o. apply (oinv_frame s); auto. apply I.
Qed.

Lemma clear_ok s : cinv s -> (forall x k, ~ uses s x k) -> cinv (set_items s (fun _ => None)).
Proof.
  intros I Hs. constructor; cbn; try discriminate.
  - apply (c_fatal s I).
  - intros x. apply (tinv_frame s); [reflexivity | | apply I]. cbn. intros k2 o2 E.
    exfalso. apply (Hs x k2). apply uses_pko. eauto.
  - intros o. apply (oinv_frame s); auto. apply I.
Qed.

Lemma uses_after_unlock s t o x k : rw_w (cobjs s o) = true ->
  uses (set_pc (rw_unlock s o) t CIdle) x k -> x <> t /\ uses s x k.
Proof.
  intros Hw. unfold uses, rw_unlock. rewrite Hw. cbn. rewrite upd_eq.
  destruct (Z.eqb_spec x t) as [->|Hx]; [tauto|]. unfold admit_readers.
  destruct (memz x (rw_rq (cobjs s o))); [|tauto]. destruct (cpcs s x); tauto.
Qed.

Lemma uses_after_runlock s t o x k :
  uses (set_pc (rw_runlock s o t) t CIdle) x k -> x <> t /\ uses s x k.
Proof.
  unfold uses, rw_runlock. destruct (rw_rs (cobjs s o)); cbn; rewrite upd_eq;
    (destruct (Z.eqb_spec x t) as [->|Hx]; [tauto|]); tauto.
Qed.

Lemma cinv_safe_step s e s' : cinv s -> safe_ev s e -> cstep s e = Some s' -> cinv s'.
Proof.
  intros I Hsafe H. destruct e as [t m k|t|t|t|t|t k|t k|t k|t k|t k|t].
  - eapply step_lookup; eauto.
  - eapply step_create; eauto.
  - eapply step_arrive; eauto.
  - eapply step_announce; eauto.
  - eapply step_wgrant; eauto.
  - eapply step_unlock; eauto.
  - eapply step_runlock; eauto.
  - (* Delete *)
    unfold cstep in H. rewrite (c_fatal s I) in H. destruct (at_rest (cpcs s t)); inversion H; subst s'.
    apply delete_ok; auto.
  - (* DeleteUnlock *)
    unfold cstep in H. rewrite (c_fatal s I) in H.
    destruct (cpcs s t) as [| | | | |k' o|] eqn:Ept; try discriminate.
    destruct (Z.eqb_spec k k') as [<-|]; cbn in H; [|discriminate].
    pose proof (c_t s I t) as Tt. unfold tinv in Tt. rewrite Ept in Tt. destruct Tt as (Ti & Tw & _).
    rewrite Ti in H. inversion H; subst s'; clear H.
    destruct (unlock_core s t k o I Ept) as [_ I2].
    eapply (cinv_ext (set_items (set_pc (rw_unlock s o) t CIdle)
                                (upd (citems (set_pc (rw_unlock s o) t CIdle)) k None)));
      try reflexivity.
    apply delete_ok; auto. intros x Hu. apply uses_after_unlock in Hu as [Hx Hu]; auto.
    cbn in Hsafe. eapply Hsafe; eauto.
  - (* DeleteRUnlock *)
    unfold cstep in H. rewrite (c_fatal s I) in H.
    destruct (cpcs s t) as [| | | | | |k' o] eqn:Ept; try discriminate.
    destruct (Z.eqb_spec k k') as [<-|]; cbn in H; [|discriminate].
    pose proof (c_t s I t) as Tt. unfold tinv in Tt. rewrite Ept in Tt. destruct Tt as (Ti & _).
    rewrite Ti in H. inversion H; subst s'; clear H.
    destruct (runlock_core s t k o I Ept) as [_ I2].
    eapply (cinv_ext (set_items (set_pc (rw_runlock s o t) t CIdle)
                                (upd (citems (set_pc (rw_runlock s o t) t CIdle)) k None)));
      try reflexivity.
    apply delete_ok; auto. intros x Hu. apply uses_after_runlock in Hu as [Hx Hu].
    cbn in Hsafe. eapply Hsafe; eauto.
  - (* Clear *)
    unfold cstep in H. rewrite (c_fatal s I) in H. destruct (at_rest (cpcs s t)); inversion H; subst s'.
    apply clear_ok; auto.
Qed.

Lemma cinv_safe_run s es s' : cinv s -> safe_run s es s' -> cinv s'.
Proof. intros I H. induction H; auto. apply IHsafe_run. eapply cinv_safe_step; eauto. Qed.

Lemma cmap_excl_partial : forall es s k, safe_run cinit es s ->
  fatal s = false /\
  excl (fun t => exists o, cpcs s t = CInW k o) (fun t => exists o, cpcs s t = CInR k o).
Proof.
  intros es s k Hr. pose proof (cinv_safe_run _ _ _ cinv_init Hr) as I.
  split; [apply (c_fatal s I)|]. split.
  - intros t1 t2 [o1 H1] [o2 H2].
    pose proof (c_t s I t1) as T1. pose proof (c_t s I t2) as T2. unfold tinv in *.
    rewrite H1 in T1. rewrite H2 in T2.
    destruct T1 as (A1 & _ & B1 & _), T2 as (A2 & _ & B2 & _).
    assert (o1 = o2) by congruence. subst. congruence.
  - intros t1 t2 [o1 H1] [o2 H2].
    pose proof (c_t s I t1) as T1. pose proof (c_t s I t2) as T2. unfold tinv in *.
    rewrite H1 in T1. rewrite H2 in T2.
    destruct T1 as (A1 & _ & _ & B1), T2 as (A2 & B2).
    assert (o1 = o2) by congruence. subst. rewrite B1 in B2. destruct B2.
Qed.

(* a safe schedule is also an ordinary one *)
Lemma safe_run_crun s es s' : safe_run s es s' -> crun s es = Some s'.
Proof. induction 1; cbn; auto. unfold crun in *. cbn. now rewrite H0. Qed.

(* no Go fatal error (Unlock of an unlocked RWMutex) along safe schedules, and every Unlock /
   RUnlock / Delete*Unlock of a holder is enabled *)

Ltac safe_tac :=
  cbn; try exact Logic.I;
  let x := fresh "x" in let Hx := fresh "Hx" in
  intros x Hx; unfold uses; cbn; unfold upd;
  repeat match goal with |- context [Z.eqb x ?a] => destruct (Z.eqb_spec x a); subst end;
  cbn; try lia; try tauto; try (intro; discriminate); try (intro; lia).

(* non-vacuity: a safe schedule with two keys, a reader and a writer on key 5, and a
   DeleteUnlock by the only user of key 6 *)
Example cmap_safe_example : exists s,
  safe_run cinit [CLookup 1 W 6; CCreate 1; CArrive 1; CAnnounce 1; CWGrant 1;
                  CLookup 2 R 5; CCreate 2; CArrive 2; CLookup 3 W 5; CArrive 3; CAnnounce 3;
                  CDeleteUnlock 1 6; CRUnlock 2 5; CWGrant 3] s /\
  cpcs s 3 = CInW 5 1%nat /\ cpcs s 1 = CIdle /\ citems s 6 = None.
Proof.
  eexists. split.
  - repeat (econstructor; [safe_tac | cbn; reflexivity |]). apply SR_nil.
  - vm_compute. auto.
Qed.
