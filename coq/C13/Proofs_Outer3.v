(* C13 — lock.OuterCancel: the registration invariant for ALL schedules.
   (1) rcancels and the not-done reader records are in bijection: every entry (i, n) is record n,
       not done, with index i (Proofs_Outer2), every not-done record has its entry, indices are
       pairwise distinct - also across writer epochs, although a writer resets rcancelx to 0;
   (2) a release (the reader's own cancel func, or its rcancelGrace goroutine) is keyed by the
       RECORD - the closure's own [done] flag - and touches nothing but that record and its own
       entry: a stale release after a writer epoch cannot hit the reader that reuses the index;
   (3) while the lock is running every entry is owned by a thread that holds the read lock
       (RLock returned nil, cancel func not yet called) or has the grant in flight. *)
From Kit Require Import C13.Model_Outer C13.Spec C13.Proofs_Outer C13.Proofs_Outer2.
Local Open Scope Z_scope.

(* ------------------------------------------------------------------------------------- *)
(* records keep their identity (thread, index, parent) and [done] flag under the ghost updates *)

Definition rec_eq (a b : option rrec) : Prop :=
  match a, b with
  | None, None => True
  | Some r, Some r' => r_tid r' = r_tid r /\ r_idx r' = r_idx r /\ r_done r' = r_done r
  | _, _ => False
  end.

Definition core_eq (l l' : list rrec) : Prop := forall n, rec_eq (nth_error l n) (nth_error l' n).

Lemma core_eq_refl l : core_eq l l.
Proof. intro n. unfold rec_eq. destruct (nth_error l n); auto. Qed.

Lemma core_eq_trans l1 l2 l3 : core_eq l1 l2 -> core_eq l2 l3 -> core_eq l1 l3.
Proof.
  intros A B n. specialize (A n). specialize (B n). unfold rec_eq in *.
  destruct (nth_error l1 n), (nth_error l2 n), (nth_error l3 n); try tauto.
  destruct A as (A1 & A2 & A3), B as (B1 & B2 & B3). repeat split; congruence.
Qed.

Lemma core_eq_set_nth l n r r' : nth_error l n = Some r ->
  r_tid r' = r_tid r -> r_idx r' = r_idx r -> r_done r' = r_done r -> core_eq l (set_nth n r' l).
Proof.
  intros E A B C m. destruct (Nat.eq_dec n m) as [->|Hne].
  - rewrite nth_set_nth_same by (apply nth_error_Some; congruence). rewrite E. cbn. auto.
  - rewrite nth_set_nth_other by auto. apply core_eq_refl.
Qed.

Lemma core_eq_spawn_all m t0 b l : core_eq l (spawn_all m t0 b l).
Proof.
  unfold spawn_all. revert l. induction m as [|[i j] m IH]; intro l; [apply core_eq_refl|].
  cbn [fold_left snd]. eapply core_eq_trans; [|apply IH].
  destruct (nth_error l j) as [r|] eqn:E; [|apply core_eq_refl].
  destruct (r_at r); [apply core_eq_refl|]. eapply core_eq_set_nth; eauto.
Qed.

Lemma core_eq_mark_parent c l : core_eq l (mark_parent c l).
Proof.
  intro n. unfold mark_parent. rewrite nth_error_map. destruct (nth_error l n) as [r|]; cbn; auto.
  destruct (r_ctx r =? c); cbn; auto.
Qed.

Lemma core_eq_clear_at s n : core_eq (recs s) (recs (clear_at s n)).
Proof.
  unfold clear_at. destruct (nth_error (recs s) n) as [r|] eqn:E; [|apply core_eq_refl].
  cbn. eapply core_eq_set_nth; eauto.
Qed.

Lemma core_eq_some l l' n r' : core_eq l l' -> nth_error l' n = Some r' ->
  exists r, nth_error l n = Some r /\ r_tid r' = r_tid r /\ r_idx r' = r_idx r /\ r_done r' = r_done r.
Proof.
  intros H E. specialize (H n). rewrite E in H. unfold rec_eq in H.
  destruct (nth_error l n) as [r|]; [eauto | destruct H].
Qed.

Lemma core_eq_some_fwd l l' n r : core_eq l l' -> nth_error l n = Some r ->
  exists r', nth_error l' n = Some r' /\ r_tid r' = r_tid r /\ r_idx r' = r_idx r /\ r_done r' = r_done r.
Proof.
  intros H E. specialize (H n). rewrite E in H. unfold rec_eq in H.
  destruct (nth_error l' n) as [r'|]; [eauto | destruct H].
Qed.

(* ------------------------------------------------------------------------------------- *)
(* (1) every not-done record has its entry *)

Definition has_entries (s : ostate) : Prop :=
  forall n r, nth_error (recs s) n = Some r -> r_done r = false -> In (r_idx r, n) (rcs s).

Lemma has_entries_frame s s' : has_entries s -> rcs s' = rcs s -> core_eq (recs s) (recs s') -> has_entries s'.
Proof.
  intros H E C n r' En Hd. rewrite E. destruct (core_eq_some _ _ _ _ C En) as (r & A & _ & B & D).
  rewrite B. apply (H n r A). congruence.
Qed.

Lemma has_entries_rcancel s n y : kinv s -> has_entries s -> has_entries (rcancel s n y).
Proof.
  intros K H. unfold rcancel. destruct (nth_error (recs s) n) as [r|] eqn:E; auto.
  destruct (r_done r) eqn:Ed; auto. intros m r' Em Hd. cbn in *.
  destruct (Nat.eq_dec n m) as [->|Hne].
  - rewrite nth_set_nth_same in Em by (apply nth_error_Some; congruence). inversion Em; subst. discriminate.
  - rewrite nth_set_nth_other in Em by auto. apply del_idx_in. split; [apply H; auto|]. cbn.
    (* two different not-done records cannot share an index *)
    intro Hi. pose proof (H m r' Em Hd) as I1. pose proof (H n r E Ed) as I2.
    assert (Hnd := k_nd s K). rewrite Hi in I1.
    clear -I1 I2 Hnd Hne. induction (rcs s) as [|p l IH]; [destruct I1|].
    cbn in Hnd. inversion Hnd; subst. destruct I1 as [A|A], I2 as [B|B].
    + congruence.
    + subst p. cbn in *. apply H1. apply in_map_iff. exists (r_idx r, n). auto.
    + subst p. cbn in *. apply H1. apply in_map_iff. exists (r_idx r, m). auto.
    + auto.
Qed.

Lemma has_entries_step s e s' : kinv s -> has_entries s -> ostep s e = Some s' -> has_entries s'.
Proof.
  intros K H Hs.
  destruct e; cbn in Hs;
    repeat match type of Hs with
           | match ?x with _ => _ end = Some _ => destruct x eqn:?; try discriminate
           | (if ?x then _ else _) = Some _ => destruct x eqn:?; try discriminate
           end;
    try (inversion Hs; subst s'; clear Hs; apply (has_entries_frame s); cbn; auto using core_eq_refl; fail).
  - inversion Hs; subst s'. unfold shut_lock. destruct (ch_send (shut s) t) as [c' ok]; destruct ok;
      apply (has_entries_frame s); cbn; auto using core_eq_refl.
  - inversion Hs; subst s'. unfold shut_lock. destruct (ch_send (shut s) t) as [c' ok]; destruct ok;
      apply (has_entries_frame s); cbn; auto using core_eq_refl.
  - (* ORRelease *) inversion Hs; subst s'; clear Hs.
    apply (has_entries_frame (rcancel s r ByOwn)); cbn; auto using core_eq_refl. now apply has_entries_rcancel.
  - (* RunRegW *) inversion Hs; subst s'; clear Hs.
    apply (has_entries_frame s); cbn; auto using core_eq_spawn_all.
  - (* RunRegR *) inversion Hs; subst s'; clear Hs. intros n r En Hd. cbn in *.
    assert (Hlt : forall i m, In (i, m) (rcs s) -> 0 <= i < rcx s).
    { apply (k_lt s K). intros t0. rewrite Heqr. discriminate. }
    destruct (lt_dec n (length (recs s))) as [Hl|Hl].
    + rewrite nth_error_app1 in En by auto. right. apply del_idx_in. split; [apply H; auto|]. cbn.
      specialize (Hlt _ _ (H n r En Hd)). lia.
    + rewrite nth_error_app2 in En by lia. destruct (n - length (recs s))%nat as [|k] eqn:Ek; cbn in En.
      * inversion En; subst r; cbn. left. f_equal. lia.
      * destruct k; discriminate.
  - (* RunDeferGo *) inversion Hs; subst s'; clear Hs.
    apply (has_entries_frame s); cbn; auto using core_eq_spawn_all.
  - (* OGrace *) inversion Hs; subst s'; clear Hs. apply has_entries_rcancel.
    + apply (kinv_frame s); auto using same_core_clear_at; unfold clear_at; destruct (nth_error (recs s) r); auto.
    + apply (has_entries_frame s); auto using core_eq_clear_at. apply clear_at_rcs.
  - (* OCancel *) inversion Hs; subst s'; clear Hs.
    apply (has_entries_frame s); cbn; auto using core_eq_mark_parent.
Qed.

Lemma reg_run g es : forall s, orun (oinit g) es = Some s -> oinv2 s /\ kinv s /\ has_entries s.
Proof.
  assert (G : forall s s', oinv2 s /\ kinv s /\ has_entries s -> orun s es = Some s' ->
                           oinv2 s' /\ kinv s' /\ has_entries s').
  { induction es as [|e es IH]; cbn; intros s s' Hi Hr.
    - inversion Hr; subst; exact Hi.
    - unfold orun in Hr; cbn in Hr. destruct (ostep s e) as [s1|] eqn:E; [|discriminate].
      eapply IH; [|exact Hr]. destruct Hi as (A & B & C).
      split; [eapply oinv2_step; eauto|]. split; [eapply kinv_step; eauto | eapply has_entries_step; eauto]. }
  intros s Hr. eapply G; eauto. split; [apply oinv2_init|]. split; [apply kinv_init|].
  intros n r E. destruct n; discriminate.
Qed.

(* (1) the bijection between rcancels and the not-done records, in every reachable state *)
Lemma outer_registrations : forall g es s, orun (oinit g) es = Some s ->
  (forall i n, In (i, n) (rcs s) ->
               exists r, nth_error (recs s) n = Some r /\ r_idx r = i /\ r_done r = false) /\
  (forall n r, nth_error (recs s) n = Some r -> r_done r = false -> In (r_idx r, n) (rcs s)) /\
  NoDup (map fst (rcs s)) /\
  wg s = live (recs s).
Proof.
  intros g es s Hr. destruct (reg_run g es s Hr) as (I & K & H).
  split; [apply (k_ent s K)|]. split; [exact H|]. split; [apply (k_nd s K) | apply (o_wg s I)].
Qed.

Lemma nodup_fst_inj {B} (l : list (Z * B)) i a b :
  NoDup (map fst l) -> In (i, a) l -> In (i, b) l -> a = b.
Proof.
  induction l as [|p l IH]; cbn; intros Hnd Ha Hb; [destruct Ha|].
  inversion Hnd; subst. destruct Ha as [A|A], Hb as [C|C].
  - congruence.
  - subst p. cbn in *. exfalso. apply H1. apply in_map_iff. exists (i, b). auto.
  - subst p. cbn in *. exfalso. apply H1. apply in_map_iff. exists (i, a). auto.
  - auto.
Qed.

(* (2) a release is keyed by the record: calling the cancel func of record n (whatever its state,
   e.g. long after a writer cancelled it and another reader was registered under the same index)
   or running its rcancelGrace goroutine leaves every other record and every other record's entry
   exactly as they were. *)
Lemma rcancel_only_own s n y : kinv s -> has_entries s ->
  (forall m, m <> n -> nth_error (recs (rcancel s n y)) m = nth_error (recs s) m) /\
  (forall i m, m <> n -> (In (i, m) (rcs (rcancel s n y)) <-> In (i, m) (rcs s))).
Proof.
  intros K H. split; [intros m Hm; apply rcancel_other; auto|].
  intros i m Hm. unfold rcancel. destruct (nth_error (recs s) n) as [r|] eqn:E; [|tauto].
  destruct (r_done r) eqn:Ed; [tauto|]. cbn. rewrite del_idx_in. cbn. split; [tauto|].
  intro Hin. split; auto. intro Hi. subst i. apply Hm.
  eapply nodup_fst_inj; [apply (k_nd s K) | exact Hin | apply H; auto].
Qed.

Lemma outer_release_only_own : forall g es s t n s', orun (oinit g) es = Some s ->
  opcs s t = ORHold n -> ostep s (ORRelease t) = Some s' ->
  (forall m, m <> n -> nth_error (recs s') m = nth_error (recs s) m) /\
  (forall i m, m <> n -> (In (i, m) (rcs s') <-> In (i, m) (rcs s))) /\
  (done_of s n = true -> recs s' = recs s /\ rcs s' = rcs s /\ wg s' = wg s).
Proof.
  intros g es s t n s' Hr Hp Hs. destruct (reg_run g es s Hr) as (_ & K & H).
  cbn in Hs. rewrite Hp in Hs. inversion Hs; subst s'; clear Hs. cbn.
  destruct (rcancel_only_own s n ByOwn K H) as [A B]. split; [exact A|]. split; [exact B|].
  unfold done_of, rcancel. destruct (nth_error (recs s) n) as [r|]; [|discriminate].
  intros ->. auto.
Qed.

Lemma outer_grace_only_own : forall g es s n s', orun (oinit g) es = Some s ->
  ostep s (OGrace n) = Some s' ->
  (forall m, m <> n -> rec_eq (nth_error (recs s) m) (nth_error (recs s') m)) /\
  (forall i m, m <> n -> (In (i, m) (rcs s') <-> In (i, m) (rcs s))).
Proof.
  intros g es s n s' Hr Hs. destruct (reg_run g es s Hr) as (_ & K & H).
  cbn in Hs. destruct (nth_error (recs s) n) as [r|] eqn:En; try discriminate.
  destruct (r_at r); try discriminate.
  destruct (closed s || r_done r || (z + grace s <=? now s)); try discriminate.
  inversion Hs; subst s'; clear Hs.
  assert (K1 : kinv (clear_at s n)).
  { apply (kinv_frame s); auto using same_core_clear_at; unfold clear_at; destruct (nth_error (recs s) n); auto. }
  assert (H1 : has_entries (clear_at s n)).
  { apply (has_entries_frame s); auto using core_eq_clear_at. apply clear_at_rcs. }
  destruct (rcancel_only_own (clear_at s n) n (if closed s then ByShutdown else ByWriter) K1 H1) as [A B].
  split.
  - intros m Hm. rewrite (A m Hm). apply core_eq_clear_at.
  - intros i m Hm. rewrite (B i m Hm), clear_at_rcs. tauto.
Qed.

(* ------------------------------------------------------------------------------------- *)
(* (3) ownership of the registrations while the lock is running *)

Definition hold_tid (h : hold) : tid := match h with HW t => t | HR t _ => t end.

Definition hset (s : ostate) : list hold :=
  match ch s with Some h => [h] | None => [] end ++
  match runpc s with RunTake h | RunReg h => [h] | RunWait t => [HW t] | _ => [] end.

Definition hold_ok (s : ostate) (h : hold) : Prop :=
  match h with HR t c => opcs s t = ORResp c | HW t => opcs s t = OWResp end /\
  resps s (hold_tid h) = None.

Definition owner_ok (s : ostate) (n : nat) : Prop :=
  exists r, nth_error (recs s) n = Some r /\
            (opcs s (r_tid r) = ORHold n \/
             exists c, opcs s (r_tid r) = ORResp c /\ resps s (r_tid r) = Some (PGrant n)).

Definition neutral (p : opc) : Prop :=
  match p with OWResp | ORResp _ | ORHold _ => False | _ => True end.

Definition sending (p : opc) : Prop := match p with OWSend | ORSend _ => True | _ => False end.

Record winv (s : ostate) : Prop := {
  w_hold : forall h, In h (hset s) -> hold_ok s h;
  w_nd : NoDup (map hold_tid (hset s));
  w_own : forall i n, In (i, n) (rcs s) -> owner_ok s n;
  w_send : forall t, sending (opcs s t) -> resps s t = None;
  w_shut : shut s = ch_empty      (* the shutdown lock is not used before shutdown *)
}.

Lemma winv_init g : winv (oinit g).
Proof. constructor; cbn; try tauto; try reflexivity. constructor. Qed.

Lemma upd_eq3 {A} (f : Z -> A) x v y : upd f x v y = if Z.eqb y x then v else f y.
Proof. reflexivity. Qed.

Lemma hold_ok_pc s h : hold_ok s h -> ~ neutral (opcs s (hold_tid h)).
Proof. destruct h; cbn; intros [E _]; rewrite E; cbn; tauto. Qed.

Lemma owner_ok_frame s s' n : owner_ok s n -> core_eq (recs s) (recs s') ->
  (forall x, ~ neutral (opcs s x) -> opcs s' x = opcs s x /\ resps s' x = resps s x) -> owner_ok s' n.
Proof.
  intros (r & E & Ho) C F. destruct (core_eq_some_fwd _ _ _ _ C E) as (r' & E' & T & _).
  exists r'. split; auto. rewrite T.
  assert (Hn : ~ neutral (opcs s (r_tid r))).
  { destruct Ho as [Ho|(c & Ho & _)]; rewrite Ho; cbn; tauto. }
  destruct (F _ Hn) as [F1 F2]. rewrite F1, F2. exact Ho.
Qed.

(* a step that changes only neutral program counters (and the response cells of those threads) *)
Lemma winv_neutral s s' : winv s ->
  hset s' = hset s -> rcs s' = rcs s -> shut s' = shut s -> core_eq (recs s) (recs s') ->
  (forall x, ~ neutral (opcs s x) -> opcs s' x = opcs s x /\ resps s' x = resps s x) ->
  (forall x, neutral (opcs s x) -> neutral (opcs s' x) /\ (sending (opcs s' x) -> resps s' x = None)) ->
  winv s'.
Proof.
  intros W E1 E3 E4 C F G. constructor.
  - rewrite E1. intros h Hin. pose proof (w_hold s W h Hin) as Hk.
    destruct (F _ (hold_ok_pc s h Hk)) as [F1 F2]. unfold hold_ok in *. rewrite F2.
    destruct h; cbn in *; rewrite F1; exact Hk.
  - rewrite E1. apply (w_nd s W).
  - rewrite E3. intros i n Hin. eapply owner_ok_frame; eauto. apply (w_own s W i n Hin).
  - intros x Hs. destruct (opcs s x) eqn:Ex;
      try (destruct (G x) as [_ G2]; [rewrite Ex; exact Logic.I | auto]; fail);
      (destruct (F x) as [F1 F2]; [rewrite Ex; cbn; tauto|]; rewrite F1, Ex in Hs; destruct Hs).
  - rewrite E4. apply (w_shut s W).
Qed.

Lemma winv_rcancel s n y : kinv s -> winv s -> winv (rcancel s n y) /\ forall i, ~ In (i, n) (rcs (rcancel s n y)).
Proof.
  intros K W. destruct (rcancel_fields s n y) as (_ & _ & E3 & E4 & E5).
  assert (Hch : ch (rcancel s n y) = ch s).
  { unfold rcancel. destruct (nth_error (recs s) n) as [r|]; auto. destruct (r_done r); auto. }
  assert (Hno : forall i, ~ In (i, n) (rcs (rcancel s n y))).
  { intros i Hin. unfold rcancel in Hin. destruct (nth_error (recs s) n) as [r|] eqn:E.
    - destruct (r_done r) eqn:Ed.
      + destruct (k_ent s K _ _ Hin) as (r0 & A & _ & D). congruence.
      + cbn in Hin. apply del_idx_in in Hin as [Hin Hne]. cbn in Hne.
        destruct (k_ent s K _ _ Hin) as (r0 & A & B & _). congruence.
    - destruct (k_ent s K _ _ Hin) as (r0 & A & _). congruence. }
  split; [|exact Hno]. constructor.
  - unfold hset, hold_ok. rewrite Hch, E3, E4, E5. apply (w_hold s W).
  - unfold hset. rewrite Hch, E3. apply (w_nd s W).
  - intros i m Hin. assert (Hm : m <> n) by (intro; subst; eapply Hno; eauto).
    apply rcancel_rcs_subset in Hin. destruct (w_own s W i m Hin) as (r & A & B).
    exists r. rewrite rcancel_other by auto. rewrite E4, E5. auto.
  - rewrite E4, E5. apply (w_send s W).
  - rewrite <- (w_shut s W). unfold rcancel. destruct (nth_error (recs s) n) as [r|]; auto.
    destruct (r_done r); auto.
Qed.

Lemma winv_drop_hold s t n : winv s -> opcs s t = ORHold n -> (forall i, ~ In (i, n) (rcs s)) ->
  winv (set_opc s t OIdle).
Proof.
  intros W Hp Hno. constructor; cbn.
  - intros h Hin. destruct (w_hold s W h Hin) as [Hk1 Hk2]. split; [|exact Hk2].
    destruct h as [x|x c]; cbn in *; unfold upd; (destruct (Z.eqb_spec x t) as [->|]; [congruence | exact Hk1]).
  - apply (w_nd s W).
  - intros i m Hin. destruct (w_own s W i m Hin) as (r & A & B). exists r. cbn. split; [exact A|].
    destruct (Z.eq_dec (r_tid r) t) as [E|N]; [|rewrite !upd_other by auto; exact B].
    exfalso. rewrite E, Hp in B. destruct B as [B|(c & B & _)]; [|discriminate].
    inversion B; subst. eapply Hno; eauto.
  - intros x. unfold upd. destruct (Z.eqb_spec x t); [intros [] | apply (w_send s W)].
  - apply (w_shut s W).
Qed.

Ltac eqbs :=
  repeat match goal with
         | |- context [Z.eqb ?a ?b] => destruct (Z.eqb_spec a b); subst
         | H : context [Z.eqb ?a ?b] |- _ => destruct (Z.eqb_spec a b); subst
         end.

(* finishes the pointwise side conditions of [winv_neutral] when one or two threads with neutral
   pcs move to neutral pcs *)
Ltac neutral_tac W :=
  apply (winv_neutral _ _ W); cbn;
  [ reflexivity | reflexivity | reflexivity | auto using core_eq_refl, core_eq_spawn_all, core_eq_mark_parent
  | let x := fresh "x" in let Hn := fresh "Hn" in
    intros x Hn; rewrite ?upd_eq3; eqbs; auto;
    try (exfalso; apply Hn; match goal with E : opcs _ _ = _ |- _ => rewrite E end; exact Logic.I)
  | let x := fresh "x" in let Hn := fresh "Hn" in
    intros x Hn; rewrite ?upd_eq3; eqbs; cbn; auto; try tauto;
    try (split; [exact Hn|]; let Hs := fresh "Hs" in intro Hs; apply (w_send _ W); exact Hs) ].

Lemma wstep_clients s e s' t : kinv s -> winv s -> closed s = false ->
  e = OWCall t \/ e = OWSendCh t \/ e = OWClosed t \/ e = OWGot t \/ e = OWUnlock t \/
  (exists c, e = ORCall t c) \/ e = ORSendCh t \/ e = ORClosed t \/ e = ORCtx t \/ e = ORGot t \/
  e = ORRelease t ->
  ostep s e = Some s' -> winv s'.
Proof.
  intros K W Hc [ -> | [ -> | [ -> | [ -> | [ -> | [ [c -> ] | [ -> | [ -> | [ -> | [ -> | -> ] ] ] ] ] ] ] ] ] ] H;
    cbn in H.
  - (* OWCall *) destruct (opcs s t) eqn:Ep; try discriminate. inversion H; subst s'; clear H.
    neutral_tac W.
  - (* OWSendCh *) destruct (opcs s t) eqn:Ep; try discriminate. destruct (ch s) eqn:Ech; try discriminate.
    inversion H; subst s'; clear H.
    assert (Hr : resps s t = None) by (apply (w_send s W); rewrite Ep; exact Logic.I).
    assert (Hnot : ~ In t (map hold_tid (hset s))).
    { intro Hin. apply in_map_iff in Hin as (h & Eh & Hin). pose proof (hold_ok_pc s h (w_hold s W h Hin)) as Hn.
      rewrite Eh, Ep in Hn. apply Hn. exact Logic.I. }
    assert (Hhs : hset (set_opc (set_ch s (Some (HW t))) t OWResp) = HW t :: hset s).
    { unfold hset. cbn. rewrite Ech. reflexivity. }
    constructor; rewrite ?Hhs.
    + intros h [<-|Hin].
      * split; cbn; [now rewrite upd_same | exact Hr].
      * destruct (w_hold s W h Hin) as [A B]. split; [|exact B].
        destruct h as [x|x c0]; cbn in *; rewrite upd_eq3; destruct (Z.eqb_spec x t); subst; auto; congruence.
    + cbn. constructor; [exact Hnot | apply (w_nd s W)].
    + intros i n Hin. destruct (w_own s W i n Hin) as (r & A & B). exists r. cbn. split; [exact A|].
      rewrite upd_eq3. destruct (Z.eqb_spec (r_tid r) t) as [E|]; auto.
      exfalso. rewrite E, Ep in B. destruct B as [B|(c0 & B & _)]; discriminate.
    + intros x. cbn. rewrite upd_eq3. destruct (Z.eqb_spec x t); [intros [] | apply (w_send s W)].
    + apply (w_shut s W).
  - (* OWClosed: needs closeCh closed *)
    destruct (opcs s t); try discriminate; rewrite Hc in H; discriminate.
  - (* OWGot *) destruct (opcs s t) eqn:Ep; try discriminate.
    destruct (resps s t) as [[| |]|] eqn:Er; try discriminate. inversion H; subst s'; clear H.
    assert (Hnot : forall h, In h (hset s) -> hold_tid h <> t).
    { intros h Hin E. destruct (w_hold s W h Hin) as [_ B]. congruence. }
    constructor; unfold hset; cbn [ch runpc set_opc set_resp set_ores opcs resps rcs recs].
    + intros h Hin. destruct (w_hold s W h Hin) as [A B]. pose proof (Hnot h Hin) as Hne.
      split; [|cbn; now rewrite upd_other].
      destruct h as [x|x c0]; cbn in *; now rewrite upd_other.
    + apply (w_nd s W).
    + intros i n Hin. destruct (w_own s W i n Hin) as (r & A & B). exists r. cbn. split; [exact A|].
      destruct (Z.eq_dec (r_tid r) t) as [E|N]; [|rewrite !upd_other by auto; exact B].
      exfalso. rewrite E, Ep, Er in B. destruct B as [B|(c0 & B & _)]; discriminate.
    + intros x. cbn. rewrite !upd_eq3. destruct (Z.eqb_spec x t); [intros [] | apply (w_send s W)].
    + apply (w_shut s W).
  - (* OWUnlock *) destruct (opcs s t) eqn:Ep; try discriminate.
    + destruct (oslot s); try discriminate. inversion H; subst s'; clear H. neutral_tac W.
    + (* the shutdown lock is free while the lock is running *)
      rewrite (w_shut s W) in H. discriminate.
  - (* ORCall *) destruct (opcs s t) eqn:Ep; try discriminate. inversion H; subst s'; clear H.
    neutral_tac W.
  - (* ORSendCh *) destruct (opcs s t) as [| | | | | |c0| |] eqn:Ep; try discriminate.
    destruct (ch s) eqn:Ech; try discriminate. inversion H; subst s'; clear H.
    assert (Hr : resps s t = None) by (apply (w_send s W); rewrite Ep; exact Logic.I).
    assert (Hnot : ~ In t (map hold_tid (hset s))).
    { intro Hin. apply in_map_iff in Hin as (h & Eh & Hin). pose proof (hold_ok_pc s h (w_hold s W h Hin)) as Hn.
      rewrite Eh, Ep in Hn. apply Hn. exact Logic.I. }
    assert (Hhs : hset (set_opc (set_ch s (Some (HR t c0))) t (ORResp c0)) = HR t c0 :: hset s).
    { unfold hset. cbn. rewrite Ech. reflexivity. }
    constructor; rewrite ?Hhs.
    + intros h [<-|Hin].
      * split; cbn; [now rewrite upd_same | exact Hr].
      * destruct (w_hold s W h Hin) as [A B]. split; [|exact B].
        destruct h as [x|x c1]; cbn in *; rewrite upd_eq3; destruct (Z.eqb_spec x t); subst; auto; congruence.
    + cbn. constructor; [exact Hnot | apply (w_nd s W)].
    + intros i n Hin. destruct (w_own s W i n Hin) as (r & A & B). exists r. cbn. split; [exact A|].
      rewrite upd_eq3. destruct (Z.eqb_spec (r_tid r) t) as [E|]; auto.
      exfalso. rewrite E, Ep in B. destruct B as [B|(c1 & B & _)]; discriminate.
    + intros x. cbn. rewrite upd_eq3. destruct (Z.eqb_spec x t); [intros [] | apply (w_send s W)].
    + apply (w_shut s W).
  - (* ORClosed: needs closeCh closed *)
    destruct (opcs s t); try discriminate; rewrite Hc in H; discriminate.
  - (* ORCtx *) destruct (opcs s t) eqn:Ep; try discriminate. destruct (cdn s c); try discriminate.
    inversion H; subst s'; clear H. neutral_tac W.
  - (* ORGot *) destruct (opcs s t) as [| | | | | | |c0|] eqn:Ep; try discriminate.
    destruct (resps s t) as [[|n0|]|] eqn:Er; try discriminate; inversion H; subst s'; clear H.
    all: assert (Hnot : forall h, In h (hset s) -> hold_tid h <> t)
        by (intros h Hin E; destruct (w_hold s W h Hin) as [_ B]; congruence).
    all: constructor; unfold hset; cbn [ch runpc set_opc set_resp set_ores opcs resps rcs recs shut].
    + intros h Hin. destruct (w_hold s W h Hin) as [A B]. pose proof (Hnot h Hin) as Hne.
      split; [|cbn; now rewrite upd_other]. destruct h as [x|x c1]; cbn in *; now rewrite upd_other.
    + apply (w_nd s W).
    + intros i n Hin. destruct (w_own s W i n Hin) as (r & A & B). exists r. cbn. split; [exact A|].
      destruct (Z.eq_dec (r_tid r) t) as [E|N]; [|rewrite !upd_other by auto; exact B].
      rewrite E in *. rewrite Ep, Er in B. destruct B as [B|(c1 & _ & B)]; [discriminate|].
      inversion B; subst. left. now rewrite upd_same.
    + intros x. cbn. rewrite !upd_eq3. destruct (Z.eqb_spec x t); [intros [] | apply (w_send s W)].
    + apply (w_shut s W).
    + intros h Hin. destruct (w_hold s W h Hin) as [A B]. pose proof (Hnot h Hin) as Hne.
      split; [|cbn; now rewrite upd_other]. destruct h as [x|x c1]; cbn in *; now rewrite upd_other.
    + apply (w_nd s W).
    + intros i n Hin. destruct (w_own s W i n Hin) as (r & A & B). exists r. cbn. split; [exact A|].
      destruct (Z.eq_dec (r_tid r) t) as [E|N]; [|rewrite !upd_other by auto; exact B].
      exfalso. rewrite E, Ep, Er in B. destruct B as [B|(c1 & _ & B)]; discriminate.
    + intros x. cbn. rewrite !upd_eq3. destruct (Z.eqb_spec x t); [intros [] | apply (w_send s W)].
    + apply (w_shut s W).
  - (* ORRelease *) destruct (opcs s t) as [| | | | | | | |n0] eqn:Ep; try discriminate.
    inversion H; subst s'; clear H.
    destruct (winv_rcancel s n0 ByOwn K W) as [W2 Hno].
    destruct (rcancel_fields s n0 ByOwn) as (_ & _ & _ & E4 & _).
    apply winv_drop_hold with (n := n0); auto. now rewrite E4.
Qed.

Lemma winv_same_pcs s s' : winv s -> hset s' = hset s -> rcs s' = rcs s -> shut s' = shut s ->
  core_eq (recs s) (recs s') -> opcs s' = opcs s -> resps s' = resps s -> winv s'.
Proof.
  intros W E1 E2 E3 C E4 E5. apply (winv_neutral s s' W); auto.
  - intros x _. now rewrite E4, E5.
  - intros x Hn. rewrite E4, E5. split; auto. apply (w_send s W).
Qed.

(* Run answers hold h (of thread t), the last element of the hold set: the hold leaves the set,
   t's response cell is filled *)
Lemma winv_answer s s' h pre v : winv s -> hset s = pre ++ [h] -> hset s' = pre ->
  rcs s' = rcs s -> shut s' = shut s -> recs s' = recs s -> opcs s' = opcs s ->
  resps s' = upd (resps s) (hold_tid h) (Some v) ->
  (forall n, v <> PGrant n) ->
  winv s'.
Proof.
  intros W E0 E1 E2 E3 E4 E5 E6 Hv.
  assert (Hh : hold_ok s h) by (apply (w_hold s W); rewrite E0; apply in_or_app; right; now left).
  assert (Hnd := w_nd s W). rewrite E0, map_app in Hnd. cbn in Hnd.
  apply NoDup_remove in Hnd as [Hnd' Hnin]. rewrite app_nil_r in *.
  constructor.
  - rewrite E1. intros h' Hin. assert (Hin' : In h' (hset s)) by (rewrite E0; apply in_or_app; now left).
    destruct (w_hold s W h' Hin') as [A B]. unfold hold_ok. rewrite E5, E6.
    assert (hold_tid h' <> hold_tid h) by (intro E; apply Hnin; rewrite <- E; now apply in_map).
    rewrite upd_other by auto. split; auto.
  - rewrite E1. exact Hnd'.
  - rewrite E2. intros i n Hin. destruct (w_own s W i n Hin) as (r & A & B). exists r.
    rewrite E4, E5, E6. split; auto.
    destruct (Z.eq_dec (r_tid r) (hold_tid h)) as [E|N]; [|now rewrite upd_other].
    exfalso. destruct Hh as [Hp Hr]. rewrite E in B. destruct B as [B|(c & _ & B)].
    + destruct h; cbn in *; congruence.
    + congruence.
  - intros x. rewrite E5, E6. intro Hs. rewrite upd_other; [apply (w_send s W x Hs)|].
    intro E. subst x. destruct Hh as [Hp _]. destruct h; cbn in *; rewrite Hp in Hs; destruct Hs.
  - rewrite E3. apply (w_shut s W).
Qed.

Lemma wstep_run s e s' : kinv s -> winv s -> closed s = false ->
  e = RunRecv \/ e = RunSeeClosed \/ e = RunTakeSlot \/ e = RunCtxDone \/ e = RunRegW \/
  e = RunRegR \/ e = RunGrantW \/ e = RunDeferGo ->
  ostep s e = Some s' -> winv s'.
Proof.
  intros K W Hc [ -> | [ -> | [ -> | [ -> | [ -> | [ -> | [ -> | -> ] ] ] ] ] ] ] H; cbn in H.
  - (* RunRecv *) destruct (runpc s) eqn:Er; try discriminate. destruct (ch s) as [h|] eqn:Ec; try discriminate.
    inversion H; subst s'; clear H. apply (winv_same_pcs s); auto using core_eq_refl.
    unfold hset; cbn. now rewrite Er, Ec.
  - (* RunSeeClosed *) destruct (runpc s); try discriminate. rewrite Hc in H. discriminate.
  - (* RunTakeSlot *) destruct (runpc s) eqn:Er; try discriminate. destruct (oslot s); try discriminate.
    inversion H; subst s'; clear H. apply (winv_same_pcs s); auto using core_eq_refl.
    unfold hset; cbn. now rewrite Er.
  - (* RunCtxDone *) destruct (runpc s) as [|[t|t c]| | | |] eqn:Er; try discriminate.
    destruct (cdn s c); try discriminate. inversion H; subst s'; clear H.
    apply (winv_answer s _ (HR t c) (match ch s with Some h0 => [h0] | None => [] end) PErr W); cbn; auto;
      try discriminate; unfold hset; cbn; rewrite ?Er; auto using app_nil_r.
  - (* RunRegW *) destruct (runpc s) as [| |[t|t c]| | |] eqn:Er; try discriminate.
    inversion H; subst s'; clear H. apply (winv_same_pcs s); cbn; auto using core_eq_spawn_all.
    unfold hset; cbn. now rewrite Er.
  - (* RunRegR *) destruct (runpc s) as [| |[t|t c]| | |] eqn:Er; try discriminate.
    inversion H; subst s'; clear H.
    set (pre := match ch s with Some h0 => [h0] | None => [] end).
    assert (E0 : hset s = pre ++ [HR t c]) by (unfold hset; now rewrite Er).
    assert (Hh : hold_ok s (HR t c)) by (apply (w_hold s W); rewrite E0; apply in_or_app; right; now left).
    destruct Hh as [Hp Hr]. cbn in Hp, Hr.
    assert (Hnd := w_nd s W). rewrite E0, map_app in Hnd. cbn in Hnd.
    apply NoDup_remove in Hnd as [Hnd' Hnin]. rewrite app_nil_r in *.
    constructor; unfold hset; cbn [ch runpc set_run set_slot set_resp set_recs opcs resps rcs recs shut app].
    + rewrite app_nil_r. fold pre. intros h' Hin.
      assert (Hin' : In h' (hset s)) by (rewrite E0; apply in_or_app; now left).
      destruct (w_hold s W h' Hin') as [A B].
      assert (hold_tid h' <> t) by (intro E; apply Hnin; rewrite <- E; now apply in_map).
      unfold hold_ok. cbn. rewrite upd_other by auto. split; [exact A | exact B].
    + rewrite app_nil_r. exact Hnd'.
    + intros i n [Heq|Hin].
      * inversion Heq; subst. unfold owner_ok. cbn. eexists. rewrite nth_error_app2 by lia.
        rewrite Nat.sub_diag. cbn.
        split; [reflexivity|]. cbn. right. exists c. rewrite upd_same. auto.
      * apply del_idx_in in Hin as [Hin _]. destruct (w_own s W i n Hin) as (r & A & B).
        unfold owner_ok. cbn. exists r.
        split; [rewrite nth_error_app1; auto; apply nth_error_Some; congruence|].
        destruct (Z.eq_dec (r_tid r) t) as [E|N]; [|now rewrite upd_other].
        exfalso. rewrite E, Hp, Hr in B. destruct B as [B|(c1 & _ & B)]; discriminate.
    + intros x Hs. destruct (Z.eq_dec x t) as [->|N]; [rewrite Hp in Hs; destruct Hs|].
      rewrite upd_other by auto. apply (w_send s W x Hs).
    + apply (w_shut s W).
  - (* RunGrantW *) destruct (runpc s) as [| | |t| |] eqn:Er; try discriminate.
    destruct (wg s =? 0); try discriminate. inversion H; subst s'; clear H.
    apply (winv_answer s _ (HW t) (match ch s with Some h0 => [h0] | None => [] end) PSlot W); cbn; auto;
      try discriminate; unfold hset; cbn; rewrite ?Er; auto using app_nil_r.
  - (* RunDeferGo *) destruct (runpc s) eqn:Er; try discriminate.
    inversion H; subst s'; clear H. apply (winv_same_pcs s); cbn; auto using core_eq_spawn_all.
    unfold hset; cbn. now rewrite Er.
Qed.

Lemma wstep_env s e s' : kinv s -> winv s -> closed s' = false ->
  (exists n, e = OGrace n) \/ (exists c, e = OCancel c) \/ e = OShutdown \/ (exists d, e = OAdvance d) ->
  ostep s e = Some s' -> winv s'.
Proof.
  intros K W Hc [ [n -> ] | [ [c -> ] | [ -> | [d -> ] ] ] ] H; cbn in H.
  - destruct (nth_error (recs s) n) as [r|] eqn:En; try discriminate.
    destruct (r_at r); try discriminate.
    destruct (closed s || r_done r || (z + grace s <=? now s)); try discriminate.
    inversion H; subst s'; clear H.
    assert (K1 : kinv (clear_at s n)).
    { apply (kinv_frame s); auto using same_core_clear_at; unfold clear_at; destruct (nth_error (recs s) n); auto. }
    destruct (clear_at_fields s n) as (_ & _ & _ & _ & E5 & E6 & E7).
    apply winv_rcancel; auto.
    apply (winv_same_pcs s); auto using core_eq_clear_at, clear_at_rcs.
    + unfold hset. rewrite E5. unfold clear_at. destruct (nth_error (recs s) n); reflexivity.
    + unfold clear_at. destruct (nth_error (recs s) n); reflexivity.
  - inversion H; subst s'; clear H. apply (winv_same_pcs s); cbn; auto using core_eq_mark_parent.
  - inversion H; subst s'; clear H. cbn in Hc. discriminate.
  - destruct (d <? 0); try discriminate. inversion H; subst s'; clear H.
    apply (winv_same_pcs s); cbn; auto using core_eq_refl.
Qed.


Lemma closed_mono s e s' : ostep s e = Some s' -> closed s' = false -> closed s = false.
Proof.
  intros H Hc.
  destruct e; cbn in H;
    repeat match type of H with
           | match ?x with _ => _ end = Some _ => destruct x eqn:?; try discriminate
           | (if ?x then _ else _) = Some _ => destruct x eqn:?; try discriminate
           end;
    try (inversion H; subst s'; clear H; cbn in Hc; congruence).
  - inversion H; subst s'. unfold shut_lock in Hc. destruct (ch_send (shut s) t) as [c' ok]; destruct ok; cbn in Hc; congruence.
  - inversion H; subst s'. unfold shut_lock in Hc. destruct (ch_send (shut s) t) as [c' ok]; destruct ok; cbn in Hc; congruence.
  - inversion H; subst s'. cbn in Hc.
    unfold rcancel in Hc. destruct (nth_error (recs s) r); auto. destruct (r_done r0); auto.
  - inversion H; subst s'. unfold rcancel, clear_at in Hc.
    repeat (match type of Hc with context [match ?x with _ => _ end] => destruct x end; cbn in Hc); auto.
Qed.

Lemma wstep s e s' : kinv s -> (closed s = false -> winv s) -> ostep s e = Some s' ->
  closed s' = false -> winv s'.
Proof.
  intros K W H Hc'. pose proof (closed_mono s e s' H Hc') as Hc. specialize (W Hc).
  destruct e.
  - refine (wstep_clients s _ s' t K W Hc _ H); auto.
  - refine (wstep_clients s _ s' t K W Hc _ H); auto.
  - refine (wstep_clients s _ s' t K W Hc _ H); auto.
  - refine (wstep_clients s _ s' t K W Hc _ H); auto 6.
  - refine (wstep_clients s _ s' t K W Hc _ H); auto 7.
  - refine (wstep_clients s _ s' t K W Hc _ H); eauto 8.
  - refine (wstep_clients s _ s' t K W Hc _ H); auto 9.
  - refine (wstep_clients s _ s' t K W Hc _ H); auto 10.
  - refine (wstep_clients s _ s' t K W Hc _ H); auto 11.
  - refine (wstep_clients s _ s' t K W Hc _ H); auto 12.
  - refine (wstep_clients s _ s' t K W Hc _ H); auto 13.
  - refine (wstep_run s _ s' K W Hc _ H); auto.
  - refine (wstep_run s _ s' K W Hc _ H); auto.
  - refine (wstep_run s _ s' K W Hc _ H); auto.
  - refine (wstep_run s _ s' K W Hc _ H); auto 6.
  - refine (wstep_run s _ s' K W Hc _ H); auto 7.
  - refine (wstep_run s _ s' K W Hc _ H); auto 8.
  - refine (wstep_run s _ s' K W Hc _ H); auto 9.
  - refine (wstep_run s _ s' K W Hc _ H); auto 10.
  - refine (wstep_env s _ s' K W Hc' _ H); eauto.
  - refine (wstep_env s _ s' K W Hc' _ H); eauto.
  - refine (wstep_env s _ s' K W Hc' _ H); auto.
  - refine (wstep_env s _ s' K W Hc' _ H); eauto 6.
Qed.

Lemma winv_run g es : forall s, orun (oinit g) es = Some s -> closed s = false -> winv s.
Proof.
  assert (G : forall s s', kinv s /\ oinv2 s /\ (closed s = false -> winv s) -> orun s es = Some s' ->
                           kinv s' /\ oinv2 s' /\ (closed s' = false -> winv s')).
  { induction es as [|e es IH]; cbn; intros s s' Hi Hr.
    - inversion Hr; subst; exact Hi.
    - unfold orun in Hr; cbn in Hr. destruct (ostep s e) as [s1|] eqn:E; [|discriminate].
      eapply IH; [|exact Hr]. destruct Hi as (A & B & C).
      split; [eapply kinv_step; eauto|]. split; [eapply oinv2_step; eauto|].
      intro Hc. eapply wstep; eauto. }
  intros s Hr. eapply G; eauto. split; [apply kinv_init|]. split; [apply oinv2_init|].
  intros _. apply winv_init.
Qed.

(* (3) OWNERSHIP.  While the lock is running, every entry of rcancels belongs to a reader thread
   that holds the read lock - its RLock returned nil and it has not called its cancel func - or
   whose grant is in its response cell, about to be read.  No entry is ever left behind by a call
   that reported an error, whatever the random choices of the selects were. *)
Lemma outer_entries_owned : forall g es s i n, orun (oinit g) es = Some s -> closed s = false ->
  In (i, n) (rcs s) ->
  exists r, nth_error (recs s) n = Some r /\ r_idx r = i /\ r_done r = false /\
            (opcs s (r_tid r) = ORHold n \/
             exists c, opcs s (r_tid r) = ORResp c /\ resps s (r_tid r) = Some (PGrant n)).
Proof.
  intros g es s i n Hr Hc Hin. pose proof (winv_run g es s Hr Hc) as W.
  destruct (reg_run g es s Hr) as (_ & K & _).
  destruct (w_own s W i n Hin) as (r & A & B). destruct (k_ent s K i n Hin) as (r' & A' & I & D).
  rewrite A in A'. inversion A'; subst r'. exists r. auto.
Qed.

(* ... and an idle thread (in particular one whose RLock reported an error) owns none: *)
Lemma outer_idle_owns_nothing : forall g es s t i n r, orun (oinit g) es = Some s -> closed s = false ->
  opcs s t = OIdle -> In (i, n) (rcs s) -> nth_error (recs s) n = Some r -> r_tid r <> t.
Proof.
  intros g es s t i n r Hr Hc Hp Hin En E.
  destruct (outer_entries_owned g es s i n Hr Hc Hin) as (r' & A & _ & _ & B).
  rewrite En in A. inversion A; subst r'. rewrite E, Hp in B. destruct B as [B|(c & B & _)]; discriminate.
Qed.

(* non-vacuity / the seam of the seeded change C13-r3m2: reader 1 (index 0) is cancelled by a writer
   after the grace period; the writer unlocks; reader 2 is registered under index 0 again; reader 1
   now calls its cancel func: nothing changes - reader 2 keeps its registration, the WaitGroup
   still counts it, a second writer has to wait for it. *)
Example outer_stale_release_example :
  match orun (oinit 50) [ORCall 1 7; ORSendCh 1; RunRecv; RunTakeSlot; RunRegR; ORGot 1;
                         OWCall 3; OWSendCh 3; RunRecv; RunTakeSlot; RunRegW;
                         OAdvance 50; OGrace 0; RunGrantW; OWGot 3; OWUnlock 3;
                         ORCall 2 8; ORSendCh 2; RunRecv; RunTakeSlot; RunRegR; ORGot 2] with
  | Some s => rcs s = [(0, 1%nat)] /\ wg s = 1 /\ opcs s 1 = ORHold 0 /\ opcs s 2 = ORHold 1 /\
      match ostep s (ORRelease 1) with
      | Some s2 => rcs s2 = [(0, 1%nat)] /\ wg s2 = 1 /\ done_of s2 1 = false /\ opcs s2 1 = OIdle
      | None => False
      end
  | None => False
  end.
Proof. vm_compute. repeat split. Qed.
