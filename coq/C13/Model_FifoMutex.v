(* C13 — fifo.Mutex (/repo/concurrency/fifo/mutex.go) as an event system. Definitions only.

     type Mutex struct{ lock chan struct{} }         New: make(chan struct{}, 1)
     func (m *Mutex) Lock()   { m.lock <- struct{}{} }     (send   = acquire)
     func (m *Mutex) Unlock() { <-m.lock }                 (receive = release)

   The channel is [Common.chan1]; the FIFO wake-up of blocked senders is the Go-runtime
   assumption stated there.  A thread is in its critical section ([FHold]) from the moment its
   send has completed until it calls Unlock.  Ghost logs: [farr] = order in which threads arrived
   at the send, [fgrants] = order in which sends completed. *)
From Kit Require Export C13.Common.

Inductive fpc := FIdle | FWait | FHold.

Record fstate := mkf {
  fch : chan1;
  fpcs : tid -> fpc;
  farr : list tid;      (* ghost *)
  fgrants : list tid    (* ghost *)
}.

Inductive fev :=
| FLock (t : tid)       (* t executes  m.lock <- struct{}{}  (completes or parks in sendq) *)
| FUnlock (t : tid).    (* t executes  <-m.lock *)

Definition finit : fstate := mkf ch_empty (fun _ => FIdle) [] [].

Definition fstep (s : fstate) (e : fev) : option fstate :=
  match e with
  | FLock t =>
      match fpcs s t with
      | FIdle =>
          let '(c', ok) := ch_send (fch s) t in
          Some (mkf c' (upd (fpcs s) t (if ok then FHold else FWait)) (farr s ++ [t])
                    (if ok then fgrants s ++ [t] else fgrants s))
      | _ => None
      end
  | FUnlock t =>
      match fpcs s t with
      | FHold =>
          match ch_recv (fch s) with
          | None => None                                   (* would block: empty buffer *)
          | Some (c', None) => Some (mkf c' (upd (fpcs s) t FIdle) (farr s) (fgrants s))
          | Some (c', Some t') =>
              Some (mkf c' (upd (upd (fpcs s) t FIdle) t' FHold) (farr s) (fgrants s ++ [t']))
          end
      | _ => None
      end
  end.

Definition frun := run fstep.
