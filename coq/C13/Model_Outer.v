(* C13 — lock.OuterCancel (/repo/concurrency/lock/outercancel.go) as an event system.
   Definitions only.

   Goroutines: any number of client threads (one call in flight each), the single Run goroutine,
   one rcancelGrace goroutine per (reader, spawn), the environment (contexts, shutdown, time).

   Client side
     Lock():   select { <-closeCh: shutdownLock.Lock()            [OWClosed t]
                        ch <- &h }                                 [OWSendCh t]   (ch has 1 slot)
               select { <-closeCh: shutdownLock.Lock()            [OWClosed t]
                        resp := <-h.respCh: return resp.cancel }   [OWGot t]
               the returned func:  <-o.lock  /  shutdownLock.Unlock   [OWUnlock t]
     RLock(c): select { <-closeCh: errLockClosed                  [ORClosed t]
                        <-ctx.Done(): ctx.Err()                    [ORCtx t]
                        ch <- &h }                                 [ORSendCh t]
               select { <-closeCh: errLockClosed                  [ORClosed t]
                        resp := <-h.respCh }                       [ORGot t]
               the returned cancel (rcancel)                       [ORRelease t]
     When several cases of a select are ready Go chooses at random: all of them are enabled.
   Run goroutine
     for { select { <-closeCh: return (deferred: spawn every rcancels entry)  [RunSeeClosed] [RunDeferGo]
                    h := <-ch: handleHold(h) } }                   [RunRecv]
     handleHold: reader: select { o.lock <- {}                    [RunTakeSlot]
                                  <-h.rctx.Done(): reply err }     [RunCtxDone]
                 writer: o.lock <- {}                              [RunTakeSlot]
                 writer, under rcancelLock: go cancel() for every entry; rcancelx = 0   [RunRegW]
                         wg.Wait(); reply {cancel: <-o.lock}; the slot is KEPT         [RunGrantW]
                 reader, under rcancelLock: wg.Add(1); i := rcancelx; rcancels[i] = ..;
                         rcancelx++; then reply (respCh has 1 slot: never blocks) and
                         <-o.lock (never blocks: Run itself holds the slot)             [RunRegR]
   rcancelGrace goroutine of reader record r (spawned by a writer or by Run's deferred func):
     select { <-time.After(grace) | <-closeCh | <-doneCh } ; rcancel()                [OGrace r]
     rcancel, under rcancelLock: if !done { cancel(cancelErr); delete(rcancels, i); wg.Done(); done = true }
   Environment: [OCancel c] a client context ends; [OShutdown] Run's context ends and the
   watcher goroutine closes closeCh (merged: nothing else observes Run's context);
   [OAdvance d] time passes.

   A reader record is created by [RunRegR]; its id is its position in [recs].  [r_at] is the
   time at which its rcancelGrace goroutine was spawned (None: not spawned).  Ghost fields:
   [r_why] (which path ended it first), [r_by] (who spawned the grace goroutine), [owner]
   (who is responsible for the token in o.lock), [res] (outcome of a thread's last call).

   MODELLING NOTE.  A hold's respCh is the cell [resps t] of its thread.  In Go every call has a
   fresh channel; here a hold that its caller abandoned (the caller took the closeCh branch, which
   is possible only after shutdown) may still be answered by Run into the cell that a LATER call
   of the same thread reads, and a later answer overwrites an earlier one.  Every behaviour of the
   code is a behaviour of the model (the later call may ignore a stale answer until it is
   overwritten by its own, or take the closeCh branch); the model has a few more after shutdown.
   Theorems (invariants) therefore remain valid for the code; the correspondence check accepts a
   little more after shutdown than the code can do. *)
From Kit Require Export C13.Common C13.Spec.
Local Open Scope Z_scope.

Inductive hold := HW (t : tid) | HR (t : tid) (c : Z).

Inductive resp := PSlot | PGrant (r : nat) | PErr.

Inductive opc :=
| OIdle
| OWSend                 (* Lock(): in the first select *)
| OWResp                 (* Lock(): in the second select *)
| OWShutWait             (* parked in shutdownLock.Lock() *)
| OWHoldSlot             (* Lock() returned the slot-releasing func *)
| OWHoldShut             (* Lock() returned shutdownLock.Unlock *)
| ORSend (c : Z)
| ORResp (c : Z)
| ORHold (r : nat).      (* RLock returned (rctx, rcancel) of record r; rcancel not yet called *)

Inductive rpc :=
| RunIdle
| RunTake (h : hold)
| RunReg (h : hold)
| RunWait (t : tid)
| RunDefer
| RunDone.

Inductive spawner := SpW (t : tid) | SpShutdown.

(* context.Cause(rctx): the cause of the FIRST cancellation - the parent's own cause when the
   parent context ended first, the configured [cancelErr] when [cancel(o.cancelErr)] came first *)
Inductive cause := CConfigured | CParent.

Record rrec := mkr {
  r_tid : tid;
  r_ctx : Z;                  (* parent context *)
  r_idx : Z;                  (* key in rcancels *)
  r_done : bool;              (* the closure's [done] flag *)
  r_at : option Z;            (* rcancelGrace spawned at this time and not yet run *)
  r_by : option spawner;      (* ghost *)
  r_why : option why;         (* ghost: what ended rctx first *)
  r_cause : option cause      (* context.Cause(rctx); None while rctx is live *)
}.

Inductive slot_owner := NoOwner | OwnRun | OwnW (t : tid).

Record ostate := mko {
  grace : Z;
  now : Z;
  closed : bool;
  ch : option hold;
  oslot : bool;               (* o.lock holds its token *)
  owner : slot_owner;         (* ghost *)
  wg : Z;
  rcx : Z;                    (* rcancelx *)
  rcs : list (Z * nat);       (* rcancels: index -> record *)
  recs : list rrec;
  shut : chan1;               (* shutdownLock *)
  cdn : Z -> bool;            (* client contexts that are done *)
  resps : tid -> option resp; (* respCh of the thread's hold in flight *)
  runpc : rpc;
  opcs : tid -> opc;
  ores : tid -> tres          (* ghost *)
}.

Inductive oev :=
| OWCall (t : tid) | OWSendCh (t : tid) | OWClosed (t : tid) | OWGot (t : tid) | OWUnlock (t : tid)
| ORCall (t : tid) (c : Z) | ORSendCh (t : tid) | ORClosed (t : tid) | ORCtx (t : tid)
| ORGot (t : tid) | ORRelease (t : tid)
| RunRecv | RunSeeClosed | RunTakeSlot | RunCtxDone | RunRegW | RunRegR | RunGrantW | RunDeferGo
| OGrace (r : nat)
| OCancel (c : Z) | OShutdown | OAdvance (d : Z).

Definition oinit (g : Z) : ostate :=
  mko g 0 false None false NoOwner 0 0 [] [] ch_empty (fun _ => false) (fun _ => None)
      RunIdle (fun _ => OIdle) (fun _ => RNone).

(* --- field updates ------------------------------------------------------------------ *)
Definition set_opc (s : ostate) (t : tid) (p : opc) : ostate :=
  mko (grace s) (now s) (closed s) (ch s) (oslot s) (owner s) (wg s) (rcx s) (rcs s) (recs s)
      (shut s) (cdn s) (resps s) (runpc s) (upd (opcs s) t p) (ores s).
Definition set_ores (s : ostate) (t : tid) (r : tres) : ostate :=
  mko (grace s) (now s) (closed s) (ch s) (oslot s) (owner s) (wg s) (rcx s) (rcs s) (recs s)
      (shut s) (cdn s) (resps s) (runpc s) (opcs s) (upd (ores s) t r).
Definition set_ch (s : ostate) (c : option hold) : ostate :=
  mko (grace s) (now s) (closed s) c (oslot s) (owner s) (wg s) (rcx s) (rcs s) (recs s)
      (shut s) (cdn s) (resps s) (runpc s) (opcs s) (ores s).
Definition set_run (s : ostate) (r : rpc) : ostate :=
  mko (grace s) (now s) (closed s) (ch s) (oslot s) (owner s) (wg s) (rcx s) (rcs s) (recs s)
      (shut s) (cdn s) (resps s) r (opcs s) (ores s).
Definition set_slot (s : ostate) (b : bool) (w : slot_owner) : ostate :=
  mko (grace s) (now s) (closed s) (ch s) b w (wg s) (rcx s) (rcs s) (recs s)
      (shut s) (cdn s) (resps s) (runpc s) (opcs s) (ores s).
Definition set_resp (s : ostate) (t : tid) (r : option resp) : ostate :=
  mko (grace s) (now s) (closed s) (ch s) (oslot s) (owner s) (wg s) (rcx s) (rcs s) (recs s)
      (shut s) (cdn s) (upd (resps s) t r) (runpc s) (opcs s) (ores s).
Definition set_shut (s : ostate) (c : chan1) : ostate :=
  mko (grace s) (now s) (closed s) (ch s) (oslot s) (owner s) (wg s) (rcx s) (rcs s) (recs s)
      c (cdn s) (resps s) (runpc s) (opcs s) (ores s).
Definition set_recs (s : ostate) (w x : Z) (m : list (Z * nat)) (l : list rrec) : ostate :=
  mko (grace s) (now s) (closed s) (ch s) (oslot s) (owner s) w x m l
      (shut s) (cdn s) (resps s) (runpc s) (opcs s) (ores s).

(* --- records ------------------------------------------------------------------------ *)
Fixpoint set_nth {A} (n : nat) (x : A) (l : list A) : list A :=
  match l, n with
  | [], _ => []
  | _ :: l', O => x :: l'
  | y :: l', S n' => y :: set_nth n' x l'
  end.

Definition del_idx (i : Z) (m : list (Z * nat)) : list (Z * nat) :=
  filter (fun p => negb (Z.eqb (fst p) i)) m.

(* rctx of record r is done: its own cancel ran, or the parent ended *)
Definition rctx_done (s : ostate) (r : rrec) : bool := r_done r || cdn s (r_ctx r).

(* `go cancel()` for every entry of rcancels: the rcancelGrace goroutine of each such record
   starts now (a goroutine already pending for the record is kept: rcancel is idempotent) *)
Definition spawn_all (m : list (Z * nat)) (t0 : Z) (by_ : spawner) (l : list rrec) : list rrec :=
  fold_left (fun l p =>
               match nth_error l (snd p) with
               | Some r => match r_at r with
                           | Some _ => l
                           | None => set_nth (snd p) (mkr (r_tid r) (r_ctx r) (r_idx r) (r_done r)
                                                          (Some t0) (Some by_) (r_why r) (r_cause r)) l
                           end
               | None => l
               end) m l.

(* rcancel of record n, [y] = the path that calls it *)
Definition rcancel (s : ostate) (n : nat) (y : why) : ostate :=
  match nth_error (recs s) n with
  | Some r =>
      if r_done r then s
      else set_recs s (wg s - 1) (rcx s) (del_idx (r_idx r) (rcs s))
             (set_nth n (mkr (r_tid r) (r_ctx r) (r_idx r) true (r_at r) (r_by r)
                             (match r_why r with Some y0 => Some y0 | None => Some y end)
                             (match r_cause r with Some c0 => Some c0 | None => Some CConfigured end))
                      (recs s))
  | None => s
  end.

Definition clear_at (s : ostate) (n : nat) : ostate :=
  match nth_error (recs s) n with
  | Some r => set_recs s (wg s) (rcx s) (rcs s)
                (set_nth n (mkr (r_tid r) (r_ctx r) (r_idx r) (r_done r) None (r_by r) (r_why r) (r_cause r)) (recs s))
  | None => s
  end.

(* a parent context ends: every live rctx below it ends "by parent" *)
Definition mark_parent (c : Z) (l : list rrec) : list rrec :=
  map (fun r => if Z.eqb (r_ctx r) c
                then mkr (r_tid r) (r_ctx r) (r_idx r) (r_done r) (r_at r) (r_by r)
                         (match r_why r with Some y => Some y | None => Some ByParent end)
                         (match r_cause r with Some c0 => Some c0 | None => Some CParent end)
                else r) l.

(* shutdownLock.Lock() by t *)
Definition shut_lock (s : ostate) (t : tid) : ostate :=
  let '(c', ok) := ch_send (shut s) t in
  let s1 := set_shut s c' in
  if ok then set_ores (set_opc s1 t OWHoldShut) t ROk else set_opc s1 t OWShutWait.

Definition ostep (s : ostate) (e : oev) : option ostate :=
  match e with
  (* ---- writers ---- *)
  | OWCall t =>
      match opcs s t with
      | OIdle => Some (set_ores (set_resp (set_opc s t OWSend) t None) t RNone)
      | _ => None
      end
  | OWSendCh t =>
      match opcs s t, ch s with
      | OWSend, None => Some (set_opc (set_ch s (Some (HW t))) t OWResp)
      | _, _ => None
      end
  | OWClosed t =>
      match opcs s t with
      | OWSend | OWResp => if closed s then Some (shut_lock s t) else None
      | _ => None
      end
  | OWGot t =>
      match opcs s t, resps s t with
      | OWResp, Some PSlot => Some (set_ores (set_resp (set_opc s t OWHoldSlot) t None) t ROk)
      | _, _ => None
      end
  | OWUnlock t =>
      match opcs s t with
      | OWHoldSlot => if oslot s then Some (set_opc (set_slot s false NoOwner) t OIdle) else None
      | OWHoldShut =>
          match ch_recv (shut s) with
          | None => None
          | Some (c', None) => Some (set_opc (set_shut s c') t OIdle)
          | Some (c', Some t') =>
              Some (set_ores (set_opc (set_opc (set_shut s c') t OIdle) t' OWHoldShut) t' ROk)
          end
      | _ => None
      end
  (* ---- readers ---- *)
  | ORCall t c =>
      match opcs s t with
      | OIdle => Some (set_ores (set_resp (set_opc s t (ORSend c)) t None) t RNone)
      | _ => None
      end
  | ORSendCh t =>
      match opcs s t, ch s with
      | ORSend c, None => Some (set_opc (set_ch s (Some (HR t c))) t (ORResp c))
      | _, _ => None
      end
  | ORClosed t =>
      match opcs s t with
      | ORSend _ | ORResp _ => if closed s then Some (set_ores (set_opc s t OIdle) t RClosed) else None
      | _ => None
      end
  | ORCtx t =>
      match opcs s t with
      | ORSend c => if cdn s c then Some (set_ores (set_opc s t OIdle) t RCtxErr) else None
      | _ => None
      end
  | ORGot t =>
      match opcs s t, resps s t with
      | ORResp _, Some (PGrant r) => Some (set_ores (set_resp (set_opc s t (ORHold r)) t None) t ROk)
      | ORResp _, Some PErr => Some (set_ores (set_resp (set_opc s t OIdle) t None) t RCtxErr)
      | _, _ => None
      end
  | ORRelease t =>
      match opcs s t with
      | ORHold r => Some (set_opc (rcancel s r ByOwn) t OIdle)
      | _ => None
      end
  (* ---- the Run goroutine ---- *)
  | RunRecv =>
      match runpc s, ch s with
      | RunIdle, Some h => Some (set_run (set_ch s None) (RunTake h))
      | _, _ => None
      end
  | RunSeeClosed =>
      match runpc s with
      | RunIdle => if closed s then Some (set_run s RunDefer) else None
      | _ => None
      end
  | RunTakeSlot =>
      match runpc s with
      | RunTake h => if oslot s then None else Some (set_run (set_slot s true OwnRun) (RunReg h))
      | _ => None
      end
  | RunCtxDone =>
      match runpc s with
      | RunTake (HR t c) => if cdn s c then Some (set_run (set_resp s t (Some PErr)) RunIdle) else None
      | _ => None
      end
  | RunRegW =>
      match runpc s with
      | RunReg (HW t) =>
          Some (set_run (set_recs s (wg s) 0 (rcs s) (spawn_all (rcs s) (now s) (SpW t) (recs s)))
                        (RunWait t))
      | _ => None
      end
  | RunRegR =>
      match runpc s with
      | RunReg (HR t c) =>
          let n := length (recs s) in
          let r := mkr t c (rcx s) false None None (if cdn s c then Some ByParent else None)
                       (if cdn s c then Some CParent else None) in
          let s1 := set_recs s (wg s + 1) (rcx s + 1)
                             ((rcx s, n) :: del_idx (rcx s) (rcs s)) (recs s ++ [r]) in
          Some (set_run (set_slot (set_resp s1 t (Some (PGrant n))) false NoOwner) RunIdle)
      | _ => None
      end
  | RunGrantW =>
      match runpc s with
      | RunWait t =>
          if Z.eqb (wg s) 0
          then Some (set_run (set_slot (set_resp s t (Some PSlot)) (oslot s) (OwnW t)) RunIdle)
          else None
      | _ => None
      end
  | RunDeferGo =>
      match runpc s with
      | RunDefer =>
          Some (set_run (set_recs s (wg s) (rcx s) (rcs s)
                                  (spawn_all (rcs s) (now s) SpShutdown (recs s))) RunDone)
      | _ => None
      end
  (* ---- rcancelGrace ---- *)
  | OGrace n =>
      match nth_error (recs s) n with
      | Some r =>
          match r_at r with
          | Some a =>
              if closed s || r_done r || (a + grace s <=? now s)
              then Some (rcancel (clear_at s n) n (if closed s then ByShutdown else ByWriter))
              else None
          | None => None
          end
      | None => None
      end
  (* ---- environment ---- *)
  | OCancel c =>
      Some (mko (grace s) (now s) (closed s) (ch s) (oslot s) (owner s) (wg s) (rcx s) (rcs s)
                (mark_parent c (recs s)) (shut s) (upd (cdn s) c true) (resps s) (runpc s) (opcs s) (ores s))
  | OShutdown =>
      Some (mko (grace s) (now s) true (ch s) (oslot s) (owner s) (wg s) (rcx s) (rcs s) (recs s)
                (shut s) (cdn s) (resps s) (runpc s) (opcs s) (ores s))
  | OAdvance d =>
      if d <? 0 then None
      else Some (mko (grace s) (now s + d) (closed s) (ch s) (oslot s) (owner s) (wg s) (rcx s) (rcs s)
                     (recs s) (shut s) (cdn s) (resps s) (runpc s) (opcs s) (ores s))
  end.

Definition orun := run ostep.

(* the two kinds of exclusive holder and the shared holders that have not been told to stop *)
Definition wholds (s : ostate) (t : tid) : Prop := opcs s t = OWHoldSlot \/ opcs s t = OWHoldShut.

Definition rholds (s : ostate) (t : tid) : Prop :=
  exists n r, opcs s t = ORHold n /\ nth_error (recs s) n = Some r /\ rctx_done s r = false.
