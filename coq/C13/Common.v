(* C13 — locks: definitions shared by the five event-system models. Definitions only
   (plus three one-line facts about [upd]).

   Client goroutines are thread ids ([tid := Z], an unbounded set); each model keeps one program
   counter per thread in a total function [tid -> pc] (every thread starts idle).  Sets of
   threads inside a lock object (blocked senders, registered users ...) are lists of ids.
   A schedule is a [list event]; [run] folds [step]; [step s e = None] means: [e] is not enabled
   in [s] — the thread is not at that program point, the blocking condition of the Go statement
   does not hold, or the client would break the pairing discipline ("goroutines that pair their
   calls correctly": a thread releases only what it was granted, once, and has one call in
   flight).  Hence "for every interleaving of correctly paired calls" is
   [forall es s, run init es = Some s -> ...]. *)
From Kit Require Export Lib.Base.

Definition tid := Z.
Definition key := Z.
Definition oid := nat.          (* identity of a heap-allocated lock object *)

Definition upd {A} (f : Z -> A) (x : Z) (v : A) : Z -> A :=
  fun y => if Z.eqb y x then v else f y.

Definition updn {A} (f : nat -> A) (x : nat) (v : A) : nat -> A :=
  fun y => if Nat.eqb y x then v else f y.

Lemma upd_same {A} (f : Z -> A) x v : upd f x v x = v.
Proof. unfold upd. now rewrite Z.eqb_refl. Qed.

Lemma upd_other {A} (f : Z -> A) x y v : y <> x -> upd f x v y = f y.
Proof. intro H. unfold upd. apply Z.eqb_neq in H. now rewrite H. Qed.

Lemma updn_same {A} (f : nat -> A) x v : updn f x v x = v.
Proof. unfold updn. now rewrite Nat.eqb_refl. Qed.

Lemma updn_other {A} (f : nat -> A) x y v : y <> x -> updn f x v y = f y.
Proof. intro H. unfold updn. apply Nat.eqb_neq in H. now rewrite H. Qed.

Definition memz (x : Z) (l : list Z) : bool := existsb (Z.eqb x) l.

Fixpoint remz (x : Z) (l : list Z) : list Z :=
  match l with
  | [] => []
  | y :: l' => if Z.eqb x y then l' else y :: remz x l'
  end.

(* generic fold of a partial step function *)
Section Run.
  Context {St Ev : Type} (step : St -> Ev -> option St).
  Fixpoint run (s : St) (es : list Ev) : option St :=
    match es with
    | [] => Some s
    | e :: es' => match step s e with Some s' => run s' es' | None => None end
    end.
End Run.

(* [1-slot channel used as a lock]  (fifo.Mutex, and the per-key mutexes of fifo.Map).
   GO-RUNTIME ASSUMPTION (trusted base, not derived): goroutines blocked in a send on a full
   buffered channel wait in the channel's FIFO [sendq]; a receive that finds blocked senders
   takes the buffered element and, in the same atomic step, moves the FIRST blocked sender's
   element into the buffer and readies that sender (runtime/chan.go: chanrecv -> recv).
   [slot] = the buffer is full; [sendq] = the blocked senders, oldest first. *)
Record chan1 := mkch { slot : bool; sendq : list tid }.

Definition ch_empty : chan1 := mkch false [].

(* send by [t]: returns the new channel and whether the send completed at once *)
Definition ch_send (c : chan1) (t : tid) : chan1 * bool :=
  if slot c then (mkch true (sendq c ++ [t]), false) else (mkch true (sendq c), true).

(* receive: [None] = would block (buffer empty); otherwise the new channel and the sender (if any)
   whose blocked send completed *)
Definition ch_recv (c : chan1) : option (chan1 * option tid) :=
  if slot c then
    match sendq c with
    | [] => Some (mkch false [], None)
    | t :: q => Some (mkch true q, Some t)
    end
  else None.
