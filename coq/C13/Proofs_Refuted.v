(* C13 — the two places where the full exclusion statement is FALSE of the faithful models:
   concrete schedules, checked by computation. *)
From Kit Require Import C13.Model_CMap C13.Model_Outer C13.Spec.
Local Open Scope Z_scope.

(* cmap.Mutex: A=1 holds key 5; B=2 blocks on the same RWMutex; A DeleteUnlock(5); B now holds
   the orphan; C=3 finds no entry, creates a fresh mutex and holds key 5 too. *)
Definition cmap_witness : list cev :=
  [CLookup 1 W 5; CCreate 1; CArrive 1; CAnnounce 1; CWGrant 1;
   CLookup 2 W 5; CArrive 2;
   CDeleteUnlock 1 5;
   CAnnounce 2; CWGrant 2;
   CLookup 3 W 5; CCreate 3; CArrive 3; CAnnounce 3; CWGrant 3].

Lemma cmap_delete_refuted : exists es s k t1 t2,
  crun cinit es = Some s /\ t1 <> t2 /\ fatal s = false /\
  (exists o1, cpcs s t1 = CInW k o1) /\ (exists o2, cpcs s t2 = CInW k o2) /\
  ~ excl (fun t => exists o, cpcs s t = CInW k o) (fun t => exists o, cpcs s t = CInR k o).
Proof.
  destruct (crun cinit cmap_witness) as [s|] eqn:E; [|vm_compute in E; discriminate].
  exists cmap_witness, s, 5, 2, 3.
  assert (H2 : cpcs s 2 = CInW 5 0%nat) by (vm_compute in E; inversion E; reflexivity).
  assert (H3 : cpcs s 3 = CInW 5 1%nat) by (vm_compute in E; inversion E; reflexivity).
  assert (Hf : fatal s = false) by (vm_compute in E; inversion E; reflexivity).
  repeat split; eauto; try lia.
  intros [Hx _]. specialize (Hx 2 3 (ex_intro _ _ H2) (ex_intro _ _ H3)). lia.
Qed.

(* ... followed by B's Unlock(5): the look-up finds C's mutex and unlocks it; C is still inside
   its critical section but its RWMutex is no longer write-locked. *)
Lemma cmap_delete_refuted_unlock : exists es s k t2 t3 o3,
  crun cinit es = Some s /\ fatal s = false /\ cpcs s t2 = CIdle /\ cpcs s t3 = CInW k o3 /\
  citems s k = Some o3 /\ rw_w (cobjs s o3) = false.
Proof.
  destruct (crun cinit (cmap_witness ++ [CUnlock 2 5])) as [s|] eqn:E; [|vm_compute in E; discriminate].
  exists (cmap_witness ++ [CUnlock 2 5]), s, 5, 2, 3, 1%nat.
  vm_compute in E. inversion E; subst s. repeat split; reflexivity.
Qed.

(* reader variant: two readers, one DeleteRUnlock; a writer locks the fresh mutex while the other
   reader is still inside *)
Lemma cmap_delete_reader_refuted : exists es s k tw tr,
  crun cinit es = Some s /\ fatal s = false /\
  (exists o, cpcs s tw = CInW k o) /\ (exists o, cpcs s tr = CInR k o).
Proof.
  pose (es := [CLookup 1 R 5; CCreate 1; CArrive 1; CLookup 2 R 5; CArrive 2; CDeleteRUnlock 1 5;
               CLookup 3 W 5; CCreate 3; CArrive 3; CAnnounce 3; CWGrant 3]).
  destruct (crun cinit es) as [s|] eqn:E; [|vm_compute in E; discriminate].
  exists es, s, 5, 3, 2. vm_compute in E. inversion E; subst s.
  repeat split; eexists; reflexivity.
Qed.

(* lock.OuterCancel: writer 1 is granted through Run (it keeps the token of o.lock); shutdown;
   writer 2 arrives, sees closeCh closed and is served by shutdownLock: both hold. *)
Definition outer_witness : list oev :=
  [OWCall 1; OWSendCh 1; RunRecv; RunTakeSlot; RunRegW; RunGrantW; OWGot 1;
   OShutdown;
   OWCall 2; OWClosed 2].

Lemma outer_excl_refuted : forall g, exists es s t1 t2,
  orun (oinit g) es = Some s /\ t1 <> t2 /\ wholds s t1 /\ wholds s t2 /\
  ~ excl (wholds s) (rholds s).
Proof.
  intro g.
  destruct (orun (oinit g) outer_witness) as [s|] eqn:E; [|vm_compute in E; discriminate].
  exists outer_witness, s, 1, 2.
  assert (H1 : opcs s 1 = OWHoldSlot) by (vm_compute in E; inversion E; reflexivity).
  assert (H2 : opcs s 2 = OWHoldShut) by (vm_compute in E; inversion E; reflexivity).
  repeat split; try exact E; try lia; try (left; exact H1); try (right; exact H2).
  intros [Hx _]. specialize (Hx 1 2 (or_introl H1) (or_intror H2)). lia.
Qed.

(* the same defect on the reader side: reader 1 holds (context 7 live, not cancelled); writer 2 is
   waiting for the grace period; shutdown; the writer takes the closeCh branch and is granted by
   shutdownLock BEFORE the reader's rcancelGrace goroutine has run. *)
Lemma outer_shutdown_reader_refuted : forall g, 0 < g -> exists es s tw tr,
  orun (oinit g) es = Some s /\ wholds s tw /\ rholds s tr.
Proof.
  intros g Hg.
  pose (es := [ORCall 1 7; ORSendCh 1; RunRecv; RunTakeSlot; RunRegR; ORGot 1;
               OWCall 2; OWSendCh 2; RunRecv; RunTakeSlot; RunRegW;
               OShutdown; OWClosed 2]).
  destruct (orun (oinit g) es) as [s|] eqn:E; [|vm_compute in E; discriminate].
  exists es, s, 2, 1. split; [exact E|].
  vm_compute in E. inversion E; subst s.
  split; [right; reflexivity|].
  exists 0%nat. eexists. repeat split; reflexivity.
Qed.
