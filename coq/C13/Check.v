(* C13 — executable correspondence interface.

   The harness drives ONE lock object with a script: each step issues one call (from the worker
   goroutine of thread i, or a context cancellation / shutdown / delete from the driver), waits
   until every goroutine of the process is parked (a quiescent point) and records, per thread,
   whether its call has returned and with what, plus the entry count where the lock has one.
   A step whose thread is not in the right state (e.g. Unlock by a thread that is still waiting)
   is not issued and recorded as skipped.
   A BATCH step (fifo map, cmap) places context switches INSIDE calls: the driver takes the map's
   own lock, issues 2-3 calls of distinct threads one by one (each parks at the start of its first
   map section), then lets go; the calls' map sections and mutex operations interleave for real and
   one observation is taken at the next quiescent point.  The model side explores every
   interleaving of the members' events (first events in issue order for the fifo map, whose map
   lock is a FIFO mutex; in any order for cmap) and keeps the final states that match.

   [check_case] (a) evaluates the spec oracles (Spec.v) on the observations — verdict 2, or 3
   when the faithful model does not reproduce the failing history — and
   (b) checks that the observations are explained by the model — verdict 1: starting from the
   initial state it keeps the SET of model states compatible with everything observed so far;
   a step applies the call's first event to each of them, explores every interleaving of the
   internal events (the rest of the call, hand-overs, select choices, the Run goroutine, grace
   timers as optional events) up to quiescence, and keeps the quiescent states whose projection
   equals the observation.  An empty set = the implementation did something the model cannot. *)
From Kit Require Export C13.Model_FifoMutex C13.Model_FifoMap C13.Model_CMap C13.Model_Ctx
  C13.Model_Outer C13.Spec Lib.CheckLib.
Local Open Scope Z_scope.

(* ===================================================================================== *)
(* scripts and observations                                                                *)

Inductive lockkind := LFifo | LFifoMap | LCMap | LCtx | LOuter
  | LOuterLong.   (* outer-cancel lock whose grace period is hours and is never waited for: no grace
                     timer can have fired, the model gets no optional timer events *)

Inductive sop :=
| SLock (t : tid) (k : key) (c : Z)     (* exclusive acquisition of key k with context c *)
| SRLock (t : tid) (k : key) (c : Z)    (* shared acquisition *)
| SUnlock (t : tid)                     (* release what t holds, the matching way *)
| SDelUnlock (t : tid)                  (* cmap: DeleteUnlock / DeleteRUnlock *)
| SDelete (k : key)                     (* cmap: Delete(k), by the driver *)
| SClear                                (* cmap: Clear(), by the driver *)
| SCancel (c : Z)                       (* client context c ends *)
| SShutdown                             (* outer: Run's context ends *)
| SGrace                                (* outer: the driver waits for the grace timers *)
| SBatch (l : list sop).                (* fifo map / cmap: the driver holds the map's OWN lock, issues
                                           these calls one by one (each parks on the map lock, in this
                                           order), then lets go: the calls' map sections and mutex
                                           operations interleave for real; one observation, at the end *)

Record sobs := mkso {
  so_skip : bool;
  so_st : list tstat;
  so_res : list tres;
  so_entries : Z
}.

Inductive case :=
| CScript (l : lockkind) (n : Z) (keys : list key) (ops : list sop) (obs : list sobs)
          (arrivals grants : list (list tid))      (* per key of [keys], in order *)
          (occ_bad early badcause stuck : bool).

(* ===================================================================================== *)
(* generic exploration                                                                     *)

Section Explore.
  Context {St Ev : Type}.
  Variable step : St -> Ev -> option St.
  Variable musts : St -> list Ev.          (* candidate internal events (enabledness = step) *)
  Variable opts : St -> list (list Ev).    (* optional event sequences (timers) *)
  Variable fp : St -> list Z.              (* fingerprint: equal fingerprints = same state *)

  Definition succs (s : St) : list St :=
    flat_map (fun e => match step s e with Some s' => [s'] | None => [] end) (musts s).

  Definition opt_succs (s : St) : list St :=
    flat_map (fun es => match run step s es with Some s' => [s'] | None => [] end) (opts s).

  Definition is_nil {A} (l : list A) : bool := match l with [] => true | _ => false end.

  Fixpoint dedupe (l : list St) (seen : list (list Z)) (acc : list St) : list St * list (list Z) :=
    match l with
    | [] => (acc, seen)
    | s :: l' =>
        let f := fp s in
        if existsb (eqb_listZ f) seen then dedupe l' seen acc
        else dedupe l' (f :: seen) (acc ++ [s])
    end.

  Fixpoint explore (fuel : nat) (frontier : list St) (seen : list (list Z)) (acc : list St) : list St :=
    match fuel with
    | O => acc
    | S f =>
        match frontier with
        | [] => acc
        | _ =>
            let q := filter (fun s => is_nil (succs s)) frontier in
            let nxt := flat_map (fun s => match succs s with [] => opt_succs s | l => l end) frontier in
            let '(nxt', seen') := dedupe nxt seen [] in
            explore f nxt' seen' (acc ++ q)
        end
    end.

  Definition quiescents (s : St) : list St := explore 200 [s] [fp s] [].
End Explore.

(* Exploration with PENDING first events (a batch): besides the internal events, any pending
   event (ordered = false) or only the oldest one (ordered = true: the map lock is a FIFO mutex)
   may fire; a state is final when nothing is pending and no internal event is enabled. *)
Section Pending.
  Context {St Ev : Type}.
  Variable step : St -> Ev -> option St.
  Variable musts : St -> list Ev.
  Variable fp : St -> list Z.
  Variable ordered : bool.

  Definition pst : Type := St * list (Z * Ev).

  Fixpoint drop_idx (i : Z) (p : list (Z * Ev)) : list (Z * Ev) :=
    match p with
    | [] => []
    | x :: p' => if Z.eqb (fst x) i then p' else x :: drop_idx i p'
    end.

  Definition pstep (s : pst) (e : Ev + Z) : option pst :=
    match e with
    | inl e0 => match step (fst s) e0 with Some s' => Some (s', snd s) | None => None end
    | inr i =>
        match (if ordered then match snd s with x :: _ => if Z.eqb (fst x) i then Some x else None | [] => None end
               else find (fun x => Z.eqb (fst x) i) (snd s)) with
        | Some x => match step (fst s) (snd x) with
                    | Some s' => Some (s', drop_idx i (snd s))
                    | None => None
                    end
        | None => None
        end
    end.

  Definition pmusts (s : pst) : list (Ev + Z) :=
    map inl (musts (fst s)) ++ map (fun x => inr (fst x)) (snd s).

  Definition pfp (s : pst) : list Z := map fst (snd s) ++ (-7) :: fp (fst s).

  Fixpoint number (i : Z) (l : list Ev) : list (Z * Ev) :=
    match l with [] => [] | e :: l' => (i, e) :: number (i + 1) l' end.

  Definition quiescents_pending (s : St) (evs : list Ev) : list St :=
    flat_map (fun q : pst => match snd q with [] => [fst q] | _ => [] end)
             (quiescents pstep pmusts (fun _ => []) pfp (s, number 0 evs)).
End Pending.

Definition zseq (n : Z) : list Z := map Z.of_nat (seq 0 (Z.to_nat n)).
Definition bz (b : bool) : Z := if b then 1 else 0.
Definition oz (o : option Z) : list Z := match o with Some z => [1; z] | None => [0] end.
Definition lz (l : list Z) : list Z := Z.of_nat (length l) :: l.
Definition ctx_universe : list Z := zseq 8.

(* ===================================================================================== *)
(* per lock: first event of an op, internal events, projection, fingerprint                *)

(* ---- fifo.Mutex ---- *)
Definition f_api (s : fstate) (op : sop) : option (list fev) :=
  match op with
  | SLock t _ _ => match fpcs s t with FIdle => Some [FLock t] | _ => None end
  | SUnlock t => match fpcs s t with FHold => Some [FUnlock t] | _ => None end
  | _ => None
  end.
Definition f_stat (s : fstate) (t : tid) : tstat :=
  match fpcs s t with FIdle => TIdle | FWait => TWaitW 0 | FHold => THoldW 0 end.
Definition f_fp (n : Z) (s : fstate) : list Z :=
  bz (slot (fch s)) :: lz (sendq (fch s)) ++
  map (fun t => match fpcs s t with FIdle => 0 | FWait => 1 | FHold => 2 end) (zseq n).

(* ---- fifo.Map ---- *)
Definition m_api (s : mstate) (op : sop) : option (list mev) :=
  match op with
  | SLock t k _ => match mpcs s t with MIdle => Some [MLockA t k] | _ => None end
  | SUnlock t => match mpcs s t with MHold k _ => Some [MUnlockA t k] | _ => None end
  | _ => None
  end.
Definition m_musts (n : Z) (s : mstate) : list mev :=
  flat_map (fun t => [MLockB t; MUnlockB t]) (zseq n).
Definition m_stat (s : mstate) (t : tid) : tstat :=
  match mpcs s t with
  | MIdle | MRel _ => TIdle
  | MAt k _ | MWait k _ => TWaitW k
  | MHold k _ => THoldW k
  end.
Definition m_fp (n : Z) (keys : list key) (s : mstate) : list Z :=
  bz (mpanic s) :: Z.of_nat (next s) ::
  flat_map (fun t => match mpcs s t with
                     | MIdle => [0] | MAt k o => [1; k; Z.of_nat o] | MWait k o => [2; k; Z.of_nat o]
                     | MHold k o => [3; k; Z.of_nat o] | MRel o => [4; Z.of_nat o]
                     end) (zseq n) ++
  flat_map (fun o => bz (slot (objs s o)) :: lz (sendq (objs s o))) (seq 0 (next s)) ++
  flat_map (fun k => match items s k with
                     | Some it => [1; Z.of_nat (it_obj it); it_len it]
                     | None => [0]
                     end ++ lz (karr s k) ++ lz (kgrants s k)) keys.

(* a fifo-map batch holds at most one Lock per key - the arrival order at the key mutex is then the
   issue order - or exactly two Locks of a key that has no entry (the two first calls of a fresh
   key: one of them is inside afterwards, and it was first) *)
Definition m_batch_ok (s : mstate) (l : list sop) : bool :=
  forallb (fun a => match a with
                    | SLock _ k _ =>
                        let c := count (fun b => match b with SLock _ k' _ => Z.eqb k k' | _ => false end) l in
                        (c <=? 1)%nat || ((c =? 2)%nat && negb (present s k))
                    | _ => true
                    end) l.

(* ---- cmap.Mutex ---- *)
Definition c_api (s : cstate) (tainted : list key) (op : sop) : option (list cev) :=
  match op with
  | SLock t k _ => match cpcs s t with CIdle => Some [CLookup t W k] | _ => None end
  | SRLock t k _ => match cpcs s t with CIdle => Some [CLookup t R k] | _ => None end
  | SUnlock t =>
      match cpcs s t with
      | CInW k _ => if memz k tainted then None else Some [CUnlock t k]
      | CInR k _ => if memz k tainted then None else Some [CRUnlock t k]
      | _ => None
      end
  | SDelUnlock t =>
      match cpcs s t with
      | CInW k _ => if memz k tainted then None else Some [CDeleteUnlock t k]
      | CInR k _ => if memz k tainted then None else Some [CDeleteRUnlock t k]
      | _ => None
      end
  | SDelete k => Some [CDelete (-1) k]
  | SClear => Some [CClear (-1)]
  | _ => None
  end.
Definition c_musts (n : Z) (s : cstate) : list cev :=
  flat_map (fun t => [CCreate t; CArrive t; CAnnounce t; CWGrant t]) (zseq n).
Definition c_stat (s : cstate) (t : tid) : tstat :=
  match cpcs s t with
  | CIdle => TIdle
  | CNeed W k | CAt W k _ | CWaitW k _ => TWaitW k
  | CNeed R k | CAt R k _ | CWaitR k _ => TWaitR k
  | CInW k _ => THoldW k
  | CInR k _ => THoldR k
  end.
Definition mdz (m : md) : Z := match m with W => 0 | R => 1 end.
Definition c_fp (n : Z) (keys : list key) (s : cstate) : list Z :=
  bz (fatal s) :: Z.of_nat (cnext s) ::
  flat_map (fun k => match citems s k with Some o => [1; Z.of_nat o] | None => [0] end) keys ++
  flat_map (fun o => let x := cobjs s o in
                     bz (rw_w x) :: oz (rw_ann x) ++ lz (rw_rs x) ++ lz (rw_wq x) ++ lz (rw_rq x))
           (seq 0 (cnext s)) ++
  flat_map (fun t => match cpcs s t with
                     | CIdle => [0] | CNeed m k => [1; mdz m; k] | CAt m k o => [2; mdz m; k; Z.of_nat o]
                     | CWaitW k o => [3; k; Z.of_nat o] | CWaitR k o => [4; k; Z.of_nat o]
                     | CInW k o => [5; k; Z.of_nat o] | CInR k o => [6; k; Z.of_nat o]
                     end) (zseq n).

(* NOT modelled, hence excluded from batches: sync.RWMutex wakes the readers parked behind a writer
   through a counting semaphore, and a reader that arrives after the next writer has announced
   itself can take the token of a reader that was released but has not run yet (the two readers
   swap places; exclusion is unaffected).  It needs a writer's Unlock and a fresh RLock of the same
   key to overlap, so a cmap batch never contains both. *)
Definition c_batch_ok (s : cstate) (l : list sop) : bool :=
  negb (existsb (fun u => match u with
                          | SUnlock t =>
                              match cpcs s t with
                              | CInW k _ => existsb (fun a => match a with SRLock _ k' _ => Z.eqb k k' | _ => false end) l
                              | _ => false
                              end
                          | _ => false
                          end) l).

(* users of key k other than thread t, in the statuses observed before the step *)
Fixpoint other_users (k : key) (t : Z) (i : Z) (st : list tstat) : bool :=
  match st with
  | [] => false
  | x :: st' => (negb (Z.eqb i t) && is_user k x) || other_users k t (i + 1) st'
  end.

Definition key_of (s : tstat) : option key :=
  match s with TIdle => None | TWaitW k | TWaitR k | THoldW k | THoldR k | TTold k => Some k end.

(* keys whose entry the op removes while another thread uses them: from then on the harness issues
   no release on them (a release could unlock an unlocked RWMutex: a Go fatal error) *)
Definition taints (keys : list key) (st : list tstat) (op : sop) : list key :=
  match op with
  | SDelete k => if other_users k (-1) 0 st then [k] else []
  | SClear => filter (fun k => other_users k (-1) 0 st) keys
  | SDelUnlock t =>
      match nth_error st (Z.to_nat t) with
      | Some x => match key_of x with
                  | Some k => if other_users k t 0 st then [k] else []
                  | None => []
                  end
      | None => []
      end
  | _ => []
  end.

Definition taints_op (keys : list key) (st : list tstat) (op : sop) : list key :=
  match op with
  | SBatch l => flat_map (taints keys st) l
  | _ => taints keys st op
  end.

(* ---- lock.Context ---- *)
Definition x_api (s : xstate) (op : sop) : option (list xev) :=
  match op with
  | SLock t _ c => match xpcs s t with XIdle => Some [XCall t true c] | _ => None end
  | SRLock t _ c => match xpcs s t with XIdle => Some [XCall t false c] | _ => None end
  | SUnlock t => match xpcs s t with XHold _ => Some [XUnlockA t] | _ => None end
  | SCancel c => Some [XCancel c]
  | _ => None
  end.
Definition x_musts (n : Z) (s : xstate) : list xev :=
  flat_map (fun t => [XTake t; XRW t; XErr t; XUnlockB t]) (zseq n).
Definition x_stat (s : xstate) (t : tid) : tstat :=
  match xpcs s t with
  | XIdle | XRel _ => TIdle
  | XSel true _ | XTok true => TWaitW 0
  | XSel false _ | XTok false => TWaitR 0
  | XHold true => THoldW 0
  | XHold false => THoldR 0
  end.
Definition x_res (s : xstate) (t : tid) : tres :=
  match xres s t with None => RNone | Some true => ROk | Some false => RCtxErr end.
Definition resz (r : tres) : Z := match r with RNone => 0 | ROk => 1 | RCtxErr => 2 | RClosed => 3 end.
Definition x_fp (n : Z) (s : xstate) : list Z :=
  bz (tok s) :: bz (rww s) :: Z.of_nat (rwr s) :: map (fun c => bz (cdone s c)) ctx_universe ++
  flat_map (fun t => resz (x_res s t) ::
                     match xpcs s t with
                     | XIdle => [0] | XSel w c => [1; bz w; c] | XTok w => [2; bz w]
                     | XHold w => [3; bz w] | XRel w => [4; bz w]
                     end) (zseq n).

(* ---- lock.OuterCancel ---- *)
Definition o_api (s : ostate) (op : sop) : option (list oev) :=
  match op with
  | SLock t _ _ => match opcs s t with OIdle => Some [OWCall t] | _ => None end
  | SRLock t _ c => match opcs s t with OIdle => Some [ORCall t c] | _ => None end
  | SUnlock t =>
      match opcs s t with
      | OWHoldSlot | OWHoldShut => Some [OWUnlock t]
      | ORHold _ => Some [ORRelease t]
      | _ => None
      end
  | SCancel c => Some [OCancel c]
  | SShutdown => Some [OShutdown]
  | SGrace => Some []
  | _ => None
  end.
Definition o_musts (n : Z) (s : ostate) : list oev :=
  [RunRecv; RunSeeClosed; RunTakeSlot; RunCtxDone; RunRegW; RunRegR; RunGrantW; RunDeferGo] ++
  flat_map (fun t => [OWSendCh t; OWClosed t; OWGot t; ORSendCh t; ORClosed t; ORCtx t; ORGot t]) (zseq n) ++
  flat_map (fun i => match nth_error (recs s) i with
                     | Some r => if closed s || r_done r then [OGrace i] else []
                     | None => []
                     end) (seq 0 (length (recs s))).
Definition o_opts (s : ostate) : list (list oev) :=
  flat_map (fun i => match nth_error (recs s) i with
                     | Some r => match r_at r with
                                 | Some _ => if closed s || r_done r then [] else [[OAdvance (grace s); OGrace i]]
                                 | None => []
                                 end
                     | None => []
                     end) (seq 0 (length (recs s))).
Definition o_stat (s : ostate) (t : tid) : tstat :=
  match opcs s t with
  | OIdle => TIdle
  | OWSend | OWResp | OWShutWait => TWaitW 0
  | OWHoldSlot | OWHoldShut => THoldW 0
  | ORSend _ | ORResp _ => TWaitR 0
  | ORHold i => match nth_error (recs s) i with
                | Some r => if rctx_done s r then TTold 0 else THoldR 0
                | None => TTold 0
                end
  end.
Definition holdz (h : hold) : list Z := match h with HW t => [0; t] | HR t c => [1; t; c] end.
Definition o_fp (n : Z) (s : ostate) : list Z :=
  bz (closed s) :: bz (oslot s) :: wg s :: rcx s ::
  match ch s with Some h => 1 :: holdz h | None => [0] end ++
  match runpc s with
  | RunIdle => [0] | RunTake h => 1 :: holdz h | RunReg h => 2 :: holdz h | RunWait t => [3; t]
  | RunDefer => [4] | RunDone => [5]
  end ++
  flat_map (fun p => [fst p; Z.of_nat (snd p)]) (rcs s) ++
  flat_map (fun r => [r_tid r; r_ctx r; r_idx r; bz (r_done r); bz (match r_at r with Some _ => true | None => false end)])
           (recs s) ++
  bz (slot (shut s)) :: lz (sendq (shut s)) ++
  map (fun c => bz (cdn s c)) ctx_universe ++
  flat_map (fun t => resz (ores s t) ::
                     match resps s t with
                     | None => 0 | Some PSlot => 1 | Some (PGrant r) => 2 + Z.of_nat r | Some PErr => -1
                     end ::
                     match opcs s t with
                     | OIdle => [0] | OWSend => [1] | OWResp => [2] | OWShutWait => [3] | OWHoldSlot => [4]
                     | OWHoldShut => [5] | ORSend c => [6; c] | ORResp c => [7; c] | ORHold r => [8; Z.of_nat r]
                     end) (zseq n).

(* ===================================================================================== *)
(* the set of model states compatible with the observations                                *)

Fixpoint eqb_stats (a b : list tstat) : bool :=
  match a, b with
  | [], [] => true
  | x :: a', y :: b' => tstat_eqb x y && eqb_stats a' b'
  | _, _ => false
  end.

Fixpoint eqb_ress (a b : list tres) : bool :=
  match a, b with
  | [], [] => true
  | x :: a', y :: b' => tres_eqb x y && eqb_ress a' b'
  | _, _ => false
  end.

Section Follow.
  Context {St Ev : Type}.
  Variable step : St -> Ev -> option St.
  Variable musts : St -> list Ev.
  Variable opts : St -> list (list Ev).
  Variable fp : St -> list Z.
  Variable api : St -> list key -> sop -> option (list Ev).
  Variable proj : St -> list tstat * list tres * Z.
  Variable keys : list key.

  Definition matches (o : sobs) (s : St) : bool :=
    let '(st, res, en) := proj s in
    eqb_stats st (so_st o) && eqb_ress res (so_res o) && Z.eqb en (so_entries o).

  Variable ordered : bool.
  Variable batch_ok : St -> list sop -> bool.   (* lock-specific restriction on batches *)

  (* the first events of the member calls of a batch, all judged in the state before the batch
     (distinct threads; a member that is not applicable voids the batch) *)
  Fixpoint batch_events (s : St) (tainted : list key) (l : list sop) : option (list Ev) :=
    match l with
    | [] => Some []
    | op :: l' =>
        match op, api s tainted op, batch_events s tainted l' with
        | SBatch _, _, _ => None
        | _, Some [e], Some es => Some (e :: es)
        | _, _, _ => None
        end
    end.

  (* one step from one candidate *)
  Definition follow1 (tainted : list key) (op : sop) (o : sobs) (s : St) : list St :=
    match op with
    | SBatch l =>
        match (if batch_ok s l then batch_events s tainted l else None) with
        | None => if so_skip o && matches o s then [s] else []
        | Some evs =>
            if so_skip o then []
            else filter (matches o) (quiescents_pending step musts fp ordered s evs)
        end
    | _ =>
        match api s tainted op with
        | None => if so_skip o && matches o s then [s] else []
        | Some evs =>
            if so_skip o then []
            else match run step s evs with
                 | Some s1 => filter (matches o) (quiescents step musts opts fp s1)
                 | None => []
                 end
        end
    end.

  Fixpoint follow (cands : list St) (tainted : list key) (prev : list tstat)
           (ops : list sop) (obs : list sobs) : option (list St) :=
    match ops, obs with
    | [], [] => Some cands
    | op :: ops', o :: obs' =>
        let tainted' := if so_skip o then tainted else taints_op keys prev op ++ tainted in
        let nxt := fst (dedupe fp (flat_map (follow1 tainted op o) cands) [] []) in
        match nxt with
        | [] => None
        | _ => follow nxt tainted' (so_st o) ops' obs'
        end
    | _, _ => None
    end.
End Follow.

Definition idle_stats (n : Z) : list tstat := map (fun _ => TIdle) (zseq n).

Definition eqb_logs (a b : list (list Z)) : bool :=
  (length a =? length b)%nat && forallb (fun p => eqb_listZ (fst p) (snd p)) (combine a b).

Definition model_agrees (c : case) : bool :=
  match c with
  | CScript l n keys ops obs arr gr _ _ _ _ =>
      let ts := zseq n in
      match l with
      | LFifo =>
          match follow fstep (fun _ => []) (fun _ => []) (f_fp n) (fun s _ op => f_api s op)
                       (fun s => (map (f_stat s) ts, [], -1)) keys true (fun _ _ => true) [finit] [] (idle_stats n) ops obs with
          | Some (s :: _) => eqb_logs [farr s] arr && eqb_logs [fgrants s] gr
          | _ => false
          end
      | LFifoMap =>
          match follow mstep (m_musts n) (fun _ => []) (m_fp n keys) (fun s _ op => m_api s op)
                       (fun s => (map (m_stat s) ts, [], entry_count s keys)) keys true m_batch_ok [minit] []
                       (idle_stats n) ops obs with
          | Some cands => existsb (fun s => eqb_logs (map (karr s) keys) arr
                                            && eqb_logs (map (kgrants s) keys) gr
                                            && negb (mpanic s)) cands
          | None => false
          end
      | LCMap =>
          match follow cstep (c_musts n) (fun _ => []) (c_fp n keys) c_api
                       (fun s => (map (c_stat s) ts, [], item_count s keys)) keys false c_batch_ok [cinit] []
                       (idle_stats n) ops obs with
          | Some (_ :: _) => true
          | _ => false
          end
      | LCtx =>
          match follow xstep (x_musts n) (fun _ => []) (x_fp n) (fun s _ op => x_api s op)
                       (fun s => (map (x_stat s) ts, map (x_res s) ts, -1)) keys true (fun _ _ => true) [xinit] []
                       (idle_stats n) ops obs with
          | Some (_ :: _) => true
          | _ => false
          end
      | LOuter =>
          match follow ostep (o_musts n) o_opts (o_fp n) (fun s _ op => o_api s op)
                       (fun s => (map (o_stat s) ts, map (ores s) ts, Z.of_nat (length (rcs s)))) keys true (fun _ _ => true) [oinit 1] []
                       (idle_stats n) ops obs with
          | Some (_ :: _) => true
          | _ => false
          end
      | LOuterLong =>
          match follow ostep (o_musts n) (fun _ => []) (o_fp n) (fun s _ op => o_api s op)
                       (fun s => (map (o_stat s) ts, map (ores s) ts, Z.of_nat (length (rcs s)))) keys true (fun _ _ => true) [oinit 1] []
                       (idle_stats n) ops obs with
          | Some (_ :: _) => true
          | _ => false
          end
      end
  end.

(* ===================================================================================== *)
(* the spec oracle on the observations                                                     *)

(* contexts that are done after the first i ops, and the context of each thread's call in flight *)
Definition upd_nth {A} (n : nat) (x : A) (l : list A) : list A := set_nth n x l.

Fixpoint oracle_steps (l : lockkind) (keys : list key) (ops : list sop) (obs : list sobs)
         (done : list Z) (ctxs : list Z) (sd : bool) : bool :=
  match ops, obs with
  | op :: ops', o :: obs' =>
      let sd' := sd || match op with SShutdown => negb (so_skip o) | _ => false end in
      let done' := match op with SCancel c => if so_skip o then done else c :: done | _ => done end in
      let ctxs' := match op with
                   | SLock t _ c | SRLock t _ c =>
                       if so_skip o then ctxs
                       else upd_nth (Z.to_nat t) (match l, op with (LOuter | LOuterLong), SLock _ _ _ => -1 | _, _ => c end) ctxs
                   | _ => ctxs
                   end in
      excl_obs keys (so_st o)
      && (match l with LFifoMap => no_leak_obs keys (so_st o) (so_entries o) | _ => true end)
      && (match l with
          | LCtx => no_dead_waiter (so_st o) ctxs' done' && err_holds_nothing (so_st o) (so_res o)
          | LOuter | LOuterLong => err_holds_nothing (so_st o) (so_res o)
                      && (sd' || owned_entries_obs (so_st o) (so_entries o))
          | _ => true
          end)
      && no_idle_wait keys (so_st o)
      && oracle_steps l keys ops' obs' done' ctxs' sd'
  | _, _ => true
  end.

(* "a waiter whose context ends stops waiting", outer-cancel lock.  The clause is evaluated on
   the observations like for lock.Context, but it is CONDITIONAL on the model: the code keeps one
   accepted exception - a reader whose request has been taken into the lock's one-slot request
   queue and has not been looked at yet does not watch its context (RLock's second select), which
   the faithful model reproduces.  So a waiter with a done context is a violation (verdict 3)
   exactly when no model state explains the observations; when the model does, it is that
   exception and nothing is reported. *)
Fixpoint outer_waiters_steps (l : lockkind) (ops : list sop) (obs : list sobs)
         (done : list Z) (ctxs : list Z) : bool :=
  match ops, obs with
  | op :: ops', o :: obs' =>
      let done' := match op with SCancel c => if so_skip o then done else c :: done | _ => done end in
      let ctxs' := match op with
                   | SRLock t _ c => if so_skip o then ctxs else upd_nth (Z.to_nat t) c ctxs
                   | SLock t _ _ => if so_skip o then ctxs else upd_nth (Z.to_nat t) (-1) ctxs
                   | _ => ctxs
                   end in
      no_dead_waiter (so_st o) ctxs' done' && outer_waiters_steps l ops' obs' done' ctxs'
  | _, _ => true
  end.

Definition outer_waiters_ok (c : case) : bool :=
  match c with
  | CScript ((LOuter | LOuterLong) as l) n _ ops obs _ _ _ _ _ _ =>
      outer_waiters_steps l ops obs [] (map (fun _ => -1) (zseq n))
  | _ => true
  end.

Definition oracle (c : case) : bool :=
  match c with
  | CScript l n keys ops obs arr gr occ_bad early badcause stuck =>
      negb occ_bad && negb early && negb badcause && negb stuck
      && oracle_steps l keys ops obs [] (map (fun _ => -1) (zseq n)) false
      && (match l with
          | LFifo | LFifoMap =>
              (length arr =? length gr)%nat
              && forallb (fun p => fifo_obs (fst p) (snd p)) (combine arr gr)
          | _ => true
          end)
  end.

(* Is an occupancy violation seen by the harness visible in (hence explained by a model state
   compatible with) the observations?  Either some quiescent point shows two incompatible
   holders, or - outer-cancel lock only - the script's last executed step is the shutdown and,
   just before it, a writer was waiting while a reader was live: the writer is then granted by the
   shutdown lock possibly before the reader has been told (C13_outer_shutdown_reader_refuted);
   by the time of the quiescent sample the reader is told, so the statuses look innocent. *)
Fixpoint last_two {A} (l : list A) : option (option A * A) :=
  match l with
  | [] => None
  | [x] => Some (None, x)
  | x :: ((y :: _) as l') => match l' with [_] => Some (Some x, y) | _ => last_two l' end
  end.

Definition occ_explained (l : lockkind) (keys : list key) (ops : list sop) (obs : list sobs) : bool :=
  existsb (fun o => negb (excl_obs keys (so_st o))) obs
  || match l, last_two (combine ops obs) with
     | (LOuter | LOuterLong), Some (Some (_, prev), (SShutdown, o)) =>
         negb (so_skip o)
         && existsb (fun x => match x with TWaitW _ => true | _ => false end) (so_st prev)
         && existsb (fun x => match x with THoldR _ => true | _ => false end) (so_st prev)
     | _, _ => false
     end.

(* 0 = agree and oracle holds; 1 = model and implementation differ; 2 = the implementation's
   observed behaviour violates the spec AND the faithful model reproduces it (these are the cases
   a known finding may absorb); 3 = the oracle fails and the faithful model does NOT reproduce
   what was seen: no model state is compatible with the observations, or the failure is one the
   model never exhibits (a reader cancelled before the grace period / with a foreign cause, a run
   that never became quiescent, an occupancy violation that the observations do not show; for the
   outer-cancel lock also: some call keeps waiting although its context has ended and the model
   cannot explain the observations, see [outer_waiters_ok]). *)
Definition check_case (c : case) : Z :=
  if oracle c then (if model_agrees c then 0 else if outer_waiters_ok c then 1 else 3)
  else match c with
       | CScript l n keys ops obs _ _ occ_bad early badcause stuck =>
           if early || badcause || stuck then 3
           else if negb (model_agrees c) then 3
           else if occ_bad && negb (occ_explained l keys ops obs) then 3
           else 2
       end.

Definition run_cases (cs : list (Z * case)) : list (Z * Z) := failures check_case cs.
