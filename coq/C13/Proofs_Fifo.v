(* C13 — fifo.Mutex: invariants for ALL schedules. *)
From Kit Require Import C13.Model_FifoMutex C13.Spec.
Local Open Scope Z_scope.

Definition finv (s : fstate) : Prop :=
  farr s = fgrants s ++ sendq (fch s) /\
  NoDup (sendq (fch s)) /\
  (forall t, In t (sendq (fch s)) <-> fpcs s t = FWait) /\
  (slot (fch s) = false -> sendq (fch s) = [] /\ forall t, fpcs s t <> FHold) /\
  (slot (fch s) = true -> exists t, fpcs s t = FHold) /\
  (forall t1 t2, fpcs s t1 = FHold -> fpcs s t2 = FHold -> t1 = t2).

Lemma finv_init : finv finit.
Proof.
  unfold finv, finit; cbn. repeat split; try constructor; try discriminate; try contradiction.
Qed.

Lemma NoDup_snoc {A} (l : list A) x : NoDup l -> ~ In x l -> NoDup (l ++ [x]).
Proof.
  induction l as [|y l IH]; cbn; intros Hnd Hn.
  - constructor; [intros []|constructor].
  - inversion Hnd; subst. constructor.
    + intro Hin. apply in_app_or in Hin as [Hin|[->|[]]]; [contradiction|]. apply Hn; now left.
    + apply IH; auto.
Qed.

Lemma upd_eq {A} (f : Z -> A) x v y : upd f x v y = if Z.eqb y x then v else f y.
Proof. reflexivity. Qed.

Lemma finv_step s e s' : finv s -> fstep s e = Some s' -> finv s'.
Proof.
  intros (Harr & Hnd & Hq & Hfree & Hbusy & Huniq) Hstep.
  destruct e as [t|t]; cbn in Hstep.
  - (* FLock *)
    destruct (fpcs s t) eqn:Ept; try discriminate.
    unfold ch_send in Hstep. destruct (slot (fch s)) eqn:Esl.
    + (* queued *)
      inversion Hstep; subst s'; clear Hstep. unfold finv; cbn.
      assert (Hnt : ~ In t (sendq (fch s))) by (intro Hin; apply Hq in Hin; congruence).
      refine (conj _ (conj _ (conj _ (conj _ (conj _ _))))); [| |split| | |].
      * rewrite Harr. now rewrite app_assoc.
      * apply NoDup_snoc; auto.
      * intro Hin. rewrite upd_eq. destruct (Z.eqb_spec t0 t); [reflexivity|].
        apply in_app_or in Hin as [Hin|[Heq|[]]]; [now apply Hq | congruence].
      * rewrite upd_eq. destruct (Z.eqb_spec t0 t); [subst; intros _; apply in_or_app; right; now left|].
        intro Hw. apply in_or_app; left. now apply Hq.
      * discriminate.
      * intros _. destruct (Hbusy eq_refl) as [t0 Ht0]. exists t0. rewrite upd_eq.
        destruct (Z.eqb_spec t0 t); [subst; congruence | exact Ht0].
      * intros t1 t2. rewrite !upd_eq.
        destruct (Z.eqb_spec t1 t); [discriminate|]. destruct (Z.eqb_spec t2 t); [discriminate|].
        apply Huniq.
    + (* granted at once *)
      inversion Hstep; subst s'; clear Hstep. unfold finv; cbn.
      destruct (Hfree eq_refl) as [Hemp Hnoh]. rewrite Hemp in *.
      refine (conj _ (conj _ (conj _ (conj _ (conj _ _))))); [| |split| | |].
      * rewrite Harr. now rewrite !app_nil_r.
      * constructor.
      * intros [].
      * rewrite upd_eq. destruct (Z.eqb_spec t0 t); [discriminate|]. intro Hw. exact (proj2 (Hq _) Hw).
      * discriminate.
      * intros _. exists t. rewrite upd_eq. now rewrite Z.eqb_refl.
      * intros t1 t2. rewrite !upd_eq.
        destruct (Z.eqb_spec t1 t), (Z.eqb_spec t2 t); subst; auto; intros H1 H2;
          exfalso; eapply Hnoh; eauto.
  - (* FUnlock *)
    destruct (fpcs s t) eqn:Ept; try discriminate.
    unfold ch_recv in Hstep. destruct (slot (fch s)) eqn:Esl; [|discriminate].
    destruct (sendq (fch s)) as [|t' q] eqn:Eq.
    + inversion Hstep; subst s'; clear Hstep. unfold finv; cbn.
      refine (conj _ (conj _ (conj _ (conj _ (conj _ _))))); [| |split| | |].
      * rewrite Harr. reflexivity.
      * constructor.
      * intros [].
      * rewrite upd_eq. destruct (Z.eqb_spec t0 t); [discriminate|]. intro Hw. exact (proj2 (Hq _) Hw).
      * intros _. split; [reflexivity|]. intros t0. rewrite upd_eq.
        destruct (Z.eqb_spec t0 t); [discriminate|].
        intro Hh. apply n. eapply Huniq; eauto.
      * discriminate.
      * intros t1 t2. rewrite !upd_eq.
        destruct (Z.eqb_spec t1 t); [discriminate|]. destruct (Z.eqb_spec t2 t); [discriminate|].
        apply Huniq.
    + inversion Hstep; subst s'; clear Hstep. unfold finv; cbn.
      assert (Hw' : fpcs s t' = FWait) by (apply Hq; now left).
      assert (Hne : t <> t') by congruence.
      inversion Hnd as [|? ? Hnin Hnd']; subst.
      refine (conj _ (conj _ (conj _ (conj _ (conj _ _))))); [| |split| | |].
      * rewrite Harr. now rewrite <- app_assoc.
      * exact Hnd'.
      * intro Hin. rewrite !upd_eq. destruct (Z.eqb_spec t0 t'); [subst; contradiction|].
        destruct (Z.eqb_spec t0 t); [subst; exfalso|].
        -- assert (fpcs s t = FWait) by (apply Hq; now right). congruence.
        -- apply Hq. now right.
      * rewrite !upd_eq. destruct (Z.eqb_spec t0 t'); [discriminate|].
        destruct (Z.eqb_spec t0 t); [discriminate|].
        intro Hw. apply Hq in Hw as [Heq|Hin]; [congruence | exact Hin].
      * discriminate.
      * intros _. exists t'. rewrite upd_eq. now rewrite Z.eqb_refl.
      * intros t1 t2. rewrite !upd_eq.
        destruct (Z.eqb_spec t1 t') as [E1|N1]; destruct (Z.eqb_spec t2 t') as [E2|N2].
        { congruence. }
        { destruct (Z.eqb_spec t2 t) as [E3|N3]; intros H1 H2; [discriminate|].
          exfalso. apply N3. eapply Huniq; eauto. }
        { destruct (Z.eqb_spec t1 t) as [E3|N3]; intros H1 H2; [discriminate|].
          exfalso. apply N3. eapply Huniq; eauto. }
        { destruct (Z.eqb_spec t1 t) as [E3|N3]; intros H1 H2; [discriminate|].
          exfalso. apply N3. eapply Huniq; eauto. }
Qed.

Lemma finv_run es : forall s s', finv s -> frun s es = Some s' -> finv s'.
Proof.
  induction es as [|e es IH]; cbn; intros s s' Hi Hr.
  - inversion Hr; subst; exact Hi.
  - unfold frun in Hr; cbn in Hr. destruct (fstep s e) as [s1|] eqn:E; [|discriminate].
    eapply IH; [eapply finv_step; eauto | exact Hr].
Qed.

Lemma fifo_waiters_all : forall es s, frun finit es = Some s ->
  farr s = fgrants s ++ sendq (fch s) /\ NoDup (sendq (fch s)) /\
  (forall t, In t (sendq (fch s)) <-> fpcs s t = FWait) /\
  (slot (fch s) = false -> sendq (fch s) = [] /\ forall t, fpcs s t <> FHold) /\
  (slot (fch s) = true -> exists t, fpcs s t = FHold).
Proof.
  intros es s Hr. destruct (finv_run es _ _ finv_init Hr) as (H1 & H2 & H3 & H4 & H5 & _).
  repeat (split; [assumption|]). assumption.
Qed.

Lemma fifo_excl_all : forall es s, frun finit es = Some s ->
  excl (fun t => fpcs s t = FHold) (fun _ => False).
Proof.
  intros es s Hr. destruct (finv_run es _ _ finv_init Hr) as (_ & _ & _ & _ & _ & H6).
  split; [exact H6 | intros _ _ _ []].
Qed.

Lemma fifo_order_all : forall es s, frun finit es = Some s -> fifo (farr s) (fgrants s).
Proof.
  intros es s Hr. destruct (finv_run es _ _ finv_init Hr) as (H1 & _).
  exists (sendq (fch s)). exact H1.
Qed.

(* a waiter is granted by the very Unlock that finds it at the head of the queue: no grant is
   ever skipped or delayed (no wedge) *)
Lemma fifo_unlock_grants_head : forall es s t t' q, frun finit es = Some s ->
  fpcs s t = FHold -> sendq (fch s) = t' :: q ->
  exists s', fstep s (FUnlock t) = Some s' /\ fpcs s' t' = FHold /\ sendq (fch s') = q.
Proof.
  intros es s t t' q Hr Ht Hq.
  destruct (finv_run es _ _ finv_init Hr) as (_ & _ & _ & H4 & _ & _).
  destruct (slot (fch s)) eqn:Esl.
  - eexists. cbn. rewrite Ht. unfold ch_recv. rewrite Esl, Hq. split; [reflexivity|]. cbn.
    split; [|reflexivity]. unfold upd. now rewrite Z.eqb_refl.
  - exfalso. destruct (H4 eq_refl) as [_ Hn]. now apply (Hn t).
Qed.

(* non-vacuity: threads 2 and 3 queue behind 1 and are granted in arrival order *)
Example fifo_example :
  match frun finit [FLock 1; FLock 2; FLock 3; FUnlock 1; FUnlock 2] with
  | Some s => farr s = [1; 2; 3] /\ fgrants s = [1; 2; 3] /\ fpcs s 3 = FHold /\ fpcs s 2 = FIdle
  | None => False
  end.
Proof. vm_compute. repeat split. Qed.
