(* C13 — fifo.Map: invariants for ALL schedules. *)
From Kit Require Import C13.Model_FifoMap C13.Spec.
Local Open Scope Z_scope.

Definition pk (p : mpc) : option (key * oid) :=
  match p with MAt k o | MWait k o | MHold k o => Some (k, o) | _ => None end.
Definition waits (p : mpc) (o : oid) : Prop := match p with MWait _ o' => o' = o | _ => False end.
Definition powns (p : mpc) (o : oid) : Prop :=
  match p with MHold _ o' => o' = o | MRel o' => o' = o | _ => False end.

Record minv (s : mstate) : Prop := {
  i_panic : mpanic s = false;
  i_item : forall k it, items s k = Some it ->
      (it_obj it < next s)%nat /\ it_len it = Z.of_nat (length (it_users it)) /\
      it_users it <> [] /\ NoDup (it_users it) /\
      (forall t, In t (it_users it) <-> pk (mpcs s t) = Some (k, it_obj it));
  i_use : forall t k o, pk (mpcs s t) = Some (k, o) -> exists it, items s k = Some it /\ it_obj it = o;
  i_inj : forall k1 k2 it1 it2, items s k1 = Some it1 -> items s k2 = Some it2 ->
      it_obj it1 = it_obj it2 -> k1 = k2;
  i_rel : forall t o, mpcs s t = MRel o -> (o < next s)%nat;
  i_q : forall o t, In t (sendq (objs s o)) <-> waits (mpcs s t) o;
  i_nd : forall o, NoDup (sendq (objs s o));
  i_free : forall o, slot (objs s o) = false -> sendq (objs s o) = [] /\ forall t, ~ powns (mpcs s t) o;
  i_busy : forall o, slot (objs s o) = true -> exists t, powns (mpcs s t) o;
  i_own : forall o t1 t2, powns (mpcs s t1) o -> powns (mpcs s t2) o -> t1 = t2;
  i_log : forall k, karr s k = kgrants s k ++
      match items s k with Some it => sendq (objs s (it_obj it)) | None => [] end
}.

Lemma minv_init : minv minit.
Proof.
  constructor; cbn; try discriminate; auto.
  - intros o t; split; intros [].
  - intros o. constructor.
  - intros o t1 t2 [].
Qed.

Lemma upd_eq {A} (f : Z -> A) x v y : upd f x v y = if Z.eqb y x then v else f y.
Proof. reflexivity. Qed.
Lemma updn_eq {A} (f : nat -> A) x v y : updn f x v y = if Nat.eqb y x then v else f y.
Proof. reflexivity. Qed.

Lemma NoDup_snoc {A} (l : list A) x : NoDup l -> ~ In x l -> NoDup (l ++ [x]).
Proof.
  induction l as [|y l IH]; cbn; intros Hnd Hn.
  - constructor; [intros []|constructor].
  - inversion Hnd; subst. constructor.
    + intro Hin. apply in_app_or in Hin as [Hin|[Heq|[]]]; [contradiction|]. apply Hn; now left.
    + apply IH; auto.
Qed.

Lemma remz_in x t l : NoDup l -> (In x (remz t l) <-> In x l /\ x <> t).
Proof.
  induction l as [|y l IH]; cbn; intro Hnd; [tauto|].
  inversion Hnd; subst. destruct (Z.eqb_spec t y).
  - subst. split; [intro Hi; split; [now right| intro; subst; contradiction] | intros [[Heq|Hi] Hne]; [congruence|auto]].
  - cbn. rewrite IH by auto. split.
    + intros [Heq|[Hi Hne]]; [subst; split; [now left|congruence] | split; [now right|auto]].
    + intros [[Heq|Hi] Hne]; [now left | right; auto].
Qed.

Lemma remz_nodup t l : NoDup l -> NoDup (remz t l).
Proof.
  induction l as [|y l IH]; cbn; intro Hnd; [constructor|].
  inversion Hnd; subst. destruct (Z.eqb_spec t y); auto.
  constructor; auto. intro Hi. apply remz_in in Hi; tauto.
Qed.

Lemma remz_length t l : In t l -> length (remz t l) = pred (length l).
Proof.
  induction l as [|y l IH]; cbn; [tauto|]. intros [Heq|Hi].
  - subst. now rewrite Z.eqb_refl.
  - destruct (Z.eqb_spec t y); auto. cbn. rewrite IH by auto. destruct l; [destruct Hi | reflexivity].
Qed.

Lemma no_elem_nil {A} (l : list A) : (forall x, ~ In x l) -> l = [].
Proof. destruct l; auto. intro H. exfalso. apply (H a). now left. Qed.

Ltac eqb_cases :=
  repeat match goal with
         | |- context [Z.eqb ?a ?b] => destruct (Z.eqb_spec a b); subst
         | H : context [Z.eqb ?a ?b] |- _ => destruct (Z.eqb_spec a b); subst
         | |- context [Nat.eqb ?a ?b] => destruct (Nat.eqb_spec a b); subst
         | H : context [Nat.eqb ?a ?b] |- _ => destruct (Nat.eqb_spec a b); subst
         end.

(* facts used everywhere: a thread at rest (MIdle / MRel) uses no key *)
Lemma pk_upd_other s t p x : x <> t -> pk (upd (mpcs s) t p x) = pk (mpcs s x).
Proof. intro H. now rewrite upd_other. Qed.

Lemma step_lockA s t k s' : minv s -> mstep s (MLockA t k) = Some s' -> minv s'.
Proof.
  intros I H. unfold mstep in H. rewrite (i_panic s I) in H.
  destruct (mpcs s t) eqn:Ept; try discriminate.
  destruct (items s k) as [it|] eqn:Eit; inversion H; subst s'; clear H.
  - (* the entry exists *)
    destruct (i_item s I k it Eit) as (Hlt & Hlen & Hne & Hnd & Hmem).
    assert (Hnt : ~ In t (it_users it)) by (intro Hi; apply Hmem in Hi; rewrite Ept in Hi; discriminate).
    constructor; cbn.
    + reflexivity.
    + intros k2 it2. rewrite upd_eq. destruct (Z.eqb_spec k2 k) as [->|Hk].
      * intro E; inversion E; subst it2; clear E; cbn.
        split; [auto|]. split; [rewrite Hlen; lia|]. split; [discriminate|].
        split; [constructor; auto|].
        intros x. rewrite upd_eq. destruct (Z.eqb_spec x t) as [->|Hx]; cbn.
        -- split; auto.
        -- rewrite <- Hmem. split; [intros [Heq|Hi]; [congruence|auto] | auto].
      * intro E. destruct (i_item s I k2 it2 E) as (A1 & A2 & A3 & A4 & A5).
        repeat (split; [assumption|]). intros x. rewrite upd_eq.
        destruct (Z.eqb_spec x t) as [->|Hx]; [|apply A5]. cbn.
        rewrite A5, Ept. cbn. split; [discriminate | intro E2; inversion E2; congruence].
    + intros x k2 o2. rewrite !upd_eq. destruct (Z.eqb_spec x t) as [->|Hx]; cbn.
      * intro E; inversion E; subst. rewrite Z.eqb_refl. eexists; split; eauto.
      * intro E. destruct (i_use s I x k2 o2 E) as (it2 & E2 & E3).
        destruct (Z.eqb_spec k2 k) as [->|Hk]; [|eauto].
        rewrite Eit in E2; inversion E2; subst it2. eexists; split; eauto.
    + intros k1 k2 it1 it2. rewrite !upd_eq.
      destruct (Z.eqb_spec k1 k) as [->|H1], (Z.eqb_spec k2 k) as [->|H2]; auto.
      * intros E1 E2; inversion E1; subst it1; cbn. intro E3. symmetry. eapply (i_inj s I); eauto.
      * intros E1 E2; inversion E2; subst it2; cbn. intro E3. eapply (i_inj s I); eauto.
      * apply (i_inj s I).
    + intros x o. rewrite upd_eq. destruct (Z.eqb_spec x t); [discriminate | apply (i_rel s I)].
    + intros o x. rewrite upd_eq. destruct (Z.eqb_spec x t) as [->|Hx]; [|apply (i_q s I)].
      rewrite (i_q s I), Ept. cbn. tauto.
    + apply (i_nd s I).
    + intros o Hs. destruct (i_free s I o Hs) as [A B]. split; auto.
      intros x. rewrite upd_eq. destruct (Z.eqb_spec x t); cbn; auto.
    + intros o Hs. destruct (i_busy s I o Hs) as [x Hx]. exists x. rewrite upd_eq.
      destruct (Z.eqb_spec x t) as [->|]; auto. rewrite Ept in Hx. destruct Hx.
    + intros o t1 t2. rewrite !upd_eq.
      destruct (Z.eqb_spec t1 t), (Z.eqb_spec t2 t); cbn; try tauto. apply (i_own s I).
    + intros k2. rewrite (i_log s I k2), upd_eq. destruct (Z.eqb_spec k2 k) as [->|]; auto.
      now rewrite Eit.
  - (* fresh entry *)
    assert (Hfresh : forall x k2, pk (mpcs s x) <> Some (k2, next s)).
    { intros x k2 E. destruct (i_use s I x k2 _ E) as (it2 & E2 & E3).
      destruct (i_item s I k2 it2 E2) as (A1 & _). lia. }
    constructor; cbn.
    + reflexivity.
    + intros k2 it2. rewrite upd_eq. destruct (Z.eqb_spec k2 k) as [->|Hk].
      * intro E; inversion E; subst it2; clear E; cbn.
        split; [lia|]. split; [reflexivity|]. split; [discriminate|].
        split; [constructor; [intros []|constructor]|].
        intros x. rewrite upd_eq. destruct (Z.eqb_spec x t) as [->|Hx]; cbn.
        -- split; auto.
        -- split; [intros [Heq|[]]; congruence | intro E; exfalso; eapply Hfresh; eauto].
      * intro E. destruct (i_item s I k2 it2 E) as (A1 & A2 & A3 & A4 & A5).
        split; [lia|]. repeat (split; [assumption|]). intros x. rewrite upd_eq.
        destruct (Z.eqb_spec x t) as [->|Hx]; [|apply A5]. cbn.
        rewrite A5, Ept. cbn. split; [discriminate | intro E2; inversion E2; congruence].
    + intros x k2 o2. rewrite !upd_eq. destruct (Z.eqb_spec x t) as [->|Hx]; cbn.
      * intro E; inversion E; subst. rewrite Z.eqb_refl. eexists; split; eauto.
      * intro E. destruct (i_use s I x k2 o2 E) as (it2 & E2 & E3).
        destruct (Z.eqb_spec k2 k) as [->|Hk]; [congruence|eauto].
    + intros k1 k2 it1 it2. rewrite !upd_eq.
      destruct (Z.eqb_spec k1 k) as [->|H1], (Z.eqb_spec k2 k) as [->|H2]; auto.
      * intros E1 E2; inversion E1; subst it1; cbn. intro E3.
        destruct (i_item s I k2 it2 E2) as (A1 & _). lia.
      * intros E1 E2; inversion E2; subst it2; cbn. intro E3.
        destruct (i_item s I k1 it1 E1) as (A1 & _). lia.
      * apply (i_inj s I).
    + intros x o. rewrite upd_eq. destruct (Z.eqb_spec x t); [discriminate|].
      intro E. apply (i_rel s I) in E. lia.
    + intros o x. rewrite updn_eq, upd_eq. destruct (Nat.eqb_spec o (next s)) as [->|Ho]; cbn.
      * split; [intros []|]. destruct (Z.eqb_spec x t) as [->|Hx]; cbn; [auto|].
        intro Hw. destruct (mpcs s x) eqn:Ex; cbn in Hw; try contradiction. subst.
        eapply (Hfresh x k0). rewrite Ex. reflexivity.
      * destruct (Z.eqb_spec x t) as [->|Hx]; [|apply (i_q s I)].
        rewrite (i_q s I), Ept. cbn. tauto.
    + intros o. rewrite updn_eq. destruct (Nat.eqb_spec o (next s)); [constructor | apply (i_nd s I)].
    + intros o. rewrite updn_eq. destruct (Nat.eqb_spec o (next s)) as [->|Ho]; cbn.
      * intros _. split; auto. intros x. rewrite upd_eq. destruct (Z.eqb_spec x t); cbn; auto.
        intro Hw. destruct (mpcs s x) eqn:Ex; cbn in Hw; try contradiction; subst.
        -- eapply (Hfresh x k0). rewrite Ex. reflexivity.
        -- apply (i_rel s I) in Ex. lia.
      * intros Hs. destruct (i_free s I o Hs) as [A B]. split; auto.
        intros x. rewrite upd_eq. destruct (Z.eqb_spec x t); cbn; auto.
    + intros o. rewrite updn_eq. destruct (Nat.eqb_spec o (next s)) as [->|Ho]; cbn; [discriminate|].
      intros Hs. destruct (i_busy s I o Hs) as [x Hx]. exists x. rewrite upd_eq.
      destruct (Z.eqb_spec x t) as [->|]; auto. rewrite Ept in Hx. destruct Hx.
    + intros o t1 t2. rewrite !upd_eq.
      destruct (Z.eqb_spec t1 t), (Z.eqb_spec t2 t); cbn; try tauto. apply (i_own s I).
    + intros k2. rewrite (i_log s I k2), upd_eq. destruct (Z.eqb_spec k2 k) as [->|Hk].
      * rewrite Eit. cbn. rewrite updn_same. reflexivity.
      * destruct (items s k2) as [it2|] eqn:E2; auto.
        destruct (i_item s I k2 it2 E2) as (A1 & _). rewrite updn_other by lia. reflexivity.
Qed.

Lemma step_lockB s t s' : minv s -> mstep s (MLockB t) = Some s' -> minv s'.
Proof.
  intros I H. unfold mstep in H. rewrite (i_panic s I) in H.
  destruct (mpcs s t) as [|k o| | |] eqn:Ept; try discriminate.
  assert (Hpk : pk (mpcs s t) = Some (k, o)) by now rewrite Ept.
  destruct (i_use s I t k o Hpk) as (it & Eit & Eo).
  assert (Hpk' : forall p, pk p = Some (k, o) -> forall x, pk (upd (mpcs s) t p x) = pk (mpcs s x) \/
                                   (x = t)).
  { intros p _ x. destruct (Z.eq_dec x t); [now right | left; now rewrite upd_other]. }
  assert (Hother : forall k2 it2, items s k2 = Some it2 -> k2 <> k -> it_obj it2 <> o).
  { intros k2 it2 E2 Hk Ho. apply Hk. eapply (i_inj s I); eauto. congruence. }
  unfold ch_send in H. destruct (slot (objs s o)) eqn:Esl; inversion H; subst s'; clear H.
  - (* parks *)
    assert (Hnt : ~ In t (sendq (objs s o))) by (rewrite (i_q s I), Ept; cbn; tauto).
    constructor; cbn.
    + reflexivity.
    + intros k2 it2 E2. destruct (i_item s I k2 it2 E2) as (A1 & A2 & A3 & A4 & A5).
      repeat (split; [assumption|]). intros x. rewrite A5, upd_eq.
      destruct (Z.eqb_spec x t) as [->|]; [rewrite Hpk; cbn; tauto | tauto].
    + intros x k2 o2. rewrite upd_eq. destruct (Z.eqb_spec x t) as [->|]; [|apply (i_use s I)].
      cbn. intro E; inversion E; subst. eauto.
    + apply (i_inj s I).
    + intros x o2. rewrite upd_eq. destruct (Z.eqb_spec x t); [discriminate | apply (i_rel s I)].
    + intros o2 x. rewrite updn_eq, upd_eq. destruct (Nat.eqb_spec o2 o) as [->|Ho]; cbn.
      * destruct (Z.eqb_spec x t) as [->|Hx]; cbn.
        -- split; auto. intros _. apply in_or_app; right; now left.
        -- rewrite <- (i_q s I). split; [intro Hi; apply in_app_or in Hi as [Hi|[Heq|[]]]; [auto|congruence]
                                         | intro Hi; apply in_or_app; now left].
      * destruct (Z.eqb_spec x t) as [->|Hx]; [|apply (i_q s I)].
        rewrite (i_q s I), Ept. cbn. split; [tauto | intro; congruence].
    + intros o2. rewrite updn_eq. destruct (Nat.eqb_spec o2 o) as [->|]; cbn; [|apply (i_nd s I)].
      apply NoDup_snoc; auto. apply (i_nd s I).
    + intros o2. rewrite updn_eq. destruct (Nat.eqb_spec o2 o) as [->|Ho]; cbn; [discriminate|].
      intros Hs. destruct (i_free s I o2 Hs) as [A B]. split; auto.
      intros x. rewrite upd_eq. destruct (Z.eqb_spec x t); cbn; auto.
    + intros o2. rewrite updn_eq. destruct (Nat.eqb_spec o2 o) as [->|Ho]; cbn; intros Hs.
      * destruct (i_busy s I o Esl) as [x Hx]. exists x. rewrite upd_eq.
        destruct (Z.eqb_spec x t) as [->|]; auto. rewrite Ept in Hx. destruct Hx.
      * destruct (i_busy s I o2 Hs) as [x Hx]. exists x. rewrite upd_eq.
        destruct (Z.eqb_spec x t) as [->|]; auto. rewrite Ept in Hx. destruct Hx.
    + intros o2 t1 t2. rewrite !upd_eq.
      destruct (Z.eqb_spec t1 t), (Z.eqb_spec t2 t); cbn; try tauto. apply (i_own s I).
    + intros k2. rewrite !upd_eq. destruct (Z.eqb_spec k2 k) as [->|Hk].
      * rewrite (i_log s I k), Eit, Eo, updn_same. cbn. now rewrite app_assoc.
      * rewrite (i_log s I k2). destruct (items s k2) as [it2|] eqn:E2; auto.
        rewrite updn_other; auto. eapply Hother; eauto.
  - (* granted at once *)
    destruct (i_free s I o Esl) as [Hemp Hnoown].
    constructor; cbn.
    + reflexivity.
    + intros k2 it2 E2. destruct (i_item s I k2 it2 E2) as (A1 & A2 & A3 & A4 & A5).
      repeat (split; [assumption|]). intros x. rewrite A5, upd_eq.
      destruct (Z.eqb_spec x t) as [->|]; [rewrite Hpk; cbn; tauto | tauto].
    + intros x k2 o2. rewrite upd_eq. destruct (Z.eqb_spec x t) as [->|]; [|apply (i_use s I)].
      cbn. intro E; inversion E; subst. eauto.
    + apply (i_inj s I).
    + intros x o2. rewrite upd_eq. destruct (Z.eqb_spec x t); [discriminate | apply (i_rel s I)].
    + intros o2 x. rewrite updn_eq, upd_eq. destruct (Nat.eqb_spec o2 o) as [->|Ho]; cbn.
      * rewrite Hemp. destruct (Z.eqb_spec x t) as [->|Hx]; cbn.
        -- split; [intros [] | intro; auto]. 
        -- rewrite <- (i_q s I), Hemp. tauto.
      * destruct (Z.eqb_spec x t) as [->|Hx]; [|apply (i_q s I)].
        rewrite (i_q s I), Ept. cbn. tauto.
    + intros o2. rewrite updn_eq. destruct (Nat.eqb_spec o2 o) as [->|]; cbn; [|apply (i_nd s I)].
      apply (i_nd s I).
    + intros o2. rewrite updn_eq. destruct (Nat.eqb_spec o2 o) as [->|Ho]; cbn; [discriminate|].
      intros Hs. destruct (i_free s I o2 Hs) as [A B]. split; auto.
      intros x. rewrite upd_eq. destruct (Z.eqb_spec x t); cbn; auto.
    + intros o2. rewrite updn_eq. destruct (Nat.eqb_spec o2 o) as [->|Ho]; cbn; intros Hs.
      * exists t. rewrite upd_same. reflexivity.
      * destruct (i_busy s I o2 Hs) as [x Hx]. exists x. rewrite upd_eq.
        destruct (Z.eqb_spec x t) as [->|]; auto. rewrite Ept in Hx. destruct Hx.
    + intros o2 t1 t2. rewrite !upd_eq.
      destruct (Z.eqb_spec t1 t) as [->|], (Z.eqb_spec t2 t) as [->|]; cbn; auto.
      * intros <- H2. exfalso. eapply Hnoown; eauto.
      * intros H1 <-. exfalso. eapply Hnoown; eauto.
      * apply (i_own s I).
    + intros k2. rewrite !upd_eq. destruct (Z.eqb_spec k2 k) as [->|Hk].
      * rewrite (i_log s I k), Eit, Eo, updn_same, Hemp. cbn. now rewrite !app_nil_r.
      * rewrite (i_log s I k2). destruct (items s k2) as [it2|] eqn:E2; auto.
        rewrite updn_other; auto. eapply Hother; eauto.
Qed.

Lemma single_user (l : list tid) t x : Z.of_nat (length l) - 1 = 0 -> In t l -> In x l -> x = t.
Proof.
  destruct l as [|a [|b l]]; cbn [length In]; intros H0 H1 H2.
  - contradiction.
  - destruct H1 as [|[]], H2 as [|[]]; congruence.
  - lia.
Qed.

Lemma step_unlockA s t k s' : minv s -> mstep s (MUnlockA t k) = Some s' -> minv s'.
Proof.
  intros I H. unfold mstep in H. rewrite (i_panic s I) in H.
  destruct (mpcs s t) as [| | |k' o|] eqn:Ept; try discriminate.
  destruct (Z.eqb_spec k k') as [<-|]; cbn in H; [|discriminate].
  assert (Hpk : pk (mpcs s t) = Some (k, o)) by now rewrite Ept.
  destruct (i_use s I t k o Hpk) as (it & Eit & Eo). rewrite Eit in H.
  destruct (i_item s I k it Eit) as (Hlt & Hlen & Hne & Hnd & Hmem).
  assert (Hin : In t (it_users it)) by (apply Hmem; congruence).
  assert (Hrest : forall x, x <> t -> pk (upd (mpcs s) t (MRel (it_obj it)) x) = pk (mpcs s x))
    by (intros; now rewrite upd_other).
  assert (Hother : forall k2 it2, items s k2 = Some it2 -> k2 <> k -> it_obj it2 <> o).
  { intros k2 it2 E2 Hk Ho. apply Hk. eapply (i_inj s I); eauto. congruence. }
  inversion H; subst s'; clear H. rewrite Eo.
  constructor; cbn.
  - reflexivity.
  - intros k2 it2. rewrite upd_eq. destruct (Z.eqb_spec k2 k) as [->|Hk].
    + destruct (Z.eqb_spec (it_len it - 1) 0) as [Hz|Hz]; [discriminate|].
      intro E; inversion E; subst it2; clear E; cbn.
      assert (Hl : @length tid (remz t (it_users it)) = pred (@length tid (it_users it))) by now apply remz_length.
      assert (Hge : (length (it_users it) >= 1)%nat) by (destruct (it_users it); cbn; [contradiction|lia]).
      split; [lia|]. split; [rewrite Hl, Hlen; destruct (length (it_users it)); [lia|]; cbn [pred]; lia|]. split; [intro E; rewrite E in Hl; cbn in Hl; lia|].
      split; [now apply remz_nodup|].
      intros x. rewrite remz_in by auto. rewrite Hmem, upd_eq.
      destruct (Z.eqb_spec x t) as [->|Hx]; cbn; [split; [tauto|discriminate] | rewrite Eo; tauto].
    + intro E2. destruct (i_item s I k2 it2 E2) as (A1 & A2 & A3 & A4 & A5).
      repeat (split; [assumption|]). intros x. rewrite A5, upd_eq.
      destruct (Z.eqb_spec x t) as [->|]; [|tauto]. rewrite Hpk. cbn.
      split; [intro E; inversion E; congruence | discriminate].
  - intros x k2 o2. rewrite !upd_eq. destruct (Z.eqb_spec x t) as [->|Hx]; [discriminate|].
    intro E. destruct (i_use s I x k2 o2 E) as (it2 & E2 & E3).
    destruct (Z.eqb_spec k2 k) as [->|Hk]; [|eauto].
    rewrite Eit in E2; inversion E2; subst it2.
    destruct (Z.eqb_spec (it_len it - 1) 0) as [Hz|Hz]; [|eexists; split; [reflexivity | cbn; congruence]].
    exfalso. assert (Hx' : In x (it_users it)) by (apply Hmem; congruence).
    apply Hx. apply (single_user (it_users it)); auto. rewrite <- Hlen. exact Hz.
  - intros k1 k2 it1 it2. rewrite !upd_eq.
    destruct (Z.eqb_spec k1 k) as [->|H1], (Z.eqb_spec k2 k) as [->|H2]; auto.
    + destruct (Z.eqb_spec (it_len it - 1) 0); [discriminate|].
      intros E1 E2; inversion E1; subst it1; cbn. intro E3. symmetry. eapply (i_inj s I); eauto; congruence.
    + destruct (Z.eqb_spec (it_len it - 1) 0); [discriminate|].
      intros E1 E2; inversion E2; subst it2; cbn. intro E3. eapply (i_inj s I); eauto; congruence.
    + apply (i_inj s I).
  - intros x o2. rewrite upd_eq. destruct (Z.eqb_spec x t) as [->|]; [|apply (i_rel s I)].
    intro E; inversion E; subst. lia.
  - intros o2 x. rewrite upd_eq. destruct (Z.eqb_spec x t) as [->|Hx]; [|apply (i_q s I)].
    rewrite (i_q s I), Ept. cbn. tauto.
  - apply (i_nd s I).
  - intros o2 Hs. destruct (i_free s I o2 Hs) as [A B]. split; auto.
    intros x. rewrite upd_eq. destruct (Z.eqb_spec x t) as [->|]; cbn; auto.
    specialize (B t). rewrite Ept in B. cbn in B. congruence.
  - intros o2 Hs. destruct (i_busy s I o2 Hs) as [x Hx]. exists x. rewrite upd_eq.
    destruct (Z.eqb_spec x t) as [->|]; auto. rewrite Ept in Hx. cbn in *. congruence.
  - intros o2 t1 t2. rewrite !upd_eq. intros H1 H2. apply (i_own s I o2).
    + destruct (Z.eqb_spec t1 t) as [->|]; auto. rewrite Ept. cbn in *. congruence.
    + destruct (Z.eqb_spec t2 t) as [->|]; auto. rewrite Ept. cbn in *. congruence.
  - intros k2. rewrite (i_log s I k2), upd_eq. destruct (Z.eqb_spec k2 k) as [->|]; auto.
    rewrite Eit. destruct (Z.eqb_spec (it_len it - 1) 0) as [Hz|Hz]; cbn; [|now rewrite Eo].
    (* last user leaves: nobody is parked on the entry's mutex *)
    f_equal. apply no_elem_nil. intros x Hx. apply (i_q s I) in Hx.
    destruct (mpcs s x) as [| |kx ox| |] eqn:Ex; cbn in Hx; try contradiction. subst ox.
    assert (Hpx : pk (mpcs s x) = Some (kx, it_obj it)) by now rewrite Ex.
    destruct (i_use s I x kx _ Hpx) as (itx & Ex1 & Ex2).
    assert (kx = k) by (eapply (i_inj s I); eauto). subst kx.
    assert (Hx' : In x (it_users it)) by (apply Hmem; congruence).
    assert (x = t) by (apply (single_user (it_users it)); auto; rewrite <- Hlen; exact Hz).
    subst x. rewrite Ept in Ex. discriminate.
Qed.

Lemma step_unlockB s t s' : minv s -> mstep s (MUnlockB t) = Some s' -> minv s'.
Proof.
  intros I H. unfold mstep in H. rewrite (i_panic s I) in H.
  destruct (mpcs s t) as [| | | |o] eqn:Ept; try discriminate.
  assert (Hown : powns (mpcs s t) o) by (rewrite Ept; reflexivity).
  assert (Hsl : slot (objs s o) = true).
  { destruct (slot (objs s o)) eqn:E; auto. destruct (i_free s I o E) as [_ B]. exfalso. eapply B; eauto. }
  assert (Honly : forall x, powns (mpcs s x) o -> x = t) by (intros x Hx; eapply (i_own s I); eauto).
  unfold ch_recv in H. rewrite Hsl in H.
  destruct (sendq (objs s o)) as [|t' q] eqn:Eq.
  - (* nobody waits *)
    inversion H; subst s'; clear H. constructor; cbn.
    + reflexivity.
    + intros k2 it2 E2. destruct (i_item s I k2 it2 E2) as (A1 & A2 & A3 & A4 & A5).
      repeat (split; [assumption|]). intros x. rewrite A5, upd_eq.
      destruct (Z.eqb_spec x t) as [->|]; [rewrite Ept; cbn; tauto | tauto].
    + intros x k2 o2. rewrite upd_eq. destruct (Z.eqb_spec x t); [discriminate | apply (i_use s I)].
    + apply (i_inj s I).
    + intros x o2. rewrite upd_eq. destruct (Z.eqb_spec x t); [discriminate | apply (i_rel s I)].
    + intros o2 x. rewrite updn_eq, upd_eq. destruct (Nat.eqb_spec o2 o) as [->|Ho]; cbn.
      * destruct (Z.eqb_spec x t) as [->|Hx]; cbn; [tauto|].
        rewrite <- (i_q s I), Eq. tauto.
      * destruct (Z.eqb_spec x t) as [->|Hx]; [|apply (i_q s I)].
        rewrite (i_q s I), Ept. cbn. tauto.
    + intros o2. rewrite updn_eq. destruct (Nat.eqb_spec o2 o); [constructor | apply (i_nd s I)].
    + intros o2. rewrite updn_eq. destruct (Nat.eqb_spec o2 o) as [->|Ho]; cbn.
      * intros _. split; auto. intros x. rewrite upd_eq. destruct (Z.eqb_spec x t) as [->|Hx]; cbn; auto.
      * intros Hs. destruct (i_free s I o2 Hs) as [A B]. split; auto.
        intros x. rewrite upd_eq. destruct (Z.eqb_spec x t); cbn; auto.
    + intros o2. rewrite updn_eq. destruct (Nat.eqb_spec o2 o) as [->|Ho]; cbn; [discriminate|].
      intros Hs. destruct (i_busy s I o2 Hs) as [x Hx]. exists x. rewrite upd_eq.
      destruct (Z.eqb_spec x t) as [->|]; auto. rewrite Ept in Hx. cbn in Hx. congruence.
    + intros o2 t1 t2. rewrite !upd_eq.
      destruct (Z.eqb_spec t1 t), (Z.eqb_spec t2 t); cbn; try tauto. apply (i_own s I).
    + intros k2. rewrite (i_log s I k2). destruct (items s k2) as [it2|]; auto.
      rewrite updn_eq. destruct (Nat.eqb_spec (it_obj it2) o) as [->|]; auto. now rewrite Eq.
  - (* hand-over to the oldest waiter *)
    assert (Hw' : waits (mpcs s t') o) by (apply (i_q s I); rewrite Eq; now left).
    destruct (mpcs s t') as [| |k' o'| |] eqn:Ept'; cbn in Hw'; try contradiction. subst o'.
    assert (Hne : t' <> t) by congruence.
    pose proof (i_nd s I o) as Hnd. rewrite Eq in Hnd. inversion Hnd as [|? ? Hnin Hnd']; subst.
    assert (Hpk' : pk (mpcs s t') = Some (k', o)) by now rewrite Ept'.
    destruct (i_use s I t' k' o Hpk') as (it & Eit & Eo).
    assert (Hother : forall k2 it2, items s k2 = Some it2 -> k2 <> k' -> it_obj it2 <> o).
    { intros k2 it2 E2 Hk Ho. apply Hk. eapply (i_inj s I); eauto. congruence. }
    inversion H; subst s'; clear H. constructor; cbn.
    + reflexivity.
    + intros k2 it2 E2. destruct (i_item s I k2 it2 E2) as (A1 & A2 & A3 & A4 & A5).
      repeat (split; [assumption|]). intros x. rewrite A5, !upd_eq.
      destruct (Z.eqb_spec x t') as [->|]; [rewrite Hpk'; cbn; tauto|].
      destruct (Z.eqb_spec x t) as [->|]; [rewrite Ept; cbn; tauto | tauto].
    + intros x k2 o2. rewrite !upd_eq. destruct (Z.eqb_spec x t') as [->|].
      * cbn. intro E; inversion E; subst. eauto.
      * destruct (Z.eqb_spec x t); [discriminate | apply (i_use s I)].
    + apply (i_inj s I).
    + intros x o2. rewrite !upd_eq. destruct (Z.eqb_spec x t'); [discriminate|].
      destruct (Z.eqb_spec x t); [discriminate | apply (i_rel s I)].
    + intros o2 x. rewrite updn_eq, !upd_eq. destruct (Nat.eqb_spec o2 o) as [->|Ho]; cbn.
      * destruct (Z.eqb_spec x t') as [->|Hx']; cbn; [tauto|].
        destruct (Z.eqb_spec x t) as [->|Hx]; cbn.
        -- split; [|tauto]. intro Hi. assert (Hq : In t (t' :: q)) by now right.
           rewrite <- Eq in Hq. apply (i_q s I) in Hq. rewrite Ept in Hq. exact Hq.
        -- rewrite <- (i_q s I), Eq. cbn. split; [auto | intros [|]; [congruence|auto]].
      * destruct (Z.eqb_spec x t') as [->|Hx']; cbn.
        -- rewrite (i_q s I), Ept'. cbn. intuition congruence.
        -- destruct (Z.eqb_spec x t) as [->|Hx]; [|apply (i_q s I)].
           rewrite (i_q s I), Ept. cbn. tauto.
    + intros o2. rewrite updn_eq. destruct (Nat.eqb_spec o2 o); [exact Hnd' | apply (i_nd s I)].
    + intros o2. rewrite updn_eq. destruct (Nat.eqb_spec o2 o) as [->|Ho]; cbn; [discriminate|].
      intros Hs. destruct (i_free s I o2 Hs) as [A B]. split; auto.
      intros x. rewrite !upd_eq. destruct (Z.eqb_spec x t') as [->|]; cbn; [congruence|].
      destruct (Z.eqb_spec x t); cbn; auto.
    + intros o2. rewrite updn_eq. destruct (Nat.eqb_spec o2 o) as [->|Ho]; cbn; intros Hs.
      * exists t'. rewrite upd_same. reflexivity.
      * destruct (i_busy s I o2 Hs) as [x Hx]. exists x. rewrite !upd_eq.
        destruct (Z.eqb_spec x t') as [->|]; [rewrite Ept' in Hx; destruct Hx|].
        destruct (Z.eqb_spec x t) as [->|]; auto. rewrite Ept in Hx. cbn in Hx. congruence.
    + intros o2 t1 t2. rewrite !upd_eq.
      destruct (Z.eqb_spec t1 t') as [->|N1], (Z.eqb_spec t2 t') as [->|N2]; cbn; auto.
      * destruct (Z.eqb_spec t2 t) as [->|N3]; cbn; [tauto|]. intros <- H2. exfalso. apply N3. now apply Honly.
      * destruct (Z.eqb_spec t1 t) as [->|N3]; cbn; [tauto|]. intros H1 <-. exfalso. apply N3. now apply Honly.
      * destruct (Z.eqb_spec t1 t), (Z.eqb_spec t2 t); cbn; try tauto. apply (i_own s I).
    + intros k2. rewrite !upd_eq. destruct (Z.eqb_spec k2 k') as [->|Hk].
      * rewrite (i_log s I k'), Eit, Eo, updn_same, Eq. cbn. now rewrite <- app_assoc.
      * rewrite (i_log s I k2). destruct (items s k2) as [it2|] eqn:E2; auto.
        rewrite updn_other; auto. eapply Hother; eauto.
Qed.

Lemma minv_step s e s' : minv s -> mstep s e = Some s' -> minv s'.
Proof.
  destruct e; eauto using step_lockA, step_lockB, step_unlockA, step_unlockB.
Qed.

Lemma minv_run es : forall s s', minv s -> mrun s es = Some s' -> minv s'.
Proof.
  induction es as [|e es IH]; cbn; intros s s' Hi Hr.
  - inversion Hr; subst; exact Hi.
  - unfold mrun in Hr; cbn in Hr. destruct (mstep s e) as [s1|] eqn:E; [|discriminate].
    eapply IH; [eapply minv_step; eauto | exact Hr].
Qed.

Lemma between_pk s t k : Model_FifoMap.between s t k <-> exists o, pk (mpcs s t) = Some (k, o).
Proof.
  unfold Model_FifoMap.between. split.
  - intros [o [H|[H|H]]]; exists o; rewrite H; reflexivity.
  - intros [o H]. exists o. destruct (mpcs s t); cbn in H; inversion H; subst; auto.
Qed.

Lemma fifomap_no_panic_all : forall es s, mrun minit es = Some s -> mpanic s = false.
Proof. intros es s Hr. exact (i_panic s (minv_run es _ _ minv_init Hr)). Qed.

Lemma fifomap_excl_all : forall es s k, mrun minit es = Some s ->
  excl (fun t => exists o, mpcs s t = MHold k o) (fun _ => False).
Proof.
  intros es s k Hr. pose proof (minv_run es _ _ minv_init Hr) as I.
  split; [|intros _ _ _ []]. intros t1 t2 [o1 H1] [o2 H2].
  assert (P1 : pk (mpcs s t1) = Some (k, o1)) by now rewrite H1.
  assert (P2 : pk (mpcs s t2) = Some (k, o2)) by now rewrite H2.
  destruct (i_use s I _ _ _ P1) as (it1 & E1 & F1). destruct (i_use s I _ _ _ P2) as (it2 & E2 & F2).
  assert (Ho : o1 = o2) by congruence.
  apply (i_own s I o1); [rewrite H1 | rewrite H2]; cbn; congruence.
Qed.

Lemma fifomap_order_all : forall es s k, mrun minit es = Some s -> fifo (karr s k) (kgrants s k).
Proof.
  intros es s k Hr. pose proof (minv_run es _ _ minv_init Hr) as I. eexists. apply (i_log s I k).
Qed.

Lemma fifomap_count_all : forall es s k, mrun minit es = Some s ->
  match items s k with
  | Some it => it_len it = Z.of_nat (length (it_users it)) /\ (it_len it >= 1)%Z /\
               NoDup (it_users it) /\ (forall t, In t (it_users it) <-> Model_FifoMap.between s t k)
  | None => forall t, ~ Model_FifoMap.between s t k
  end.
Proof.
  intros es s k Hr. pose proof (minv_run es _ _ minv_init Hr) as I.
  destruct (items s k) as [it|] eqn:Eit.
  - destruct (i_item s I k it Eit) as (A1 & A2 & A3 & A4 & A5).
    split; [exact A2|]. split; [destruct (it_users it); [contradiction | cbn [length] in A2; lia]|].
    split; [exact A4|]. intros t. rewrite A5, between_pk. split; [eauto|].
    intros [o Ho]. destruct (i_use s I t k o Ho) as (it2 & E2 & F2). congruence.
  - intros t Hb. apply between_pk in Hb as [o Ho].
    destruct (i_use s I t k o Ho) as (it2 & E2 & F2). congruence.
Qed.

Lemma fifomap_no_leak_all : forall es s k, mrun minit es = Some s ->
  no_leak (present s k) (fun t => Model_FifoMap.between s t k).
Proof.
  intros es s k Hr. pose proof (fifomap_count_all es s k Hr) as Hc. unfold no_leak, present.
  destruct (items s k) as [it|].
  - destruct Hc as (Hl & Hge & _ & Hm). split; [intros _|reflexivity].
    destruct (it_users it) as [|t l] eqn:E.
    + exfalso. cbn [length] in Hl. lia.
    + exists t. apply Hm. now left.
  - split; [discriminate|]. intros [t Ht]. exfalso. eapply Hc; eauto.
Qed.

(* non-vacuity: 1 holds key 5, 2 queues; 1's Unlock keeps the entry (2 is counted) and hands
   over; 2's Unlock deletes it; 3 re-creates it with a fresh mutex *)
Example fifomap_example :
  match mrun minit [MLockA 1 5; MLockB 1; MLockA 2 5; MLockB 2; MUnlockA 1 5] with
  | Some s => present s 5 = true /\ mpcs s 2 = MWait 5 0%nat /\
      match mrun s [MUnlockB 1; MUnlockA 2 5] with
      | Some s2 => present s2 5 = false /\ mpcs s2 2 = MRel 0%nat /\
          match mrun s2 [MLockA 3 5; MLockB 3; MUnlockB 2] with
          | Some s3 => present s3 5 = true /\ mpcs s3 3 = MHold 5 1%nat /\ kgrants s3 5 = [1; 2; 3]
          | None => False
          end
      | None => False
      end
  | None => False
  end.
Proof. vm_compute. repeat split. Qed.
