(* C13 — lock.Context: invariants for ALL schedules. *)
From Kit Require Import C13.Model_Ctx C13.Spec.
Local Open Scope Z_scope.

Definition is_hold (p : xpc) : Prop := match p with XHold _ => True | _ => False end.

Definition xinv (s : xstate) : Prop :=
  (tok s = true <-> exists t, owns s t) /\
  (forall t1 t2, owns s t1 -> owns s t2 -> t1 = t2) /\
  (forall t, xpcs s t = XHold true -> rww s = true /\ rwr s = 0%nat) /\
  (forall t, xpcs s t = XHold false -> rww s = false /\ rwr s = 1%nat) /\
  ((forall t, ~ is_hold (xpcs s t)) -> rww s = false /\ rwr s = 0%nat) /\
  (forall t, xres s t = Some false -> xpcs s t = XIdle) /\
  (forall t, xres s t = Some true -> is_hold (xpcs s t) \/ (exists w, xpcs s t = XRel w) \/ xpcs s t = XIdle).

Lemma xinv_init : xinv xinit.
Proof.
  unfold xinv, xinit, owns; cbn. refine (conj _ (conj _ (conj _ (conj _ (conj _ (conj _ _)))))).
  - split; [discriminate | intros [t []]].
  - intros t1 t2 [].
  - discriminate.
  - discriminate.
  - auto.
  - discriminate.
  - discriminate.
Qed.

Lemma upd_eq {A} (f : Z -> A) x v y : upd f x v y = if Z.eqb y x then v else f y.
Proof. reflexivity. Qed.

Ltac eqb_cases :=
  repeat match goal with
         | |- context [Z.eqb ?a ?b] => destruct (Z.eqb_spec a b); subst
         | H : context [Z.eqb ?a ?b] |- _ => destruct (Z.eqb_spec a b); subst
         end.

(* the owner, if any, is the only thread not in XIdle/XSel *)
Lemma no_owner_no_hold s : (forall t, ~ owns s t) -> forall t, ~ is_hold (xpcs s t).
Proof. intros H t Hh. apply (H t). unfold owns. destruct (xpcs s t); cbn in *; auto. Qed.

Lemma xinv_step s e s' : xinv s -> xstep s e = Some s' -> xinv s'.
Proof.
  intros (Htok & Huniq & Hw & Hr & Hnone & Herr & Hok) Hstep.
  assert (Hfree : tok s = false -> forall t, ~ owns s t).
  { intros Hf t Ho. assert (tok s = true) by (apply Htok; eauto). congruence. }
  destruct e as [t w c|t|t|t|t|t|c]; cbn in Hstep.
  - (* XCall *)
    destruct (xpcs s t) eqn:Ept; try discriminate. inversion Hstep; subst s'; clear Hstep.
    unfold xinv, owns in *; cbn.
    refine (conj _ (conj _ (conj _ (conj _ (conj _ (conj _ _)))))).
    + rewrite Htok. split; intros [x Hx]; exists x; rewrite upd_eq in *; eqb_cases; auto;
        try (rewrite Ept in Hx; auto); cbn in *; try contradiction.
    + intros t1 t2. rewrite !upd_eq. eqb_cases; cbn; try contradiction; auto.
    + intros x. rewrite upd_eq. eqb_cases; [discriminate | apply Hw].
    + intros x. rewrite upd_eq. eqb_cases; [discriminate | apply Hr].
    + intros Hn. apply Hnone. intros x. specialize (Hn x). rewrite upd_eq in Hn. eqb_cases; auto.
      rewrite Ept. cbn. auto.
    + intros x. rewrite !upd_eq. eqb_cases; [discriminate | apply Herr].
    + intros x. rewrite !upd_eq. eqb_cases; [discriminate | apply Hok].
  - (* XTake *)
    destruct (xpcs s t) eqn:Ept; try discriminate. destruct (tok s) eqn:Etok; [discriminate|].
    inversion Hstep; subst s'; clear Hstep.
    specialize (Hfree eq_refl).
    destruct (Hnone (no_owner_no_hold s Hfree)) as [Hrw Hrr].
    unfold xinv, owns in *; cbn.
    refine (conj _ (conj _ (conj _ (conj _ (conj _ (conj _ _)))))).
    + split; [intros _; exists t; rewrite upd_eq, Z.eqb_refl; exact I | reflexivity].
    + intros t1 t2. rewrite !upd_eq. eqb_cases; auto; intros H1 H2; exfalso;
        match goal with H : match xpcs s ?x with _ => _ end |- _ => apply (Hfree x); exact H end.
    + intros x. rewrite upd_eq. eqb_cases; [discriminate|]. intro Hx. exfalso. apply (Hfree x). now rewrite Hx.
    + intros x. rewrite upd_eq. eqb_cases; [discriminate|]. intro Hx. exfalso. apply (Hfree x). now rewrite Hx.
    + intros _. auto.
    + intros x. rewrite upd_eq. eqb_cases; [|apply Herr]. intro Hx. apply Herr in Hx. congruence.
    + intros x. rewrite upd_eq. eqb_cases; [|apply Hok]. intro Hx. apply Hok in Hx. rewrite Ept in Hx.
      cbn in Hx. destruct Hx as [[]|[[? ?]|?]]; discriminate.
  - (* XRW *)
    destruct (xpcs s t) as [| | w0 | |] eqn:Ept; try discriminate.
    assert (Hown : owns s t) by (unfold owns; now rewrite Ept).
    assert (Hnh : forall x, ~ is_hold (xpcs s x)).
    { intros x Hx. assert (x = t). { apply Huniq; auto. unfold owns. destruct (xpcs s x); cbn in *; auto. }
      subst. now rewrite Ept in Hx. }
    destruct (Hnone Hnh) as [Hrw Hrr].
    destruct w0; rewrite Hrw in Hstep; cbn in Hstep.
    + rewrite Hrr in Hstep. cbn in Hstep. inversion Hstep; subst s'; clear Hstep.
      unfold xinv, owns in *; cbn.
      refine (conj _ (conj _ (conj _ (conj _ (conj _ (conj _ _)))))).
      * rewrite Htok. split; intros [x Hx]; exists x; rewrite upd_eq in *; eqb_cases; auto; now rewrite Ept.
      * intros t1 t2. rewrite !upd_eq. intros H1 H2. apply Huniq; eqb_cases; auto; now rewrite Ept.
      * intros x _. auto.
      * intros x. rewrite upd_eq. eqb_cases; [discriminate|]. intro Hx. exfalso. apply (Hnh x). now rewrite Hx.
      * intros Hn. exfalso. apply (Hn t). rewrite upd_eq, Z.eqb_refl. exact I.
      * intros x. rewrite !upd_eq. eqb_cases; [discriminate | apply Herr].
      * intros x. rewrite !upd_eq. eqb_cases; [intros _; left; exact I | apply Hok].
    + inversion Hstep; subst s'; clear Hstep.
      unfold xinv, owns in *; cbn.
      refine (conj _ (conj _ (conj _ (conj _ (conj _ (conj _ _)))))).
      * rewrite Htok. split; intros [x Hx]; exists x; rewrite upd_eq in *; eqb_cases; auto; now rewrite Ept.
      * intros t1 t2. rewrite !upd_eq. intros H1 H2. apply Huniq; eqb_cases; auto; now rewrite Ept.
      * intros x. rewrite upd_eq. eqb_cases; [discriminate|]. intro Hx. exfalso. apply (Hnh x). now rewrite Hx.
      * intros x _. rewrite Hrr. auto.
      * intros Hn. exfalso. apply (Hn t). rewrite upd_eq, Z.eqb_refl. exact I.
      * intros x. rewrite !upd_eq. eqb_cases; [discriminate | apply Herr].
      * intros x. rewrite !upd_eq. eqb_cases; [intros _; left; exact I | apply Hok].
  - (* XErr *)
    destruct (xpcs s t) eqn:Ept; try discriminate. destruct (cdone s c); [|discriminate].
    inversion Hstep; subst s'; clear Hstep.
    unfold xinv, owns in *; cbn.
    refine (conj _ (conj _ (conj _ (conj _ (conj _ (conj _ _)))))).
    + rewrite Htok. split; intros [x Hx]; exists x; rewrite upd_eq in *; eqb_cases; auto;
        try (rewrite Ept in Hx; auto); cbn in *; try contradiction.
    + intros t1 t2. rewrite !upd_eq. eqb_cases; cbn; try contradiction; auto.
    + intros x. rewrite upd_eq. eqb_cases; [discriminate | apply Hw].
    + intros x. rewrite upd_eq. eqb_cases; [discriminate | apply Hr].
    + intros Hn. apply Hnone. intros x. specialize (Hn x). rewrite upd_eq in Hn. eqb_cases; auto.
      rewrite Ept. cbn. auto.
    + intros x. rewrite !upd_eq. eqb_cases; [reflexivity | apply Herr].
    + intros x. rewrite !upd_eq. eqb_cases; [discriminate | apply Hok].
  - (* XUnlockA *)
    destruct (xpcs s t) as [| | | w0 |] eqn:Ept; try discriminate.
    assert (Hown : owns s t) by (unfold owns; now rewrite Ept).
    assert (Honly : forall x, is_hold (xpcs s x) -> x = t).
    { intros x Hx. apply Huniq; auto. unfold owns. destruct (xpcs s x); cbn in *; auto. }
    destruct w0; inversion Hstep; subst s'; clear Hstep; unfold xinv, owns in *; cbn;
      refine (conj _ (conj _ (conj _ (conj _ (conj _ (conj _ _)))))).
    + rewrite Htok. split; intros [x Hx]; exists x; rewrite upd_eq in *; eqb_cases; auto; now rewrite Ept.
    + intros t1 t2. rewrite !upd_eq. intros H1 H2. apply Huniq; eqb_cases; auto; now rewrite Ept.
    + intros x. rewrite upd_eq. eqb_cases; [discriminate|]. intro Hx. exfalso. apply n. apply Honly. now rewrite Hx.
    + intros x. rewrite upd_eq. eqb_cases; [discriminate|]. intro Hx. exfalso. apply n. apply Honly. now rewrite Hx.
    + intros _. destruct (Hw t Ept) as [_ Hz]. auto.
    + intros x. rewrite !upd_eq. eqb_cases; [|apply Herr]. intro Hx. apply Herr in Hx. congruence.
    + intros x. rewrite !upd_eq. eqb_cases; [intros _; right; left; eauto | apply Hok].
    + rewrite Htok. split; intros [x Hx]; exists x; rewrite upd_eq in *; eqb_cases; auto; now rewrite Ept.
    + intros t1 t2. rewrite !upd_eq. intros H1 H2. apply Huniq; eqb_cases; auto; now rewrite Ept.
    + intros x. rewrite upd_eq. eqb_cases; [discriminate|]. intro Hx. exfalso. apply n. apply Honly. now rewrite Hx.
    + intros x. rewrite upd_eq. eqb_cases; [discriminate|]. intro Hx. exfalso. apply n. apply Honly. now rewrite Hx.
    + intros _. destruct (Hr t Ept) as [Hz1 Hz2]. rewrite Hz2. auto.
    + intros x. rewrite !upd_eq. eqb_cases; [|apply Herr]. intro Hx. apply Herr in Hx. congruence.
    + intros x. rewrite !upd_eq. eqb_cases; [intros _; right; left; eauto | apply Hok].
  - (* XUnlockB *)
    destruct (xpcs s t) as [| | | | w0] eqn:Ept; try discriminate.
    destruct (tok s) eqn:Etok; [|discriminate].
    inversion Hstep; subst s'; clear Hstep.
    assert (Hown : owns s t) by (unfold owns; now rewrite Ept).
    unfold xinv, owns in *; cbn.
    refine (conj _ (conj _ (conj _ (conj _ (conj _ (conj _ _)))))).
    + split; [discriminate|]. intros [x Hx]. rewrite upd_eq in Hx. eqb_cases; [contradiction|].
      exfalso. apply n. apply Huniq; auto.
    + intros t1 t2. rewrite !upd_eq. eqb_cases; cbn; try contradiction; auto.
    + intros x. rewrite upd_eq. eqb_cases; [discriminate | apply Hw].
    + intros x. rewrite upd_eq. eqb_cases; [discriminate | apply Hr].
    + intros Hn. apply Hnone. intros x. specialize (Hn x). rewrite upd_eq in Hn. eqb_cases; auto.
      rewrite Ept. cbn. auto.
    + intros x. rewrite !upd_eq. eqb_cases; [|apply Herr]. intro Hx. apply Herr in Hx. congruence.
    + intros x. rewrite !upd_eq. eqb_cases; [intros _; right; right; reflexivity | apply Hok].
  - (* XCancel *)
    inversion Hstep; subst s'; clear Hstep. unfold xinv, owns in *; cbn.
    refine (conj Htok (conj Huniq (conj Hw (conj Hr (conj Hnone (conj Herr Hok)))))).
Qed.

Lemma xinv_run es : forall s s', xinv s -> xrun s es = Some s' -> xinv s'.
Proof.
  induction es as [|e es IH]; cbn; intros s s' Hi Hr.
  - inversion Hr; subst; exact Hi.
  - unfold xrun in Hr; cbn in Hr. destruct (xstep s e) as [s1|] eqn:E; [|discriminate].
    eapply IH; [eapply xinv_step; eauto | exact Hr].
Qed.

Lemma ctx_excl_all : forall es s, xrun xinit es = Some s -> excl (fun t => owns s t) (fun _ => False).
Proof.
  intros es s Hr. destruct (xinv_run es _ _ xinv_init Hr) as (_ & H2 & _).
  split; [exact H2 | intros _ _ _ []].
Qed.

Lemma ctx_token_all : forall es s, xrun xinit es = Some s ->
  (tok s = true <-> exists t, owns s t) /\
  (forall t, xpcs s t = XHold true -> rww s = true /\ rwr s = 0%nat) /\
  (forall t, xpcs s t = XHold false -> rww s = false /\ rwr s = 1%nat) /\
  ((forall t, ~ is_hold (xpcs s t)) -> rww s = false /\ rwr s = 0%nat).
Proof.
  intros es s Hr. destruct (xinv_run es _ _ xinv_init Hr) as (H1 & _ & H3 & H4 & H5 & _).
  auto.
Qed.

(* the error path changes nothing but the caller's program counter and result *)
Lemma ctx_error_holds_nothing_step : forall s t s', xstep s (XErr t) = Some s' ->
  tok s' = tok s /\ rww s' = rww s /\ rwr s' = rwr s /\ xpcs s' t = XIdle /\
  xres s' t = Some false /\ ~ owns s' t /\ (forall x, x <> t -> xpcs s' x = xpcs s x).
Proof.
  intros s t s' H. cbn in H. destruct (xpcs s t); try discriminate.
  destruct (cdone s c); [|discriminate]. inversion H; subst; cbn. unfold owns; cbn.
  rewrite !upd_same. repeat split; auto. intros x Hx. now rewrite upd_other.
Qed.

Lemma ctx_error_holds_nothing_all : forall es s t, xrun xinit es = Some s ->
  xres s t = Some false -> xpcs s t = XIdle /\ ~ owns s t.
Proof.
  intros es s t Hr He. destruct (xinv_run es _ _ xinv_init Hr) as (_ & _ & _ & _ & _ & H6 & _).
  pose proof (H6 t He) as Hp. split; [exact Hp|]. unfold owns. now rewrite Hp.
Qed.

Lemma ctx_ok_holds_all : forall es s t, xrun xinit es = Some s ->
  xres s t = Some true -> (exists w, xpcs s t = XHold w \/ xpcs s t = XRel w) \/ xpcs s t = XIdle.
Proof.
  intros es s t Hr He. destruct (xinv_run es _ _ xinv_init Hr) as (_ & _ & _ & _ & _ & _ & H7).
  destruct (H7 t He) as [Hh|[[w Hw]|Hi]]; auto.
  - destruct (xpcs s t) eqn:E; cbn in Hh; try contradiction. left; eauto.
  - left; eauto.
Qed.

(* a waiter whose context is done has an enabled return event, whatever else is going on *)
Lemma ctx_cancel_unblocks_all : forall s t w c, xpcs s t = XSel w c -> cdone s c = true ->
  exists s', xstep s (XErr t) = Some s' /\ xpcs s' t = XIdle /\ xres s' t = Some false.
Proof.
  intros s t w c Hp Hd. eexists. cbn. rewrite Hp, Hd. split; [reflexivity|]. cbn.
  now rewrite !upd_same.
Qed.

(* when nobody owns the token a waiter can take it and acquire the RWMutex at once: no stuck lock *)
Lemma ctx_free_token_take : forall es s t w c, xrun xinit es = Some s -> xpcs s t = XSel w c ->
  (forall t', ~ owns s t') ->
  exists s1 s2, xstep s (XTake t) = Some s1 /\ xstep s1 (XRW t) = Some s2 /\ xpcs s2 t = XHold w.
Proof.
  intros es s t w c Hr Hp Hfree.
  destruct (xinv_run es _ _ xinv_init Hr) as (H1 & _ & _ & _ & H5 & _).
  assert (Htok : tok s = false).
  { destruct (tok s) eqn:E; auto. destruct (proj1 H1 eq_refl) as [x Hx]. exfalso. eapply Hfree; eauto. }
  destruct (H5 (no_owner_no_hold s Hfree)) as [Hrw Hrr].
  destruct w; cbn; rewrite Hp, Htok; eexists; eexists; (split; [reflexivity|]); cbn; rewrite upd_same;
    rewrite Hrw; cbn; [rewrite Hrr; cbn|]; (split; [reflexivity|]); cbn; now rewrite upd_same.
Qed.

(* non-vacuity: 1 holds, 2 waits with context 7, the context ends, 2 returns the error; 1's
   hold is untouched and the token is still taken *)
Example ctx_example :
  match xrun xinit [XCall 1 true 0; XTake 1; XRW 1; XCall 2 true 7; XCancel 7; XErr 2] with
  | Some s => xpcs s 1 = XHold true /\ xpcs s 2 = XIdle /\ xres s 2 = Some false /\ tok s = true
  | None => False
  end.
Proof. vm_compute. repeat split. Qed.

(* The token is never held on behalf of a call that reported an error: in every reachable state
   (all schedules, including those in which the select picked the send although the context was
   already done - [XTake] does not look at the context) a taken token has an owner, and no owner's
   last acquisition ended in an error.  So after any number of error returns the lock is free
   whenever nobody is inside or on its way in or out. *)
Lemma ctx_token_never_orphaned : forall es s, xrun xinit es = Some s ->
  (tok s = true -> exists t, owns s t /\ xres s t <> Some false) /\
  (forall t, xres s t = Some false -> ~ owns s t) /\
  ((forall t, ~ owns s t) -> tok s = false /\ rww s = false /\ rwr s = 0%nat).
Proof.
  intros es s Hr. pose proof (ctx_token_all es s Hr) as (H1 & _ & _ & H4).
  split; [|split].
  - intro Ht. destruct (proj1 H1 Ht) as [t Ho]. exists t. split; auto.
    intro He. destruct (ctx_error_holds_nothing_all es s t Hr He) as [_ Hn]. contradiction.
  - intros t He. apply (ctx_error_holds_nothing_all es s t Hr He).
  - intro Hno. split.
    + destruct (tok s) eqn:E; auto. destruct (proj1 H1 eq_refl) as [t Ho]. exfalso. eapply Hno; eauto.
    + apply H4. apply no_owner_no_hold. exact Hno.
Qed.

(* the seam of the seeded change C13-r3m1: the context is already done, the lock is free, the select
   picks the send: the call ACQUIRES (returns nil) - it never reports an error while keeping the
   token - and after its Unlock the token is free again *)
Example ctx_send_although_done :
  match xrun xinit [XCancel 7; XCall 1 true 7; XTake 1; XRW 1] with
  | Some s => xpcs s 1 = XHold true /\ xres s 1 = Some true /\ xstep s (XErr 1) = None /\
      match xrun s [XUnlockA 1; XUnlockB 1; XCall 2 false 7; XErr 2] with
      | Some s2 => tok s2 = false /\ xres s2 2 = Some false /\ xpcs s2 2 = XIdle
      | None => False
      end
  | None => False
  end.
Proof. vm_compute. repeat split. Qed.
