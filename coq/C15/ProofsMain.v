(* C15 — the headline statements in declarative form (over the chronological history, no
   executable [last_set]/[expected_get] in the conclusion), derived from Proofs.v / ProofsConc.v,
   and the soundness of the whole-observation oracle [all_obs_ok] used by Check.v.  No axioms. *)
From Kit Require Import C15.Model C15.Spec C15.Check C15.ProofsMap C15.Proofs C15.ProofsConc.
From Coq Require Import ZifyBool.
Local Open Scope Z_scope.

(* ------------------------------------------------------------------------------------- *)
(* Sequential system, declarative                                                          *)

Theorem main_get_sound maxttl t0 ops k v :
  get (final maxttl t0 ops) k = Some v -> justified maxttl ops k v.
Proof.
  intro H. apply expected_get_spec. eapply seq_get_sound. exact H.
Qed.

(* a justification whose TTL fits int64 nanoseconds makes [last_set_fits] true *)
Lemma justified_fits maxttl h k v h1 ttl h2 :
  h = h1 ++ OSet k v ttl :: h2 -> 0 < ttl -> Forall (leaves k) h2 ->
  ttl_ns maxttl ttl < 2^63 -> last_set_fits maxttl (rev h) k = true.
Proof.
  intros -> Hpos Hall Hfit. unfold last_set_fits.
  assert (Hls : last_set (rev (h1 ++ OSet k v ttl :: h2)) k 0 = Some (v, ttl, 0 + elapsed (rev h2))).
  { apply last_set_spec. exists (rev h2), (rev h1). repeat split; auto.
    - rewrite rev_app_distr. cbn [rev]. rewrite <- app_assoc. reflexivity.
    - apply Forall_rev. exact Hall. }
  rewrite Hls. unfold fits. lia.
Qed.

Theorem main_get_complete maxttl t0 ops k v h1 ttl h2 :
  forallb op_forward ops = true ->
  ops = h1 ++ OSet k v ttl :: h2 -> 0 < ttl -> Forall (leaves k) h2 ->
  elapsed h2 < ttl_ns maxttl ttl -> ttl_ns maxttl ttl < 2^63 ->
  get (final maxttl t0 ops) k = Some v.
Proof.
  intros Hf Hops Hpos Hall Hel Hfit.
  apply seq_get_complete; [exact Hf | |].
  - eapply justified_fits; eassumption.
  - apply expected_get_spec. exists h1, ttl, h2. auto.
Qed.

Example main_get_complete_nonvacuous :
  let ops := [OSet 1 4 9; OSet 0 7 2; OAdvance 1999999999; OCleanup; OGet 1] in
  forallb op_forward ops = true /\
  ops = [OSet 1 4 9] ++ OSet 0 7 2 :: [OAdvance 1999999999; OCleanup; OGet 1] /\
  Forall (leaves 0) [OAdvance 1999999999; OCleanup; OGet 1] /\
  elapsed [OAdvance 1999999999; OCleanup; OGet 1] < ttl_ns 0 2 /\ ttl_ns 0 2 < 2^63 /\
  get (final 0 0 ops) 0 = Some 7.
Proof.
  cbn zeta. split; [reflexivity|]. split; [reflexivity|].
  split; [repeat constructor|]. vm_compute. repeat split; reflexivity.
Qed.

(* boundary with the side condition as an inequality *)
Theorem main_boundary maxttl s k v ttl s' :
  set maxttl s k v ttl = Some s' -> ttl_ns maxttl ttl < 2^63 ->
  get (advance s' (ttl_ns maxttl ttl)) k = None /\
  get (advance s' (ttl_ns maxttl ttl - 1)) k = Some v.
Proof.
  intros Hs Hf. apply (boundary maxttl s k v ttl s' Hs). unfold fits. lia.
Qed.

(* ------------------------------------------------------------------------------------- *)
(* Interleaved system, declarative                                                         *)

Theorem main_conc_get_complete maxttl t0 es s k v h1 ttl h2 :
  forallb forward_ev es = true -> crun maxttl (cinit t0) es = Some s ->
  ~ In k (clost s) ->
  flat_map ev_op es = h1 ++ OSet k v ttl :: h2 -> 0 < ttl -> Forall (leaves k) h2 ->
  elapsed h2 < ttl_ns maxttl ttl -> ttl_ns maxttl ttl < 2^63 ->
  cget s k = Some v.
Proof.
  intros Hf Hrun Hnl Hh Hpos Hall Hel Hfit.
  pose proof (crun_hist maxttl es _ _ Hrun) as Hc. cbn [cinit chist] in Hc. rewrite app_nil_r in Hc.
  eapply conc_get_complete; [exact Hf | exact Hrun | exact Hnl | |]; rewrite Hc.
  - eapply justified_fits; eassumption.
  - apply expected_get_spec. exists h1, ttl, h2. auto.
Qed.

(* ------------------------------------------------------------------------------------- *)
(* The whole-observation oracle of Check.v: if [all_obs_ok] accepts the observed results of a
   history, then every observed hit is justified by the operations issued before it, and (strict
   mode) every observed miss is unjustifiable — except in the int64 corner.                  *)

Lemma all_obs_ok_get strict maxttl : forall h rs pre,
  all_obs_ok strict maxttl (rev pre) h rs = true ->
  forall a k b r, h = a ++ OGet k :: b -> nth_error rs (length a) = Some (RGet r) ->
    (if strict then get_ok maxttl (rev (pre ++ a)) k r
     else get_sound_ok maxttl (rev (pre ++ a)) k r) = true.
Proof.
  induction h as [|o h' IH]; intros rs pre Hall a k b r Hh Hn.
  - destruct a; discriminate.
  - destruct rs as [|r0 rs']; [discriminate|]. cbn [all_obs_ok] in Hall.
    apply andb_true_iff in Hall as [Ho Hall].
    destruct a as [|o' a'].
    + cbn [app] in Hh. inversion Hh; subst o h'. cbn [length nth_error] in Hn.
      inversion Hn; subst r0. rewrite app_nil_r. cbn [obs_ok] in Ho. exact Ho.
    + cbn [app] in Hh. inversion Hh; subst o' h'. cbn [length nth_error] in Hn.
      change (o :: rev pre) with ([o] ++ rev pre)%list in Hall.
      change [o] with (rev [o]) in Hall. rewrite <- rev_app_distr in Hall.
      specialize (IH rs' (pre ++ [o]) Hall a' k b r eq_refl Hn).
      rewrite <- app_assoc in IH. exact IH.
Qed.

Theorem main_oracle_hits_justified strict maxttl h rs a k b v :
  all_obs_ok strict maxttl [] h rs = true ->
  h = a ++ OGet k :: b -> nth_error rs (length a) = Some (RGet (Some v)) ->
  justified maxttl a k v.
Proof.
  intros Hall Hh Hn.
  pose proof (all_obs_ok_get strict maxttl h rs [] Hall a k b (Some v) Hh Hn) as H.
  cbn [app] in H.
  assert (Hs : get_sound_ok maxttl (rev a) k (Some v) = true).
  { destruct strict; exact H. }
  apply (get_sound_ok_sound maxttl a k (Some v)) in Hs. exact Hs.
Qed.

Theorem main_oracle_misses_justified maxttl h rs a k b :
  all_obs_ok true maxttl [] h rs = true ->
  h = a ++ OGet k :: b -> nth_error rs (length a) = Some (RGet None) ->
  (forall v, ~ justified maxttl a k v) \/ last_set_fits maxttl (rev a) k = false.
Proof.
  intros Hall Hh Hn.
  pose proof (all_obs_ok_get true maxttl h rs [] Hall a k b None Hh Hn) as H.
  cbn [app] in H. apply (get_ok_sound maxttl a k None) in H. exact H.
Qed.

(* Stop in the MIDDLE of a history ([OStop] is an operation like any other, so every theorem above
   already quantifies over histories that contain it): it changes nothing a client can see - the
   model's state is untouched, and the specification's expectation for every key is the same
   with or without it; whatever is Set after a Stop is what Get must return. *)
Theorem main_stop_transparent maxttl s rh k :
  step maxttl s OStop = (s, RUnit) /\
  expected_get maxttl (OStop :: rh) k = expected_get maxttl rh k.
Proof. split; reflexivity. Qed.

Example main_set_after_stop :
  let ops := [OSet 0 1 100; OStop; OSet 0 2 5; OGet 0; OAdvance 5000000000; OGet 0; OStop; OGet 0] in
  results 0 0 ops = [RUnit; RUnit; RUnit; RGet (Some 2); RUnit; RGet None; RUnit; RGet None] /\
  all_obs_ok true 0 [] ops (results 0 0 ops) = true /\
  all_obs_ok true 0 [] ops [RUnit; RUnit; RUnit; RGet (Some 1); RUnit; RGet (Some 1); RUnit; RGet (Some 1)] = false.
Proof. vm_compute. repeat split; reflexivity. Qed.

(* the verdict function: 0 exactly when the oracle holds and the model agrees; 2 exactly when the
   oracle fails *)
Theorem main_check_case_verdict c :
  (check_case c = 0 <-> oracle c = true /\ model_agrees c = true) /\
  (check_case c = 2 <-> oracle c = false).
Proof.
  unfold check_case. destruct (oracle c), (model_agrees c); cbn [negb]; split; split;
    try (intros [? ?]); try intro; try split; try reflexivity; try discriminate; auto.
Qed.

Theorem main_oracle_stop c :
  oracle c = true ->
  match c with
  | CSeq _ _ _ sr ce | CConc _ _ _ sr ce => sr = true /\ ce = true
  | CStops calls late =>
      (forall sr ce, In (sr, ce) calls -> sr = true /\ ce = true) /\ late = false
  end.
Proof.
  destruct c as [m o r sr ce|m o r sr ce|calls late]; cbn [oracle]; unfold stop_ok; intro H.
  - apply andb_true_iff in H as [_ H]; apply andb_true_iff in H; exact H.
  - apply andb_true_iff in H as [_ H]; apply andb_true_iff in H; exact H.
  - apply andb_true_iff in H as [H Hl]. split.
    + intros sr ce Hin. rewrite forallb_forall in H. specialize (H _ Hin).
      cbn [fst snd] in H. apply andb_true_iff in H; exact H.
    + destruct late; [discriminate|reflexivity].
Qed.

Example main_oracle_stop_nonvacuous :
  oracle (CStops [(true, true); (true, true); (true, true)] false) = true /\
  check_case (CStops [(true, true); (true, false)] false) = 2 /\
  check_case (CStops [(true, true); (false, false)] false) = 2 /\
  check_case (CStops [(true, true); (true, true)] true) = 2.
Proof. vm_compute. repeat split; reflexivity. Qed.
