(* C15 — the background cleaner and Stop: Stop returns only after the cleaner goroutine has
   exited, for every schedule and any number of concurrent Stop calls; a pending Stop can always
   complete without any help from the environment (no wedge).  No axioms. *)
From Kit Require Import C15.Model.
From Coq Require Import Lia.

Lemma nth_set_nth_eq {A} (l : list A) : forall i x y,
  nth_error l i = Some y -> nth_error (set_nth i x l) i = Some x.
Proof.
  induction l as [|z t IH]; intros [|j] x y; cbn [nth_error set_nth]; try discriminate.
  - reflexivity.
  - apply IH.
Qed.

Lemma nth_set_nth_neq {A} (l : list A) : forall i j x,
  i <> j -> nth_error (set_nth i x l) j = nth_error l j.
Proof.
  induction l as [|z t IH]; intros [|i] [|j] x Hne; cbn [nth_error set_nth]; try reflexivity.
  - congruence.
  - apply IH. congruence.
Qed.

Lemma nth_set_nth {A} (l : list A) i j x y :
  nth_error (set_nth i x l) j = Some y ->
  (i = j /\ y = x) \/ nth_error l j = Some y.
Proof.
  destruct (Nat.eq_dec i j) as [->|Hne].
  - destruct (nth_error l j) as [z|] eqn:Hz.
    + rewrite (nth_set_nth_eq l j x z Hz). intro H. inversion H. left. auto.
    + intro H. exfalso.
      assert (Hlen : (length (set_nth j x l) <= j)%nat).
      { clear H. revert j Hz. induction l as [|w t IH]; intros [|j] Hz; cbn [set_nth length nth_error] in *;
          try discriminate; try lia. specialize (IH j Hz). lia. }
      apply nth_error_None in Hlen. congruence.
  - rewrite nth_set_nth_neq by exact Hne. auto.
Qed.

Lemma nth_snoc {A} (l : list A) x i y :
  nth_error (l ++ [x]) i = Some y -> nth_error l i = Some y \/ y = x.
Proof.
  destruct (Nat.lt_ge_cases i (length l)) as [Hlt|Hge].
  - rewrite nth_error_app1 by exact Hlt. auto.
  - rewrite nth_error_app2 by exact Hge.
    destruct (i - length l)%nat as [|n]; cbn [nth_error].
    + intro H. inversion H. auto.
    + destruct n; discriminate.
Qed.

(* ------------------------------------------------------------------------------------- *)

Definition LInv (s : life) : Prop :=
  (lrunningch s = true <-> lcleaner s = PExited) /\
  (lcleaner s = PExited -> lstopch s = true) /\
  (lstopch s = true -> lstopped s = true) /\
  (forall i, nth_error (lcallers s) i = Some SReturned -> lrunningch s = true) /\
  (lstopped s = true -> lstopch s = false ->
   exists j, nth_error (lcallers s) j = Some SClosing) /\
  (lstopped s = false -> forall i pc, nth_error (lcallers s) i = Some pc -> pc = SCalled).

Lemma LInv_init : LInv linit.
Proof.
  unfold LInv, linit; cbn. repeat split; try discriminate.
  - intros i H. destruct i; discriminate.
  - intros _ i pc H. destruct i; discriminate.
Qed.

Ltac linv_split :=
  unfold LInv; cbn [lstopped lstopch lrunningch lcleaner lcallers];
  split; [|split; [|split; [|split; [|split]]]].

Lemma lstep_LInv s e s' : LInv s -> lstep s e = Some s' -> LInv s'.
Proof.
  intros (H1 & H2 & H3 & H4 & H5 & H6).
  destruct e as [| | | |i|i|i]; cbn [lstep].
  - (* LTick *)
    destruct (lcleaner s) eqn:Hc; try discriminate. intro H; inversion H; subst s'; clear H.
    linv_split; auto.
    + split; [intro Hr; apply H1 in Hr; discriminate | discriminate].
    + discriminate.
  - (* LCleanupDone *)
    destruct (lcleaner s) eqn:Hc; try discriminate. intro H; inversion H; subst s'; clear H.
    linv_split; auto.
    + split; [intro Hr; apply H1 in Hr; discriminate | discriminate].
    + discriminate.
  - (* LSeeStop *)
    destruct (lcleaner s) eqn:Hc; try discriminate.
    destruct (lstopch s) eqn:Hs; try discriminate. intro H; inversion H; subst s'; clear H.
    linv_split; auto.
    split; reflexivity.
  - (* LStopCall *)
    intro H; inversion H; subst s'; clear H.
    linv_split; auto.
    + intros i Hi. apply nth_snoc in Hi as [Hi|Hi]; [eauto | discriminate].
    + intros Ha Hb. destruct (H5 Ha Hb) as [j Hj]. exists j.
      rewrite nth_error_app1; [exact Hj|]. apply nth_error_Some. congruence.
    + intros Ha i pc Hi. apply nth_snoc in Hi as [Hi|Hi]; [eauto | exact Hi].
  - (* LStopCas *)
    destruct (nth_error (lcallers s) i) as [[| | |]|] eqn:Hi; try discriminate.
    intro H; inversion H; subst s'; clear H.
    linv_split; auto.
    + intros j Hj. apply nth_set_nth in Hj as [[_ Hj]|Hj]; [|eauto].
      destruct (lstopped s); discriminate.
    + intros _ Hb. destruct (lstopped s) eqn:Hst.
      * destruct (H5 eq_refl Hb) as [j Hj]. exists j.
        destruct (Nat.eq_dec i j) as [->|Hne]; [congruence|].
        rewrite nth_set_nth_neq by exact Hne. exact Hj.
      * exists i. eapply nth_set_nth_eq. exact Hi.
    + discriminate.
  - (* LStopClose *)
    destruct (nth_error (lcallers s) i) as [[| | |]|] eqn:Hi; try discriminate.
    intro H; inversion H; subst s'; clear H.
    assert (Hst : lstopped s = true).
    { destruct (lstopped s) eqn:Hst; [reflexivity|]. specialize (H6 eq_refl i _ Hi). discriminate. }
    linv_split; auto.
    + intros j Hj. apply nth_set_nth in Hj as [[_ Hj]|Hj]; [discriminate | eauto].
    + discriminate.
    + intros Ha. congruence.
  - (* LStopReturn *)
    destruct (nth_error (lcallers s) i) as [[| | |]|] eqn:Hi; try discriminate.
    destruct (lrunningch s) eqn:Hr; try discriminate.
    intro H; inversion H; subst s'; clear H.
    linv_split; auto.
    + intros Ha Hb. destruct (H5 Ha Hb) as [j Hj]. exists j.
      destruct (Nat.eq_dec i j) as [->|Hne]; [congruence|].
      rewrite nth_set_nth_neq by exact Hne. exact Hj.
    + intros Ha j pc Hj. specialize (H6 Ha i _ Hi). discriminate.
Qed.

Lemma lrun_LInv es : forall s s', LInv s -> lrun s es = Some s' -> LInv s'.
Proof.
  induction es as [|e t IH]; intros s s' H; cbn [lrun].
  - intro H'. inversion H'. subst. exact H.
  - destruct (lstep s e) as [s1|] eqn:Hs; [|discriminate]. apply IH. eapply lstep_LInv; eassumption.
Qed.

(* For every schedule of ticks, cleanups, Stop calls (any number, concurrently) and their
   internal steps: a Stop call that has returned implies the cleaner goroutine has exited. *)
Theorem stop_waits es s i :
  lrun linit es = Some s -> nth_error (lcallers s) i = Some SReturned -> lcleaner s = PExited.
Proof.
  intros Hrun Hi. destruct (lrun_LInv es _ _ LInv_init Hrun) as (H1 & _ & _ & H4 & _).
  apply H1. eapply H4. exact Hi.
Qed.

(* ... and the cleaner never exits unless Stop was called *)
Theorem cleaner_exits_only_on_stop es s :
  lrun linit es = Some s -> lcleaner s = PExited -> lstopped s = true.
Proof.
  intros Hrun Hc. destruct (lrun_LInv es _ _ LInv_init Hrun) as (_ & H2 & H3 & _). auto.
Qed.

(* ... and once a Stop call has returned, the cleaner does no work ever again: in every
   continuation of the schedule no tick is taken and no cleanup pass starts or finishes (the pass
   runs on the cleaner goroutine, which has exited for good). *)
Lemma exited_absorbing s e s' :
  lstep s e = Some s' -> lcleaner s = PExited -> lcleaner s' = PExited /\ cleaner_work e = false.
Proof.
  intros Hs Hc. destruct e; cbn [lstep] in Hs; rewrite ?Hc in Hs; try discriminate; cbn [cleaner_work].
  - inversion Hs. cbn [lcleaner]. auto.
  - destruct (nth_error (lcallers s) i) as [[]|]; try discriminate. inversion Hs. cbn [lcleaner]. auto.
  - destruct (nth_error (lcallers s) i) as [[]|]; try discriminate. inversion Hs. cbn [lcleaner]. auto.
  - destruct (nth_error (lcallers s) i) as [[]|]; try discriminate.
    destruct (lrunningch s); [|discriminate]. inversion Hs. cbn [lcleaner]. auto.
Qed.

Lemma exited_quiet es : forall s s',
  lcleaner s = PExited -> lrun s es = Some s' ->
  lcleaner s' = PExited /\ forallb (fun e => negb (cleaner_work e)) es = true.
Proof.
  induction es as [|e t IH]; intros s s' Hc Hrun; cbn [lrun] in Hrun.
  - inversion Hrun; subst. auto.
  - destruct (lstep s e) as [s1|] eqn:Hs; [|discriminate].
    destruct (exited_absorbing _ _ _ Hs Hc) as [Hc1 Hw].
    destruct (IH _ _ Hc1 Hrun) as [Hc' Hall]. split; [exact Hc'|].
    cbn [forallb]. rewrite Hw, Hall. reflexivity.
Qed.

Theorem stop_then_quiet es s i es' s' :
  lrun linit es = Some s -> nth_error (lcallers s) i = Some SReturned ->
  lrun s es' = Some s' ->
  lcleaner s' = PExited /\ forallb (fun e => negb (cleaner_work e)) es' = true.
Proof.
  intros Hrun Hi Hrun'. apply (exited_quiet es' s s'); [|exact Hrun'].
  eapply stop_waits; eassumption.
Qed.

Example stop_then_quiet_nonvacuous :
  exists s s', lrun linit [LTick; LStopCall; LStopCas 0; LStopClose 0; LCleanupDone; LSeeStop; LStopReturn 0] = Some s /\
               nth_error (lcallers s) 0 = Some SReturned /\
               lrun s [LStopCall; LStopCas 1; LStopReturn 1] = Some s' /\
               lstep s' LTick = None /\ lstep s' LCleanupDone = None.
Proof. eexists. eexists. vm_compute. repeat split; reflexivity. Qed.

Example stop_waits_nonvacuous :
  exists s, lrun linit [LTick; LStopCall; LStopCall; LStopCas 1; LStopCas 0; LCleanupDone;
                        LStopClose 1; LSeeStop; LStopReturn 0; LStopReturn 1] = Some s /\
            nth_error (lcallers s) 0 = Some SReturned.
Proof. eexists. vm_compute. split; reflexivity. Qed.

(* ------------------------------------------------------------------------------------- *)
(* No wedge: from every reachable state, every Stop call that has not returned yet can be
   completed by internal steps alone (steps of Stop callers and of the cleaner; no tick, no new
   call is needed).                                                                          *)

Definition internal (e : lev) : Prop :=
  match e with LTick | LStopCall => False | _ => True end.

Lemma lrun_app a : forall s b, lrun s (a ++ b) =
  match lrun s a with Some s1 => lrun s1 b | None => None end.
Proof.
  induction a as [|e t IH]; intros s b; cbn [app lrun]; [reflexivity|].
  destruct (lstep s e); [apply IH | reflexivity].
Qed.

(* stage C+D: stopCh closed and caller i waiting: the cleaner leaves, Stop returns *)
Lemma finish_from_waiting s i :
  LInv s -> nth_error (lcallers s) i = Some SWaiting -> lstopch s = true ->
  exists es' s', Forall internal es' /\ lrun s es' = Some s' /\
                 nth_error (lcallers s') i = Some SReturned.
Proof.
  intros (H1 & H2 & H3 & H4 & H5 & H6) Hi Hs.
  destruct (lcleaner s) eqn:Hc.
  - exists [LSeeStop; LStopReturn i]. eexists. split; [repeat constructor|].
    cbn [lrun lstep]. rewrite Hc, Hs. cbn [lcallers lrunningch]. rewrite Hi. cbn [lrun].
    split; [reflexivity|]. cbn [lcallers]. eapply nth_set_nth_eq. exact Hi.
  - exists [LCleanupDone; LSeeStop; LStopReturn i]. eexists. split; [repeat constructor|].
    cbn [lrun lstep]. rewrite Hc. cbn [lcleaner lstopch]. rewrite Hs. cbn [lcallers lrunningch].
    rewrite Hi. cbn [lrun]. split; [reflexivity|]. cbn [lcallers]. eapply nth_set_nth_eq. exact Hi.
  - exists [LStopReturn i]. eexists. split; [repeat constructor|].
    cbn [lrun lstep]. rewrite Hi. assert (Hr : lrunningch s = true) by (apply H1; reflexivity).
    rewrite Hr. split; [reflexivity|]. cbn [lcallers]. eapply nth_set_nth_eq. exact Hi.
Qed.

(* stage B: caller i waiting: stopCh gets closed (by whoever won the CAS) *)
Lemma close_from_waiting s i :
  LInv s -> nth_error (lcallers s) i = Some SWaiting ->
  exists es' s', Forall internal es' /\ lrun s es' = Some s' /\ LInv s' /\
                 nth_error (lcallers s') i = Some SWaiting /\ lstopch s' = true.
Proof.
  intros Hinv Hi. destruct (lstopch s) eqn:Hs.
  - exists [], s. split; [constructor|]. split; [reflexivity|]. split; [exact Hinv|].
    split; [exact Hi | exact Hs].
  - destruct Hinv as (H1 & H2 & H3 & H4 & H5 & H6).
    assert (Hst : lstopped s = true).
    { destruct (lstopped s) eqn:Hst; [reflexivity|]. specialize (H6 eq_refl i _ Hi). discriminate. }
    destruct (H5 Hst Hs) as [j Hj].
    assert (Hne : j <> i) by congruence.
    assert (Hstep : lstep s (LStopClose j) =
                    Some {| lstopped := lstopped s; lstopch := true; lrunningch := lrunningch s;
                            lcleaner := lcleaner s; lcallers := set_nth j SWaiting (lcallers s) |}).
    { cbn [lstep]. rewrite Hj. reflexivity. }
    exists [LStopClose j]. eexists. split; [repeat constructor|].
    cbn [lrun]. rewrite Hstep. split; [reflexivity|]. split.
    + eapply lstep_LInv; [|exact Hstep]. unfold LInv. auto 10.
    + cbn [lcallers lstopch]. split; [|reflexivity]. rewrite nth_set_nth_neq by exact Hne. exact Hi.
Qed.

(* stage A: caller i gets to the wait *)
Lemma reach_waiting s i pc :
  LInv s -> nth_error (lcallers s) i = Some pc -> pc <> SReturned ->
  exists es' s', Forall internal es' /\ lrun s es' = Some s' /\ LInv s' /\
                 nth_error (lcallers s') i = Some SWaiting.
Proof.
  intros Hinv Hi Hpc.
  assert (Hclose : forall s0, LInv s0 -> nth_error (lcallers s0) i = Some SClosing ->
            exists s1, lstep s0 (LStopClose i) = Some s1 /\ LInv s1 /\
                       nth_error (lcallers s1) i = Some SWaiting).
  { intros s0 Hinv0 Hi0. eexists. split; [cbn [lstep]; rewrite Hi0; reflexivity|]. split.
    - apply (lstep_LInv s0 (LStopClose i)); [exact Hinv0|]. cbn [lstep]. rewrite Hi0. reflexivity.
    - cbn [lcallers]. eapply nth_set_nth_eq. exact Hi0. }
  destruct pc.
  - (* SCalled *)
    assert (Hstep : exists s1, lstep s (LStopCas i) = Some s1 /\
               nth_error (lcallers s1) i = Some (if lstopped s then SWaiting else SClosing)).
    { eexists. split; [cbn [lstep]; rewrite Hi; reflexivity|]. cbn [lcallers].
      eapply nth_set_nth_eq. exact Hi. }
    destruct Hstep as (s1 & Hs1 & Hi1).
    pose proof (lstep_LInv _ _ _ Hinv Hs1) as Hinv1.
    destruct (lstopped s).
    + exists [LStopCas i], s1. split; [repeat constructor|]. cbn [lrun]. rewrite Hs1. auto.
    + destruct (Hclose s1 Hinv1 Hi1) as (s2 & Hs2 & Hinv2 & Hi2).
      exists [LStopCas i; LStopClose i], s2. split; [repeat constructor|].
      cbn [lrun]. rewrite Hs1, Hs2. auto.
  - (* SClosing *)
    destruct (Hclose s Hinv Hi) as (s1 & Hs1 & Hinv1 & Hi1).
    exists [LStopClose i], s1. split; [repeat constructor|]. cbn [lrun]. rewrite Hs1. auto.
  - exists [], s. split; [constructor|]. split; [reflexivity|]. split; [exact Hinv | exact Hi].
  - congruence.
Qed.

Theorem stop_no_wedge es s i pc :
  lrun linit es = Some s -> nth_error (lcallers s) i = Some pc ->
  exists es' s', Forall internal es' /\ lrun s es' = Some s' /\
                 nth_error (lcallers s') i = Some SReturned.
Proof.
  intros Hrun Hi. pose proof (lrun_LInv es _ _ LInv_init Hrun) as Hinv.
  destruct pc eqn:Hpc; try (
    destruct (reach_waiting s i pc Hinv) as (e1 & s1 & Hf1 & Hr1 & Hinv1 & Hi1);
      [subst pc; exact Hi | subst pc; discriminate |];
    destruct (close_from_waiting s1 i Hinv1 Hi1) as (e2 & s2 & Hf2 & Hr2 & Hinv2 & Hi2 & Hs2);
    destruct (finish_from_waiting s2 i Hinv2 Hi2 Hs2) as (e3 & s3 & Hf3 & Hr3 & Hi3);
    exists (e1 ++ e2 ++ e3), s3; split;
      [apply Forall_app; split; [exact Hf1 | apply Forall_app; split; assumption]|];
    split; [rewrite lrun_app, Hr1, lrun_app, Hr2; exact Hr3 | exact Hi3]).
  exists [], s. repeat split; auto.
Qed.
