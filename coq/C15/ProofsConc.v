(* C15 — proofs for the interleaved system [cstep]: client operations (atomic map operations)
   interleaved in every possible way with any number of two-phase cleanups.  No axioms. *)
From Kit Require Import C15.Model C15.Spec C15.ProofsMap C15.Proofs.
From Coq Require Import ZifyBool.
Local Open Scope Z_scope.

(* the client operation an event stands for (cleanup halves are not client-visible) *)
Definition ev_op (e : cev) : list op :=
  match e with
  | CSet k v ttl => [OSet k v ttl]
  | CGet k => [OGet k]
  | CDelete k => [ODelete k]
  | CReset => [OReset]
  | CAdvance d => [OAdvance d]
  | CCollect | CDeleteKeys _ => []
  end.

Definition forward_ev (e : cev) : bool :=
  match e with CAdvance d => 0 <=? d | _ => true end.

Lemma set_at_some maxttl m now k v ttl m' :
  set_at maxttl m now k v ttl = Some m' ->
  0 < ttl /\ m' = put k {| eval := v; eexp := now + ttl_dur maxttl ttl |} m.
Proof.
  unfold set_at. destruct (ttl <=? 0) eqn:Ht; [discriminate|].
  intro H. inversion H. split; [lia | reflexivity].
Qed.

Lemma set_at_none maxttl m now k v ttl : set_at maxttl m now k v ttl = None -> ttl <= 0.
Proof. unfold set_at. destruct (ttl <=? 0) eqn:Ht; [lia | discriminate]. Qed.

(* ------------------------------------------------------------------------------------- *)
(* the ghost history is the schedule's client operations                                    *)

Lemma cstep_hist maxttl s e s' :
  cstep maxttl s e = Some s' -> chist s' = rev (ev_op e) ++ chist s.
Proof.
  destruct e as [k v ttl|k|k| |d| |i]; cbn [cstep ev_op rev app].
  - destruct (set_at maxttl (cm s) (cnow s) k v ttl); intro H; inversion H; reflexivity.
  - intro H; inversion H; reflexivity.
  - intro H; inversion H; reflexivity.
  - intro H; inversion H; reflexivity.
  - intro H; inversion H; reflexivity.
  - intro H; inversion H; reflexivity.
  - destruct (nth_error (cpend s) i); [|discriminate]. intro H; inversion H; reflexivity.
Qed.

Lemma crun_hist maxttl es : forall s s',
  crun maxttl s es = Some s' -> chist s' = rev (flat_map ev_op es) ++ chist s.
Proof.
  induction es as [|e t IH]; intros s s'; cbn [crun flat_map].
  - intro H. inversion H. reflexivity.
  - destruct (cstep maxttl s e) as [s1|] eqn:Hs; [|discriminate].
    intro H. rewrite (IH _ _ H), (cstep_hist _ _ _ _ Hs), rev_app_distr, <- app_assoc. reflexivity.
Qed.

(* ------------------------------------------------------------------------------------- *)
(* Soundness invariant: holds for every schedule, no side condition                         *)

Definition CInv (maxttl : Z) (s : cstate) : Prop := Snd maxttl (cm s) (cnow s) (chist s).

Lemma cstep_CInv maxttl s e s' : CInv maxttl s -> cstep maxttl s e = Some s' -> CInv maxttl s'.
Proof.
  unfold CInv. intro H.
  destruct e as [k v ttl|k|k| |d| |i]; cbn [cstep].
  - destruct (set_at maxttl (cm s) (cnow s) k v ttl) as [m'|] eqn:Hs; intro H'; inversion H'; subst s';
      cbn [cm cnow chist].
    + apply set_at_some in Hs as [Hpos ->]. apply Snd_set; assumption.
    + apply set_at_none in Hs. apply Snd_set_rejected; assumption.
  - intro H'; inversion H'; subst s'; cbn [cm cnow chist]. apply Snd_neutral; [exact I | exact H].
  - intro H'; inversion H'; subst s'; cbn [cm cnow chist]. apply Snd_delete. exact H.
  - intro H'; inversion H'; subst s'; cbn [cm cnow chist]. apply Snd_reset.
  - intro H'; inversion H'; subst s'; cbn [cm cnow chist]. apply Snd_advance. exact H.
  - intro H'; inversion H'; subst s'; cbn [cm cnow chist]. exact H.
  - destruct (nth_error (cpend s) i) as [p|]; [|discriminate].
    intro H'; inversion H'; subst s'; cbn [cm cnow chist].
    eapply Snd_sub; [|exact H]. intros k e. apply sub_del_keys.
Qed.

Lemma crun_CInv maxttl es : forall s s',
  CInv maxttl s -> crun maxttl s es = Some s' -> CInv maxttl s'.
Proof.
  induction es as [|e t IH]; intros s s' H; cbn [crun].
  - intro H'. inversion H'. subst. exact H.
  - destruct (cstep maxttl s e) as [s1|] eqn:Hs; [|discriminate].
    apply IH. eapply cstep_CInv; eassumption.
Qed.

Lemma CInv_init maxttl t0 : CInv maxttl (cinit t0).
Proof. unfold CInv, cinit. cbn [cm cnow chist]. apply Snd_init. Qed.

(* For EVERY schedule — any interleaving of client operations with any number of cleanups, each
   split into its collect and its bulk delete —, a Get that hits returns a value justified by the
   history of client operations: the most recent Set of the key, not deleted or reset since, less
   than its (capped) TTL elapsed. *)
Theorem conc_get_sound maxttl t0 es s k v :
  crun maxttl (cinit t0) es = Some s -> cget s k = Some v ->
  justified maxttl (flat_map ev_op es) k v.
Proof.
  intros Hrun Hget.
  pose proof (crun_CInv maxttl es _ _ (CInv_init maxttl t0) Hrun) as Hinv.
  pose proof (crun_hist maxttl es _ _ Hrun) as Hh. cbn [cinit chist] in Hh. rewrite app_nil_r in Hh.
  apply expected_get_spec. rewrite <- Hh.
  eapply get_sound_link; [exact Hinv | exact Hget].
Qed.

(* non-vacuity, and the documented race made concrete: a cleanup collects k while it is expired,
   k is refreshed, the bulk delete removes the fresh entry — the Get misses, which soundness
   allows; before the delete it hits with the fresh value. *)
Example conc_race_example :
  let es := [CSet 0 1 1; CAdvance 2000000000; CCollect; CSet 0 2 1] in
  (exists s, crun 0 (cinit 0) es = Some s /\ cget s 0 = Some 2) /\
  (exists s, crun 0 (cinit 0) (es ++ [CDeleteKeys 0%nat]) = Some s /\ cget s 0 = None /\
             clost s = [0]).
Proof. split; eexists; vm_compute; repeat split; reflexivity. Qed.

(* ------------------------------------------------------------------------------------- *)
(* Completeness-side invariant (clock moving forward)                                      *)

(* every key listed by a cleanup in flight is absent, strictly expired, or was Set since that
   cleanup's collect *)
Definition Pend (s : cstate) : Prop :=
  forall p, In p (cpend s) -> forall k e, In k (pkeys p) -> lookup k (cm s) = Some e ->
    eexp e < cnow s \/ In k (ptouched p).

Definition CInv2 (maxttl : Z) (s : cstate) : Prop :=
  Cmp maxttl (cm s) (cnow s) (chist s) (clost s) /\ Pend s.

Lemma In_drop_nth {A} (x : A) i l : In x (drop_nth i l) -> In x l.
Proof.
  revert i. induction l as [|y t IH]; intros [|j]; cbn [drop_nth In]; try tauto.
  intros [H|H]; [auto | right; eapply IH; exact H].
Qed.

Lemma cstep_Pend maxttl s e s' :
  forward_ev e = true -> Pend s -> cstep maxttl s e = Some s' -> Pend s'.
Proof.
  unfold Pend. intros Hf H.
  destruct e as [k0 v ttl|k0|k0| |d| |i]; cbn [cstep].
  - destruct (set_at maxttl (cm s) (cnow s) k0 v ttl) as [m'|] eqn:Hs; intro H'; inversion H'; subst s';
      cbn [cm cnow cpend]; [|exact H].
    apply set_at_some in Hs as [Hpos ->].
    intros p' Hp' k e Hk. apply in_map_iff in Hp' as [p [<- Hp]]. cbn [touch pkeys ptouched] in *.
    rewrite lookup_put. destruct (k0 =? k) eqn:Hk0.
    + apply Z.eqb_eq in Hk0. subst. intros _. right. left. reflexivity.
    + intro He. destruct (H p Hp k e Hk He) as [Hx|Hx]; [left; exact Hx | right; right; exact Hx].
  - intro H'; inversion H'; subst s'; cbn [cm cnow cpend]. exact H.
  - intro H'; inversion H'; subst s'; cbn [cm cnow cpend].
    intros p Hp k e Hk. rewrite lookup_del_key. destruct (k0 =? k); [discriminate|]. apply H; assumption.
  - intro H'; inversion H'; subst s'; cbn [cm cnow cpend].
    intros p Hp k e Hk. rewrite lookup_reset. discriminate.
  - intro H'; inversion H'; subst s'; cbn [cm cnow cpend]. cbn [forward_ev] in Hf.
    intros p Hp k e Hk He. destruct (H p Hp k e Hk He) as [Hx|Hx]; [left; lia | right; exact Hx].
  - intro H'; inversion H'; subst s'; cbn [cm cnow cpend].
    intros p Hp k e Hk He. apply in_app_or in Hp as [Hp|[<-|[]]]; [apply (H p Hp k e Hk He)|].
    cbn [pkeys ptouched] in *. left.
    apply memZ_In, mem_expired in Hk as [e' [He' Hlt]]. rewrite He in He'. inversion He'; subst. exact Hlt.
  - destruct (nth_error (cpend s) i) as [p0|]; [|discriminate].
    intro H'; inversion H'; subst s'; cbn [cm cnow cpend].
    intros p Hp k e Hk He. apply In_drop_nth in Hp. apply sub_del_keys in He.
    apply (H p Hp k e Hk He).
Qed.

Lemma cstep_Cmp maxttl s e s' :
  forward_ev e = true -> Cmp maxttl (cm s) (cnow s) (chist s) (clost s) ->
  cstep maxttl s e = Some s' -> Cmp maxttl (cm s') (cnow s') (chist s') (clost s').
Proof.
  intros Hf H.
  destruct e as [k0 v ttl|k0|k0| |d| |i]; cbn [cstep].
  - destruct (set_at maxttl (cm s) (cnow s) k0 v ttl) as [m'|] eqn:Hs; intro H'; inversion H'; subst s';
      cbn [cm cnow chist clost].
    + apply set_at_some in Hs as [Hpos ->]. apply Cmp_set; assumption.
    + apply set_at_none in Hs. apply Cmp_set_rejected; assumption.
  - intro H'; inversion H'; subst s'; cbn [cm cnow chist clost]. apply Cmp_neutral; [exact I | exact H].
  - intro H'; inversion H'; subst s'; cbn [cm cnow chist clost]. apply Cmp_delete. exact H.
  - intro H'; inversion H'; subst s'; cbn [cm cnow chist clost]. apply Cmp_reset.
  - intro H'; inversion H'; subst s'; cbn [cm cnow chist clost]. cbn [forward_ev] in Hf.
    apply Cmp_advance; [lia | exact H].
  - intro H'; inversion H'; subst s'; cbn [cm cnow chist clost]. exact H.
  - destruct (nth_error (cpend s) i) as [p0|]; [|discriminate].
    intro H'; inversion H'; subst s'; cbn [cm cnow chist clost]. apply Cmp_del_keys. exact H.
Qed.

Lemma cstep_CInv2 maxttl s e s' :
  forward_ev e = true -> CInv2 maxttl s -> cstep maxttl s e = Some s' -> CInv2 maxttl s'.
Proof.
  intros Hf [H1 H2] Hs. split; [eapply cstep_Cmp | eapply cstep_Pend]; eassumption.
Qed.

Lemma crun_CInv2 maxttl es : forall s s',
  forallb forward_ev es = true -> CInv2 maxttl s -> crun maxttl s es = Some s' -> CInv2 maxttl s'.
Proof.
  induction es as [|e t IH]; intros s s' Hf H; cbn [crun].
  - intro H'. inversion H'. subst. exact H.
  - cbn [forallb] in Hf. apply andb_true_iff in Hf as [Hf1 Hf2].
    destruct (cstep maxttl s e) as [s1|] eqn:Hs; [|discriminate].
    apply IH; [exact Hf2|]. eapply cstep_CInv2; eassumption.
Qed.

Lemma CInv2_init maxttl t0 : CInv2 maxttl (cinit t0).
Proof.
  split; [apply Cmp_init|]. intros p Hp. destruct Hp.
Qed.

(* A bulk delete removes an entry that is not strictly expired ONLY IF its key was Set between
   that cleanup's collect and now (the race the code comment documents). *)
Theorem conc_delete_only_expired_or_touched maxttl t0 es s i p k e s' :
  forallb forward_ev es = true -> crun maxttl (cinit t0) es = Some s ->
  nth_error (cpend s) i = Some p ->
  lookup k (cm s) = Some e -> cnow s <= eexp e -> ~ In k (ptouched p) ->
  cstep maxttl s (CDeleteKeys i) = Some s' -> lookup k (cm s') = Some e.
Proof.
  intros Hf Hrun Hp He Hlive Hnt Hstep.
  destruct (crun_CInv2 maxttl es _ _ Hf (CInv2_init maxttl t0) Hrun) as [_ HP].
  cbn [cstep] in Hstep. rewrite Hp in Hstep. inversion Hstep; subst s'. cbn [cm].
  rewrite lookup_del_keys. destruct (memZ k (pkeys p)) eqn:Hm; [|exact He].
  exfalso. apply memZ_In in Hm. apply nth_error_In in Hp.
  destruct (HP p Hp k e Hm He) as [Hx|Hx]; [lia | contradiction].
Qed.

(* Completeness in the interleaved system: whenever the history says "hit" (and the TTL fits),
   Get hits — unless the key is in [lost] ... *)
Theorem conc_get_complete maxttl t0 es s k v :
  forallb forward_ev es = true -> crun maxttl (cinit t0) es = Some s ->
  ~ In k (clost s) -> last_set_fits maxttl (chist s) k = true ->
  expected_get maxttl (chist s) k = Some v -> cget s k = Some v.
Proof.
  intros Hf Hrun Hnl Hfit He.
  destruct (crun_CInv2 maxttl es _ _ Hf (CInv2_init maxttl t0) Hrun) as [HC _].
  eapply get_complete_link; eassumption.
Qed.

(* ... and a key enters [lost] only at a bulk delete whose cleanup listed it and during whose
   window it was Set: the cleanup/refresh race is the only way a hit can turn into a miss. *)
Theorem conc_lost_only_by_race maxttl t0 es s e s' k :
  forallb forward_ev es = true -> crun maxttl (cinit t0) es = Some s ->
  cstep maxttl s e = Some s' -> In k (clost s') ->
  In k (clost s) \/
  exists i p, e = CDeleteKeys i /\ nth_error (cpend s) i = Some p /\
              In k (pkeys p) /\ In k (ptouched p).
Proof.
  intros Hf Hrun Hstep Hin.
  destruct (crun_CInv2 maxttl es _ _ Hf (CInv2_init maxttl t0) Hrun) as [_ HP].
  destruct e as [k0 v ttl|k0|k0| |d| |i]; cbn [cstep] in Hstep.
  - destruct (set_at maxttl (cm s) (cnow s) k0 v ttl); inversion Hstep; subst s'; cbn [clost] in Hin.
    + left. apply In_removeZ in Hin. tauto.
    + left. exact Hin.
  - inversion Hstep; subst s'. left. exact Hin.
  - inversion Hstep; subst s'. left. exact Hin.
  - inversion Hstep; subst s'. left. exact Hin.
  - inversion Hstep; subst s'. left. exact Hin.
  - inversion Hstep; subst s'. left. exact Hin.
  - destruct (nth_error (cpend s) i) as [p|] eqn:Hp; [|discriminate].
    inversion Hstep; subst s'. cbn [clost] in Hin.
    apply in_app_or in Hin as [Hin|Hin]; [|left; exact Hin].
    right. exists i, p. apply In_live_among in Hin as [Hk [e [He Hlive]]].
    repeat split; auto.
    destruct (HP p (nth_error_In _ _ Hp) k e Hk He) as [Hx|Hx]; [lia | exact Hx].
Qed.

(* ------------------------------------------------------------------------------------- *)
(* "never makes a live entry of a key nobody touched disappear", on schedules: take ANY state
   in which key k holds entry e and no cleanup in flight lists k.  Whatever happens next — other
   keys' operations, Gets, clock advances, any number of collects and bulk deletes in any order —
   as long as nobody Sets/Deletes k or Resets and e has not strictly expired, k still holds e. *)

Definition leaves_ev (k : Z) (e : cev) : bool :=
  match e with
  | CSet k' _ _ | CDelete k' => negb (k' =? k)
  | CReset => false
  | _ => true
  end.

Lemma cstep_now_mono maxttl s e s' :
  forward_ev e = true -> cstep maxttl s e = Some s' -> cnow s <= cnow s'.
Proof.
  intro Hf. destruct e as [k0 v ttl|k0|k0| |d| |i]; cbn [cstep].
  - destruct (set_at maxttl (cm s) (cnow s) k0 v ttl); intro H; inversion H; cbn [cnow]; lia.
  - intro H; inversion H; cbn [cnow]; lia.
  - intro H; inversion H; cbn [cnow]; lia.
  - intro H; inversion H; cbn [cnow]; lia.
  - cbn [forward_ev] in Hf. intro H; inversion H; cbn [cnow]; lia.
  - intro H; inversion H; cbn [cnow]; lia.
  - destruct (nth_error (cpend s) i); [|discriminate]. intro H; inversion H; cbn [cnow]; lia.
Qed.

Lemma crun_now_mono maxttl es : forall s s',
  forallb forward_ev es = true -> crun maxttl s es = Some s' -> cnow s <= cnow s'.
Proof.
  induction es as [|e t IH]; intros s s' Hf; cbn [crun].
  - intro H. inversion H. lia.
  - cbn [forallb] in Hf. apply andb_true_iff in Hf as [Hf1 Hf2].
    destruct (cstep maxttl s e) as [s1|] eqn:Hs; [|discriminate]. intro H.
    pose proof (cstep_now_mono _ _ _ _ Hf1 Hs). pose proof (IH _ _ Hf2 H). lia.
Qed.

Definition Holds (k : Z) (e : entry) (s : cstate) : Prop :=
  lookup k (cm s) = Some e /\ forall p, In p (cpend s) -> ~ In k (pkeys p).

Lemma cstep_Holds maxttl s ev s' k e :
  leaves_ev k ev = true -> cnow s <= eexp e ->
  Holds k e s -> cstep maxttl s ev = Some s' -> Holds k e s'.
Proof.
  intros Hl Hlive [He Hp]. unfold Holds.
  destruct ev as [k0 v ttl|k0|k0| |d| |i]; cbn [cstep leaves_ev] in *.
  - apply negb_true_iff in Hl.
    destruct (set_at maxttl (cm s) (cnow s) k0 v ttl) as [m'|] eqn:Hs; intro H; inversion H; subst s';
      cbn [cm cpend]; [|auto].
    apply set_at_some in Hs as [_ ->]. rewrite lookup_put, Hl. split; [exact He|].
    intros p' Hp'. apply in_map_iff in Hp' as [p [<- Hin]]. cbn [touch pkeys]. apply Hp. exact Hin.
  - intro H; inversion H; subst s'; cbn [cm cpend]. auto.
  - apply negb_true_iff in Hl. intro H; inversion H; subst s'; cbn [cm cpend].
    rewrite lookup_del_key, Hl. auto.
  - discriminate.
  - intro H; inversion H; subst s'; cbn [cm cpend]. auto.
  - intro H; inversion H; subst s'; cbn [cm cpend]. split; [exact He|].
    intros p Hin. apply in_app_or in Hin as [Hin|[<-|[]]]; [apply Hp; exact Hin|].
    cbn [pkeys]. intro Hk. apply memZ_In, mem_expired in Hk as [e' [He' Hlt]].
    rewrite He in He'. inversion He'; subst. lia.
  - destruct (nth_error (cpend s) i) as [p0|] eqn:Hn; [|discriminate].
    intro H; inversion H; subst s'; cbn [cm cpend]. split.
    + rewrite lookup_del_keys.
      assert (Hm : memZ k (pkeys p0) = false).
      { apply memZ_false. apply Hp. eapply nth_error_In. exact Hn. }
      rewrite Hm. exact He.
    + intros p Hin. apply Hp. eapply In_drop_nth. exact Hin.
Qed.

Theorem conc_untouched_live_survives maxttl es : forall s s' k e,
  lookup k (cm s) = Some e -> (forall p, In p (cpend s) -> ~ In k (pkeys p)) ->
  forallb forward_ev es = true -> forallb (leaves_ev k) es = true ->
  crun maxttl s es = Some s' -> cnow s' <= eexp e ->
  lookup k (cm s') = Some e.
Proof.
  assert (Hgen : forall s s' k e, Holds k e s ->
            forallb forward_ev es = true -> forallb (leaves_ev k) es = true ->
            crun maxttl s es = Some s' -> cnow s' <= eexp e -> Holds k e s').
  { induction es as [|ev t IH]; intros s s' k e Hh Hf Hl; cbn [crun].
    - intros H _. inversion H. subst. exact Hh.
    - cbn [forallb] in Hf, Hl.
      apply andb_true_iff in Hf as [Hf1 Hf2]. apply andb_true_iff in Hl as [Hl1 Hl2].
      destruct (cstep maxttl s ev) as [s1|] eqn:Hs; [|discriminate]. intros Hrun Hlive.
      pose proof (cstep_now_mono _ _ _ _ Hf1 Hs) as Hm1.
      pose proof (crun_now_mono _ _ _ _ Hf2 Hrun) as Hm2.
      apply (IH s1 s' k e); auto.
      eapply cstep_Holds; [exact Hl1 | idtac | exact Hh | exact Hs]. lia. }
  intros s s' k e He Hp Hf Hl Hrun Hlive.
  destruct (Hgen s s' k e (conj He Hp) Hf Hl Hrun Hlive) as [H _]. exact H.
Qed.

(* non-vacuity: key 1 is live and untouched while key 0 expires, is collected twice (the second
   collect at exactly key 1's expiry instant), refreshed, and bulk-deleted *)
Example conc_untouched_nonvacuous :
  exists s1 s2,
    crun 0 (cinit 0) [CSet 0 1 1; CSet 1 5 3] = Some s1 /\
    (let es := [CAdvance 2000000000; CCollect; CSet 0 2 1; CAdvance 1000000000; CCollect;
                CDeleteKeys 1%nat; CDeleteKeys 0%nat; CGet 1] in
     forallb forward_ev es = true /\ forallb (leaves_ev 1) es = true /\
     crun 0 s1 es = Some s2) /\
    lookup 1 (cm s1) = Some {| eval := 5; eexp := 3000000000 |} /\
    cnow s2 = 3000000000 /\ cpend s1 = [].
Proof. do 2 eexists. vm_compute. repeat split; reflexivity. Qed.

(* ------------------------------------------------------------------------------------- *)
(* The sequential system is the interleaved one with every Cleanup run back to back.        *)

Definition seq_ev (o : op) : list cev :=
  match o with
  | OSet k v ttl => [CSet k v ttl]
  | OGet k => [CGet k]
  | ODelete k => [CDelete k]
  | OCleanup => [CCollect; CDeleteKeys 0%nat]
  | OReset => [CReset]
  | OAdvance d => [CAdvance d]
  | OKeys | OStop => []
  end.

Theorem seq_embeds maxttl ops : forall s c,
  cm c = smap s -> cnow c = snow s -> cpend c = [] ->
  exists c', crun maxttl c (flat_map seq_ev ops) = Some c' /\
             cm c' = smap (fst (run maxttl s ops)) /\ cnow c' = snow (fst (run maxttl s ops)) /\
             cpend c' = [].
Proof.
  induction ops as [|o t IH]; intros s c Hm Hn Hp.
  - exists c. cbn [flat_map crun run fst]. auto.
  - rewrite run_cons. cbn [fst flat_map].
    assert (Hstep : exists c1, crun maxttl c (seq_ev o) = Some c1 /\
               cm c1 = smap (fst (step maxttl s o)) /\ cnow c1 = snow (fst (step maxttl s o)) /\
               cpend c1 = []).
    { destruct o as [k v ttl|k|k| | |d| |]; cbn [seq_ev crun cstep step].
      - unfold set. rewrite Hm, Hn.
        destruct (set_at maxttl (smap s) (snow s) k v ttl) as [m'|]; eexists; (split; [reflexivity|]);
          cbn [cm cnow cpend fst smap snow]; rewrite ?Hp; auto.
      - eexists. split; [reflexivity|]. cbn [cm cnow cpend fst]. auto.
      - eexists. split; [reflexivity|]. cbn [cm cnow cpend fst delete smap snow]. rewrite Hm. auto.
      - rewrite Hp. cbn [app nth_error cpend drop_nth]. eexists. split; [reflexivity|].
        cbn [cm cnow cpend pkeys fst cleanup smap snow]. rewrite Hm, Hn. auto.
      - eexists. split; [reflexivity|]. cbn [cm cnow cpend fst reset smap snow]. rewrite Hm. auto.
      - eexists. split; [reflexivity|]. cbn [cm cnow cpend fst advance smap snow]. rewrite Hn. auto.
      - exists c. cbn [fst]. auto.
      - exists c. cbn [fst]. auto. }
    destruct Hstep as (c1 & Hr1 & Hm1 & Hn1 & Hp1).
    destruct (IH (fst (step maxttl s o)) c1 Hm1 Hn1 Hp1) as (c' & Hr & H').
    exists c'. split; [|exact H'].
    clear - Hr1 Hr. revert c Hr1. induction (seq_ev o) as [|e l IHl]; intros c Hr1; cbn [app crun] in *.
    + inversion Hr1. subst. exact Hr.
    + destruct (cstep maxttl c e); [|discriminate]. apply IHl. exact Hr1.
Qed.
