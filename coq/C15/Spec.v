(* C15 — what the property demands of a TTL cache, written from the property text and the doc
   comments (not from the code) and phrased over the HISTORY of client operations only — no map,
   no stored expiry:

     "Get returns a value only if it is the one most recently Set for that key, it has not been
      deleted or reset since, and strictly less than its TTL (capped by MaxTTL when configured)
      has elapsed on the cache's clock; otherwise it reports a miss.  Cleanup removes only
      entries that have expired and never makes a live entry of a key nobody touched disappear,
      and Stop returns only after the background cleaner has exited."

   Histories are lists of [op].  The executable functions read the history NEWEST FIRST (the
   natural direction for "most recently ... since"); the declarative predicate [justified] is
   over the chronological history. *)
From Kit Require Export C15.Ops.
Local Open Scope Z_scope.

(* TTL in effect: "capped by MaxTTL when configured" (MaxTTL is configured when positive). *)
Definition eff_ttl (maxttl ttl : Z) : Z :=
  if (0 <? maxttl) && (maxttl <? ttl) then maxttl else ttl.

Definition ttl_ns (maxttl ttl : Z) : Z := eff_ttl maxttl ttl * second_ns.

(* A Set with a non-positive TTL is rejected: it sets nothing. *)
Definition accepted (ttl : Z) : bool := 0 <? ttl.

(* [last_set rh k 0], [rh] newest first: the most recent accepted Set of [k] that is not followed
   by a Delete of [k] or a Reset, as (value, ttl, time elapsed on the clock since that Set). *)
Fixpoint last_set (rh : list op) (k : Z) (el : Z) : option (Z * Z * Z) :=
  match rh with
  | [] => None
  | OSet k' v ttl :: r => if (k' =? k) && accepted ttl then Some (v, ttl, el) else last_set r k el
  | ODelete k' :: r => if k' =? k then None else last_set r k el
  | OReset :: _ => None
  | OAdvance d :: r => last_set r k (el + d)
  | OGet _ :: r | OCleanup :: r | OKeys :: r | OStop :: r => last_set r k el
  end.

(* What Get(k) must return after the history [rh] (newest first). *)
Definition expected_get (maxttl : Z) (rh : list op) (k : Z) : option Z :=
  match last_set rh k 0 with
  | Some (v, ttl, el) => if el <? ttl_ns maxttl ttl then Some v else None
  | None => None
  end.

(* ------------------------------------------------------------------------------------- *)
(* The same, declaratively, over the chronological history.                                *)

Fixpoint elapsed (h : list op) : Z :=
  match h with
  | [] => 0
  | OAdvance d :: t => d + elapsed t
  | _ :: t => elapsed t
  end.

(* the operation does not supersede, delete or reset key [k] *)
Definition leaves (k : Z) (o : op) : Prop :=
  match o with
  | OSet k' _ ttl => k' <> k \/ ttl <= 0
  | ODelete k' => k' <> k
  | OReset => False
  | _ => True
  end.

(* value [v] is a legitimate answer of Get(k) after the chronological history [h] *)
Definition justified (maxttl : Z) (h : list op) (k v : Z) : Prop :=
  exists h1 ttl h2,
    h = h1 ++ OSet k v ttl :: h2 /\ 0 < ttl /\ Forall (leaves k) h2 /\
    elapsed h2 < ttl_ns maxttl ttl.

(* ------------------------------------------------------------------------------------- *)
(* int64 overflow of the TTL in nanoseconds: the API takes the TTL as int64 seconds, the clock
   arithmetic is int64 nanoseconds.  The property text's "only if" leaves room for a miss there;
   completeness is claimed for TTLs (after the cap) below 2^63 ns (~292 years). *)
Definition fits (maxttl ttl : Z) : bool := ttl_ns maxttl ttl <? 2^63.

Definition op_fits (maxttl : Z) (o : op) : bool :=
  match o with OSet _ _ ttl => (ttl <=? 0) || fits maxttl ttl | _ => true end.

(* the last accepted Set of [k] still in force has a TTL that fits *)
Definition last_set_fits (maxttl : Z) (rh : list op) (k : Z) : bool :=
  match last_set rh k 0 with
  | Some (_, ttl, _) => fits maxttl ttl
  | None => true
  end.

(* the cache's clock does not run backwards *)
Definition op_forward (o : op) : bool :=
  match o with OAdvance d => 0 <=? d | _ => true end.

(* ------------------------------------------------------------------------------------- *)
(* Oracles on observations.                                                                *)

(* One observed Get result [r] for key [k] after history [rh]:
   a hit must be exactly the expected value (soundness: never expired / deleted / superseded);
   a miss must be expected too (completeness), except in the int64-overflow corner. *)
Definition get_ok (maxttl : Z) (rh : list op) (k : Z) (r : option Z) : bool :=
  match r with
  | Some v => opt_eqb (expected_get maxttl rh k) (Some v)
  | None => match expected_get maxttl rh k with
            | None => true
            | Some _ => negb (last_set_fits maxttl rh k)
            end
  end.

(* soundness half only (what can be demanded while cleanups race with Sets) *)
Definition get_sound_ok (maxttl : Z) (rh : list op) (k : Z) (r : option Z) : bool :=
  match r with
  | Some v => opt_eqb (expected_get maxttl rh k) (Some v)
  | None => true
  end.

(* the keys an operation mentions *)
Definition op_key (o : op) : list Z :=
  match o with OSet k _ _ | OGet k | ODelete k => [k] | _ => [] end.

(* "Cleanup ... never makes a live entry ... disappear": after any sequential history, every key
   that Get must still answer is among the stored keys [ks]. *)
Definition keys_ok (maxttl : Z) (rh : list op) (ks : list Z) : bool :=
  forallb (fun k => match expected_get maxttl rh k with
                    | Some _ => memZ k ks || negb (last_set_fits maxttl rh k)
                    | None => true
                    end) (flat_map op_key rh).

(* One step of a sequential observation: operation, its observed result, history before it. *)
Definition obs_ok (strict : bool) (maxttl : Z) (rh : list op) (o : op) (r : res) : bool :=
  match o, r with
  | OSet _ _ ttl, RUnit => accepted ttl
  | OSet _ _ ttl, RPanic => negb (accepted ttl)
  | OGet k, RGet g => if strict then get_ok maxttl rh k g else get_sound_ok maxttl rh k g
  | ODelete _, RUnit | OCleanup, RUnit | OReset, RUnit | OAdvance _, RUnit | OStop, RUnit => true
  | OKeys, RKeys ks => if strict then keys_ok maxttl rh ks else true
  | _, _ => false
  end.

(* [h] chronological, [rs] the observed results in the same order, [rh] the history before. *)
Fixpoint all_obs_ok (strict : bool) (maxttl : Z) (rh : list op) (h : list op) (rs : list res) : bool :=
  match h, rs with
  | [], [] => true
  | o :: h', r :: rs' => obs_ok strict maxttl rh o r && all_obs_ok strict maxttl (o :: rh) h' rs'
  | _, _ => false
  end.

(* Stop was observed to return, and the cleaner goroutine had exited by then. *)
Definition stop_ok (returned cleaner_exited : bool) : bool := returned && cleaner_exited.

(* ------------------------------------------------------------------------------------- *)
(* The same demands, declaratively, for whole observations (what the oracles above decide:
   ProofsOracle.v proves [all_obs_ok ... = true <-> trace_spec ...]).                        *)

(* What the property text demands of ONE observed result [r] of operation [o] issued after the
   chronological history [a]:
     Set    accepted (returns) iff its TTL is positive, refused (panics) otherwise;
     Get    a hit with v must be justified by [a] ("the one most recently Set ... not deleted or
            reset since ... strictly less than its TTL has elapsed"); in strict (sequential) mode
            a miss must be unjustifiable ("otherwise it reports a miss") - int64 corner aside;
     Keys   (strict mode) every key that Get must still answer is stored ("Cleanup ... never makes
            a live entry ... disappear"; sequentially nothing else may have removed it either);
     Delete, Cleanup, Reset, Advance, Stop return normally. *)
Definition res_spec (strict : bool) (maxttl : Z) (a : list op) (o : op) (r : res) : Prop :=
  match o, r with
  | OSet _ _ ttl, RUnit => 0 < ttl
  | OSet _ _ ttl, RPanic => ttl <= 0
  | OGet k, RGet (Some v) => justified maxttl a k v
  | OGet k, RGet None =>
      strict = true ->
      (forall v, ~ justified maxttl a k v) \/ last_set_fits maxttl (rev a) k = false
  | OKeys, RKeys ks =>
      strict = true ->
      forall k v, justified maxttl a k v -> In k ks \/ last_set_fits maxttl (rev a) k = false
  | ODelete _, RUnit | OCleanup, RUnit | OReset, RUnit | OAdvance _, RUnit | OStop, RUnit => True
  | _, _ => False
  end.

(* ... and of a whole observed trace: one result per operation, each one as demanded after the
   operations that precede it. *)
Definition trace_spec (strict : bool) (maxttl : Z) (h : list op) (rs : list res) : Prop :=
  length h = length rs /\
  forall a o b r, h = a ++ o :: b -> nth_error rs (length a) = Some r -> res_spec strict maxttl a o r.
