(* C15 — executable correspondence interface.  The Go harness prints [case] terms holding the
   operations it issued on a real ttlcache.Cache AND what every operation was observed to return;
   [check_case] evaluates the history-based spec oracle on the observation and compares the
   observation with the model. *)
From Kit Require Export C15.Model C15.Spec Lib.CheckLib.
Local Open Scope Z_scope.

Inductive case :=
(* one goroutine, no cleaner tick: [ops] chronological, [obs] the result of each *)
| CSeq (maxttl : Z) (ops : list op) (obs : list res) (stop_returned cleaner_exited : bool)
(* several goroutines + the periodic cleaner: [lin] = the client operations in the order in which
   they took effect (recorded under the harness's mutex), [obs] their results *)
| CConc (maxttl : Z) (lin : list op) (obs : list res) (stop_returned cleaner_exited : bool)
(* several Stop() calls issued so that they OVERLAP (usually while a ticker-driven cleanup pass is
   held in the middle of Cleanup): one pair per call = (the call returned, the cleaner goroutine
   had exited when that call returned - read by the caller itself right after its Stop);
   [late] = background cleanup work was SEEN after some Stop call had returned: the periodic pass
   was still parked inside Cleanup at that moment, or the cache read its clock, or the stored keys
   changed, afterwards (a fact when seen; nothing seen is [false]) *)
| CStops (calls : list (bool * bool)) (late : bool).

Fixpoint eqb_results (a b : list res) : bool :=
  match a, b with
  | [], [] => true
  | x :: a', y :: b' => res_eqb x y && eqb_results a' b'
  | _, _ => false
  end.

Definition model_agrees (c : case) : bool :=
  match c with
  | CSeq maxttl ops obs _ _ => eqb_results (results maxttl 0 ops) obs
  | CConc _ _ _ _ _ => true   (* the schedule of the cleaner is not observed: oracle only *)
  | CStops _ _ => true          (* the schedule of the callers is not observed: oracle only *)
  end.

Definition oracle (c : case) : bool :=
  match c with
  | CSeq maxttl ops obs sr ce => all_obs_ok true maxttl [] ops obs && stop_ok sr ce
  | CConc maxttl lin obs sr ce => all_obs_ok false maxttl [] lin obs && stop_ok sr ce
  | CStops calls late => forallb (fun p => stop_ok (fst p) (snd p)) calls && negb late
  end.

(* 0 = agree and oracle holds; 1 = model and implementation differ; 2 = the implementation's
   observed behaviour violates the spec. *)
Definition check_case (c : case) : Z :=
  if negb (oracle c) then 2 else if negb (model_agrees c) then 1 else 0.

Definition run_cases (cs : list (Z * case)) : list (Z * Z) := failures check_case cs.
