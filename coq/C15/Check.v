(* C15 — executable correspondence interface.  The Go harness prints [case] terms holding the
   operations it issued on a real ttlcache.Cache AND what every operation was observed to return;
   [check_case] evaluates the history-based spec oracle on the observation and compares the
   observation with the model. *)
From Kit Require Export C15.Model C15.Spec Lib.CheckLib.
Local Open Scope Z_scope.

Inductive case :=
(* one goroutine, no cleaner tick: [ops] chronological, [obs] the result of each *)
| CSeq (maxttl : Z) (ops : list op) (obs : list res) (stop_returned cleaner_exited : bool)
(* several goroutines + the periodic cleaner: [lin] = the client operations in the order in which
   they took effect (recorded under the harness's mutex), [obs] their results *)
| CConc (maxttl : Z) (lin : list op) (obs : list res) (stop_returned cleaner_exited : bool)
(* several Stop() calls issued so that they OVERLAP (usually while a ticker-driven cleanup pass is
   held in the middle of Cleanup): one pair per call = (the call returned, the cleaner goroutine
   had exited when that call returned - read by the caller itself right after its Stop);
   [late] = background cleanup work was SEEN after some Stop call had returned: the periodic pass
   was still parked inside Cleanup at that moment, or the cache read its clock, or the stored keys
   changed, afterwards (a fact when seen; nothing seen is [false]) *)
| CStops (calls : list (bool * bool)) (late : bool).

Fixpoint eqb_results (a b : list res) : bool :=
  match a, b with
  | [], [] => true
  | x :: a', y :: b' => res_eqb x y && eqb_results a' b'
  | _, _ => false
  end.

(* the interleaved-system event of a client operation (a manual Cleanup runs unserialised in the
   harness and Keys / Stop do not touch the map: no event) *)
Definition op_ev (o : op) : option cev :=
  match o with
  | OSet k v ttl => Some (CSet k v ttl)
  | OGet k => Some (CGet k)
  | ODelete k => Some (CDelete k)
  | OReset => Some CReset
  | OAdvance d => Some (CAdvance d)
  | OCleanup | OKeys | OStop => None
  end.

Definition lin_events (lin : list op) : list cev :=
  flat_map (fun o => match op_ev o with Some e => [e] | None => [] end) lin.

(* the observed results of the operations that have an event *)
Fixpoint client_obs (lin : list op) (obs : list res) : list res :=
  match lin, obs with
  | o :: t, r :: rs => match op_ev o with
                       | Some _ => r :: client_obs t rs
                       | None => client_obs t rs
                       end
  | _, _ => []
  end.

(* every observed hit is the model's hit (an observed miss is not compared: the cleanup race) *)
Fixpoint hits_agree (obs model : list res) : bool :=
  match obs, model with
  | [], [] => true
  | RGet (Some v) :: a, m :: b => res_eqb (RGet (Some v)) m && hits_agree a b
  | _ :: a, _ :: b => hits_agree a b
  | _, _ => false
  end.

Fixpoint pairs_eqb (a b : list (bool * bool)) : bool :=
  match a, b with
  | [], [] => true
  | (x1, x2) :: a', (y1, y2) :: b' => Bool.eqb x1 y1 && Bool.eqb x2 y2 && pairs_eqb a' b'
  | _, _ => false
  end.

Definition model_agrees (c : case) : bool :=
  match c with
  | CSeq maxttl ops obs _ _ => eqb_results (results maxttl 0 ops) obs
  | CConc maxttl lin obs _ _ =>
      (* the cleaner's schedule is not observed, so results cannot be compared one to one; but
         cleanups only remove entries: every observed hit must be the hit of the interleaved
         model run on the same client operations with no cleanup at all *)
      match ctrace maxttl (cinit 0) (lin_events lin) with
      | Some (_, rs) => hits_agree (client_obs lin obs) rs
      | None => false
      end
  | CStops calls late =>
      (* the callers' schedule is not observed; the observation is compared with what the
         life-cycle model yields on the schedule of the scenario (cleaner inside a pass, all calls
         overlapping) for the same number of calls *)
      match lcollect linit false (stops_schedule (length calls)) with
      | Some (mc, ml) => pairs_eqb calls mc && Bool.eqb late ml
      | None => false
      end
  end.

Definition oracle (c : case) : bool :=
  match c with
  | CSeq maxttl ops obs sr ce => all_obs_ok true maxttl [] ops obs && stop_ok sr ce
  | CConc maxttl lin obs sr ce => all_obs_ok false maxttl [] lin obs && stop_ok sr ce
  | CStops calls late => forallb (fun p => stop_ok (fst p) (snd p)) calls && negb late
  end.

(* 0 = agree and oracle holds; 1 = model and implementation differ; 2 = the implementation's
   observed behaviour violates the spec. *)
Definition check_case (c : case) : Z :=
  if negb (oracle c) then 2 else if negb (model_agrees c) then 1 else 0.

Definition run_cases (cs : list (Z * case)) : list (Z * Z) := failures check_case cs.

(* What the property text demands of a whole case, declaratively ([oracle c = true <-> case_spec c],
   ProofsOracle.v). *)
Definition case_spec (c : case) : Prop :=
  match c with
  | CSeq maxttl ops obs sr ce => trace_spec true maxttl ops obs /\ sr = true /\ ce = true
  | CConc maxttl lin obs sr ce => trace_spec false maxttl lin obs /\ sr = true /\ ce = true
  | CStops calls late =>
      (forall sr ce, In (sr, ce) calls -> sr = true /\ ce = true) /\ late = false
  end.
