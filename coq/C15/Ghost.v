(* C15 — the defect behind fixes/C15-set-racing-bulk-delete.patch.

   ttlcache keeps its entries in haxmap (a lock-free list ordered by key hash + an index of entry
   points into the list).  haxmap marks a removed node with a flag of its own and unlinks it
   lazily; an insertion whose left neighbour is being removed at that very moment hangs the new
   node off the removed one: the node is reachable through the INDEX (Get, single-key Del find it)
   but not from the list head, so ForEach never reports it.  Cleanup and Reset enumerate with
   ForEach: they can never remove such an entry, and Get keeps answering it after a Reset.
   Observed on the real code (harness kind "resetrace", corpus/C15/witness.jsonl).

   The system below is the interleaved system of Model.v plus that behaviour:
     [gghost]      the keys whose current entry ForEach does not see;
     [GSetRacing]  a Set that runs while the i-th cleanup in flight executes its bulk Del.
   [Original]: Set and the bulk Del run unserialised, [GSetRacing] can happen.
   [Fixed]:    Set holds the cache's lock shared and every removal holds it exclusively, the event
               cannot happen; the system then IS the interleaved system of Model.v (haxmap used
               as a linearizable map), and its theorems apply. *)
From Kit Require Import C15.Model C15.Spec C15.ProofsMap C15.Proofs C15.ProofsConc.
Local Open Scope Z_scope.

Record gstate := mkG { gc : cstate; gghost : list Z }.

Definition ginit (t0 : Z) : gstate := {| gc := cinit t0; gghost := [] |}.

Inductive gev :=
| GEv (e : cev)                          (* an event of the interleaved system              *)
| GSetRacing (k v ttl : Z) (i : nat).    (* Set(k, v, ttl) overlapping the i-th bulk Del     *)

(* the keys ForEach reports *)
Definition visible (gh ks : list Z) : list Z := filter (fun k => negb (memZ k gh)) ks.

(* [cstep] with enumeration (Reset, Cleanup's collect) blind to the ghost entries *)
Definition cstep_vis (gh : list Z) (maxttl : Z) (s : cstate) (e : cev) : option cstate :=
  match e with
  | CReset => Some {| cm := del_keys (visible gh (keys (cm s))) (cm s); cnow := cnow s;
                      cpend := cpend s; chist := OReset :: chist s; clost := clost s |}
  | CCollect =>
      Some {| cm := cm s; cnow := cnow s;
              cpend := cpend s ++ [{| pkeys := visible gh (expired_keys (cnow s) (cm s)); ptouched := [] |}];
              chist := chist s; clost := clost s |}
  | _ => cstep maxttl s e
  end.

(* a single-key Del reaches the entry through the index: the ghost goes away *)
Definition ghosts_after (gh : list Z) (e : cev) : list Z :=
  match e with CDelete k => removeZ k gh | _ => gh end.

Definition gstep (var : variant) (maxttl : Z) (s : gstate) (e : gev) : option gstate :=
  match e with
  | GEv e' => match cstep_vis (gghost s) maxttl (gc s) e' with
              | Some c => Some {| gc := c; gghost := ghosts_after (gghost s) e' |}
              | None => None
              end
  | GSetRacing k v ttl i =>
      match var with
      | Fixed => None
      | Original =>
          match cstep maxttl (gc s) (CDeleteKeys i) with
          | Some c1 => match cstep maxttl c1 (CSet k v ttl) with
                       | Some c2 => Some {| gc := c2;
                                            gghost := if accepted ttl then k :: gghost s else gghost s |}
                       | None => None
                       end
          | None => None
          end
      end
  end.

Fixpoint grun (var : variant) (maxttl : Z) (s : gstate) (es : list gev) : option gstate :=
  match es with
  | [] => Some s
  | e :: t => match gstep var maxttl s e with Some s' => grun var maxttl s' t | None => None end
  end.

Definition gproj (es : list gev) : list cev :=
  flat_map (fun e => match e with GEv e' => [e'] | GSetRacing _ _ _ _ => [] end) es.

(* ------------------------------------------------------------------------------------- *)
(* Original: a value is returned after a Reset that nothing followed.                      *)

(* Set(0) with a 1 s TTL; 2 s pass; the cleaner collects key 0; Set(1, 7, ttl 1000) lands while
   the cleaner's bulk Del removes key 0; Reset; Get(1) still answers 7. *)
Definition ghost_witness : list gev :=
  [GEv (CSet 0 1 1); GEv (CAdvance 2000000000); GEv CCollect; GSetRacing 1 7 1000 0; GEv CReset].

Theorem ghost_reset_refuted :
  exists s, grun Original 0 (ginit 0) ghost_witness = Some s /\
            cget (gc s) 1 = Some 7 /\
            rev (chist (gc s)) = [OSet 0 1 1; OAdvance 2000000000; OSet 1 7 1000; OReset] /\
            ~ justified 0 (rev (chist (gc s))) 1 7.
Proof.
  eexists. split; [vm_compute; reflexivity|]. split; [vm_compute; reflexivity|].
  split; [vm_compute; reflexivity|].
  intro Hj. apply expected_get_spec in Hj. vm_compute in Hj. discriminate.
Qed.

(* ... and no later Reset or Cleanup gets rid of it *)
Example ghost_survives_everything :
  exists s, grun Original 0 (ginit 0)
              (ghost_witness ++ [GEv CReset; GEv (CAdvance 5); GEv CCollect; GEv (CDeleteKeys 0); GEv CReset])
            = Some s /\ cget (gc s) 1 = Some 7.
Proof. eexists. split; vm_compute; reflexivity. Qed.

(* ------------------------------------------------------------------------------------- *)
(* Fixed: the system is the interleaved system of Model.v.                                 *)

Lemma visible_nil ks : visible [] ks = ks.
Proof.
  unfold visible. induction ks as [|k t IH]; [reflexivity|].
  cbn [filter memZ negb]. f_equal. exact IH.
Qed.

Lemma cstep_vis_nil maxttl s e : cstep_vis [] maxttl s e = cstep maxttl s e.
Proof. destruct e; cbn [cstep_vis cstep]; rewrite ?visible_nil; reflexivity. Qed.

Lemma ghosts_after_nil e : ghosts_after [] e = [].
Proof. destruct e; reflexivity. Qed.

Lemma grun_fixed maxttl es : forall s0 s,
  gghost s0 = [] -> grun Fixed maxttl s0 es = Some s ->
  gghost s = [] /\ crun maxttl (gc s0) (gproj es) = Some (gc s).
Proof.
  induction es as [|e t IH]; intros s0 s Hg Hrun.
  - cbn [grun] in Hrun. inversion Hrun; subst s. split; [exact Hg|reflexivity].
  - cbn [grun] in Hrun. destruct e as [e'|k v ttl i]; cbn [gstep] in Hrun; [|discriminate].
    rewrite Hg, cstep_vis_nil in Hrun.
    destruct (cstep maxttl (gc s0) e') as [c|] eqn:Hc; [|discriminate].
    rewrite ghosts_after_nil in Hrun.
    destruct (IH {| gc := c; gghost := [] |} s eq_refl Hrun) as [Hg' Hr]. cbn [gc] in Hr.
    split; [exact Hg'|]. cbn [gproj flat_map app crun]. rewrite Hc. exact Hr.
Qed.

Theorem ghost_fixed_embeds maxttl t0 es s :
  grun Fixed maxttl (ginit t0) es = Some s ->
  gghost s = [] /\ crun maxttl (cinit t0) (gproj es) = Some (gc s).
Proof. intro H. exact (grun_fixed maxttl es (ginit t0) s eq_refl H). Qed.

(* hence: with the fix every hit is justified by the client operations so far (in particular no
   value is ever returned after a Reset that no Set followed) *)
Theorem ghost_fixed_get_sound maxttl t0 es s k v :
  grun Fixed maxttl (ginit t0) es = Some s -> cget (gc s) k = Some v ->
  justified maxttl (flat_map ev_op (gproj es)) k v.
Proof.
  intros Hrun Hget. destruct (ghost_fixed_embeds _ _ _ _ Hrun) as [_ Hc].
  exact (conc_get_sound maxttl t0 (gproj es) (gc s) k v Hc Hget).
Qed.

Example ghost_fixed_nonvacuous :
  exists s, grun Fixed 0 (ginit 0)
              [GEv (CSet 0 1 1); GEv (CAdvance 2000000000); GEv CCollect; GEv (CSet 1 7 1000);
               GEv (CDeleteKeys 0)] = Some s /\ cget (gc s) 1 = Some 7 /\
            grun Fixed 0 (ginit 0) ghost_witness = None.
Proof. eexists. repeat split; vm_compute; reflexivity. Qed.
