(* C15 — source-table tie: harness/srctab15 regenerates, from the text of
   /repo/ttlcache/ttlcache.go, the unit of a TTL (`time.Duration(ttl) * time.Second` in Set) and
   the bound of `if ttl <= 0 { panic }`; tested against [second_ns] (Ops.v, used by Model.ttl_dur
   and Spec.ttl_ns) and against the model's [set_at] evaluated around the bound.
   The default CleanupInterval (150 s) is not in the model (a tick is an event) and is not tied. *)
From Kit Require Import Lib.SrcTab C15.Ops C15.Model.
From Coq Require Import String.
Local Open Scope string_scope.

(* Set refuses ttl <= z and accepts z + 1 *)
Definition min_ttl_ok (z : Z) : bool :=
  match set_at 0 [] 0 1 1 z, set_at 0 [] 0 1 1 (z + 1) with
  | None, Some _ => true
  | _, _ => false
  end.

Definition table : list Kit.Lib.SrcTab.entry :=
  [ ("ttlcache.Set.ttlUnit", eqv (TZ second_ns));
    ("ttlcache.Set.minTTL", on_Z min_ttl_ok) ].

Definition run_cases := run_tab table.
