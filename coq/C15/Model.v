(* C15 — ttlcache: executable model of /repo/ttlcache/ttlcache.go.  Definitions only.

   The third-party lock-free map (haxmap) is modelled as a linearizable map: an association list
   read through [lookup] (first binding wins), [put] = update-or-insert, [del_key]/[del_keys] =
   Del(one)/Del(many), ForEach = enumeration of the bound keys.  Time is [Z] nanoseconds.

   Three layers:
   1. the sequential API ([get], [set], [delete], [cleanup], [reset]) and [step]/[run] over [op]s;
   2. the interleaved system [cstep]: Cleanup is split at the only point where it can be
      interleaved with other goroutines' map operations — between the ForEach that collects the
      expired keys ([CCollect]) and the bulk Del ([CDeleteKeys]); any number of cleanups (the
      periodic one and manual ones) can be in flight;
   3. the life cycle of the background cleaner and Stop ([lstep]). *)
From Kit Require Export C15.Ops.
Local Open Scope Z_scope.

(* ------------------------------------------------------------------------------------- *)
(* int64 arithmetic of [time.Duration(ttl) * time.Second]                                  *)

Definition wrap64 (x : Z) : Z := (x + 2^63) mod 2^64 - 2^63.

(* ------------------------------------------------------------------------------------- *)
(* The map                                                                                 *)

(* cacheEntry[V]{val, exp} *)
Record entry := mkEntry { eval : Z; eexp : Z }.

Definition kvmap := list (Z * entry).

Fixpoint lookup (k : Z) (m : kvmap) : option entry :=
  match m with
  | [] => None
  | (k', e) :: t => if k' =? k then Some e else lookup k t
  end.

Definition del_key (k : Z) (m : kvmap) : kvmap :=
  filter (fun kv => negb (fst kv =? k)) m.

Definition put (k : Z) (e : entry) (m : kvmap) : kvmap := (k, e) :: del_key k m.

Definition keys (m : kvmap) : list Z := map fst m.

(* m.Del(keys...) *)
Definition del_keys (ks : list Z) (m : kvmap) : kvmap :=
  filter (fun kv => negb (memZ (fst kv) ks)) m.

(* ------------------------------------------------------------------------------------- *)
(* 1. The sequential API                                                                   *)

Record state := mkState { smap : kvmap; snow : Z }.

Definition init (t0 : Z) : state := {| smap := []; snow := t0 |}.

(* Get: [val, ok := c.m.Get(key); if !ok || !val.exp.After(c.clock.Now()) { miss }] *)
Definition get_at (m : kvmap) (now : Z) (k : Z) : option Z :=
  match lookup k m with
  | Some e => if eexp e >? now then Some (eval e) else None
  | None => None
  end.

Definition get (s : state) (k : Z) : option Z := get_at (smap s) (snow s) k.

(* Set: [if c.maxTTL > 0 && ttl > c.maxTTL { ttl = c.maxTTL }] *)
Definition cap_ttl (maxttl ttl : Z) : Z :=
  if (maxttl >? 0) && (ttl >? maxttl) then maxttl else ttl.

(* [time.Duration(ttl) * time.Second]: an int64 product, wrapping *)
Definition ttl_dur (maxttl ttl : Z) : Z := wrap64 (cap_ttl maxttl ttl * second_ns).

(* [None] = panic("invalid TTL: must be > 0"), the cache is unchanged *)
Definition set_at (maxttl : Z) (m : kvmap) (now : Z) (k v ttl : Z) : option kvmap :=
  if ttl <=? 0 then None
  else Some (put k {| eval := v; eexp := now + ttl_dur maxttl ttl |} m).

Definition set (maxttl : Z) (s : state) (k v ttl : Z) : option state :=
  match set_at maxttl (smap s) (snow s) k v ttl with
  | Some m' => Some {| smap := m'; snow := snow s |}
  | None => None
  end.

Definition delete (s : state) (k : Z) : state :=
  {| smap := del_key k (smap s); snow := snow s |}.

(* Cleanup, first half: [now := c.clock.Now(); c.m.ForEach(... if v.exp.Before(now) { keys = append(keys, k) })] *)
Definition expired_keys (now : Z) (m : kvmap) : list Z :=
  filter (fun k => match lookup k m with Some e => eexp e <? now | None => false end) (keys m).

(* Cleanup = collect, then [c.m.Del(keys...)] *)
Definition cleanup (s : state) : state :=
  {| smap := del_keys (expired_keys (snow s) (smap s)) (smap s); snow := snow s |}.

(* Reset: collect every key, then Del *)
Definition reset (s : state) : state :=
  {| smap := del_keys (keys (smap s)) (smap s); snow := snow s |}.

Definition advance (s : state) (d : Z) : state := {| smap := smap s; snow := snow s + d |}.

(* sorted key list, for the VerifKeys observation *)
Fixpoint insertZ (x : Z) (l : list Z) : list Z :=
  match l with
  | [] => [x]
  | y :: t => if x <=? y then x :: l else y :: insertZ x t
  end.

Definition sortZ (l : list Z) : list Z := fold_right insertZ [] l.

Definition step (maxttl : Z) (s : state) (o : op) : state * res :=
  match o with
  | OSet k v ttl => match set maxttl s k v ttl with
                    | Some s' => (s', RUnit)
                    | None => (s, RPanic)
                    end
  | OGet k => (s, RGet (get s k))
  | ODelete k => (delete s k, RUnit)
  | OCleanup => (cleanup s, RUnit)
  | OReset => (reset s, RUnit)
  | OAdvance d => (advance s d, RUnit)
  | OKeys => (s, RKeys (sortZ (keys (smap s))))
  | OStop => (s, RUnit)   (* Stop touches stopped / stopCh / runningCh only (section 3) *)
  end.

(* run a chronological list of operations; results in the same order *)
Fixpoint run (maxttl : Z) (s : state) (ops : list op) : state * list res :=
  match ops with
  | [] => (s, [])
  | o :: t => let '(s1, r) := step maxttl s o in
              let '(s2, rs) := run maxttl s1 t in (s2, r :: rs)
  end.

Definition final (maxttl t0 : Z) (ops : list op) : state := fst (run maxttl (init t0) ops).
Definition results (maxttl t0 : Z) (ops : list op) : list res := snd (run maxttl (init t0) ops).

(* ------------------------------------------------------------------------------------- *)
(* 2. The interleaved system                                                               *)

(* A cleanup in flight: the keys its ForEach collected.  [ptouched] is a ghost field: the keys
   Set since that collect (what the code comment calls "keys that are updated after ForEach
   ends"). *)
Record pending := mkPending { pkeys : list Z; ptouched : list Z }.

Record cstate := mkC {
  cm : kvmap;
  cnow : Z;
  cpend : list pending;
  chist : list op;     (* ghost: the client operations so far, NEWEST FIRST *)
  clost : list Z       (* ghost: keys whose live entry was removed by a DeleteKeys *)
}.

Definition cinit (t0 : Z) : cstate :=
  {| cm := []; cnow := t0; cpend := []; chist := []; clost := [] |}.

Inductive cev :=
| CSet (k v ttl : Z) | CGet (k : Z) | CDelete (k : Z) | CReset | CAdvance (d : Z)
| CCollect                 (* some goroutine runs the first half of Cleanup *)
| CDeleteKeys (i : nat).   (* the i-th cleanup in flight runs its bulk Del *)

Definition touch (k : Z) (p : pending) : pending :=
  {| pkeys := pkeys p; ptouched := k :: ptouched p |}.

Definition removeZ (k : Z) (l : list Z) : list Z := filter (fun x => negb (x =? k)) l.

Fixpoint drop_nth {A} (i : nat) (l : list A) : list A :=
  match l, i with
  | [], _ => []
  | _ :: t, O => t
  | x :: t, S j => x :: drop_nth j t
  end.

(* keys of [ks] whose current entry is live (a hit right now) *)
Definition live_among (m : kvmap) (now : Z) (ks : list Z) : list Z :=
  filter (fun k => match lookup k m with Some e => eexp e >? now | None => false end) ks.

(* Client operations are atomic (the map is linearizable; Get/Set/Delete are one map operation
   each; Reset is kept atomic here: clients are serialised in this system, only cleanups overlap
   them).  The system is total: a disabled event is [None] only for a bad index. *)
Definition cstep (maxttl : Z) (s : cstate) (e : cev) : option cstate :=
  match e with
  | CSet k v ttl =>
      match set_at maxttl (cm s) (cnow s) k v ttl with
      | Some m' => Some {| cm := m'; cnow := cnow s; cpend := map (touch k) (cpend s);
                           chist := OSet k v ttl :: chist s; clost := removeZ k (clost s) |}
      | None => Some {| cm := cm s; cnow := cnow s; cpend := cpend s;
                        chist := OSet k v ttl :: chist s; clost := clost s |}
      end
  | CGet k => Some {| cm := cm s; cnow := cnow s; cpend := cpend s;
                      chist := OGet k :: chist s; clost := clost s |}
  | CDelete k => Some {| cm := del_key k (cm s); cnow := cnow s; cpend := cpend s;
                         chist := ODelete k :: chist s; clost := clost s |}
  | CReset => Some {| cm := del_keys (keys (cm s)) (cm s); cnow := cnow s; cpend := cpend s;
                      chist := OReset :: chist s; clost := clost s |}
  | CAdvance d => Some {| cm := cm s; cnow := cnow s + d; cpend := cpend s;
                          chist := OAdvance d :: chist s; clost := clost s |}
  | CCollect =>
      Some {| cm := cm s; cnow := cnow s;
              cpend := cpend s ++ [{| pkeys := expired_keys (cnow s) (cm s); ptouched := [] |}];
              chist := chist s; clost := clost s |}
  | CDeleteKeys i =>
      match nth_error (cpend s) i with
      | Some p => Some {| cm := del_keys (pkeys p) (cm s); cnow := cnow s;
                          cpend := drop_nth i (cpend s); chist := chist s;
                          clost := live_among (cm s) (cnow s) (pkeys p) ++ clost s |}
      | None => None
      end
  end.

Fixpoint crun (maxttl : Z) (s : cstate) (es : list cev) : option cstate :=
  match es with
  | [] => Some s
  | e :: t => match cstep maxttl s e with Some s' => crun maxttl s' t | None => None end
  end.

(* what a Get issued in state [s] returns *)
Definition cget (s : cstate) (k : Z) : option Z := get_at (cm s) (cnow s) k.

(* what the client that issued event [e] in state [s] gets back (cleanup halves return nothing
   a client observes) *)
Definition cev_res (s : cstate) (e : cev) : list res :=
  match e with
  | CSet _ _ ttl => [if ttl <=? 0 then RPanic else RUnit]
  | CGet k => [RGet (cget s k)]
  | CDelete _ | CReset | CAdvance _ => [RUnit]
  | CCollect | CDeleteKeys _ => []
  end.

Fixpoint ctrace (maxttl : Z) (s : cstate) (es : list cev) : option (cstate * list res) :=
  match es with
  | [] => Some (s, [])
  | e :: t => match cstep maxttl s e with
              | Some s' => match ctrace maxttl s' t with
                           | Some (s2, rs) => Some (s2, cev_res s e ++ rs)
                           | None => None
                           end
              | None => None
              end
  end.

(* ------------------------------------------------------------------------------------- *)
(* 3. Background cleaner and Stop                                                          *)

(* program counter of the goroutine started by startBackgroundCleanup *)
Inductive cleaner_pc := PSelect | PCleaning | PExited.
(* program counter of one caller of Stop() *)
Inductive stop_pc := SCalled | SClosing | SWaiting | SReturned.

Record life := mkLife {
  lstopped : bool;         (* c.stopped (atomic.Bool)        *)
  lstopch : bool;          (* c.stopCh is closed             *)
  lrunningch : bool;       (* c.runningCh is closed          *)
  lcleaner : cleaner_pc;
  lcallers : list stop_pc  (* one entry per Stop() call, any number *)
}.

Definition linit : life :=
  {| lstopped := false; lstopch := false; lrunningch := false; lcleaner := PSelect; lcallers := [] |}.

Inductive lev :=
| LTick                (* [case <-t.C():] taken: the cleaner enters c.Cleanup() *)
| LCleanupDone         (* c.Cleanup() returns, back to the select               *)
| LSeeStop             (* [case <-c.stopCh: return]; the deferred close(runningCh) runs *)
| LStopCall            (* a new Stop() call arrives                              *)
| LStopCas (i : nat)   (* caller i: [c.stopped.CompareAndSwap(false, true)]      *)
| LStopClose (i : nat) (* caller i won the CAS: [close(c.stopCh)]                *)
| LStopReturn (i : nat).  (* caller i: [<-c.runningCh] completes, Stop returns   *)

Fixpoint set_nth {A} (i : nat) (x : A) (l : list A) : list A :=
  match l, i with
  | [], _ => []
  | _ :: t, O => x :: t
  | y :: t, S j => y :: set_nth j x t
  end.

Definition lstep (s : life) (e : lev) : option life :=
  match e with
  | LTick => match lcleaner s with
             | PSelect => Some {| lstopped := lstopped s; lstopch := lstopch s; lrunningch := lrunningch s;
                                  lcleaner := PCleaning; lcallers := lcallers s |}
             | _ => None end
  | LCleanupDone => match lcleaner s with
             | PCleaning => Some {| lstopped := lstopped s; lstopch := lstopch s; lrunningch := lrunningch s;
                                    lcleaner := PSelect; lcallers := lcallers s |}
             | _ => None end
  | LSeeStop => match lcleaner s with
             | PSelect => if lstopch s
                          then Some {| lstopped := lstopped s; lstopch := lstopch s; lrunningch := true;
                                       lcleaner := PExited; lcallers := lcallers s |}
                          else None
             | _ => None end
  | LStopCall => Some {| lstopped := lstopped s; lstopch := lstopch s; lrunningch := lrunningch s;
                         lcleaner := lcleaner s; lcallers := lcallers s ++ [SCalled] |}
  | LStopCas i => match nth_error (lcallers s) i with
             | Some SCalled =>
                 Some {| lstopped := true; lstopch := lstopch s;
                         lrunningch := lrunningch s; lcleaner := lcleaner s;
                         lcallers := set_nth i (if lstopped s then SWaiting else SClosing) (lcallers s) |}
             | _ => None end
  | LStopClose i => match nth_error (lcallers s) i with
             | Some SClosing =>
                 Some {| lstopped := lstopped s; lstopch := true;
                         lrunningch := lrunningch s; lcleaner := lcleaner s;
                         lcallers := set_nth i SWaiting (lcallers s) |}
             | _ => None end
  | LStopReturn i => match nth_error (lcallers s) i with
             | Some SWaiting => if lrunningch s
                                then Some {| lstopped := lstopped s; lstopch := lstopch s;
                                             lrunningch := lrunningch s; lcleaner := lcleaner s;
                                             lcallers := set_nth i SReturned (lcallers s) |}
                                else None
             | _ => None end
  end.

Fixpoint lrun (s : life) (es : list lev) : option life :=
  match es with
  | [] => Some s
  | e :: t => match lstep s e with Some s' => lrun s' t | None => None end
  end.

(* work of the cleaner goroutine: a tick taken, a cleanup pass finished *)
Definition cleaner_work (e : lev) : bool :=
  match e with LTick | LCleanupDone => true | _ => false end.

Definition is_return (e : lev) : bool :=
  match e with LStopReturn _ => true | _ => false end.

Definition cleaner_exited (s : life) : bool :=
  match lcleaner s with PExited => true | _ => false end.

(* What an observer of a schedule records (the observation of the harness's "stops" cases): one
   pair per Stop call that returns = (it returned, the cleaner goroutine had exited at that
   moment), and whether the cleaner did any work after some Stop call had returned
   ([seen] = some call has returned already). *)
Fixpoint lcollect (s : life) (seen : bool) (es : list lev) : option (list (bool * bool) * bool) :=
  match es with
  | [] => Some ([], false)
  | e :: t =>
      match lstep s e with
      | None => None
      | Some s' =>
          match lcollect s' (seen || is_return e) t with
          | None => None
          | Some (calls, late) =>
              Some ((if is_return e then [(true, cleaner_exited s')] else []) ++ calls,
                    (seen && cleaner_work e) || late)
          end
      end
  end.

(* The schedule of a "stops" case with n overlapping callers: a tick puts the cleaner inside a
   cleanup pass; n Stop calls arrive and do their CompareAndSwap; the winner closes stopCh; the
   pass ends, the cleaner sees stopCh and exits; every call returns. *)
Definition stops_schedule (n : nat) : list lev :=
  [LTick] ++ repeat LStopCall n ++ map LStopCas (seq 0 n) ++ [LStopClose 0; LCleanupDone; LSeeStop]
  ++ map LStopReturn (seq 0 n).
