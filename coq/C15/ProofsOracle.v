(* C15 — the whole-observation oracle of Check.v is SOUND AND COMPLETE for the property's clauses:
   [all_obs_ok] / [oracle] answer [true] exactly when every observed result satisfies the clause
   of the property text that speaks about it, stated declaratively over the chronological
   history (no executable [last_set] / [expected_get] / [keys_ok] on the right-hand side).
   A verdict 2 therefore always names a violated clause, and a verdict other than 2 means that
   every clause holds of the recorded trace.  No axioms. *)
From Kit Require Import C15.Model C15.Spec C15.Check C15.ProofsMap C15.Proofs.
From Coq Require Import Lia.
Local Open Scope Z_scope.

(* ------------------------------------------------------------------------------------- *)

Lemma justified_mentions maxttl a k v :
  justified maxttl a k v -> In k (flat_map op_key (rev a)).
Proof.
  intros (h1 & ttl & h2 & -> & _). apply in_flat_map. exists (OSet k v ttl). split.
  - apply -> in_rev. apply in_or_app. right. left. reflexivity.
  - cbn [op_key]. left. reflexivity.
Qed.

Lemma keys_ok_iff maxttl a ks :
  keys_ok maxttl (rev a) ks = true <->
  (forall k v, justified maxttl a k v -> In k ks \/ last_set_fits maxttl (rev a) k = false).
Proof.
  unfold keys_ok. rewrite forallb_forall. split.
  - intros H k v Hj. specialize (H k (justified_mentions _ _ _ _ Hj)).
    apply expected_get_spec in Hj. rewrite Hj in H.
    apply orb_true_iff in H as [H|H].
    + left. apply memZ_In. exact H.
    + right. destruct (last_set_fits maxttl (rev a) k); [discriminate|reflexivity].
  - intros H k _. destruct (expected_get maxttl (rev a) k) as [v|] eqn:He; [|reflexivity].
    apply expected_get_spec in He. destruct (H k v He) as [Hin|Hf].
    + apply memZ_In in Hin. rewrite Hin. reflexivity.
    + rewrite Hf. apply orb_true_r.
Qed.

Lemma obs_ok_iff strict maxttl a o r :
  obs_ok strict maxttl (rev a) o r = true <-> res_spec strict maxttl a o r.
Proof.
  destruct o as [k v ttl|k|k| | |d| |]; destruct r as [| |g|ks]; cbn [obs_ok res_spec];
    try (split; [discriminate | tauto]); try tauto.
  - unfold accepted. rewrite Z.ltb_lt. tauto.
  - unfold accepted. rewrite negb_true_iff, Z.ltb_ge. tauto.
  - destruct strict.
    + rewrite get_ok_sound. unfold get_spec. destruct g as [v|]; [tauto|].
      split; [intros H _; exact H | intro H; exact (H eq_refl)].
    + rewrite get_sound_ok_sound. destruct g as [v|]; [tauto|].
      split; [intros _ H; discriminate | tauto].
  - destruct strict.
    + rewrite keys_ok_iff. split; [intros H _; exact H | intro H; exact (H eq_refl)].
    + split; [intros _ H; discriminate | reflexivity].
Qed.

Lemma all_obs_ok_iff_gen strict maxttl : forall h rs pre,
  all_obs_ok strict maxttl (rev pre) h rs = true <->
  (length h = length rs /\
   forall a o b r, h = a ++ o :: b -> nth_error rs (length a) = Some r ->
                   res_spec strict maxttl (pre ++ a) o r).
Proof.
  induction h as [|o h' IH]; intros rs pre.
  - destruct rs as [|r rs']; cbn [all_obs_ok length].
    + split; [|reflexivity]. intros _. split; [reflexivity|].
      intros a o b r Hh. destruct a; discriminate.
    + split; [discriminate | intros [H _]; discriminate].
  - destruct rs as [|r rs']; cbn [all_obs_ok length].
    + split; [discriminate | intros [H _]; discriminate].
    + rewrite andb_true_iff, obs_ok_iff.
      change (o :: rev pre) with ([o] ++ rev pre)%list. change [o] with (rev [o]).
      rewrite <- rev_app_distr, IH. split.
      * intros [Ho [Hlen Hall]]. split; [congruence|].
        intros a o' b r' Hh Hn. destruct a as [|x a'].
        -- cbn [app] in Hh. inversion Hh; subst o' b. cbn [length nth_error] in Hn.
           inversion Hn; subst r'. rewrite app_nil_r. exact Ho.
        -- cbn [app] in Hh. inversion Hh; subst x h'. cbn [length nth_error] in Hn.
           specialize (Hall a' o' b r' eq_refl Hn). rewrite <- app_assoc in Hall. exact Hall.
      * intros [Hlen Hall]. split; [|split; [congruence|]].
        -- specialize (Hall [] o h' r eq_refl eq_refl). rewrite app_nil_r in Hall. exact Hall.
        -- intros a o' b r' Hh Hn. rewrite <- app_assoc. cbn [app].
           apply (Hall (o :: a) o' b r'); [rewrite Hh; reflexivity | exact Hn].
Qed.

(* The trace oracle decides the trace specification, in both modes. *)
Theorem all_obs_ok_iff strict maxttl h rs :
  all_obs_ok strict maxttl [] h rs = true <-> trace_spec strict maxttl h rs.
Proof. exact (all_obs_ok_iff_gen strict maxttl h rs []). Qed.

(* ------------------------------------------------------------------------------------- *)
(* ... and the case oracle decides the specification of a whole case.                      *)

Theorem oracle_iff c : oracle c = true <-> case_spec c.
Proof.
  destruct c as [m o r sr ce|m o r sr ce|calls late]; cbn [oracle case_spec]; unfold stop_ok.
  - rewrite !andb_true_iff, all_obs_ok_iff. tauto.
  - rewrite !andb_true_iff, all_obs_ok_iff. tauto.
  - rewrite andb_true_iff, forallb_forall, negb_true_iff. split.
    + intros [H Hl]. split; [|exact Hl]. intros sr ce Hin. specialize (H _ Hin).
      cbn [fst snd] in H. apply andb_true_iff in H. exact H.
    + intros [H Hl]. split; [|exact Hl]. intros [sr ce] Hin. cbn [fst snd].
      destruct (H sr ce Hin) as [-> ->]. reflexivity.
Qed.

(* hence the verdicts: 2 exactly when some clause is violated on the recorded observation *)
Theorem verdict_two_iff c : check_case c = 2 <-> ~ case_spec c.
Proof.
  rewrite <- oracle_iff. unfold check_case.
  destruct (oracle c); cbn [negb]; [|split; [intros _ H; discriminate | reflexivity]].
  destruct (negb (model_agrees c)); split; try discriminate; intro H; exfalso; apply H; reflexivity.
Qed.

(* Non-vacuity: a trace that meets the specification (hit, miss at expiry, Keys after a Cleanup,
   Set after Stop) and three that do not, each for a different clause. *)
Example trace_spec_nonvacuous :
  let h := [OSet 0 7 2; OSet 1 8 9; OStop; OAdvance 2000000000; OGet 0; OCleanup; OKeys; OGet 1; OSet 0 9 0] in
  trace_spec true 0 h [RUnit; RUnit; RUnit; RUnit; RGet None; RUnit; RKeys [1]; RGet (Some 8); RPanic] /\
  ~ trace_spec true 0 h [RUnit; RUnit; RUnit; RUnit; RGet (Some 7); RUnit; RKeys [1]; RGet (Some 8); RPanic] /\
  ~ trace_spec true 0 h [RUnit; RUnit; RUnit; RUnit; RGet None; RUnit; RKeys []; RGet (Some 8); RPanic] /\
  ~ trace_spec true 0 h [RUnit; RUnit; RUnit; RUnit; RGet None; RUnit; RKeys [1]; RGet None; RPanic] /\
  trace_spec false 0 h [RUnit; RUnit; RUnit; RUnit; RGet None; RUnit; RKeys []; RGet None; RPanic].
Proof.
  cbn zeta. repeat split; try (intro H; apply all_obs_ok_iff in H; vm_compute in H; discriminate);
    try (apply all_obs_ok_iff; vm_compute; reflexivity).
Qed.

(* ------------------------------------------------------------------------------------- *)
(* Refinement of the whole API, declaratively: on every forward history the model's trace (the
   result of EVERY operation: Set accepted / refused, Get hit / miss, Keys, Stop ...) meets the
   trace specification - the model is an implementation of the property text. *)
Theorem model_meets_trace_spec maxttl t0 ops :
  forallb op_forward ops = true -> trace_spec true maxttl ops (results maxttl t0 ops).
Proof. intro Hf. apply all_obs_ok_iff. apply model_meets_spec. exact Hf. Qed.

(* ... so a forward sequential case on which the implementation was observed to do what the model
   does (verdict 0 or 2 excluded: [model_agrees]) has a trace that meets the specification. *)
Theorem agreeing_case_meets_spec maxttl ops obs sr ce :
  forallb op_forward ops = true ->
  model_agrees (CSeq maxttl ops obs sr ce) = true -> trace_spec true maxttl ops obs.
Proof.
  intros Hf Hm. cbn [model_agrees] in Hm.
  assert (Heq : forall a b, eqb_results a b = true -> forall strict m rh h,
            all_obs_ok strict m rh h a = all_obs_ok strict m rh h b).
  { clear. induction a as [|x a IH]; intros [|y b] H strict m rh h; cbn [eqb_results] in H;
      try discriminate; [reflexivity|].
    apply andb_true_iff in H as [Hxy Hab]. destruct h as [|o h']; cbn [all_obs_ok]; [reflexivity|].
    rewrite (IH b Hab). f_equal.
    clear - Hxy. destruct x as [| |gx|kx], y as [| |gy|ky]; cbn [res_eqb] in Hxy; try discriminate;
      try reflexivity.
    - destruct gx as [vx|], gy as [vy|]; cbn [opt_eqb] in Hxy; try discriminate; [|reflexivity].
      apply Z.eqb_eq in Hxy. subst. reflexivity.
    - apply eqb_listZ_spec in Hxy. subst. reflexivity. }
  apply all_obs_ok_iff. rewrite <- (Heq _ _ Hm). apply model_meets_spec. exact Hf.
Qed.
