(* C15 — ttlcache: the vocabulary shared by the model and the specification: operations a client
   can issue on a cache (keys and values are integers; the harness maps key i to the Go string
   "k<i>" and uses Cache[int64]) and the unit of the clock.  Definitions only. *)
From Kit Require Export Lib.Base.
Local Open Scope Z_scope.

(* Time is [Z] nanoseconds on the cache's (injected) clock; TTLs are seconds, as in the API. *)
Definition second_ns : Z := 1000000000.

Inductive op :=
| OSet (k v ttl : Z)      (* c.Set("k<k>", v, ttl)              *)
| OGet (k : Z)            (* c.Get("k<k>")                      *)
| ODelete (k : Z)         (* c.Delete("k<k>")                   *)
| OCleanup                (* c.Cleanup()                        *)
| OReset                  (* c.Reset()                          *)
| OAdvance (d : Z)        (* the clock moves by d nanoseconds   *)
| OKeys                   (* observation only: the keys currently stored (hook VerifKeys) *)
| OStop.                  (* c.Stop(): ends the background cleaner; the cache stays usable *)

(* What one operation was observed to return. *)
Inductive res :=
| RUnit
| RPanic                  (* Set with a non-positive TTL panics *)
| RGet (r : option Z)     (* hit with value / miss              *)
| RKeys (ks : list Z).    (* stored keys, sorted ascending      *)

Fixpoint memZ (k : Z) (ks : list Z) : bool :=
  match ks with
  | [] => false
  | x :: t => (x =? k) || memZ k t
  end.

Definition opt_eqb (a b : option Z) : bool :=
  match a, b with
  | Some x, Some y => x =? y
  | None, None => true
  | _, _ => false
  end.

Definition res_eqb (a b : res) : bool :=
  match a, b with
  | RUnit, RUnit => true
  | RPanic, RPanic => true
  | RGet x, RGet y => opt_eqb x y
  | RKeys x, RKeys y => eqb_listZ x y
  | _, _ => false
  end.
