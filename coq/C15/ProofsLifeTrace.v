(* C15 — Stop, observation level: whatever the schedule of ticks, cleanup passes, Stop calls (any
   number, overlapping) and their internal steps, what an observer records - for every Stop call
   that returns, whether the cleaner had exited at that moment; whether the cleaner did any work
   after some call had returned - is accepted by the oracle of a "stops" case.  Theorems
   [stop_waits] and [stop_then_quiet] lifted to the observation the harness makes.  No axioms. *)
From Kit Require Import C15.Model C15.Spec C15.Check C15.ProofsLife C15.ProofsOracle.
From Coq Require Import Lia.

Lemma lcollect_ok es : forall s seen calls late,
  LInv s -> (seen = true -> lcleaner s = PExited) ->
  lcollect s seen es = Some (calls, late) ->
  (forall sr ce, In (sr, ce) calls -> sr = true /\ ce = true) /\ late = false.
Proof.
  induction es as [|e t IH]; intros s seen calls late Hinv Hseen Hc; cbn [lcollect] in Hc.
  - inversion Hc; subst. split; [intros sr ce []|reflexivity].
  - destruct (lstep s e) as [s'|] eqn:Hs; [|discriminate].
    destruct (lcollect s' (seen || is_return e) t) as [[calls' late']|] eqn:Ht; [|discriminate].
    inversion Hc; subst calls late. clear Hc.
    pose proof (lstep_LInv _ _ _ Hinv Hs) as Hinv'.
    assert (Hret : is_return e = true -> lcleaner s' = PExited).
    { intro Hr. destruct e as [| | | |i|i|i]; try discriminate. cbn [lstep] in Hs.
      destruct (nth_error (lcallers s) i) as [[]|] eqn:Hi; try discriminate.
      destruct (lrunningch s) eqn:Hrun; [|discriminate]. inversion Hs; subst s'. cbn [lcleaner].
      destruct Hinv as (H1 & _). apply H1. exact Hrun. }
    assert (Hseen' : seen || is_return e = true -> lcleaner s' = PExited).
    { intro H. apply orb_true_iff in H as [H|H]; [|exact (Hret H)].
      exact (proj1 (exited_absorbing _ _ _ Hs (Hseen H))). }
    destruct (IH _ _ _ _ Hinv' Hseen' Ht) as [Hcalls Hlate]. subst late'. split.
    + intros sr ce Hin. apply in_app_or in Hin as [Hin|Hin]; [|exact (Hcalls _ _ Hin)].
      destruct (is_return e) eqn:Hr; [|destruct Hin].
      destruct Hin as [Hin|[]]. inversion Hin; subst. split; [reflexivity|].
      unfold cleaner_exited. rewrite (Hret eq_refl). reflexivity.
    + rewrite orb_false_r. destruct seen; [|reflexivity]. cbn [andb].
      exact (proj2 (exited_absorbing _ _ _ Hs (Hseen eq_refl))).
Qed.

(* For every schedule: the recorded observation satisfies the specification of a stops case, i.e.
   the oracle accepts it. *)
Theorem stops_observation_ok es calls late :
  lcollect linit false es = Some (calls, late) -> oracle (CStops calls late) = true.
Proof.
  intro H. apply oracle_iff. cbn [case_spec].
  apply (lcollect_ok es linit false calls late LInv_init); [discriminate | exact H].
Qed.

(* ... in particular on the schedule Check.v runs for a case with n calls, where the model yields
   n times (returned, cleaner exited) and no late work: the comparison made there is with an
   observation the oracle accepts. *)
Theorem stops_schedule_ok n calls late :
  lcollect linit false (stops_schedule n) = Some (calls, late) -> oracle (CStops calls late) = true.
Proof. apply stops_observation_ok. Qed.

Example stops_observation_nonvacuous :
  lcollect linit false (stops_schedule 3) = Some ([(true, true); (true, true); (true, true)], false) /\
  (exists calls late,
     lcollect linit false [LStopCall; LTick; LStopCas 0; LStopCall; LStopCas 1; LStopClose 0; LCleanupDone;
                           LSeeStop; LStopReturn 1; LStopCall; LStopCas 2; LStopReturn 0; LStopReturn 2]
     = Some (calls, late) /\ length calls = 3%nat) /\
  (* a Stop cannot return while the pass is still running: no such schedule exists in the model *)
  lcollect linit false [LTick; LStopCall; LStopCas 0; LStopClose 0; LStopReturn 0] = None /\
  (* the oracle does reject such an observation, and one with late work *)
  check_case (CStops [(true, false)] false) = 2%Z /\ check_case (CStops [(true, true)] true) = 2%Z.
Proof.
  split; [vm_compute; reflexivity|]. split; [do 2 eexists; vm_compute; split; reflexivity|].
  repeat split; vm_compute; reflexivity.
Qed.
