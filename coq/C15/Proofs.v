(* C15 — proofs for the sequential API: the link between the stored map and the history of
   client operations (soundness link [Snd], completeness link [Cmp]), Get = expectation for every
   history, Cleanup laws, boundary, MaxTTL, the overflow corner, oracle soundness.  No axioms. *)
From Kit Require Import C15.Model C15.Spec C15.Check C15.ProofsMap.
From Coq Require Import ZifyBool.
Local Open Scope Z_scope.

(* ===================================================================================== *)
(* The two links between (map, clock) and the history (newest first)                       *)

(* every stored entry is the last accepted Set of its key still in force, stamped
   [clock at that Set] + [int64 duration] *)
Definition Snd (maxttl : Z) (m : kvmap) (now : Z) (rh : list op) : Prop :=
  forall k e, lookup k m = Some e ->
    exists ttl el, last_set rh k 0 = Some (eval e, ttl, el) /\
                   eexp e = now - el + ttl_dur maxttl ttl.

(* every Set still in force is stored — unless its stored lifetime is over, or (interleaved
   system only) its key is in [lost] *)
Definition Cmp (maxttl : Z) (m : kvmap) (now : Z) (rh : list op) (lost : list Z) : Prop :=
  forall k v ttl el, last_set rh k 0 = Some (v, ttl, el) ->
    lookup k m = Some {| eval := v; eexp := now - el + ttl_dur maxttl ttl |} \/
    (lookup k m = None /\ (ttl_dur maxttl ttl <= el \/ In k lost)).

Definition neutral (o : op) : Prop :=
  match o with OGet _ | OCleanup | OKeys | OStop => True | _ => False end.

Lemma last_set_neutral o rh k a : neutral o -> last_set (o :: rh) k a = last_set rh k a.
Proof. destruct o; cbn [neutral last_set]; tauto. Qed.

Lemma last_set_rejected k0 v ttl rh k a :
  ttl <= 0 -> last_set (OSet k0 v ttl :: rh) k a = last_set rh k a.
Proof.
  intro H. cbn [last_set]. unfold accepted.
  assert (Hf : (0 <? ttl) = false) by lia. rewrite Hf, andb_false_r. reflexivity.
Qed.

Lemma last_set_set_same k v ttl rh a :
  0 < ttl -> last_set (OSet k v ttl :: rh) k a = Some (v, ttl, a).
Proof.
  intro H. cbn [last_set]. unfold accepted. rewrite Z.eqb_refl.
  assert (Ht : (0 <? ttl) = true) by lia. rewrite Ht. reflexivity.
Qed.

Lemma last_set_set_other k0 v ttl rh k a :
  k0 <> k -> last_set (OSet k0 v ttl :: rh) k a = last_set rh k a.
Proof.
  intro H. cbn [last_set]. apply Z.eqb_neq in H. rewrite H. reflexivity.
Qed.

(* --- Snd ------------------------------------------------------------------------------ *)

Lemma Snd_init maxttl now : Snd maxttl [] now [].
Proof. intros k e H. discriminate. Qed.

Lemma Snd_set maxttl m now rh k0 v ttl :
  0 < ttl -> Snd maxttl m now rh ->
  Snd maxttl (put k0 {| eval := v; eexp := now + ttl_dur maxttl ttl |} m) now (OSet k0 v ttl :: rh).
Proof.
  intros Hpos H k e. rewrite lookup_put.
  destruct (k0 =? k) eqn:Hk.
  - apply Z.eqb_eq in Hk. subst k0. intro He. inversion He; subst e. cbn [eval eexp].
    exists ttl, 0. rewrite last_set_set_same by exact Hpos. split; [reflexivity | lia].
  - apply Z.eqb_neq in Hk. intro He. rewrite last_set_set_other by exact Hk. apply H. exact He.
Qed.

Lemma Snd_set_rejected maxttl m now rh k0 v ttl :
  ttl <= 0 -> Snd maxttl m now rh -> Snd maxttl m now (OSet k0 v ttl :: rh).
Proof.
  intros Hle H k e He. rewrite last_set_rejected by exact Hle. apply H. exact He.
Qed.

Lemma Snd_neutral maxttl m now rh o :
  neutral o -> Snd maxttl m now rh -> Snd maxttl m now (o :: rh).
Proof.
  intros Hn H k e He. rewrite last_set_neutral by exact Hn. apply H. exact He.
Qed.

(* removing bindings never breaks the soundness link *)
Lemma Snd_sub maxttl m m' now rh :
  (forall k e, lookup k m' = Some e -> lookup k m = Some e) ->
  Snd maxttl m now rh -> Snd maxttl m' now rh.
Proof. intros Hsub H k e He. apply H, Hsub, He. Qed.

Lemma sub_del_keys ks m k e : lookup k (del_keys ks m) = Some e -> lookup k m = Some e.
Proof. rewrite lookup_del_keys. destruct (memZ k ks); [discriminate | auto]. Qed.

Lemma Snd_delete maxttl m now rh k0 :
  Snd maxttl m now rh -> Snd maxttl (del_key k0 m) now (ODelete k0 :: rh).
Proof.
  intros H k e. rewrite lookup_del_key. destruct (k0 =? k) eqn:Hk; [discriminate|].
  intro He. cbn [last_set]. rewrite Hk. apply H. exact He.
Qed.

Lemma Snd_reset maxttl m now rh : Snd maxttl (del_keys (keys m) m) now (OReset :: rh).
Proof. intros k e. rewrite lookup_reset. discriminate. Qed.

Lemma Snd_advance maxttl m now rh d :
  Snd maxttl m now rh -> Snd maxttl m (now + d) (OAdvance d :: rh).
Proof.
  intros H k e He. destruct (H k e He) as (ttl & el & Hls & Hexp).
  exists ttl, (el + d). cbn [last_set]. rewrite last_set_shift, Hls. cbn [shift].
  split; [f_equal; f_equal; lia | lia].
Qed.

(* --- Cmp ------------------------------------------------------------------------------ *)

Lemma Cmp_init maxttl now : Cmp maxttl [] now [] [].
Proof. intros k v ttl el H. discriminate. Qed.

Lemma In_removeZ k k0 l : In k (removeZ k0 l) <-> In k l /\ k <> k0.
Proof.
  unfold removeZ. rewrite filter_In. rewrite negb_true_iff, Z.eqb_neq. tauto.
Qed.

Lemma Cmp_set maxttl m now rh lost k0 v ttl :
  0 < ttl -> Cmp maxttl m now rh lost ->
  Cmp maxttl (put k0 {| eval := v; eexp := now + ttl_dur maxttl ttl |} m) now
      (OSet k0 v ttl :: rh) (removeZ k0 lost).
Proof.
  intros Hpos H k v' ttl' el. rewrite lookup_put.
  destruct (k0 =? k) eqn:Hk.
  - apply Z.eqb_eq in Hk. subst k0. rewrite last_set_set_same by exact Hpos.
    intro Hls. inversion Hls; subst. left. f_equal. f_equal. lia.
  - apply Z.eqb_neq in Hk. rewrite last_set_set_other by exact Hk. intro Hls.
    destruct (H k v' ttl' el Hls) as [Hl|[Hl [Hd|Hin]]]; [left; exact Hl | right; auto |].
    right. split; [exact Hl|]. right. apply In_removeZ. split; [exact Hin | congruence].
Qed.

Lemma Cmp_set_rejected maxttl m now rh lost k0 v ttl :
  ttl <= 0 -> Cmp maxttl m now rh lost -> Cmp maxttl m now (OSet k0 v ttl :: rh) lost.
Proof.
  intros Hle H k v' ttl' el. rewrite last_set_rejected by exact Hle. apply H.
Qed.

Lemma Cmp_neutral maxttl m now rh lost o :
  neutral o -> Cmp maxttl m now rh lost -> Cmp maxttl m now (o :: rh) lost.
Proof.
  intros Hn H k v ttl el. rewrite last_set_neutral by exact Hn. apply H.
Qed.

Lemma Cmp_delete maxttl m now rh lost k0 :
  Cmp maxttl m now rh lost -> Cmp maxttl (del_key k0 m) now (ODelete k0 :: rh) lost.
Proof.
  intros H k v ttl el. cbn [last_set]. rewrite lookup_del_key.
  destruct (k0 =? k); [discriminate | apply H].
Qed.

Lemma Cmp_reset maxttl m' now rh lost' : Cmp maxttl m' now (OReset :: rh) lost'.
Proof. intros k v ttl el H. discriminate. Qed.

Lemma Cmp_advance maxttl m now rh lost d :
  0 <= d -> Cmp maxttl m now rh lost -> Cmp maxttl m (now + d) (OAdvance d :: rh) lost.
Proof.
  intros Hd H k v ttl el. cbn [last_set]. rewrite last_set_shift.
  destruct (last_set rh k 0) as [[[v0 ttl0] el0]|] eqn:Hls; cbn [shift]; [|discriminate].
  intro Heq. inversion Heq; subst v0 ttl0 el.
  destruct (H k v ttl el0 Hls) as [Hl|[Hl [Hdur|Hin]]].
  - left. rewrite Hl. f_equal. f_equal. lia.
  - right. split; [exact Hl|]. left. lia.
  - right. auto.
Qed.

(* a bulk delete of ANY key list keeps the link, provided the live entries it removes are
   entered in [lost] *)
Lemma In_live_among k m now ks :
  In k (live_among m now ks) <-> In k ks /\ exists e, lookup k m = Some e /\ now < eexp e.
Proof.
  unfold live_among. rewrite filter_In.
  destruct (lookup k m) as [e|].
  - rewrite Z.gtb_lt. split.
    + intros [H1 H2]. split; [exact H1|]. exists e. auto.
    + intros [H1 [e' [He' H2]]]. inversion He'; subst. auto.
  - split; [intros [_ H]; discriminate | intros [_ [e' [He' _]]]; discriminate].
Qed.

Lemma Cmp_del_keys maxttl m now rh lost ks :
  Cmp maxttl m now rh lost ->
  Cmp maxttl (del_keys ks m) now rh (live_among m now ks ++ lost).
Proof.
  intros H k v ttl el Hls. rewrite lookup_del_keys.
  destruct (H k v ttl el Hls) as [Hl|[Hl [Hdur|Hin]]].
  - destruct (memZ k ks) eqn:Hm; [|left; exact Hl].
    right. split; [reflexivity|]. apply memZ_In in Hm.
    destruct (Z_lt_le_dec now (now - el + ttl_dur maxttl ttl)) as [Hlive|Hdead].
    + right. apply in_or_app. left. apply In_live_among. split; [exact Hm|].
      eexists. split; [exact Hl | exact Hlive].
    + left. lia.
  - right. split; [destruct (memZ k ks); [reflexivity | exact Hl] | left; exact Hdur].
  - right. split; [destruct (memZ k ks); [reflexivity | exact Hl] |].
    right. apply in_or_app. right. exact Hin.
Qed.

(* the sequential Cleanup removes no live entry *)
Lemma live_among_expired m now : live_among m now (expired_keys now m) = [].
Proof.
  destruct (live_among m now (expired_keys now m)) as [|k t] eqn:Hl; [reflexivity|].
  exfalso.
  assert (Hin : In k (live_among m now (expired_keys now m))) by (rewrite Hl; left; reflexivity).
  apply In_live_among in Hin as [Hin [e [He Hlive]]].
  apply memZ_In, mem_expired in Hin as [e' [He' Hexp]].
  rewrite He in He'. inversion He'; subst. lia.
Qed.

Lemma Cmp_cleanup maxttl m now rh :
  Cmp maxttl m now rh [] -> Cmp maxttl (del_keys (expired_keys now m) m) now rh [].
Proof.
  intro H. pose proof (Cmp_del_keys maxttl m now rh [] (expired_keys now m) H) as H'.
  rewrite live_among_expired in H'. exact H'.
Qed.

(* ===================================================================================== *)
(* The sequential system                                                                   *)

Definition SInv (maxttl : Z) (s : state) (rh : list op) : Prop :=
  Snd maxttl (smap s) (snow s) rh.

Definition SInv2 (maxttl : Z) (s : state) (rh : list op) : Prop :=
  Cmp maxttl (smap s) (snow s) rh [].

Lemma set_some maxttl s k v ttl s' :
  set maxttl s k v ttl = Some s' ->
  0 < ttl /\ s' = {| smap := put k {| eval := v; eexp := snow s + ttl_dur maxttl ttl |} (smap s);
                     snow := snow s |}.
Proof.
  unfold set, set_at. destruct (ttl <=? 0) eqn:Ht; [discriminate|].
  intro H. inversion H. split; [lia | reflexivity].
Qed.

Lemma set_none maxttl s k v ttl : set maxttl s k v ttl = None -> ttl <= 0.
Proof.
  unfold set, set_at. destruct (ttl <=? 0) eqn:Ht; [lia | discriminate].
Qed.

Lemma step_SInv maxttl s rh o :
  SInv maxttl s rh -> SInv maxttl (fst (step maxttl s o)) (o :: rh).
Proof.
  unfold SInv. intro H. destruct o as [k v ttl|k|k| | |d| |]; cbn [step].
  - destruct (set maxttl s k v ttl) as [s'|] eqn:Hs; cbn [fst].
    + apply set_some in Hs as [Hpos ->]. cbn [smap snow]. apply Snd_set; assumption.
    + apply set_none in Hs. apply Snd_set_rejected; assumption.
  - cbn [fst]. apply Snd_neutral; [exact I | exact H].
  - cbn [fst delete smap snow]. apply Snd_delete. exact H.
  - cbn [fst cleanup smap snow]. apply Snd_neutral; [exact I|].
    eapply Snd_sub; [|exact H]. intros k e. apply sub_del_keys.
  - cbn [fst reset smap snow]. apply Snd_reset.
  - cbn [fst advance smap snow]. apply Snd_advance. exact H.
  - cbn [fst]. apply Snd_neutral; [exact I | exact H].
  - cbn [fst]. apply Snd_neutral; [exact I | exact H].
Qed.

Lemma step_SInv2 maxttl s rh o :
  op_forward o = true -> SInv2 maxttl s rh -> SInv2 maxttl (fst (step maxttl s o)) (o :: rh).
Proof.
  unfold SInv2. intros Hf H. destruct o as [k v ttl|k|k| | |d| |]; cbn [step].
  - destruct (set maxttl s k v ttl) as [s'|] eqn:Hs; cbn [fst].
    + apply set_some in Hs as [Hpos ->]. cbn [smap snow].
      change (@nil Z) with (removeZ k []). apply Cmp_set; assumption.
    + apply set_none in Hs. apply Cmp_set_rejected; assumption.
  - cbn [fst]. apply Cmp_neutral; [exact I | exact H].
  - cbn [fst delete smap snow]. apply Cmp_delete. exact H.
  - cbn [fst cleanup smap snow]. apply Cmp_neutral; [exact I|]. apply Cmp_cleanup. exact H.
  - cbn [fst reset smap snow]. apply Cmp_reset.
  - cbn [fst advance smap snow]. cbn [op_forward] in Hf. apply Cmp_advance; [lia | exact H].
  - cbn [fst]. apply Cmp_neutral; [exact I | exact H].
  - cbn [fst]. apply Cmp_neutral; [exact I | exact H].
Qed.

Lemma run_cons maxttl s o t :
  run maxttl s (o :: t) =
  (fst (run maxttl (fst (step maxttl s o)) t),
   snd (step maxttl s o) :: snd (run maxttl (fst (step maxttl s o)) t)).
Proof.
  cbn [run]. destruct (step maxttl s o) as [s1 r]. cbn [fst snd].
  destruct (run maxttl s1 t) as [s2 rs]. reflexivity.
Qed.

Lemma run_SInv maxttl ops : forall s rh,
  SInv maxttl s rh -> SInv maxttl (fst (run maxttl s ops)) (rev ops ++ rh).
Proof.
  induction ops as [|o t IH]; intros s rh H; [exact H|].
  rewrite run_cons. cbn [fst rev]. rewrite <- app_assoc. cbn [app].
  apply IH. apply step_SInv. exact H.
Qed.

Lemma run_SInv2 maxttl ops : forall s rh,
  forallb op_forward ops = true ->
  SInv2 maxttl s rh -> SInv2 maxttl (fst (run maxttl s ops)) (rev ops ++ rh).
Proof.
  induction ops as [|o t IH]; intros s rh Hf H; [exact H|].
  cbn [forallb] in Hf. apply andb_true_iff in Hf as [Hf1 Hf2].
  rewrite run_cons. cbn [fst rev]. rewrite <- app_assoc. cbn [app].
  apply IH; [exact Hf2|]. apply step_SInv2; assumption.
Qed.

(* ===================================================================================== *)
(* Get against the history                                                                 *)

(* from the links alone *)
Lemma get_sound_link maxttl m now rh k v :
  Snd maxttl m now rh -> get_at m now k = Some v -> expected_get maxttl rh k = Some v.
Proof.
  unfold get_at, expected_get. intros H.
  destruct (lookup k m) as [e|] eqn:He; [|discriminate].
  destruct (eexp e >? now) eqn:Hlive; [|discriminate].
  intro Hv. inversion Hv; subst v.
  destruct (H k e He) as (ttl & el & Hls & Hexp). rewrite Hls.
  pose proof (last_set_accepted _ _ _ _ _ _ Hls) as Hpos.
  pose proof (dur_le maxttl ttl Hpos) as Hd.
  assert (Hlt : (el <? ttl_ns maxttl ttl) = true) by lia.
  rewrite Hlt. reflexivity.
Qed.

Lemma get_complete_link maxttl m now rh lost k v :
  Cmp maxttl m now rh lost -> ~ In k lost ->
  last_set_fits maxttl rh k = true ->
  expected_get maxttl rh k = Some v -> get_at m now k = Some v.
Proof.
  unfold get_at, expected_get, last_set_fits. intros H Hnl.
  destruct (last_set rh k 0) as [[[v0 ttl] el]|] eqn:Hls; [|discriminate].
  intro Hfit. destruct (el <? ttl_ns maxttl ttl) eqn:Hlt; [|discriminate].
  intro Hv. inversion Hv; subst v0.
  pose proof (last_set_accepted _ _ _ _ _ _ Hls) as Hpos.
  pose proof (dur_fits maxttl ttl Hpos Hfit) as Hd.
  destruct (H k v ttl el Hls) as [Hl|[Hl [Hdur|Hin]]].
  - rewrite Hl. cbn [eexp eval].
    assert (Hlive : (now - el + ttl_dur maxttl ttl >? now) = true) by lia.
    rewrite Hlive. reflexivity.
  - lia.
  - contradiction.
Qed.

(* Soundness, every history: a hit is the expected value.  No side condition at all — any TTLs
   (overflowing or not), any advances (even backwards), any initial clock. *)
Theorem seq_get_sound maxttl t0 ops k v :
  get (final maxttl t0 ops) k = Some v -> expected_get maxttl (rev ops) k = Some v.
Proof.
  unfold get, final. intro H.
  pose proof (run_SInv maxttl ops (init t0) [] (Snd_init maxttl t0)) as Hinv.
  rewrite app_nil_r in Hinv. eapply get_sound_link; [exact Hinv | exact H].
Qed.

(* Completeness, every forward history: if the history says "hit", Get hits — provided the Set
   in force has a TTL that fits int64 nanoseconds. *)
Theorem seq_get_complete maxttl t0 ops k v :
  forallb op_forward ops = true ->
  last_set_fits maxttl (rev ops) k = true ->
  expected_get maxttl (rev ops) k = Some v -> get (final maxttl t0 ops) k = Some v.
Proof.
  unfold get, final. intros Hf Hfit H.
  pose proof (run_SInv2 maxttl ops (init t0) [] Hf (Cmp_init maxttl t0)) as Hinv.
  rewrite app_nil_r in Hinv.
  eapply get_complete_link; [exact Hinv | intros [] | exact Hfit | exact H].
Qed.

Theorem seq_get_exact maxttl t0 ops k :
  forallb op_forward ops = true ->
  last_set_fits maxttl (rev ops) k = true ->
  get (final maxttl t0 ops) k = expected_get maxttl (rev ops) k.
Proof.
  intros Hf Hfit.
  destruct (expected_get maxttl (rev ops) k) as [v|] eqn:He.
  - apply seq_get_complete; assumption.
  - destruct (get (final maxttl t0 ops) k) as [v|] eqn:Hg; [|reflexivity].
    apply seq_get_sound in Hg. congruence.
Qed.

(* non-vacuity: a forward history with fitting TTLs, a hit and an expiry *)
Example seq_get_exact_nonvacuous :
  let ops := [OSet 0 7 2; OAdvance 1999999999; OGet 0; OAdvance 1] in
  forallb op_forward ops = true /\ last_set_fits 0 (rev ops) 0 = true /\
  get (final 0 0 (firstn 3 ops)) 0 = Some 7 /\ get (final 0 0 ops) 0 = None.
Proof. vm_compute. repeat split; reflexivity. Qed.

(* ===================================================================================== *)
(* The model passes the oracle of Check.v on every forward history (so a verdict 2 of the
   check is never an artefact of the oracle disagreeing with the proved model).             *)

Lemma get_ok_link maxttl m now rh k :
  Snd maxttl m now rh -> Cmp maxttl m now rh [] -> get_ok maxttl rh k (get_at m now k) = true.
Proof.
  intros H1 H2. unfold get_ok.
  destruct (get_at m now k) as [v|] eqn:Hg.
  - rewrite (get_sound_link _ _ _ _ _ _ H1 Hg). cbn [opt_eqb]. apply Z.eqb_refl.
  - destruct (expected_get maxttl rh k) as [v|] eqn:He; [|reflexivity].
    destruct (last_set_fits maxttl rh k) eqn:Hfit; [|reflexivity].
    exfalso.
    assert (Hg' : get_at m now k = Some v).
    { eapply get_complete_link; [exact H2 | intros [] | exact Hfit | exact He]. }
    congruence.
Qed.

Lemma keys_ok_link maxttl m now rh :
  Cmp maxttl m now rh [] -> keys_ok maxttl rh (sortZ (keys m)) = true.
Proof.
  intro H. unfold keys_ok. apply forallb_forall. intros k _.
  destruct (expected_get maxttl rh k) as [v|] eqn:He; [|reflexivity].
  destruct (last_set_fits maxttl rh k) eqn:Hfit; [|apply orb_true_r].
  assert (Hg : get_at m now k = Some v).
  { eapply get_complete_link; [exact H | intros [] | exact Hfit | exact He]. }
  unfold get_at in Hg. destruct (lookup k m) as [e|] eqn:Hl; [|discriminate].
  assert (Hin : memZ k (sortZ (keys m)) = true).
  { apply memZ_In, In_sortZ, in_keys_lookup. congruence. }
  rewrite Hin. reflexivity.
Qed.

Lemma step_obs_ok maxttl s rh o :
  SInv maxttl s rh -> SInv2 maxttl s rh ->
  obs_ok true maxttl rh o (snd (step maxttl s o)) = true.
Proof.
  unfold SInv, SInv2. intros H1 H2.
  destruct o as [k v ttl|k|k| | |d| |]; cbn [step]; try reflexivity.
  - destruct (set maxttl s k v ttl) as [s'|] eqn:Hs; cbn [snd obs_ok]; unfold accepted.
    + apply set_some in Hs as [Hpos _]. lia.
    + apply set_none in Hs. lia.
  - cbn [snd obs_ok]. apply get_ok_link; assumption.
  - cbn [snd obs_ok]. eapply keys_ok_link. exact H2.
Qed.

Lemma run_obs_ok maxttl ops : forall s rh,
  forallb op_forward ops = true -> SInv maxttl s rh -> SInv2 maxttl s rh ->
  all_obs_ok true maxttl rh ops (snd (run maxttl s ops)) = true.
Proof.
  induction ops as [|o t IH]; intros s rh Hf H1 H2; [reflexivity|].
  cbn [forallb] in Hf. apply andb_true_iff in Hf as [Hf1 Hf2].
  rewrite run_cons. cbn [snd all_obs_ok].
  rewrite (step_obs_ok maxttl s rh o H1 H2). cbn [andb].
  apply IH; [exact Hf2 | apply step_SInv; exact H1 | apply step_SInv2; assumption].
Qed.

Theorem model_meets_spec maxttl t0 ops :
  forallb op_forward ops = true ->
  all_obs_ok true maxttl [] ops (results maxttl t0 ops) = true.
Proof.
  intro Hf. unfold results.
  apply run_obs_ok; [exact Hf | apply Snd_init | apply Cmp_init].
Qed.

(* ===================================================================================== *)
(* Cleanup                                                                                 *)

Theorem cleanup_transparent s k : get (cleanup s) k = get s k.
Proof.
  unfold get, get_at, cleanup. cbn [smap snow]. rewrite lookup_cleanup.
  destruct (lookup k (smap s)) as [e|]; [|reflexivity].
  destruct (eexp e <? snow s) eqn:Hlt; [|reflexivity].
  assert (H : (eexp e >? snow s) = false) by lia. rewrite H. reflexivity.
Qed.

(* exactly the strictly expired entries are removed; everything else is left as it was *)
Theorem cleanup_only_expired s k :
  lookup k (smap (cleanup s)) =
  match lookup k (smap s) with
  | Some e => if eexp e <? snow s then None else Some e
  | None => None
  end.
Proof. unfold cleanup. cbn [smap]. apply lookup_cleanup. Qed.

Theorem cleanup_keeps_clock s : snow (cleanup s) = snow s.
Proof. reflexivity. Qed.

(* ===================================================================================== *)
(* Boundary and MaxTTL                                                                     *)

Theorem boundary maxttl s k v ttl s' :
  set maxttl s k v ttl = Some s' -> fits maxttl ttl = true ->
  get (advance s' (ttl_ns maxttl ttl)) k = None /\
  get (advance s' (ttl_ns maxttl ttl - 1)) k = Some v.
Proof.
  intros Hs Hfit. apply set_some in Hs as [Hpos ->].
  pose proof (dur_fits maxttl ttl Hpos Hfit) as Hd.
  unfold get, get_at, advance. cbn [smap snow]. rewrite lookup_put, Z.eqb_refl. cbn [eexp eval].
  rewrite Hd. split.
  - assert (H : (snow s + ttl_ns maxttl ttl >? snow s + ttl_ns maxttl ttl) = false) by lia.
    rewrite H. reflexivity.
  - assert (H : (snow s + ttl_ns maxttl ttl >? snow s + (ttl_ns maxttl ttl - 1)) = true) by lia.
    rewrite H. reflexivity.
Qed.

Example boundary_nonvacuous :
  exists s', set 0 (init 5) 1 9 3 = Some s' /\ fits 0 3 = true.
Proof. eexists. split; reflexivity. Qed.

(* a TTL above a configured MaxTTL behaves exactly like MaxTTL *)
Theorem maxttl_caps maxttl s k v ttl :
  0 < maxttl -> maxttl < ttl -> set maxttl s k v ttl = set maxttl s k v maxttl.
Proof.
  intros H1 H2. unfold set, set_at, ttl_dur, cap_ttl.
  assert (Ha : (ttl <=? 0) = false) by lia.
  assert (Hb : (maxttl <=? 0) = false) by lia.
  assert (Hc : (maxttl >? 0) = true) by lia.
  assert (Hd : (ttl >? maxttl) = true) by lia.
  assert (He : (maxttl >? maxttl) = false) by lia.
  rewrite Ha, Hb, Hc, Hd, He. reflexivity.
Qed.

(* ... so such an entry is gone MaxTTL seconds after the Set and alive 1 ns earlier *)
Theorem maxttl_boundary maxttl s k v ttl s' :
  0 < maxttl -> maxttl < ttl -> maxttl * second_ns < 2^63 ->
  set maxttl s k v ttl = Some s' ->
  get (advance s' (maxttl * second_ns)) k = None /\
  get (advance s' (maxttl * second_ns - 1)) k = Some v.
Proof.
  intros H1 H2 H3 Hs.
  assert (Hns : ttl_ns maxttl ttl = maxttl * second_ns).
  { unfold ttl_ns, eff_ttl.
    assert (Ha : (0 <? maxttl) = true) by lia. assert (Hb : (maxttl <? ttl) = true) by lia.
    rewrite Ha, Hb. reflexivity. }
  rewrite <- Hns. apply (boundary maxttl s k v ttl s' Hs).
  unfold fits. rewrite Hns. lia.
Qed.

Example maxttl_nonvacuous :
  exists s', set 2 (init 0) 1 9 30 = Some s' /\
             get (advance s' 2000000000) 1 = None /\ get (advance s' 1999999999) 1 = Some 9.
Proof. eexists. repeat split; reflexivity. Qed.

(* ===================================================================================== *)
(* The int64 corner: without a MaxTTL, a TTL above 2^63 ns wraps; the entry is stored already
   expired, although the history says it is live.  Soundness is unaffected ([seq_get_sound] has
   no side condition); completeness genuinely needs [last_set_fits]. *)
Theorem overflow_is_miss :
  exists maxttl ops k v,
    forallb op_forward ops = true /\
    expected_get maxttl (rev ops) k = Some v /\ get (final maxttl 0 ops) k = None /\
    last_set_fits maxttl (rev ops) k = false.
Proof.
  exists 0, [OSet 0 7 9223372037], 0, 7. vm_compute. repeat split; reflexivity.
Qed.

(* ===================================================================================== *)
(* Oracle soundness: the boolean oracle on one observed Get decides the declarative spec.   *)

(* [h] chronological.  A hit must be justified; a miss must be unjustifiable — except when the
   Set in force has a TTL that does not fit int64 nanoseconds. *)
Definition get_spec (maxttl : Z) (h : list op) (k : Z) (r : option Z) : Prop :=
  match r with
  | Some v => justified maxttl h k v
  | None => (forall v, ~ justified maxttl h k v) \/ last_set_fits maxttl (rev h) k = false
  end.

Theorem get_ok_sound maxttl h k r :
  get_ok maxttl (rev h) k r = true <-> get_spec maxttl h k r.
Proof.
  unfold get_ok, get_spec. destruct r as [v|].
  - rewrite <- expected_get_spec.
    destruct (expected_get maxttl (rev h) k) as [v'|]; cbn [opt_eqb].
    + rewrite Z.eqb_eq. split; congruence.
    + split; discriminate.
  - destruct (expected_get maxttl (rev h) k) as [v'|] eqn:He.
    + rewrite negb_true_iff. split.
      * intro H. right. exact H.
      * intros [H|H]; [|exact H]. exfalso. apply (H v'). apply expected_get_spec. exact He.
    + split; [|reflexivity]. intros _. left. intros v Hj.
      apply expected_get_spec in Hj. congruence.
Qed.

(* the soundness-only oracle used for concurrent histories *)
Theorem get_sound_ok_sound maxttl h k r :
  get_sound_ok maxttl (rev h) k r = true <->
  match r with Some v => justified maxttl h k v | None => True end.
Proof.
  unfold get_sound_ok. destruct r as [v|]; [|tauto].
  rewrite <- expected_get_spec.
  destruct (expected_get maxttl (rev h) k) as [v'|]; cbn [opt_eqb].
  - rewrite Z.eqb_eq. split; congruence.
  - split; discriminate.
Qed.
