(* C15 — the interleaved system, trace level: along EVERY schedule of client operations and
   two-phase cleanups, the sequence of results the model hands to the clients (every Set accepted
   or refused, every Get hit or miss, in schedule order) is accepted by the concurrent oracle and
   meets the declarative trace specification in its hits-only mode: the per-state soundness
   theorem [conc_get_sound] lifted to whole observations.  The concurrent oracle therefore never
   rejects a behaviour of the (Fixed) model, whatever the schedule.  No axioms. *)
From Kit Require Import C15.Model C15.Spec C15.Check C15.ProofsMap C15.Proofs C15.ProofsConc
  C15.ProofsOracle.
From Coq Require Import Lia.
Local Open Scope Z_scope.

Lemma crun_app maxttl a : forall s b,
  crun maxttl s (a ++ b) = match crun maxttl s a with Some s' => crun maxttl s' b | None => None end.
Proof.
  induction a as [|e t IH]; intros s b; cbn [app crun]; [reflexivity|].
  destruct (cstep maxttl s e); [apply IH | reflexivity].
Qed.

Lemma ctrace_crun maxttl es : forall s s' rs,
  ctrace maxttl s es = Some (s', rs) -> crun maxttl s es = Some s'.
Proof.
  induction es as [|e t IH]; intros s s' rs; cbn [ctrace crun].
  - intro H. inversion H. reflexivity.
  - destruct (cstep maxttl s e) as [s1|]; [|discriminate].
    destruct (ctrace maxttl s1 t) as [[s2 rs']|] eqn:Ht; [|discriminate].
    intro H. inversion H; subst. eapply IH. exact Ht.
Qed.

Lemma conc_trace_ok_gen maxttl t0 es : forall es0 s0 s rs,
  crun maxttl (cinit t0) es0 = Some s0 -> ctrace maxttl s0 es = Some (s, rs) ->
  all_obs_ok false maxttl (rev (flat_map ev_op es0)) (flat_map ev_op es) rs = true.
Proof.
  induction es as [|e t IH]; intros es0 s0 s rs Hrun Ht; cbn [ctrace] in Ht.
  - inversion Ht. reflexivity.
  - destruct (cstep maxttl s0 e) as [s1|] eqn:Hs; [|discriminate].
    destruct (ctrace maxttl s1 t) as [[s2 rs']|] eqn:Ht'; [|discriminate].
    inversion Ht; subst s2 rs. clear Ht.
    assert (Hrun1 : crun maxttl (cinit t0) (es0 ++ [e]) = Some s1).
    { rewrite crun_app, Hrun. cbn [crun]. rewrite Hs. reflexivity. }
    specialize (IH (es0 ++ [e]) s1 s rs' Hrun1 Ht').
    rewrite flat_map_app, rev_app_distr in IH. cbn [flat_map] in IH. rewrite app_nil_r in IH.
    cbn [flat_map].
    destruct e as [k v ttl|k|k| |d| |i]; cbn [ev_op cev_res app rev] in *; cbn [all_obs_ok];
      try exact IH; rewrite IH, andb_true_r; cbn [obs_ok]; try reflexivity.
    + unfold accepted. destruct (ttl <=? 0) eqn:Hle; cbn [obs_ok].
      * apply negb_true_iff. apply Z.ltb_ge. lia.
      * apply Z.ltb_lt. lia.
    + apply get_sound_ok_sound. destruct (cget s0 k) as [v|] eqn:Hg; [|exact I].
      eapply conc_get_sound; eassumption.
Qed.

Theorem conc_trace_ok maxttl t0 es s rs :
  ctrace maxttl (cinit t0) es = Some (s, rs) ->
  all_obs_ok false maxttl [] (flat_map ev_op es) rs = true.
Proof. intro H. exact (conc_trace_ok_gen maxttl t0 es [] (cinit t0) s rs eq_refl H). Qed.

Theorem conc_trace_meets_spec maxttl t0 es s rs :
  ctrace maxttl (cinit t0) es = Some (s, rs) ->
  trace_spec false maxttl (flat_map ev_op es) rs.
Proof. intro H. apply all_obs_ok_iff. eapply conc_trace_ok. exact H. Qed.

(* Non-vacuity: the cleanup race (a Set between a collect and its bulk delete is wiped out: the
   Get misses) and a hit, in one schedule; the trace is accepted. *)
Example conc_trace_nonvacuous :
  exists s,
    ctrace 0 (cinit 0) [CSet 0 1 1; CSet 1 5 9; CAdvance 2000000000; CCollect; CSet 0 2 9; CGet 0;
                        CDeleteKeys 0; CGet 0; CGet 1; CSet 2 3 0]
    = Some (s, [RUnit; RUnit; RUnit; RUnit; RGet (Some 2); RGet None; RGet (Some 5); RPanic]).
Proof. eexists. vm_compute. reflexivity. Qed.

(* The comparison Check.v makes on a concurrent case: the cleanup-free run of the interleaved model
   on the recorded client operations.  An observation with a hit the model does not have is a
   disagreement; the cleanup race (a miss where the cleanup-free model hits) is not. *)
Example conc_model_agrees_nonvacuous :
  let lin := [OSet 0 1 1; OCleanup; OSet 1 5 9; OAdvance 500000000; OStop; OGet 0; OGet 1] in
  model_agrees (CConc 0 lin [RUnit; RUnit; RUnit; RUnit; RUnit; RGet (Some 1); RGet None] true true) = true /\
  model_agrees (CConc 0 lin [RUnit; RUnit; RUnit; RUnit; RUnit; RGet (Some 1); RGet (Some 6)] true true) = false /\
  check_case (CConc 0 lin [RUnit; RUnit; RUnit; RUnit; RUnit; RGet None; RGet (Some 5)] true true) = 0.
Proof. vm_compute. repeat split; reflexivity. Qed.
