(* C15 — lemmas about the association-list map, the int64 wrap and the history functions of the
   spec.  No axioms. *)
From Kit Require Import C15.Model C15.Spec.
From Coq Require Import ZifyBool.
Local Open Scope Z_scope.

(* ------------------------------------------------------------------------------------- *)
(* memZ / keys                                                                             *)

Lemma memZ_In k ks : memZ k ks = true <-> In k ks.
Proof.
  induction ks as [|x t IH]; cbn [memZ In].
  - split; [discriminate | tauto].
  - rewrite orb_true_iff, IH, Z.eqb_eq. tauto.
Qed.

Lemma memZ_false k ks : memZ k ks = false <-> ~ In k ks.
Proof.
  rewrite <- memZ_In. destruct (memZ k ks); split; congruence.
Qed.

Lemma lookup_filter_key (p : Z -> bool) k m :
  lookup k (filter (fun kv => p (fst kv)) m) = if p k then lookup k m else None.
Proof.
  induction m as [|[k' e] t IH]; cbn [filter lookup fst].
  - destruct (p k); reflexivity.
  - destruct (p k') eqn:Hp; cbn [lookup].
    + destruct (k' =? k) eqn:Hk.
      * apply Z.eqb_eq in Hk. subst k'. rewrite Hp. reflexivity.
      * exact IH.
    + destruct (k' =? k) eqn:Hk.
      * apply Z.eqb_eq in Hk. subst k'. rewrite IH, Hp. reflexivity.
      * exact IH.
Qed.

Lemma lookup_del_key k k' m : lookup k (del_key k' m) = if k' =? k then None else lookup k m.
Proof.
  unfold del_key.
  rewrite (lookup_filter_key (fun x => negb (x =? k'))).
  rewrite (Z.eqb_sym k k'). destruct (k' =? k); reflexivity.
Qed.

Lemma lookup_put k k' e m : lookup k (put k' e m) = if k' =? k then Some e else lookup k m.
Proof.
  unfold put. cbn [lookup]. destruct (k' =? k) eqn:Hk; [reflexivity|].
  rewrite lookup_del_key, Hk. reflexivity.
Qed.

Lemma lookup_del_keys k ks m : lookup k (del_keys ks m) = if memZ k ks then None else lookup k m.
Proof.
  unfold del_keys.
  rewrite (lookup_filter_key (fun x => negb (memZ x ks))).
  destruct (memZ k ks); reflexivity.
Qed.

Lemma in_keys_lookup k m : In k (keys m) <-> lookup k m <> None.
Proof.
  unfold keys. induction m as [|[k' e] t IH]; cbn [map In lookup fst].
  - split; [tauto | congruence].
  - destruct (k' =? k) eqn:Hk.
    + apply Z.eqb_eq in Hk. split; [congruence | auto].
    + apply Z.eqb_neq in Hk. rewrite IH. split; [intros [H|H]; [congruence | exact H] | auto].
Qed.

Lemma lookup_reset k m : lookup k (del_keys (keys m) m) = None.
Proof.
  rewrite lookup_del_keys. destruct (memZ k (keys m)) eqn:Hm; [reflexivity|].
  apply memZ_false in Hm. rewrite in_keys_lookup in Hm.
  destruct (lookup k m); [exfalso; apply Hm; discriminate | reflexivity].
Qed.

Lemma mem_expired k now m :
  memZ k (expired_keys now m) = true <-> exists e, lookup k m = Some e /\ eexp e < now.
Proof.
  rewrite memZ_In. unfold expired_keys. rewrite filter_In, in_keys_lookup.
  destruct (lookup k m) as [e|].
  - rewrite Z.ltb_lt. split.
    + intros [_ H]. exists e. auto.
    + intros [e' [He' H]]. inversion He'; subst. split; [discriminate | exact H].
  - split; [intros [_ H]; discriminate | intros [e' [He' _]]; discriminate].
Qed.

(* Cleanup, as a function on the map: exactly the strictly expired entries go. *)
Lemma lookup_cleanup k now m :
  lookup k (del_keys (expired_keys now m) m) =
  match lookup k m with
  | Some e => if eexp e <? now then None else Some e
  | None => None
  end.
Proof.
  rewrite lookup_del_keys.
  destruct (memZ k (expired_keys now m)) eqn:Hm.
  - apply mem_expired in Hm as [e [He Hlt]]. rewrite He.
    apply Z.ltb_lt in Hlt. rewrite Hlt. reflexivity.
  - destruct (lookup k m) as [e|] eqn:He; [|reflexivity].
    destruct (eexp e <? now) eqn:Hlt; [|reflexivity].
    exfalso. apply Z.ltb_lt in Hlt.
    assert (H : memZ k (expired_keys now m) = true) by (apply mem_expired; exists e; auto).
    congruence.
Qed.

(* ------------------------------------------------------------------------------------- *)
(* sortZ keeps the elements                                                                *)

Lemma In_insertZ x y l : In x (insertZ y l) <-> x = y \/ In x l.
Proof.
  induction l as [|z t IH]; cbn [insertZ In].
  - intuition.
  - destruct (y <=? z); cbn [In]; [intuition|]. rewrite IH. intuition.
Qed.

Lemma In_sortZ x l : In x (sortZ l) <-> In x l.
Proof.
  unfold sortZ. induction l as [|y t IH]; cbn [fold_right In]; [tauto|].
  rewrite In_insertZ, IH. intuition.
Qed.

(* ------------------------------------------------------------------------------------- *)
(* int64 wrap and the TTL                                                                  *)

Lemma cap_eff maxttl ttl : cap_ttl maxttl ttl = eff_ttl maxttl ttl.
Proof.
  unfold cap_ttl, eff_ttl.
  rewrite (Z.gtb_ltb maxttl 0), (Z.gtb_ltb ttl maxttl). reflexivity.
Qed.

Lemma wrap64_le x : - 2^63 <= x -> wrap64 x <= x.
Proof.
  intro H. unfold wrap64.
  assert (H1 : (x + 2^63) mod 2^64 <= x + 2^63) by (apply Z.mod_le; lia).
  lia.
Qed.

Lemma wrap64_id x : - 2^63 <= x < 2^63 -> wrap64 x = x.
Proof.
  intro H. unfold wrap64. rewrite Z.mod_small; lia.
Qed.

Lemma eff_pos maxttl ttl : 0 < ttl -> 0 < eff_ttl maxttl ttl.
Proof.
  unfold eff_ttl. intro H.
  destruct (0 <? maxttl) eqn:H1; destruct (maxttl <? ttl) eqn:H2; cbn [andb]; lia.
Qed.

Lemma ttl_ns_pos maxttl ttl : 0 < ttl -> 0 < ttl_ns maxttl ttl.
Proof.
  intro H. unfold ttl_ns, second_ns. pose proof (eff_pos maxttl ttl H). lia.
Qed.

(* the stored lifetime never exceeds the TTL in effect ... *)
Lemma dur_le maxttl ttl : 0 < ttl -> ttl_dur maxttl ttl <= ttl_ns maxttl ttl.
Proof.
  intro H. unfold ttl_dur. rewrite cap_eff. fold (ttl_ns maxttl ttl).
  apply wrap64_le. pose proof (ttl_ns_pos maxttl ttl H). lia.
Qed.

(* ... and equals it when it fits int64 nanoseconds *)
Lemma dur_fits maxttl ttl : 0 < ttl -> fits maxttl ttl = true -> ttl_dur maxttl ttl = ttl_ns maxttl ttl.
Proof.
  intros H Hf. unfold ttl_dur. rewrite cap_eff. fold (ttl_ns maxttl ttl).
  unfold fits in Hf. apply Z.ltb_lt in Hf.
  apply wrap64_id. pose proof (ttl_ns_pos maxttl ttl H). lia.
Qed.

(* ------------------------------------------------------------------------------------- *)
(* last_set                                                                                *)

Definition shift (a : Z) (x : option (Z * Z * Z)) : option (Z * Z * Z) :=
  match x with Some (v, ttl, el) => Some (v, ttl, el + a) | None => None end.

Lemma last_set_shift rh k a : last_set rh k a = shift a (last_set rh k 0).
Proof.
  revert a. induction rh as [|o r IH]; intro a; cbn [last_set]; [reflexivity|].
  destruct o as [k' v ttl|k'|k'| | |d| |]; try apply IH.
  - destruct ((k' =? k) && accepted ttl); [cbn [shift]; f_equal; f_equal; lia | apply IH].
  - destruct (k' =? k); [reflexivity | apply IH].
  - reflexivity.
  - rewrite (IH (a + d)), (IH (0 + d)).
    destruct (last_set r k 0) as [[[v ttl] el]|]; cbn [shift]; [f_equal; f_equal; lia | reflexivity].
Qed.

Lemma last_set_accepted rh k a v ttl el : last_set rh k a = Some (v, ttl, el) -> 0 < ttl.
Proof.
  revert a. induction rh as [|o r IH]; intro a; cbn [last_set]; [discriminate|].
  destruct o as [k' v' ttl'|k'|k'| | |d| |]; try apply IH.
  - destruct (k' =? k); cbn [andb]; [|apply IH].
    unfold accepted. destruct (0 <? ttl') eqn:Hacc; [|apply IH].
    intro H. inversion H; subst. lia.
  - destruct (k' =? k); [discriminate | apply IH].
  - discriminate.
Qed.

Lemma elapsed_app a b : elapsed (a ++ b) = elapsed a + elapsed b.
Proof.
  induction a as [|o t IH]; cbn [app elapsed]; [lia|].
  destruct o; rewrite ?IH; lia.
Qed.

Lemma elapsed_rev a : elapsed (rev a) = elapsed a.
Proof.
  induction a as [|o t IH]; cbn [rev]; [reflexivity|].
  rewrite elapsed_app, IH. cbn [elapsed]. destruct o; cbn [elapsed]; lia.
Qed.

(* [last_set] read declaratively ([rh] newest first: [r2] is the part after the Set). *)
Lemma last_set_spec rh k a v ttl el :
  last_set rh k a = Some (v, ttl, el) <->
  exists r2 r1, rh = r2 ++ OSet k v ttl :: r1 /\ 0 < ttl /\ Forall (leaves k) r2 /\
                el = a + elapsed r2.
Proof.
  split.
  - revert a. induction rh as [|o r IH]; intro a; cbn [last_set]; [discriminate|].
    assert (Hskip : leaves k o -> elapsed [o] = 0 ->
                    last_set r k a = Some (v, ttl, el) ->
                    exists r2 r1, o :: r = r2 ++ OSet k v ttl :: r1 /\ 0 < ttl /\
                                  Forall (leaves k) r2 /\ el = a + elapsed r2).
    { intros Hl He H. apply IH in H as (r2 & r1 & -> & Hpos & Hall & ->).
      exists (o :: r2), r1. repeat split; auto.
      change (o :: r2) with ([o] ++ r2). rewrite elapsed_app. lia. }
    destruct o as [k' v' ttl'|k'|k'| | |d| |].
    + destruct (k' =? k) eqn:Hk; cbn [andb].
      * apply Z.eqb_eq in Hk. subst k'. unfold accepted.
        destruct (0 <? ttl') eqn:Hacc.
        -- intro H. inversion H; subst. exists [], r. cbn [app elapsed].
           repeat split; auto; lia.
        -- apply Hskip; [cbn; lia | reflexivity].
      * apply Z.eqb_neq in Hk. apply Hskip; [cbn; auto | reflexivity].
    + apply Hskip; [exact I | reflexivity].
    + destruct (k' =? k) eqn:Hk; [discriminate|]. apply Z.eqb_neq in Hk.
      apply Hskip; [exact Hk | reflexivity].
    + apply Hskip; [exact I | reflexivity].
    + discriminate.
    + intro H. apply IH in H as (r2 & r1 & -> & Hpos & Hall & ->).
      exists (OAdvance d :: r2), r1. repeat split; auto.
      * constructor; [exact I | exact Hall].
      * cbn [elapsed]. lia.
    + apply Hskip; [exact I | reflexivity].
    + apply Hskip; [exact I | reflexivity].
  - intros (r2 & r1 & -> & Hpos & Hall & ->).
    revert a. induction Hall as [|o r2 Ho Hall IH]; intro a; cbn [app last_set].
    + rewrite Z.eqb_refl. unfold accepted.
      assert (H : (0 <? ttl) = true) by lia. rewrite H. cbn [andb elapsed].
      f_equal. f_equal. lia.
    + destruct o as [k' v' ttl'|k'|k'| | |d| |]; cbn [leaves] in Ho; cbn [elapsed].
      * assert (H : (k' =? k) && accepted ttl' = false).
        { unfold accepted. destruct Ho as [Ho|Ho]; [apply Z.eqb_neq in Ho; rewrite Ho; reflexivity|].
          assert (H : (0 <? ttl') = false) by lia. rewrite H. apply andb_false_r. }
        rewrite H. apply IH.
      * apply IH.
      * apply Z.eqb_neq in Ho. rewrite Ho. apply IH.
      * apply IH.
      * contradiction.
      * rewrite IH. f_equal. f_equal. lia.
      * apply IH.
      * apply IH.
Qed.

(* The executable expectation decides the declarative spec. *)
Lemma expected_get_spec maxttl h k v :
  expected_get maxttl (rev h) k = Some v <-> justified maxttl h k v.
Proof.
  unfold expected_get, justified. split.
  - destruct (last_set (rev h) k 0) as [[[v' ttl] el]|] eqn:Hls; [|discriminate].
    destruct (el <? ttl_ns maxttl ttl) eqn:Hlt; [|discriminate].
    intro H. inversion H; subst v'. apply Z.ltb_lt in Hlt.
    apply last_set_spec in Hls as (r2 & r1 & Hrev & Hpos & Hall & ->).
    exists (rev r1), ttl, (rev r2). repeat split.
    + rewrite <- (rev_involutive h), Hrev, rev_app_distr. cbn [rev].
      rewrite <- app_assoc. reflexivity.
    + exact Hpos.
    + apply Forall_rev. exact Hall.
    + rewrite elapsed_rev. lia.
  - intros (h1 & ttl & h2 & -> & Hpos & Hall & Hlt).
    assert (Hls : last_set (rev (h1 ++ OSet k v ttl :: h2)) k 0 = Some (v, ttl, 0 + elapsed (rev h2))).
    { apply last_set_spec. exists (rev h2), (rev h1). repeat split; auto.
      - rewrite rev_app_distr. cbn [rev]. rewrite <- app_assoc. reflexivity.
      - apply Forall_rev. exact Hall. }
    rewrite Hls. rewrite elapsed_rev.
    assert (H : (0 + elapsed h2 <? ttl_ns maxttl ttl) = true) by lia.
    rewrite H. reflexivity.
Qed.
