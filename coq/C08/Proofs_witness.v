(* C08 — the unfixed readHeader refuted by a computed schedule; oracle soundness; parser. *)
From Kit Require Import C08.Model C08.Spec C08.Check C08.Proofs.
From Coq Require Import Lia.

(* ---------------------------------------------------------------------------------------- *)
(* Original readHeader: A (operation 0) decrypts a document whose header is the 6 bytes
   1..6 (manifest = bytes 1..2, MAC = bytes 4..5); B (operation 1) encrypts six 9s.
   Schedule: A runs up to and including its UnwrapKeyFn callback; B runs completely and its
   processSegments gets the buffer A has put back; A resumes and verifies the MAC. *)

Definition wit_ds : opid -> opdesc := fun i =>
  match i with
  | 0 => ODecrypt (mkH [[1;2;3;4;5;6]%N] 1 2 4 2) []
  | 1 => OEncrypt [mkSeg None [[9;9;9;9;9;9]%N] 0 6 (fun x => x) [6]]
  | _ => OEncrypt []
  end.

Definition orig_progs (ds : opid -> opdesc) : opid -> list instr := fun i => compile Original (ds i).

Definition wit_es1 : list event := repeat (0, None) 6.
Definition wit_es : list event :=
  repeat (0, None) 8 ++ [(1, None); (1, Some 0)] ++ repeat (1, None) 6 ++ repeat (0, None) 4.

Lemma wit_wf : forall i, desc_wf (wit_ds i).
Proof.
  intros [|[|i]]; cbn; try exact I. unfold hdr_wf, total. cbn. lia.
Qed.

Theorem header_alias_refuted :
  exists (ds : opid -> opdesc) (es1 es : list event) (s1 s : state) (b : bufid),
    (forall i, desc_wf (ds i)) /\
    (* after readHeader returned, A still references a buffer that is in the pool *)
    run (init_state (orig_progs ds)) es1 = Some s1 /\ referenced s1 0 b /\ In b (pool s1) /\
    (* and at the end A has observed bytes it does not observe alone *)
    run (init_state (orig_progs ds)) es = Some s /\
    exists t, run_alone (orig_progs ds 0) (count 0 es) = Some t /\ result s 0 <> result t 0.
Proof.
  exists wit_ds, wit_es1, wit_es. eexists. eexists. exists 0.
  split; [exact wit_wf|].
  split; [vm_compute; reflexivity|].
  split; [right; left; vm_compute; reflexivity|].
  split; [vm_compute; left; reflexivity|].
  split; [vm_compute; reflexivity|].
  eexists. split; [vm_compute; reflexivity|].
  vm_compute. discriminate.
Qed.

(* what A observed in that schedule and alone: the manifest as parsed, then manifest and MAC as
   verified *)
Example wit_observed :
  match run (init_state (orig_progs wit_ds)) wit_es with
  | Some s => result s 0
  | None => []
  end = [[2;3]; [9;9]; [9;9]]%N.
Proof. vm_compute. reflexivity. Qed.

Example wit_alone :
  match run_alone (orig_progs wit_ds 0) 12 with
  | Some t => result t 0
  | None => []
  end = [[2;3]; [2;3]; [5;6]]%N.
Proof. vm_compute. reflexivity. Qed.

(* the same schedule on the fixed tree: nothing changes for A *)
Example wit_fixed :
  match run (init_state (fun i => compile Fixed (wit_ds i))) wit_es with
  | Some s => result s 0
  | None => []
  end = [[2;3]; [2;3]; [5;6]]%N.
Proof. vm_compute. reflexivity. Qed.

(* non-vacuity of the hypotheses of ownership / non-interference: the same operations are
   well-formed and the schedule runs on the fixed tree *)
Example fixed_nonvacuous :
  (forall i, desc_wf (wit_ds i)) /\ exists s, run (init_state (fixed_progs wit_ds)) wit_es = Some s.
Proof. split; [exact wit_wf|]. eexists. vm_compute. reflexivity. Qed.

(* ---------------------------------------------------------------------------------------- *)
(* oracles *)

Lemma is_same_spec c : is_same c = true <-> c = Same.
Proof. destruct c; cbn; split; congruence. Qed.

Lemma all_same_b_sound obs : all_same_b obs = true <-> all_same obs.
Proof.
  unfold all_same_b, all_same. rewrite forallb_forall, Forall_forall.
  split; intros H c Hc; apply is_same_spec; apply H; exact Hc.
Qed.

Lemma eqb_iff_Z (a b c d : Z) : Bool.eqb (a =? b)%Z (c =? d)%Z = true <-> (a = b <-> c = d).
Proof.
  rewrite Bool.eqb_true_iff.
  destruct (Z.eqb_spec a b), (Z.eqb_spec c d); split; try tauto; try discriminate; intros; try reflexivity.
Qed.

Lemma same_name_same_logger_sound obs :
  same_name_same_logger obs = true <-> reg_consistent obs.
Proof.
  unfold reg_consistent. induction obs as [|[n l] rest IH]; cbn [same_name_same_logger].
  - split; [intros _; constructor | reflexivity].
  - rewrite andb_true_iff, forallb_forall, IH. split.
    + intros [H1 H2]. constructor; [|exact H2].
      apply Forall_forall. intros p Hp. apply eqb_iff_Z. apply H1. exact Hp.
    + intro H. inversion H as [|a l0 Ha Hl]; subst. split; [|exact Hl].
      intros p Hp. rewrite Forall_forall in Ha. apply eqb_iff_Z. apply (Ha p Hp).
Qed.

Lemma pool_seq_ok_b_sound ops : forall w seen, pool_seq_ok_b w ops seen = true <-> pool_seq_ok w ops seen.
Proof.
  induction ops as [|o ops IH]; intros w [|sn seen]; cbn [pool_seq_ok_b pool_seq_ok];
    try (split; [discriminate | contradiction]); try tauto.
  rewrite !andb_true_iff, IH, forallb_forall.
  assert (Hx : forall x, ((x =? 0)%N || existsb (N.eqb x) (wget (wnext w o) (user_of o))) = true <->
                         (x = 0%N \/ In x (wget (wnext w o) (user_of o)))).
  { intro x. rewrite orb_true_iff, N.eqb_eq, existsb_exists. split; intros [H|H]; try (left; exact H); right.
    - destruct H as [y [Hy E]]. apply N.eqb_eq in E. subst. exact Hy.
    - exists x. split; [exact H | apply N.eqb_refl]. }
  assert (Hs : (match o with PGet _ _ | PPut _ => match sn with [] => true | _ => false end | _ => true end) = true
               <-> match o with PGet _ _ | PPut _ => sn = [] | _ => True end).
  { destruct o, sn; split; intros; try reflexivity; try discriminate; try exact I. }
  rewrite Hs. split.
  - intros [[H1 H2] H3]. split; [exact H1|]. split; [|exact H3]. intros x Hin. apply Hx. apply H2. exact Hin.
  - intros [H1 [H2 H3]]. split; [split; [exact H1|]|exact H3]. intros x Hin. apply Hx. apply H2. exact Hin.
Qed.

Theorem oracle_sound c :
  oracle c = true <->
  match c with
  | CNest _ _ obs => all_same obs
  | CObs obs => all_same obs
  | CPool _ data got_len seen => got_len = 0%Z /\ seen = data
  | CReg obs => reg_consistent obs
  | CRegApply obs reached => reg_consistent obs /\ all_reached reached
  | CNestF faults _ _ obs => all_same (faults ++ obs)
  | CPoolSeq ops seen => pool_seq_ok [] ops seen
  end.
Proof.
  destruct c; cbn [oracle].
  - apply all_same_b_sound.
  - apply all_same_b_sound.
  - rewrite andb_true_iff, Z.eqb_eq, eqb_listN_spec. tauto.
  - apply same_name_same_logger_sound.
  - rewrite andb_true_iff, same_name_same_logger_sound. unfold all_reached.
    rewrite forallb_forall, Forall_forall. tauto.
  - apply all_same_b_sound.
  - apply pool_seq_ok_b_sound.
Qed.

(* ---------------------------------------------------------------------------------------- *)
(* default parser: the shared value is never written; every result is the pure parse of the
   caller's own argument under the initial options *)

Theorem parser_stateless {R} (parse : Z -> list N -> R) (es : list (nat * list N)) (s0 : pstate R) :
  ps_options (prun parse s0 es) = ps_options s0 /\
  ps_results (prun parse s0 es) =
    ps_results s0 ++ map (fun e => (fst e, parse (ps_options s0) (snd e))) es.
Proof.
  revert s0. induction es as [|e es IH]; intro s0; cbn [prun fold_left map].
  - split; [reflexivity | symmetry; apply app_nil_r].
  - destruct (IH (pstep parse s0 e)) as [H1 H2]. unfold prun in *. rewrite H1, H2. cbn.
    split; [reflexivity|]. rewrite <- app_assoc. reflexivity.
Qed.
