(* C08 — proofs for the enc/v1 buffer pool: ownership invariant, non-interference for every
   schedule, the compiled (Fixed) operations obey the discipline, the Original ones do not. *)
From Kit Require Import C08.Model C08.Spec.
From Coq Require Import Lia Arith.

(* ---------------------------------------------------------------------------------------- *)
(* basics *)

Lemma upd_same {A} (f : nat -> A) i x : upd f i x i = x.
Proof. unfold upd. rewrite Nat.eqb_refl. reflexivity. Qed.

Lemma upd_other {A} (f : nat -> A) i j x : j <> i -> upd f i x j = f j.
Proof. intro H. unfold upd. apply Nat.eqb_neq in H. rewrite H. reflexivity. Qed.

Lemma mem_In b l : mem b l = true <-> In b l.
Proof.
  unfold mem. rewrite existsb_exists. split.
  - intros [x [Hx He]]. apply Nat.eqb_eq in He. subst. exact Hx.
  - intro H. exists b. split; [exact H | apply Nat.eqb_refl].
Qed.

Lemma remove1_In b x l : In x (remove1 b l) -> In x l.
Proof.
  induction l as [|y t IH]; cbn [remove1]; [tauto|].
  destruct (y =? b); intro H; [right; exact H|].
  destruct H as [H|H]; [left; exact H | right; apply IH; exact H].
Qed.

Lemma remove1_NoDup b l : NoDup l -> NoDup (remove1 b l).
Proof.
  induction 1 as [|y t Hy Ht IH]; cbn [remove1]; [constructor|].
  destruct (y =? b); [exact Ht|].
  constructor; [|exact IH]. intro H. apply Hy. eapply remove1_In. exact H.
Qed.

Lemma remove1_notin b l : NoDup l -> ~ In b (remove1 b l).
Proof.
  induction 1 as [|y t Hy Ht IH]; cbn [remove1]; [tauto|].
  destruct (y =? b) eqn:E.
  - apply Nat.eqb_eq in E. subst. exact Hy.
  - apply Nat.eqb_neq in E. intros [H|H]; [congruence | apply IH; exact H].
Qed.

Lemma rd_ext h h' off len :
  (forall j, off <= j < off + len -> h j = h' j) -> rd h off len = rd h' off len.
Proof.
  intro H. unfold rd. apply map_ext_in. intros j Hj. apply in_seq in Hj. apply H. exact Hj.
Qed.

Lemma rd_length h off len : length (rd h off len) = len.
Proof. unfold rd. rewrite map_length, seq_length. reflexivity. Qed.

Lemma fit_length m y : length (fit m y) = m.
Proof.
  unfold fit. rewrite app_length, firstn_length, repeat_length. lia.
Qed.

Lemma wr_rel h h' ini off data :
  (forall j, j < ini -> h j = h' j) -> off <= ini ->
  forall j, j < Nat.max ini (off + length data) -> wr h off data j = wr h' off data j.
Proof.
  intros H Ho j Hj. unfold wr.
  destruct ((off <=? j) && (j <? off + length data)) eqn:E; [reflexivity|].
  apply H. apply andb_false_iff in E. destruct E as [E|E].
  - apply Nat.leb_gt in E. lia.
  - apply Nat.ltb_ge in E. lia.
Qed.

(* ---------------------------------------------------------------------------------------- *)
(* the invariant *)

Definition heldb (o : ost) : bool := match cur o with Some _ => true | None => false end.

Definition op_ok (o : ost) : Prop :=
  safe (heldb o) (init o) (absv (vman o)) (absv (vmac o)) (prog o) = true
  /\ (forall b off len, vman o = VAlias b off len -> cur o = Some b)
  /\ (forall b off len, vmac o = VAlias b off len -> cur o = Some b).

Record Inv (s : state) : Prop := mkInv {
  inv_lt : forall i b, cur (ops s i) = Some b -> b < next s;
  inv_np : forall i b, cur (ops s i) = Some b -> ~ In b (pool s);
  inv_uniq : forall i j b, cur (ops s i) = Some b -> cur (ops s j) = Some b -> i = j;
  inv_pool_lt : forall b, In b (pool s) -> b < next s;
  inv_pool_nd : NoDup (pool s);
  inv_ok : forall i, op_ok (ops s i)
}.

Lemma Inv_init progs : (forall i, safe_prog (progs i) = true) -> Inv (init_state progs).
Proof.
  intro H. constructor; cbn; try discriminate; try tauto.
  - constructor.
  - intro i. unfold op_ok, heldb. cbn. split; [apply H|]. split; discriminate.
Qed.

(* a step that changes neither the pool nor who holds what *)
Lemma Inv_same s hp i o' :
  Inv s -> cur o' = cur (ops s i) -> op_ok o' ->
  Inv (mkS hp (pool s) (next s) (upd (ops s) i o')).
Proof.
  intros I Hc Hok.
  assert (Hcur : forall j, cur (upd (ops s) i o' j) = cur (ops s j)).
  { intro j. destruct (Nat.eq_dec j i) as [->|N]; [rewrite upd_same; exact Hc|].
    rewrite upd_other by exact N. reflexivity. }
  constructor; cbn [heap pool next ops].
  - intros j b. rewrite Hcur. apply (inv_lt s I).
  - intros j b. rewrite Hcur. apply (inv_np s I).
  - intros j k b. rewrite !Hcur. apply (inv_uniq s I).
  - apply (inv_pool_lt s I).
  - apply (inv_pool_nd s I).
  - intro j. destruct (Nat.eq_dec j i) as [->|N]; [rewrite upd_same; exact Hok|].
    rewrite upd_other by exact N. apply (inv_ok s I).
Qed.

Ltac split_safe H :=
  repeat match type of H with
         | (_ && _)%bool = true => let H1 := fresh "Hs" in apply andb_true_iff in H; destruct H as [H H1]
         end.

Lemma not_alias_view w : is_alias (absv w) = false -> forall b off len, w <> VAlias b off len.
Proof. destruct w; cbn; intros; congruence. Qed.

Lemma Inv_step s e s' : Inv s -> step s e = Some s' -> Inv s'.
Proof.
  intros I Hst. destruct e as [i c]. unfold step in Hst. cbn [fst snd] in Hst.
  pose proof (inv_ok s I i) as [Hsafe [Hvm Hvc]].
  destruct (prog (ops s i)) as [|ins rest] eqn:Ep; [discriminate|].
  destruct ins.
  - (* IGet *)
    cbn [safe] in Hsafe. split_safe Hsafe.
    apply negb_true_iff in Hsafe, Hs1, Hs0.
    assert (Hnone : cur (ops s i) = None).
    { unfold heldb in Hsafe. destruct (cur (ops s i)); [discriminate|reflexivity]. }
    assert (Hok' : forall b, op_ok (mkO rest (Some b) 0 (vman (ops s i)) (vmac (ops s i)) (obs (ops s i)))).
    { intro b. unfold op_ok, heldb. cbn. split; [exact Hs|]. split; intros b0 off len E.
      - exfalso. eapply not_alias_view; [exact Hs1 | exact E].
      - exfalso. eapply not_alias_view; [exact Hs0 | exact E]. }
    unfold choose in Hst.
    assert (Hfresh : Inv (mkS (heap s) (pool s) (S (next s))
                (upd (ops s) i (mkO rest (Some (next s)) 0 (vman (ops s i)) (vmac (ops s i)) (obs (ops s i)))))).
    { constructor; cbn [heap pool next ops].
      - intros j b. destruct (Nat.eq_dec j i) as [->|N].
        + rewrite upd_same. cbn. intro E. inversion E. lia.
        + rewrite upd_other by exact N. intro E. apply (inv_lt s I) in E. lia.
      - intros j b. destruct (Nat.eq_dec j i) as [->|N].
        + rewrite upd_same. cbn. intros E Hin. inversion E; subst.
          apply (inv_pool_lt s I) in Hin. lia.
        + rewrite upd_other by exact N. apply (inv_np s I).
      - intros j k b. destruct (Nat.eq_dec j i) as [->|Nj]; destruct (Nat.eq_dec k i) as [->|Nk];
          rewrite ?upd_same, ?upd_other by assumption; cbn.
        + reflexivity.
        + intros E1 E2. inversion E1; subst. apply (inv_lt s I) in E2. lia.
        + intros E1 E2. inversion E2; subst. apply (inv_lt s I) in E1. lia.
        + apply (inv_uniq s I).
      - intros b Hin. apply (inv_pool_lt s I) in Hin. lia.
      - apply (inv_pool_nd s I).
      - intro j. destruct (Nat.eq_dec j i) as [->|N]; [rewrite upd_same; apply Hok'|].
        rewrite upd_other by exact N. apply (inv_ok s I). }
    destruct c as [b|].
    + destruct (mem b (pool s)) eqn:Em.
      * inversion Hst; subst; clear Hst. apply mem_In in Em.
        constructor; cbn [heap pool next ops].
        -- intros j b0. destruct (Nat.eq_dec j i) as [->|N].
           ++ rewrite upd_same. cbn. intro E. inversion E; subst. apply (inv_pool_lt s I). exact Em.
           ++ rewrite upd_other by exact N. apply (inv_lt s I).
        -- intros j b0. destruct (Nat.eq_dec j i) as [->|N].
           ++ rewrite upd_same. cbn. intro E. inversion E; subst.
              apply remove1_notin. apply (inv_pool_nd s I).
           ++ rewrite upd_other by exact N. intros E Hin. apply remove1_In in Hin.
              eapply (inv_np s I); eassumption.
        -- intros j k b0. destruct (Nat.eq_dec j i) as [->|Nj]; destruct (Nat.eq_dec k i) as [->|Nk];
             rewrite ?upd_same, ?upd_other by assumption; cbn.
           ++ reflexivity.
           ++ intros E1 E2. inversion E1; subst. exfalso. eapply (inv_np s I); eassumption.
           ++ intros E1 E2. inversion E2; subst. exfalso. eapply (inv_np s I); eassumption.
           ++ apply (inv_uniq s I).
        -- intros b0 Hin. apply remove1_In in Hin. apply (inv_pool_lt s I). exact Hin.
        -- apply remove1_NoDup. apply (inv_pool_nd s I).
        -- intro j. destruct (Nat.eq_dec j i) as [->|N]; [rewrite upd_same; apply Hok'|].
           rewrite upd_other by exact N. apply (inv_ok s I).
      * inversion Hst; subst. exact Hfresh.
    + inversion Hst; subst. exact Hfresh.
  - (* IPut *)
    destruct (cur (ops s i)) as [b|] eqn:Ec; [|discriminate].
    inversion Hst; subst; clear Hst.
    cbn [safe] in Hsafe. split_safe Hsafe. apply negb_true_iff in Hs1, Hs0.
    constructor; cbn [heap pool next ops].
    + intros j b0. destruct (Nat.eq_dec j i) as [->|N].
      * rewrite upd_same. cbn. discriminate.
      * rewrite upd_other by exact N. apply (inv_lt s I).
    + intros j b0. destruct (Nat.eq_dec j i) as [->|N].
      * rewrite upd_same. cbn. discriminate.
      * rewrite upd_other by exact N. intros E [Hin|Hin].
        -- subst. apply N. eapply (inv_uniq s I); eassumption.
        -- eapply (inv_np s I); eassumption.
    + intros j k b0. destruct (Nat.eq_dec j i) as [->|Nj]; destruct (Nat.eq_dec k i) as [->|Nk];
        rewrite ?upd_same, ?upd_other by assumption; cbn; try discriminate.
      apply (inv_uniq s I).
    + intros b0 [Hin|Hin]; [subst; eapply (inv_lt s I); eassumption | apply (inv_pool_lt s I); exact Hin].
    + constructor; [eapply (inv_np s I); eassumption | apply (inv_pool_nd s I)].
    + intro j. destruct (Nat.eq_dec j i) as [->|N].
      * rewrite upd_same. unfold op_ok, heldb. cbn. split; [exact Hs|]. split; intros b0 off len E; exfalso.
        -- eapply not_alias_view; [exact Hs1 | exact E].
        -- eapply not_alias_view; [exact Hs0 | exact E].
      * rewrite upd_other by exact N. apply (inv_ok s I).
  - (* IPutKeep: never part of a disciplined program *)
    cbn [safe] in Hsafe. discriminate.
  - (* IWrite *)
    destruct (cur (ops s i)) as [b|] eqn:Ec; [|discriminate].
    inversion Hst; subst; clear Hst.
    unfold heldb in Hsafe. rewrite Ec in Hsafe. cbn [safe] in Hsafe. split_safe Hsafe.
    apply Inv_same; [exact I | cbn; congruence |].
    unfold op_ok, heldb. cbn. split; [exact Hs|]. split; assumption.
  - (* IView *)
    destruct (cur (ops s i)) as [b|] eqn:Ec; [|discriminate].
    inversion Hst; subst; clear Hst.
    unfold heldb in Hsafe. rewrite Ec in Hsafe. cbn [safe] in Hsafe.
    destruct x; cbn [seta] in Hsafe; split_safe Hsafe.
    + apply Inv_same; [exact I | cbn; congruence |].
      unfold op_ok, heldb. cbn. rewrite Ec. split; [exact Hs|]. split.
      * intros b0 o1 l1 E. inversion E. reflexivity.
      * exact Hvc.
    + apply Inv_same; [exact I | cbn; congruence |].
      unfold op_ok, heldb. cbn. rewrite Ec. split; [exact Hs|]. split.
      * exact Hvm.
      * intros b0 o1 l1 E. inversion E. reflexivity.
  - (* ICopy *)
    destruct (cur (ops s i)) as [b|] eqn:Ec; [|discriminate].
    inversion Hst; subst; clear Hst.
    unfold heldb in Hsafe. rewrite Ec in Hsafe. cbn [safe] in Hsafe.
    destruct x; cbn [seta] in Hsafe; split_safe Hsafe.
    + apply Inv_same; [exact I | cbn; congruence |].
      unfold op_ok, heldb. cbn. rewrite Ec. split; [exact Hs|]. split.
      * discriminate.
      * exact Hvc.
    + apply Inv_same; [exact I | cbn; congruence |].
      unfold op_ok, heldb. cbn. rewrite Ec. split; [exact Hs|]. split.
      * exact Hvm.
      * discriminate.
  - (* IUse *)
    inversion Hst; subst; clear Hst.
    cbn [safe] in Hsafe. split_safe Hsafe.
    apply Inv_same; [exact I | reflexivity |].
    unfold op_ok, heldb. cbn. split; [exact Hs|]. split; assumption.
  - (* IProcess *)
    destruct (cur (ops s i)) as [b|] eqn:Ec; [|discriminate].
    inversion Hst; subst; clear Hst.
    unfold heldb in Hsafe. rewrite Ec in Hsafe. cbn [safe] in Hsafe. split_safe Hsafe.
    apply Inv_same; [exact I | cbn; congruence |].
    unfold op_ok, heldb. cbn. split; [exact Hs|]. split; assumption.
  - (* IEmit *)
    destruct (cur (ops s i)) as [b|] eqn:Ec; [|discriminate].
    inversion Hst; subst; clear Hst.
    unfold heldb in Hsafe. rewrite Ec in Hsafe. cbn [safe] in Hsafe. split_safe Hsafe.
    apply Inv_same; [exact I | cbn; congruence |].
    unfold op_ok, heldb. cbn. split; [exact Hs|]. split; assumption.
  - (* ICallback *)
    inversion Hst; subst; clear Hst.
    cbn [safe] in Hsafe.
    apply Inv_same; [exact I | reflexivity |].
    unfold op_ok, heldb. cbn. split; [exact Hsafe|]. split; assumption.
Qed.

Lemma Inv_run es : forall s s', Inv s -> run s es = Some s' -> Inv s'.
Proof.
  induction es as [|e es IH]; intros s s' I H; cbn [run] in H.
  - inversion H; subst. exact I.
  - destruct (step s e) as [s1|] eqn:E; [|discriminate].
    eapply IH; [eapply Inv_step; eassumption | exact H].
Qed.

Lemma Inv_reachable progs s :
  (forall i, safe_prog (progs i) = true) -> reachable progs s -> Inv s.
Proof. intros H [es Hr]. eapply Inv_run; [apply Inv_init; exact H | exact Hr]. Qed.

(* ownership: a referenced buffer is not in the pool and nobody else references it *)
Lemma Inv_exclusive s : Inv s -> exclusive s.
Proof.
  intros I i b Href.
  assert (Hcur : forall k, referenced s k b -> cur (ops s k) = Some b).
  { intros k [H|[H|H]]; [exact H| |].
    - destruct (inv_ok s I k) as [_ [Hm _]]. unfold view_refs in H.
      destruct (vman (ops s k)) eqn:E; try contradiction. subst. eapply Hm. reflexivity.
    - destruct (inv_ok s I k) as [_ [_ Hc]]. unfold view_refs in H.
      destruct (vmac (ops s k)) eqn:E; try contradiction. subst. eapply Hc. reflexivity. }
  split.
  - eapply (inv_np s I). apply Hcur. exact Href.
  - intros j Hj. eapply (inv_uniq s I); apply Hcur; assumption.
Qed.

Theorem ownership progs s :
  (forall i, safe_prog (progs i) = true) -> reachable progs s -> exclusive s.
Proof. intros H Hr. apply Inv_exclusive. eapply Inv_reachable; eassumption. Qed.

(* ---------------------------------------------------------------------------------------- *)
(* non-interference: simulation between operation i inside any schedule and the same          *)
(* operation alone                                                                            *)

Definition vrel (cs ct : option bufid) (w w' : view) : Prop :=
  match w, w' with
  | VNone, VNone => True
  | VBytes a, VBytes a' => a = a'
  | VAlias b off len, VAlias b' off' len' => cs = Some b /\ ct = Some b' /\ off = off' /\ len = len'
  | _, _ => False
  end.

Definition Rel (hs : bufid -> content) (o : ost) (ht : bufid -> content) (o' : ost) : Prop :=
  prog o = prog o' /\ init o = init o' /\ obs o = obs o' /\
  match cur o, cur o' with
  | None, None => True
  | Some b, Some b' => forall j, j < init o -> hs b j = ht b' j
  | _, _ => False
  end /\
  vrel (cur o) (cur o') (vman o) (vman o') /\ vrel (cur o) (cur o') (vmac o) (vmac o').

Lemma vrel_noalias cs ct cs' ct' w w' :
  is_alias (absv w) = false -> vrel cs ct w w' -> vrel cs' ct' w w'.
Proof. destruct w, w'; cbn; try tauto; discriminate. Qed.

Lemma vrel_absv cs ct w w' : vrel cs ct w w' -> absv w = absv w'.
Proof. destruct w, w'; cbn; try tauto; try reflexivity. intros [_ [_ [-> ->]]]. reflexivity. Qed.

Lemma Rel_heap_ext hs hs' o ht o' :
  (forall b, cur o = Some b -> hs' b = hs b) -> Rel hs o ht o' -> Rel hs' o ht o'.
Proof.
  intros H (Hp & Hi & Ho & Hc & Hm & Hk). repeat split; try assumption.
  destruct (cur o) as [b|] eqn:Ec; [|exact Hc].
  destruct (cur o') as [b'|]; [|exact Hc].
  intros j Hj. rewrite (H b eq_refl). apply Hc. exact Hj.
Qed.

(* the operation's own step is matched by the same step alone *)
Lemma own_step s t i c s' :
  op_ok (ops s i) -> Rel (heap s) (ops s i) (heap t) (ops t 0) -> step s (i, c) = Some s' ->
  exists t', step t (0, None) = Some t' /\ Rel (heap s') (ops s' i) (heap t') (ops t' 0).
Proof.
  intros [Hsafe [Hvm Hvc]] (Hp & Hi & Ho & Hc & Hm & Hk) Hst.
  unfold step in *. cbn [fst snd] in *.
  rewrite <- Hp.
  destruct (prog (ops s i)) as [|ins rest] eqn:Ep; [discriminate|].
  destruct ins.
  - (* IGet *)
    cbn [safe] in Hsafe. split_safe Hsafe. apply negb_true_iff in Hs1, Hs0.
    destruct (choose s c) as [[b pl] nx].
    inversion Hst; subst; clear Hst. cbn [choose].
    eexists; split; [reflexivity|].
    cbn [heap ops]. rewrite !upd_same. unfold Rel. cbn.
    repeat split; try assumption; try lia.
    + eapply vrel_noalias; [exact Hs1 | exact Hm].
    + eapply vrel_noalias; [exact Hs0 | exact Hk].
  - (* IPut *)
    destruct (cur (ops s i)) as [b|] eqn:Ec; [|discriminate].
    destruct (cur (ops t 0)) as [b'|] eqn:Ec'; [|contradiction].
    inversion Hst; subst; clear Hst.
    cbn [safe] in Hsafe. split_safe Hsafe. apply negb_true_iff in Hs1, Hs0.
    eexists; split; [reflexivity|].
    cbn [heap ops]. rewrite !upd_same. unfold Rel. cbn.
    repeat split; try assumption.
    + eapply vrel_noalias; [exact Hs1 | exact Hm].
    + eapply vrel_noalias; [exact Hs0 | exact Hk].
  - (* IPutKeep: never part of a disciplined program *)
    cbn [safe] in Hsafe. discriminate.
  - (* IWrite *)
    destruct (cur (ops s i)) as [b|] eqn:Ec; [|discriminate].
    destruct (cur (ops t 0)) as [b'|] eqn:Ec'; [|contradiction].
    inversion Hst; subst; clear Hst.
    unfold heldb in Hsafe. rewrite Ec in Hsafe. cbn [safe] in Hsafe. split_safe Hsafe.
    apply Nat.leb_le in Hs0.
    eexists; split; [reflexivity|].
    cbn [heap ops]. rewrite !upd_same. unfold Rel. cbn.
    repeat split; try assumption; try congruence.
    intros j Hj. rewrite !upd_same.
    apply wr_rel with (ini := init (ops s i)); assumption.
  - (* IView *)
    destruct (cur (ops s i)) as [b|] eqn:Ec; [|discriminate].
    destruct (cur (ops t 0)) as [b'|] eqn:Ec'; [|contradiction].
    inversion Hst; subst; clear Hst.
    eexists; split; [reflexivity|].
    cbn [heap ops]. rewrite !upd_same. unfold Rel.
    destruct x; cbn; rewrite ?Ec, ?Ec'; repeat split; assumption.
  - (* ICopy *)
    destruct (cur (ops s i)) as [b|] eqn:Ec; [|discriminate].
    destruct (cur (ops t 0)) as [b'|] eqn:Ec'; [|contradiction].
    inversion Hst; subst; clear Hst.
    unfold heldb in Hsafe. rewrite Ec in Hsafe. cbn [safe] in Hsafe.
    assert (Hle : off + len <= init (ops s i)).
    { destruct x; cbn [seta] in Hsafe; split_safe Hsafe; apply Nat.leb_le; assumption. }
    assert (Hrd : rd (heap s b) off len = rd (heap t b') off len).
    { apply rd_ext. intros j Hj. apply Hc. lia. }
    eexists; split; [reflexivity|].
    cbn [heap ops]. rewrite !upd_same. unfold Rel.
    destruct x; cbn; rewrite ?Ec, ?Ec'; repeat split; assumption.
  - (* IUse *)
    inversion Hst; subst; clear Hst.
    cbn [safe] in Hsafe. split_safe Hsafe.
    assert (Hres : resolve (heap s) (getv (ops s i) x) = resolve (heap t) (getv (ops t 0) x)).
    { assert (Hg : vrel (cur (ops s i)) (cur (ops t 0)) (getv (ops s i) x) (getv (ops t 0) x))
        by (destruct x; assumption).
      assert (Ha : geta x (absv (vman (ops s i))) (absv (vmac (ops s i))) = absv (getv (ops s i) x))
        by (destruct x; reflexivity).
      rewrite Ha in Hsafe.
      destruct (getv (ops s i) x) as [|b off len|bs], (getv (ops t 0) x) as [|b' off' len'|bs'];
        cbn in Hg; try contradiction; cbn [resolve].
      - reflexivity.
      - destruct Hg as (E1 & E2 & -> & ->). cbn [absv] in Hsafe. split_safe Hsafe.
        apply Nat.leb_le in Hs0. rewrite E1, E2 in Hc.
        apply rd_ext. intros j Hj. apply Hc. lia.
      - congruence. }
    eexists; split; [reflexivity|].
    cbn [heap ops]. rewrite !upd_same. unfold Rel. cbn.
    repeat split; try assumption. rewrite Ho, Hres. reflexivity.
  - (* IProcess *)
    destruct (cur (ops s i)) as [b|] eqn:Ec; [|discriminate].
    destruct (cur (ops t 0)) as [b'|] eqn:Ec'; [|contradiction].
    inversion Hst; subst; clear Hst.
    unfold heldb in Hsafe. rewrite Ec in Hsafe. cbn [safe] in Hsafe. split_safe Hsafe.
    apply Nat.leb_le in Hs0.
    assert (Hrd : rd (heap s b) 0 n = rd (heap t b') 0 n).
    { apply rd_ext. intros j Hj. apply Hc. lia. }
    eexists; split; [reflexivity|].
    cbn [heap ops]. rewrite !upd_same. unfold Rel. cbn.
    repeat split; try assumption; try congruence.
    intros j Hj. rewrite !upd_same. rewrite Hrd.
    apply wr_rel with (ini := init (ops s i)); [exact Hc | lia |].
    rewrite fit_length. cbn. exact Hj.
  - (* IEmit *)
    destruct (cur (ops s i)) as [b|] eqn:Ec; [|discriminate].
    destruct (cur (ops t 0)) as [b'|] eqn:Ec'; [|contradiction].
    inversion Hst; subst; clear Hst.
    unfold heldb in Hsafe. rewrite Ec in Hsafe. cbn [safe] in Hsafe. split_safe Hsafe.
    apply Nat.leb_le in Hs0.
    assert (Hrd : rd (heap s b) off len = rd (heap t b') off len).
    { apply rd_ext. intros j Hj. apply Hc. lia. }
    eexists; split; [reflexivity|].
    cbn [heap ops]. rewrite !upd_same. unfold Rel. cbn.
    repeat split; try assumption. rewrite Ho, Hrd. reflexivity.
  - (* ICallback *)
    inversion Hst; subst; clear Hst.
    eexists; split; [reflexivity|].
    cbn [heap ops]. rewrite !upd_same. unfold Rel. cbn.
    repeat split; assumption.
Qed.

(* a step of another operation does not touch what operation i can see *)
Lemma other_step s i j c s' ht o' :
  Inv s -> j <> i -> Rel (heap s) (ops s i) ht o' -> step s (j, c) = Some s' ->
  Rel (heap s') (ops s' i) ht o'.
Proof.
  intros I N HR Hst.
  assert (Hsame : forall o'' hp pl nx, ops (mkS hp pl nx (upd (ops s) j o'')) i = ops s i).
  { intros. cbn. apply upd_other. congruence. }
  assert (Hheap : forall b h, cur (ops s j) = Some b ->
                  forall b0, cur (ops s i) = Some b0 -> upd (heap s) b h b0 = heap s b0).
  { intros b h Eb b0 Eb0. apply upd_other. intro E. subst.
    apply N. eapply (inv_uniq s I); eassumption. }
  unfold step in Hst. cbn [fst snd] in Hst.
  destruct (prog (ops s j)) as [|ins rest]; [discriminate|].
  destruct ins;
    try (destruct (cur (ops s j)) as [b|] eqn:Ec; [|discriminate]);
    try (destruct (choose s c) as [[b1 pl] nx]);
    inversion Hst; subst; clear Hst; rewrite Hsame; cbn [heap];
    try exact HR;
    (eapply Rel_heap_ext; [|exact HR]; intros b0 Eb0; eapply Hheap; [reflexivity | exact Eb0]).
Qed.

Lemma count_cons i j c es :
  count i ((j, c) :: es) = if j =? i then S (count i es) else count i es.
Proof. unfold count. cbn [filter fst]. destruct (j =? i); reflexivity. Qed.

Lemma nonint_gen es : forall s t i s',
  Inv s -> Rel (heap s) (ops s i) (heap t) (ops t 0) -> run s es = Some s' ->
  exists t', run_alone_from t (count i es) = Some t' /\
             Rel (heap s') (ops s' i) (heap t') (ops t' 0).
Proof.
  induction es as [|[j c] es IH]; intros s t i s' I HR Hrun; cbn [run] in Hrun.
  - inversion Hrun; subst. exists t. split; [reflexivity | exact HR].
  - destruct (step s (j, c)) as [s1|] eqn:Est; [|discriminate].
    assert (I1 : Inv s1) by (eapply Inv_step; eassumption).
    rewrite count_cons. destruct (j =? i) eqn:Eji.
    + apply Nat.eqb_eq in Eji. subst j.
      destruct (own_step s t i c s1 (inv_ok s I i) HR Est) as [t1 [Ht1 HR1]].
      destruct (IH s1 t1 i s' I1 HR1 Hrun) as [t' [Ht' HR']].
      exists t'. split; [|exact HR']. cbn [run_alone_from]. rewrite Ht1. exact Ht'.
    + apply Nat.eqb_neq in Eji.
      eapply IH; [exact I1 | | exact Hrun].
      exact (other_step s i j c s1 (heap t) (ops t 0) I Eji HR Est).
Qed.

Theorem noninterference progs :
  (forall i, safe_prog (progs i) = true) -> noninterfering progs.
Proof.
  intros Hsafe es s i Hrun.
  assert (HR0 : Rel (heap (init_state progs)) (ops (init_state progs) i)
                    (heap (alone (progs i))) (ops (alone (progs i)) 0)).
  { unfold Rel. cbn. repeat split; reflexivity. }
  destruct (nonint_gen es _ _ i s (Inv_init progs Hsafe) HR0 Hrun) as [t [Ht HR]].
  exists t. split; [exact Ht|]. unfold result. destruct HR as (_ & _ & Ho & _). exact Ho.
Qed.

(* ---------------------------------------------------------------------------------------- *)
(* the operations of the current tree obey the discipline *)

Lemma total_cons c t : total (c :: t) = length c + total t.
Proof. unfold total. cbn [concat]. apply app_length. Qed.

Lemma safe_writes reads : forall n ini am ac q,
  n <= ini ->
  safe true ini am ac (writes n reads ++ q) = safe true (Nat.max ini (n + total reads)) am ac q.
Proof.
  induction reads as [|c t IH]; intros n ini am ac q Hn; cbn [writes app].
  - unfold total. cbn. f_equal. lia.
  - cbn [safe]. apply Nat.leb_le in Hn. rewrite Hn. cbn [andb].
    apply Nat.leb_le in Hn. rewrite IH by lia. rewrite total_cons. f_equal. lia.
Qed.

Lemma safe_emits takes : forall off m ini am ac q,
  off <= m -> m <= ini ->
  safe true ini am ac (emits off m takes ++ q) = safe true ini am ac q.
Proof.
  induction takes as [|k t IH]; intros off m ini am ac q Ho Hm; cbn [emits app]; [reflexivity|].
  cbn [safe].
  assert (E : (off + Nat.min k (m - off) <=? ini) = true) by (apply Nat.leb_le; lia).
  rewrite E. cbn [andb]. apply IH; lia.
Qed.

Lemma safe_seg g : forall ini am ac q,
  exists ini', safe true ini am ac (seg_code g ++ q) = safe true ini' am ac q.
Proof.
  intros ini am ac q. unfold seg_code. rewrite <- !app_assoc.
  destruct (sg_carry g) as [c|]; cbn [app].
  - cbn [safe]. cbn [andb Nat.leb length Nat.add].
    rewrite safe_writes by lia. cbn [app safe].
    match goal with |- context [(?a <=? ?b)] =>
      assert (E : (a <=? b) = true) by (apply Nat.leb_le; cbn [length]; lia) end.
    rewrite E. cbn [andb]. rewrite safe_emits by lia. eexists. reflexivity.
  - rewrite safe_writes by lia. cbn [app safe].
    match goal with |- context [(?a <=? ?b)] =>
      assert (E : (a <=? b) = true) by (apply Nat.leb_le; lia) end.
    rewrite E. cbn [andb]. rewrite safe_emits by lia. eexists. reflexivity.
Qed.

Lemma safe_segs gs : forall ini am ac q,
  is_alias am = false -> is_alias ac = false ->
  safe true ini am ac (flat_map seg_code gs ++ IPut :: q) = safe false 0 am ac q.
Proof.
  induction gs as [|g t IH]; intros ini am ac q Hm Hc; cbn [flat_map app].
  - cbn [safe]. rewrite Hm, Hc. reflexivity.
  - rewrite <- app_assoc. destruct (safe_seg g ini am ac (flat_map seg_code t ++ IPut :: q)) as [ini' E].
    rewrite E. apply IH; assumption.
Qed.

Lemma safe_process_segments gs am ac q :
  is_alias am = false -> is_alias ac = false ->
  safe false 0 am ac (process_segments gs ++ q) = safe false 0 am ac q.
Proof.
  intros Hm Hc. unfold process_segments. cbn [app safe]. rewrite Hm, Hc. cbn [negb andb].
  rewrite <- app_assoc. cbn [app]. apply safe_segs; assumption.
Qed.

Lemma compile_fixed_safe d : desc_wf d -> safe_prog (compile Fixed d) = true.
Proof.
  destruct d as [gs|h gs]; cbn [compile desc_wf]; unfold safe_prog.
  - intros _. unfold encrypt_code. cbn [safe].
    rewrite <- (app_nil_r (process_segments gs)). rewrite safe_process_segments by reflexivity.
    reflexivity.
  - intros [Hm Hc]. unfold decrypt_code, read_header. cbn [app safe negb is_alias andb].
    rewrite <- !app_assoc. rewrite safe_writes by lia. cbn [app safe seta].
    apply Nat.leb_le in Hm, Hc. cbn [Nat.add] in *.
    rewrite (Nat.max_r 0 (total (h_reads h))) by lia.
    rewrite Hm, Hc. cbn [andb geta is_alias negb].
    rewrite <- (app_nil_r (process_segments gs)). rewrite safe_process_segments by reflexivity.
    reflexivity.
Qed.

Definition fixed_progs (ds : opid -> opdesc) : opid -> list instr := fun i => compile Fixed (ds i).

Theorem fixed_ownership ds s :
  (forall i, desc_wf (ds i)) -> reachable (fixed_progs ds) s -> exclusive s.
Proof. intros H. apply ownership. intro i. apply compile_fixed_safe. apply H. Qed.

Theorem fixed_noninterference ds :
  (forall i, desc_wf (ds i)) -> noninterfering (fixed_progs ds).
Proof. intros H. apply noninterference. intro i. apply compile_fixed_safe. apply H. Qed.
