(* C08 — package-level shared state of dapr/kit as event systems.  Definitions only.

   (1) schemes/enc/v1: the buffer pool [BufPool] (scheme.go:90-99) and the operations that use
       it, [readHeader] (338-416) and [processSegments] (247-336), as called by [Encrypt]
       (103-178) and [Decrypt] (182-244).
       A pooled buffer is an id; its bytes are a function index -> byte ([content]).  The state
       holds the heap of all buffers ever allocated, the pool (ids that were Put and not taken
       again), the allocation counter, and one record per operation: the rest of its program,
       the buffer it holds ([cur] — every operation of the code holds at most one pooled buffer
       at a time), how many bytes of that buffer it has written since it got it ([init], ghost),
       the two slices [manifest] and [mac] that readHeader returns (a [view]: either an ALIAS
       into a buffer, or private bytes), and everything the operation has observed so far
       ([obs]: every byte string it read out of a buffer or through a view; the operation's
       result — plaintext, ciphertext, error — is a function of these observations and of its
       own inputs).
       An operation is a straight-line program of atomic actions ([instr]); the points where
       foreign code runs on the operation's behalf (source Read, WrapKeyFn/UnwrapKeyFn, the
       consumer between two reads of the output pipe) are explicit [ICallback]s.
       Interleaving: ANY operation may take its next action at ANY time ([step s (i, c)]);
       this contains the "complete operations run inside a callback of A" schedules of the
       deterministic harness and every goroutine interleaving at the granularity of
       pool Get / Put / one buffer access.  [c] resolves what sync.Pool.Get returns: a chosen
       pooled buffer, or a fresh one (pool empty, per-P miss, or dropped by the GC).

       readHeader takes [(v : variant)]: [Original] returns [manifest]/[mac] as sub-slices of
       the pooled buffer (IView) and then Puts the buffer; [Fixed] (fix: C08-header-pool-alias)
       clones the two lines first (ICopy).

   (2) logger registry (logger/logger.go:66-69,129-156), (3) byteslicepool
       (byteslicepool/byteslicepool.go), (4) the default cron parser (cron/parser.go:236-250):
       small event systems further down. *)
From Kit Require Export Lib.Base.

Definition bufid := nat.
Definition opid := nat.
Definition content := nat -> N.

Definition rd (h : content) (off len : nat) : list N := map h (seq off len).

Definition wr (h : content) (off : nat) (data : list N) : content :=
  fun j => if (off <=? j) && (j <? off + length data) then nth (j - off) data 0%N else h j.

(* exactly [m] bytes of [y] (an AEAD's output length is fixed by its input length) *)
Definition fit (m : nat) (y : list N) : list N := firstn m y ++ repeat 0%N (m - length y).

Definition upd {A} (f : nat -> A) (i : nat) (x : A) : nat -> A :=
  fun j => if j =? i then x else f j.

Inductive vname := VMan | VMac.

Inductive view :=
| VNone
| VAlias (b : bufid) (off len : nat)    (* buf[off:off+len] of pooled buffer b *)
| VBytes (bs : list N).                 (* private memory *)

Inductive cb := CbSrcRead | CbWrap | CbUnwrap | CbConsume.

Inductive instr :=
| IGet                                  (* buf := BufPool.Get() *)
| IPut                                  (* BufPool.Put(buf) (deferred: the function returns) *)
| IPutKeep                              (* an explicit BufPool.Put(buf) in the middle of the function:
                                           the local variable still points to the buffer (not in
                                           the tree; an error path that also has the deferred Put
                                           releases the buffer twice) *)
| IWrite (off : nat) (data : list N)    (* in.Read(buf[off:..]) delivered [data]; buf[0] = carryover *)
| IView (x : vname) (off len : nat)     (* x = buf[off:off+len] *)
| ICopy (x : vname) (off len : nat)     (* x = bytes.Clone(buf[off:off+len]) *)
| IUse (x : vname)                      (* the bytes of x are read (json.Unmarshal, HMAC) *)
| IProcess (n m : nat) (f : list N -> list N)
                                        (* processFn: buf[0:m] = f(buf[0:n]) in place (Seal/Open) *)
| IEmit (off len : nat)                 (* the pipe's reader copies buf[off:off+len] *)
| ICallback (c : cb).

Record ost := mkO {
  prog : list instr;
  cur : option bufid;
  init : nat;
  vman : view;
  vmac : view;
  obs : list (list N)
}.

Record state := mkS {
  heap : bufid -> content;
  pool : list bufid;
  next : bufid;
  ops : opid -> ost
}.

Definition getv (o : ost) (x : vname) : view :=
  match x with VMan => vman o | VMac => vmac o end.

Definition setv (o : ost) (x : vname) (w : view) (rest : list instr) : ost :=
  match x with
  | VMan => mkO rest (cur o) (init o) w (vmac o) (obs o)
  | VMac => mkO rest (cur o) (init o) (vman o) w (obs o)
  end.

Definition resolve (hp : bufid -> content) (w : view) : list N :=
  match w with
  | VNone => []
  | VAlias b off len => rd (hp b) off len
  | VBytes bs => bs
  end.

Fixpoint remove1 (b : bufid) (l : list bufid) : list bufid :=
  match l with
  | [] => []
  | x :: t => if x =? b then t else x :: remove1 b t
  end.

Definition mem (b : bufid) (l : list bufid) : bool := existsb (Nat.eqb b) l.

(* what BufPool.Get hands out: the chosen pooled buffer if it is in the pool, else New() *)
Definition choose (s : state) (c : option bufid) : bufid * list bufid * bufid :=
  match c with
  | Some b => if mem b (pool s) then (b, remove1 b (pool s), next s)
              else (next s, pool s, S (next s))
  | None => (next s, pool s, S (next s))
  end.

Definition event := (opid * option bufid)%type.

Definition step (s : state) (e : event) : option state :=
  let i := fst e in
  let o := ops s i in
  match prog o with
  | [] => None
  | ins :: rest =>
      match ins with
      | IGet =>
          let '(b, pl, nx) := choose s (snd e) in
          Some (mkS (heap s) pl nx
                    (upd (ops s) i (mkO rest (Some b) 0 (vman o) (vmac o) (obs o))))
      | IPut =>
          match cur o with
          | Some b => Some (mkS (heap s) (b :: pool s) (next s)
                                (upd (ops s) i (mkO rest None 0 (vman o) (vmac o) (obs o))))
          | None => None
          end
      | IPutKeep =>
          match cur o with
          | Some b => Some (mkS (heap s) (b :: pool s) (next s)
                                (upd (ops s) i (mkO rest (Some b) (init o) (vman o) (vmac o) (obs o))))
          | None => None
          end
      | IWrite off data =>
          match cur o with
          | Some b => Some (mkS (upd (heap s) b (wr (heap s b) off data)) (pool s) (next s)
                                (upd (ops s) i (mkO rest (Some b)
                                                    (Nat.max (init o) (off + length data))
                                                    (vman o) (vmac o) (obs o))))
          | None => None
          end
      | IView x off len =>
          match cur o with
          | Some b => Some (mkS (heap s) (pool s) (next s)
                                (upd (ops s) i (setv o x (VAlias b off len) rest)))
          | None => None
          end
      | ICopy x off len =>
          match cur o with
          | Some b => Some (mkS (heap s) (pool s) (next s)
                                (upd (ops s) i (setv o x (VBytes (rd (heap s b) off len)) rest)))
          | None => None
          end
      | IUse x =>
          Some (mkS (heap s) (pool s) (next s)
                    (upd (ops s) i (mkO rest (cur o) (init o) (vman o) (vmac o)
                                        (obs o ++ [resolve (heap s) (getv o x)]))))
      | IProcess n m f =>
          match cur o with
          | Some b =>
              let y := fit m (f (rd (heap s b) 0 n)) in
              Some (mkS (upd (heap s) b (wr (heap s b) 0 y)) (pool s) (next s)
                        (upd (ops s) i (mkO rest (Some b) (Nat.max (init o) m)
                                            (vman o) (vmac o) (obs o))))
          | None => None
          end
      | IEmit off len =>
          match cur o with
          | Some b => Some (mkS (heap s) (pool s) (next s)
                                (upd (ops s) i (mkO rest (Some b) (init o) (vman o) (vmac o)
                                                    (obs o ++ [rd (heap s b) off len]))))
          | None => None
          end
      | ICallback _ =>
          Some (mkS (heap s) (pool s) (next s)
                    (upd (ops s) i (mkO rest (cur o) (init o) (vman o) (vmac o) (obs o))))
      end
  end.

Fixpoint run (s : state) (es : list event) : option state :=
  match es with
  | [] => Some s
  | e :: es' => match step s e with Some s' => run s' es' | None => None end
  end.

Definition op0 (p : list instr) : ost := mkO p None 0 VNone VNone [].

(* the process starts with an empty pool; operation i runs program [progs i] *)
Definition init_state (progs : opid -> list instr) : state :=
  mkS (fun _ _ => 0%N) [] 0 (fun i => op0 (progs i)).

Definition reachable (progs : opid -> list instr) (s : state) : Prop :=
  exists es, run (init_state progs) es = Some s.

(* the same operation with nothing else in the process: k of its actions, every Get allocates *)
Definition alone (p : list instr) : state := init_state (fun i => if i =? 0 then p else []).

Fixpoint run_alone_from (t : state) (k : nat) : option state :=
  match k with
  | O => Some t
  | S k' => match step t (0, None) with Some t' => run_alone_from t' k' | None => None end
  end.

Definition run_alone (p : list instr) (k : nat) : option state := run_alone_from (alone p) k.

(* number of actions operation i takes in a schedule *)
Definition count (i : opid) (es : list event) : nat :=
  length (filter (fun e : event => fst e =? i) es).

(* "result" of operation i: everything it has observed *)
Definition result (s : state) (i : opid) : list (list N) := obs (ops s i).

(* ---------------------------------------------------------------------------------------- *)
(* The enc/v1 operations as programs.                                                       *)

(* consecutive in.Read calls filling buf[n:] *)
Fixpoint writes (n : nat) (reads : list (list N)) : list instr :=
  match reads with
  | [] => []
  | c :: t => ICallback CbSrcRead :: IWrite n c :: writes (n + length c) t
  end.

Definition total (reads : list (list N)) : nat := length (concat reads).

(* the pipe's reader drains one Write of [m] bytes in reads of the given sizes *)
Fixpoint emits (off m : nat) (takes : list nat) : list instr :=
  match takes with
  | [] => []
  | k :: t => IEmit off (Nat.min k (m - off)) :: ICallback CbConsume
              :: emits (off + Nat.min k (m - off)) m t
  end.

(* one iteration of processSegments' loop (scheme.go:263-332) *)
Record seg := mkSeg {
  sg_carry : option N;            (* 267-271: carry-over byte stored at buf[0] *)
  sg_reads : list (list N);       (* 277-280: what the source delivered *)
  sg_drop : nat;                  (* 292-298: 1 when an extra byte was read (n--), else 0 *)
  sg_out : nat;                   (* length of the processed segment written to the pipe *)
  sg_f : list N -> list N;        (* 319: fk.EncryptSegment / fk.DecryptSegment for this segment *)
  sg_takes : list nat             (* sizes of the consumer's reads draining the pipe write *)
}.

Definition seg_code (g : seg) : list instr :=
  let c0 := match sg_carry g with Some _ => 1 | None => 0 end in
  (match sg_carry g with Some c => [IWrite 0 [c]] | None => [] end)
  ++ writes c0 (sg_reads g)
  ++ [IProcess (c0 + total (sg_reads g) - sg_drop g) (sg_out g) (sg_f g)]
  ++ emits 0 (sg_out g) (sg_takes g).

(* processSegments: Get; loop; deferred Put *)
Definition process_segments (gs : list seg) : list instr :=
  IGet :: flat_map seg_code gs ++ [IPut].

(* readHeader: the header arrives in [h_reads]; manifest = buf[moff:moff+mlen],
   mac = buf[coff:coff+clen] *)
Record hdr := mkH {
  h_reads : list (list N);
  h_moff : nat; h_mlen : nat;
  h_coff : nat; h_clen : nat
}.

Definition hdr_wf (h : hdr) : Prop :=
  h_moff h + h_mlen h <= total (h_reads h) /\ h_coff h + h_clen h <= total (h_reads h).

Definition read_header (v : variant) (h : hdr) : list instr :=
  IGet :: writes 0 (h_reads h)
  ++ (match v with
      | Original => [IView VMan (h_moff h) (h_mlen h); IView VMac (h_coff h) (h_clen h)]
      | Fixed => [ICopy VMan (h_moff h) (h_mlen h); ICopy VMac (h_coff h) (h_clen h)]
      end)
  ++ [IPut].

(* Decrypt (scheme.go:192-241): readHeader; json.Unmarshal(manifest); UnwrapKeyFn;
   VerifyHeaderSignature(manifest, mac); processSegments *)
Definition decrypt_code (v : variant) (h : hdr) (gs : list seg) : list instr :=
  read_header v h
  ++ [IUse VMan; ICallback CbUnwrap; IUse VMan; IUse VMac]
  ++ process_segments gs.

(* Encrypt (scheme.go:130-175): WrapKeyFn; the header is written from private memory;
   processSegments *)
Definition encrypt_code (gs : list seg) : list instr :=
  ICallback CbWrap :: process_segments gs.

Inductive opdesc :=
| OEncrypt (gs : list seg)
| ODecrypt (h : hdr) (gs : list seg).

Definition compile (v : variant) (d : opdesc) : list instr :=
  match d with
  | OEncrypt gs => encrypt_code gs
  | ODecrypt h gs => decrypt_code v h gs
  end.

Definition desc_wf (d : opdesc) : Prop :=
  match d with OEncrypt _ => True | ODecrypt h _ => hdr_wf h end.

(* ---------------------------------------------------------------------------------------- *)
(* Static discipline of a program: every buffer access happens while the buffer is held and  *)
(* inside what the operation itself wrote since the Get; no alias survives the Put.          *)

Inductive aview := ANone | AAlias (off len : nat) | ABytes.

Definition absv (w : view) : aview :=
  match w with VNone => ANone | VAlias _ off len => AAlias off len | VBytes _ => ABytes end.

Definition is_alias (a : aview) : bool := match a with AAlias _ _ => true | _ => false end.

Definition seta (x : vname) (a : aview) (am ac : aview) : aview * aview :=
  match x with VMan => (a, ac) | VMac => (am, a) end.

Definition geta (x : vname) (am ac : aview) : aview := match x with VMan => am | VMac => ac end.

Fixpoint safe (held : bool) (ini : nat) (am ac : aview) (p : list instr) : bool :=
  match p with
  | [] => true
  | ins :: rest =>
      match ins with
      | IGet => negb held && negb (is_alias am) && negb (is_alias ac) && safe true 0 am ac rest
      | IPut => held && negb (is_alias am) && negb (is_alias ac) && safe false 0 am ac rest
      | IPutKeep => false
      | IWrite off data => held && (off <=? ini) && safe held (Nat.max ini (off + length data)) am ac rest
      | IView x off len =>
          held && (off + len <=? ini)
          && let '(am', ac') := seta x (AAlias off len) am ac in safe held ini am' ac' rest
      | ICopy x off len =>
          held && (off + len <=? ini)
          && let '(am', ac') := seta x ABytes am ac in safe held ini am' ac' rest
      | IUse x =>
          (match geta x am ac with AAlias off len => held && (off + len <=? ini) | _ => true end)
          && safe held ini am ac rest
      | IProcess n m f => held && (n <=? ini) && safe held (Nat.max ini m) am ac rest
      | IEmit off len => held && (off + len <=? ini) && safe held ini am ac rest
      | ICallback _ => safe held ini am ac rest
      end
  end.

Definition safe_prog (p : list instr) : bool := safe false 0 ANone ANone p.

(* ---------------------------------------------------------------------------------------- *)
(* Ownership vocabulary.                                                                    *)

Definition view_refs (w : view) (b : bufid) : Prop :=
  match w with VAlias b' _ _ => b' = b | _ => False end.

(* operation i still holds a reference to pooled buffer b *)
Definition referenced (s : state) (i : opid) (b : bufid) : Prop :=
  cur (ops s i) = Some b \/ view_refs (vman (ops s i)) b \/ view_refs (vmac (ops s i)) b.

(* ---------------------------------------------------------------------------------------- *)
(* The deterministic schedules of the harness: operation 0 (A) runs; whenever it has just     *)
(* executed a callback, complete other operations run (in the order given); the pool is LIFO  *)
(* (sync.Pool on one P: Get returns the buffer that was Put last).                            *)

Definition lifo (s : state) : option bufid :=
  match pool s with b :: _ => Some b | [] => None end.

(* run operation i to completion (at most [fuel] actions) *)
Fixpoint run_op (fuel : nat) (s : state) (i : opid) : state :=
  match fuel with
  | O => s
  | S f => match step s (i, lifo s) with Some s' => run_op f s' i | None => s end
  end.

Definition is_callback (o : ost) : bool :=
  match prog o with ICallback _ :: _ => true | _ => false end.

(* [nest]: for the k-th callback of operation 0, the operations to run inside it *)
Fixpoint run_nested (fuel : nat) (s : state) (k : nat) (nest : nat -> list opid) : state :=
  match fuel with
  | O => s
  | S f =>
      let at_cb := is_callback (ops s 0) in
      match step s (0, lifo s) with
      | None => s
      | Some s' =>
          if at_cb
          then run_nested f (fold_left (fun st j => run_op 4000 st j) (nest k) s') (S k) nest
          else run_nested f s' k nest
      end
  end.

(* ---------------------------------------------------------------------------------------- *)
(* (2) Logger registry: NewLogger(name) = Lock; look up; [create + insert]; Unlock.         *)

Definition name := Z.
Definition logger := nat.            (* identity of a Logger object *)

Inductive rpc :=
| RIdle                               (* before globalLoggersLock.Lock() *)
| RLocked                             (* holds the lock, has not read the map yet *)
| RMiss                               (* logger, ok := globalLoggers[name] gave !ok *)
| RHave (l : logger)                  (* has its logger, deferred Unlock pending *)
| RDone (l : logger).                 (* returned l *)

Record rstate := mkR {
  r_lock : bool;                      (* write lock held *)
  r_map : list (name * logger);       (* globalLoggers *)
  r_next : logger;                    (* allocation counter for newDaprLogger *)
  r_pc : nat -> rpc;                  (* caller t runs NewLogger (names t) once *)
  r_order : list nat                  (* ghost: callers in the order they took the lock *)
}.

Fixpoint lookup (n : name) (m : list (name * logger)) : option logger :=
  match m with
  | [] => None
  | (k, l) :: t => if (k =? n)%Z then Some l else lookup n t
  end.

Inductive revent := RAcq (t : nat) | RLook (t : nat) | RIns (t : nat) | RRel (t : nat).

Definition rstep (names : nat -> name) (s : rstate) (e : revent) : option rstate :=
  match e with
  | RAcq t =>
      match r_pc s t with
      | RIdle => if r_lock s then None
                 else Some (mkR true (r_map s) (r_next s) (upd (r_pc s) t RLocked)
                                (r_order s ++ [t]))
      | _ => None
      end
  | RLook t =>
      match r_pc s t with
      | RLocked =>
          match lookup (names t) (r_map s) with
          | Some l => Some (mkR (r_lock s) (r_map s) (r_next s) (upd (r_pc s) t (RHave l))
                                (r_order s))
          | None => Some (mkR (r_lock s) (r_map s) (r_next s) (upd (r_pc s) t RMiss) (r_order s))
          end
      | _ => None
      end
  | RIns t =>
      match r_pc s t with
      | RMiss =>       (* logger = newDaprLogger(name); globalLoggers[name] = logger *)
          Some (mkR (r_lock s) ((names t, r_next s) :: r_map s) (S (r_next s))
                    (upd (r_pc s) t (RHave (r_next s))) (r_order s))
      | _ => None
      end
  | RRel t =>
      match r_pc s t with
      | RHave l => Some (mkR false (r_map s) (r_next s) (upd (r_pc s) t (RDone l)) (r_order s))
      | _ => None
      end
  end.

Definition rinit : rstate := mkR false [] 0 (fun _ => RIdle) [].

Fixpoint rrun (names : nat -> name) (s : rstate) (es : list revent) : option rstate :=
  match es with
  | [] => Some s
  | e :: es' => match rstep names s e with Some s' => rrun names s' es' | None => None end
  end.

(* A tempting optimisation of NewLogger that is NOT what the tree does: look the name up under
   the READ lock; on a miss take the write lock and create + store WITHOUT looking again.
   (FPeek needs the write lock to be free; readers do not exclude each other.) *)
Inductive fpc := FIdle | FWant | FLocked | FDone (l : logger).

Record fstate := mkF {
  f_lock : bool; f_map : list (name * logger); f_next : logger; f_pc : nat -> fpc
}.

Inductive fevent := FPeek (t : nat) | FAcq (t : nat) | FStore (t : nat).

Definition fstep (names : nat -> name) (s : fstate) (e : fevent) : option fstate :=
  match e with
  | FPeek t =>
      match f_pc s t with
      | FIdle => if f_lock s then None
                 else match lookup (names t) (f_map s) with
                      | Some l => Some (mkF false (f_map s) (f_next s) (upd (f_pc s) t (FDone l)))
                      | None => Some (mkF false (f_map s) (f_next s) (upd (f_pc s) t FWant))
                      end
      | _ => None
      end
  | FAcq t =>
      match f_pc s t with
      | FWant => if f_lock s then None
                 else Some (mkF true (f_map s) (f_next s) (upd (f_pc s) t FLocked))
      | _ => None
      end
  | FStore t =>      (* logger = newDaprLogger(name); globalLoggers[name] = logger; Unlock *)
      match f_pc s t with
      | FLocked => Some (mkF false ((names t, f_next s) :: f_map s) (S (f_next s))
                             (upd (f_pc s) t (FDone (f_next s))))
      | _ => None
      end
  end.

Fixpoint frun (names : nat -> name) (s : fstate) (es : list fevent) : option fstate :=
  match es with
  | [] => Some s
  | e :: es' => match fstep names s e with Some s' => frun names s' es' | None => None end
  end.

Definition finit : fstate := mkF false [] 0 (fun _ => FIdle).

(* ---------------------------------------------------------------------------------------- *)
(* (3) byteslicepool: a slice is (buffer, len, cap); the pool stores slice headers.          *)

Record slice := mkSl { sl_buf : bufid; sl_len : nat; sl_cap : nat }.

Record bstate := mkB {
  b_heap : bufid -> content;
  b_pool : list slice;
  b_next : bufid;
  b_held : nat -> option slice        (* the slice caller t currently owns *)
}.

Definition zero_prefix (h : content) (n : nat) : content := fun j => if j <? n then 0%N else h j.

Inductive bevent :=
| BGet (t : nat) (capacity : nat) (c : option bufid) (* c: the pooled array sync.Pool hands out *)
| BAppend (t : nat) (data : list N)                  (* append within capacity, else reallocate *)
| BResize (t : nat) (n : nat)                        (* sp.Resize(slice, n) *)
| BResizeKeep (t t' : nat) (n : nat)                 (* buf2 := sp.Resize(buf, n) and the caller KEEPS buf
                                                        (buf := Get(..); defer Put(buf); buf = Resize(..)):
                                                        when Resize reallocates, the original slice lives
                                                        on under the caller's second name t' *)
| BPut (t : nat).

Definition has_buf (b : bufid) (sl : slice) : bool := sl_buf sl =? b.

(* [BPut] gives the caller's slice up, so the pool never holds two headers of one array and
   dropping "the headers of array b" drops exactly the one handed out *)
(* how much of a recycled slice Get clears: the length it was Put with (before fix
   C08-byteslicepool-clear-capacity), or its whole capacity (buf = buf[:cap(buf)]; a Go slice
   always has len <= cap, hence the max) *)
Definition clear_upto (v : variant) (sl : slice) : nat :=
  match v with
  | Original => sl_len sl
  | Fixed => Nat.max (sl_len sl) (sl_cap sl)
  end.

Definition bstep (v : variant) (mincap : nat) (s : bstate) (e : bevent) : option bstate :=
  match e with
  | BGet t capacity c =>
      match b_held s t with
      | Some _ => None
      | None =>
          match match c with Some b => find (has_buf b) (b_pool s) | None => None end with
          | Some sl =>
              (* [buf = buf[:cap(buf)];] for i := range buf { buf[i] = 0 }; return buf[:0] *)
              Some (mkB (upd (b_heap s) (sl_buf sl) (zero_prefix (b_heap s (sl_buf sl)) (clear_upto v sl)))
                        (filter (fun x => negb (has_buf (sl_buf sl) x)) (b_pool s)) (b_next s)
                        (upd (b_held s) t (Some (mkSl (sl_buf sl) 0 (sl_cap sl)))))
          | None =>
              (* make([]byte, 0, max(capacity, MinCap)) *)
              Some (mkB (upd (b_heap s) (b_next s) (fun _ => 0%N)) (b_pool s) (S (b_next s))
                        (upd (b_held s) t (Some (mkSl (b_next s) 0 (Nat.max capacity mincap)))))
          end
      end
  | BAppend t data =>
      match b_held s t with
      | None => None
      | Some sl =>
          if sl_len sl + length data <=? sl_cap sl
          then Some (mkB (upd (b_heap s) (sl_buf sl) (wr (b_heap s (sl_buf sl)) (sl_len sl) data))
                         (b_pool s) (b_next s)
                         (upd (b_held s) t (Some (mkSl (sl_buf sl) (sl_len sl + length data) (sl_cap sl)))))
          else (* append reallocates: old bytes copied to a fresh array *)
            let old := rd (b_heap s (sl_buf sl)) 0 (sl_len sl) in
            Some (mkB (upd (b_heap s) (b_next s) (wr (fun _ => 0%N) 0 (old ++ data)))
                      (b_pool s) (S (b_next s))
                      (upd (b_held s) t (Some (mkSl (b_next s) (sl_len sl + length data)
                                                     (2 * (sl_len sl + length data))))))
      end
  | BResize t n =>
      match b_held s t with
      | None => None
      | Some sl =>
          if n <? sl_cap sl
          then (* return orig[0:size]: whatever the array holds up to n becomes visible *)
            Some (mkB (b_heap s) (b_pool s) (b_next s)
                      (upd (b_held s) t (Some (mkSl (sl_buf sl) n (sl_cap sl)))))
          else (* temp := make([]byte, size, max(size, cap*2)); copy(temp, orig) *)
            let old := rd (b_heap s (sl_buf sl)) 0 (sl_len sl) in
            Some (mkB (upd (b_heap s) (b_next s) (wr (fun _ => 0%N) 0 old))
                      (b_pool s) (S (b_next s))
                      (upd (b_held s) t (Some (mkSl (b_next s) n (Nat.max n (2 * sl_cap sl))))))
      end
  | BResizeKeep t t' n =>
      match b_held s t, b_held s t' with
      | Some sl, None =>
          if t =? t' then None
          else if n <? sl_cap sl
          then Some (mkB (b_heap s) (b_pool s) (b_next s)
                         (upd (b_held s) t (Some (mkSl (sl_buf sl) n (sl_cap sl)))))
          else
            let old := rd (b_heap s (sl_buf sl)) 0 (sl_len sl) in
            Some (mkB (upd (b_heap s) (b_next s) (wr (fun _ => 0%N) 0 old))
                      (b_pool s) (S (b_next s))
                      (upd (upd (b_held s) t (Some (mkSl (b_next s) n (Nat.max n (2 * sl_cap sl)))))
                           t' (Some sl)))
      | _, _ => None
      end
  | BPut t =>
      match b_held s t with
      | None => None
      | Some sl => Some (mkB (b_heap s) (sl :: b_pool s) (b_next s) (upd (b_held s) t None))
      end
  end.

(* a Resize that does not shrink the caller's slice *)
Definition grows (s : bstate) (e : bevent) : Prop :=
  match e with
  | BResize t n => match b_held s t with Some sl => sl_len sl <= n | None => True end
  | BResizeKeep _ _ _ => False       (* the exact statement is about one slice per caller *)
  | _ => True
  end.

Fixpoint brun (v : variant) (mincap : nat) (s : bstate) (es : list bevent) : option bstate :=
  match es with
  | [] => Some s
  | e :: es' => match bstep v mincap s e with Some s' => brun v mincap s' es' | None => None end
  end.

(* schedules in which no caller shrinks its slice with Resize (Get clears a recycled slice up to
   the length it was Put with: a caller that shrinks and then Puts leaves its bytes behind) *)
Fixpoint grows_only (v : variant) (mincap : nat) (s : bstate) (es : list bevent) : Prop :=
  match es with
  | [] => True
  | e :: es' => grows s e /\
                match bstep v mincap s e with Some s' => grows_only v mincap s' es' | None => True end
  end.

(* any initial heap content: nothing a caller sees may depend on it *)
Definition binit (h0 : bufid -> content) : bstate := mkB h0 [] 0 (fun _ => None).

(* the bytes caller t can see through its slice *)
Definition visible (s : bstate) (t : nat) : list N :=
  match b_held s t with Some sl => rd (b_heap s (sl_buf sl)) 0 (sl_len sl) | None => [] end.

(* what caller t appended since its last Get (from the schedule alone); growing with Resize
   adds zeroes *)
Fixpoint appended (t : nat) (es : list bevent) (acc : list N) : list N :=
  match es with
  | [] => acc
  | BGet t' _ _ :: es' => appended t es' (if t' =? t then [] else acc)
  | BAppend t' d :: es' => appended t es' (if t' =? t then acc ++ d else acc)
  | BResize t' n :: es' | BResizeKeep t' _ n :: es' =>
      appended t es' (if t' =? t then firstn n acc ++ repeat 0%N (n - length acc) else acc)
  | BPut t' :: es' => appended t es' (if t' =? t then [] else acc)
  end.

(* the bytes every caller wrote into its slice since its last Get (from the schedule alone); the
   second name under which a caller keeps its original slice inherits what the caller wrote *)
Definition w_after (e : bevent) (W : nat -> list N) : nat -> list N :=
  match e with
  | BGet t _ _ => upd W t []
  | BAppend t d => upd W t (W t ++ d)
  | BResize _ _ => W
  | BResizeKeep t t' _ => upd W t' (W t)
  | BPut t => upd W t []
  end.

Fixpoint written (es : list bevent) (W : nat -> list N) : nat -> list N :=
  match es with
  | [] => W
  | e :: es' => written es' (w_after e W)
  end.

(* ---------------------------------------------------------------------------------------- *)
(* (4) default cron parser: [standardParser] is a package variable holding a Parser value     *)
(* (its option bits); ParseStandard(spec) = standardParser.Parse(spec) reads it and never      *)
(* writes it.  [parse] is the pure parsing function (C04's model); here it is a parameter of   *)
(* the statements.                                                                             *)

Record pstate (R : Type) := mkPS {
  ps_options : Z;                       (* standardParser.options *)
  ps_results : list (nat * R)           (* (caller, what ParseStandard returned) *)
}.
Arguments mkPS {R}. Arguments ps_options {R}. Arguments ps_results {R}.

Definition pstep {R} (parse : Z -> list N -> R) (s : pstate R) (e : nat * list N) : pstate R :=
  mkPS (ps_options s) (ps_results s ++ [(fst e, parse (ps_options s) (snd e))]).

Definition prun {R} (parse : Z -> list N -> R) (s : pstate R) (es : list (nat * list N)) : pstate R :=
  fold_left (pstep parse) es s.

(* ---------------------------------------------------------------------------------------- *)
(* (5) scratch objects of the crypto helpers.  crypto/asymmetric_enc.go builds a NEW hash.Hash   *)
(* (hash.New()) for every RSA-OAEP call; a hash.Hash is a stateful object (Reset / Write / Sum). *)
(* [hid t] is the hasher caller t works on: the tree uses one per call (injective), a            *)
(* package-level hasher per digest would be [fun _ => 0].  A Sum is recorded with the bytes the    *)
(* hasher has absorbed (the digest is a function of them).                                         *)

Inductive hop := HReset | HWrite (d : list N) | HSum.

Definition hstate := ((nat -> list N) * list (nat * list N))%type.

Definition hstep (hid : nat -> nat) (s : hstate) (e : nat * hop) : hstate :=
  let '(h, res) := s in
  match snd e with
  | HReset => (upd h (hid (fst e)) [], res)
  | HWrite d => (upd h (hid (fst e)) (h (hid (fst e)) ++ d), res)
  | HSum => (h, res ++ [(fst e, h (hid (fst e)))])
  end.

Definition hrun (hid : nat -> nat) (s : hstate) (es : list (nat * hop)) : hstate :=
  fold_left (hstep hid) es s.

(* what every Sum must return, from the schedule alone: the caller's own writes since its Reset *)
Fixpoint hexpect (es : list (nat * hop)) (acc : nat -> list N) : list (nat * list N) :=
  match es with
  | [] => []
  | e :: es' =>
      let t := fst e in
      match snd e with
      | HReset => hexpect es' (upd acc t [])
      | HWrite d => hexpect es' (upd acc t (acc t ++ d))
      | HSum => (t, acc t) :: hexpect es' acc
      end
  end.

(* ---------------------------------------------------------------------------------------- *)
(* (6) a one-entry cache kept in TWO separately written cells (key, value) in front of a pure    *)
(* function (not in the tree: cron's Parse calls time.LoadLocation every time).  A location is     *)
(* identified with its name, so the right answer for key k is k.                                   *)

Inductive cpc := CStart | CHit | CLoaded | CStoredVal | CRet (v : Z).

Record cstate := mkC { c_key : option Z; c_val : option Z; c_pc : nat -> cpc }.

(* caller t looks up key [keys t]: read the key cell; on a hit read the value cell; on a miss
   load, store the value cell, store the key cell *)
Definition cstep (keys : nat -> Z) (s : cstate) (t : nat) : option cstate :=
  match c_pc s t with
  | CStart =>
      match c_key s with
      | Some k => if (k =? keys t)%Z then Some (mkC (c_key s) (c_val s) (upd (c_pc s) t CHit))
                  else Some (mkC (c_key s) (c_val s) (upd (c_pc s) t CLoaded))
      | None => Some (mkC (c_key s) (c_val s) (upd (c_pc s) t CLoaded))
      end
  | CHit =>
      match c_val s with
      | Some v => Some (mkC (c_key s) (c_val s) (upd (c_pc s) t (CRet v)))
      | None => Some (mkC (c_key s) (c_val s) (upd (c_pc s) t CLoaded))
      end
  | CLoaded => Some (mkC (c_key s) (Some (keys t)) (upd (c_pc s) t CStoredVal))
  | CStoredVal => Some (mkC (Some (keys t)) (c_val s) (upd (c_pc s) t (CRet (keys t))))
  | CRet _ => None
  end.

Fixpoint crun (keys : nat -> Z) (s : cstate) (ts : list nat) : option cstate :=
  match ts with
  | [] => Some s
  | t :: ts' => match cstep keys s t with Some s' => crun keys s' ts' | None => None end
  end.

(* ---------------------------------------------------------------------------------------- *)
(* (7) a per-process memo keyed by a caller-chosen LABEL (key id, key name, algorithm string) in   *)
(* front of a function of the key MATERIAL (not in the tree: crypto extracts the raw key from the   *)
(* JWK on every call).  A call is (label, material); the right answer is the material's own.        *)

Definition mcall (memo : list (Z * Z)) (c : Z * Z) : list (Z * Z) * Z :=
  match find (fun p : Z * Z => (fst p =? fst c)%Z) memo with
  | Some p => (memo, snd p)
  | None => (c :: memo, snd c)
  end.

Fixpoint mrun (memo : list (Z * Z)) (calls : list (Z * Z)) : list Z :=
  match calls with
  | [] => []
  | c :: rest => let '(memo', r) := mcall memo c in r :: mrun memo' rest
  end.
