(* C08 — executable correspondence interface.  The Go harness prints [case] terms holding the
   input AND what the implementation was observed to do (for every pipeline / look-up: how its
   result compares with ITS OWN solo result and the known plaintext).  [check_case] evaluates
   the spec oracle on the observation (2 when some result differs from its solo result) and
   compares with what the model of the current tree (Fixed) predicts for the same nesting. *)
From Kit Require Export C08.Model C08.Spec Lib.CheckLib.

(* a pipeline of the harness: header length of its document, message, chunk size of its
   sources, read size of its consumers *)
Record pdesc := mkPD { pd_hdr : Z; pd_msg : list N; pd_chunk : Z; pd_take : Z }.

Fixpoint chunks_aux (fuel k : nat) (l : list N) : list (list N) :=
  match fuel with
  | O => []
  | S f => match l with [] => [] | _ => firstn k l :: chunks_aux f k (skipn k l) end
  end.
Definition chunks (k : nat) (l : list N) : list (list N) := chunks_aux (length l) (Nat.max 1 k) l.

(* abstract AEAD of pipeline p: only its shape matters here (in place, +16 / -16 bytes) *)
Definition a_enc (key : N) (x : list N) : list N := map (N.lxor key) x ++ repeat key 16.
Definition a_dec (key : N) (y : list N) : list N := map (N.lxor key) (firstn (length y - 16) y).

Definition keyof (p : nat) : N := N.of_nat (1 + (p * 37) mod 250).

(* synthetic header of pipeline p (the real one holds a random wrapped key; only its length,
   its line structure and the fact that it differs from other pipelines' bytes matter) *)
Definition hdr_bytes (p : nat) (len : nat) : list N :=
  map (fun j => N.of_nat ((p * 31 + j * 7 + 3) mod 256)) (seq 0 len).

Definition takes_of (take m : nat) : list nat := repeat (Nat.max 1 take) (S (m / Nat.max 1 take)).

Definition enc_desc (p : nat) (d : pdesc) : opdesc :=
  let msg := pd_msg d in
  OEncrypt (match msg with
            | [] => []
            | _ => [mkSeg None (chunks (Z.to_nat (pd_chunk d)) msg ++ [[]]) 0 (length msg + 16)
                          (a_enc (keyof p)) (takes_of (Z.to_nat (pd_take d)) (length msg + 16))]
            end).

Definition dec_desc (p : nat) (d : pdesc) : opdesc :=
  let msg := pd_msg d in
  let hl := Z.to_nat (pd_hdr d) in
  let ct := match msg with [] => [] | _ => a_enc (keyof p) msg end in
  let stream := hdr_bytes p hl ++ ct in
  let k := Nat.max 1 (Z.to_nat (pd_chunk d)) in
  let nh := (hl + k - 1) / k in                      (* reads until the header is complete *)
  let hread := firstn (nh * k) stream in
  let extra := skipn hl hread in
  let rest := skipn (nh * k) stream in
  ODecrypt (mkH (chunks k hread) 15 (hl - 15 - 46) (hl - 45) 44)
           (match ct with
            | [] => []
            | _ => [mkSeg None ((match extra with [] => [] | _ => [extra] end) ++ chunks k rest ++ [[]]) 0
                          (length msg) (a_dec (keyof p))
                          (takes_of (Z.to_nat (pd_take d)) (length msg))]
            end).

(* pipeline p = operations 2p (Encrypt) and 2p+1 (Decrypt) *)
Definition progs_of (v : variant) (ps : list pdesc) : opid -> list instr :=
  fun i => match nth_error ps (i / 2) with
           | Some d => compile v (if Nat.even i then enc_desc (i / 2) d else dec_desc (i / 2) d)
           | None => []
           end.

(* where pipelines are nested: (callback kind, its index among A's callbacks of that kind,
   encrypt side or decrypt side of A, the pipelines (indices >= 1) to run there) *)
Inductive cbk := KWrap | KUnwrap | KSrc | KCons.
Definition cb_is (k : cbk) (c : cb) : bool :=
  match k, c with
  | KWrap, CbWrap | KUnwrap, CbUnwrap | KSrc, CbSrcRead | KCons, CbConsume => true
  | _, _ => false
  end.

Record nest := mkN { n_dec : bool; n_kind : cbk; n_idx : Z; n_pipes : list Z }.

Definition next_cb (o : ost) : option cb :=
  match prog o with ICallback c :: _ => Some c | _ => None end.

Definition run_pipe (s : state) (p : nat) : state :=
  run_op 4000 (run_op 4000 s (2 * p)) (2 * p + 1).

(* run operation [a]; after its j-th callback of kind k run the pipelines nested there *)
Fixpoint run_outer (fuel : nat) (s : state) (a : opid) (isdec : bool) (nests : list nest)
         (cw cu cs cc : nat) : state :=
  match fuel with
  | O => s
  | S f =>
      let nc := next_cb (ops s a) in
      match step s (a, lifo s) with
      | None => s
      | Some s' =>
          match nc with
          | None => run_outer f s' a isdec nests cw cu cs cc
          | Some c =>
              let idx := match c with CbWrap => cw | CbUnwrap => cu | CbSrcRead => cs | CbConsume => cc end in
              let here := filter (fun n => Bool.eqb (n_dec n) isdec && cb_is (n_kind n) c
                                           && (Z.to_nat (n_idx n) =? idx)) nests in
              let s'' := fold_left (fun st n => fold_left (fun st' p => run_pipe st' (Z.to_nat p))
                                                          (n_pipes n) st) here s' in
              match c with
              | CbWrap => run_outer f s'' a isdec nests (S cw) cu cs cc
              | CbUnwrap => run_outer f s'' a isdec nests cw (S cu) cs cc
              | CbSrcRead => run_outer f s'' a isdec nests cw cu (S cs) cc
              | CbConsume => run_outer f s'' a isdec nests cw cu cs (S cc)
              end
          end
      end
  end.

Definition run_case (v : variant) (ps : list pdesc) (nests : list nest) : state :=
  let s0 := init_state (progs_of v ps) in
  let s1 := run_outer 4000 s0 0 false nests 0 0 0 0 in
  let s2 := run_outer 4000 s1 1 true nests 0 0 0 0 in
  (* pipelines nested at a callback index A does not reach simply run afterwards *)
  fold_left run_pipe (seq 1 (length ps - 1)) s2.

Fixpoint eqb_trace (a b : list (list N)) : bool :=
  match a, b with
  | [], [] => true
  | x :: a', y :: b' => eqb_listN x y && eqb_trace a' b'
  | _, _ => false
  end.

Definition solo_trace (p : list instr) : list (list N) :=
  result (run_op 4000 (alone p) 0) 0.

(* class of one operation: its observations against its solo observations.  A Decrypt whose
   manifest or MAC bytes changed under it fails the signature check; any other difference is a
   different byte stream *)
Definition op_class (isdec : bool) (tr solo : list (list N)) : cls :=
  if eqb_trace tr solo then Same
  else if isdec && negb (eqb_trace (firstn 3 tr) (firstn 3 solo)) then ErrSig
  else Differs.

Definition pipe_class (v : variant) (ps : list pdesc) (s : state) (p : nat) : cls :=
  let pe := progs_of v ps (2 * p) in
  let pd := progs_of v ps (2 * p + 1) in
  match op_class false (result s (2 * p)) (solo_trace pe) with
  | Same => op_class true (result s (2 * p + 1)) (solo_trace pd)
  | c => c
  end.

Definition predict (v : variant) (ps : list pdesc) (nests : list nest) : list cls :=
  let s := run_case v ps nests in
  map (pipe_class v ps s) (seq 0 (length ps)).

(* every pipeline nested somewhere, or pipeline 0, was run: the decrypted bytes of the model's
   Decrypt are the message *)
Definition cls_eqb (a b : cls) : bool :=
  match a, b with
  | Same, Same | Differs, Differs | ErrSig, ErrSig | ErrOther, ErrOther | Panicked, Panicked => true
  | _, _ => false
  end.

Fixpoint eqb_clss (a b : list cls) : bool :=
  match a, b with
  | [], [] => true
  | x :: a', y :: b' => cls_eqb x y && eqb_clss a' b'
  | _, _ => false
  end.

Inductive case :=
(* deterministic nesting: pipelines (0 = A), where the others run inside A's callbacks,
   observed class of every pipeline *)
| CNest (ps : list pdesc) (nests : list nest) (obs : list cls)
(* concurrent / large runs judged on the observation alone *)
| CObs (obs : list cls)
(* byteslicepool cycle: stale bytes put back (slice of that length), then Get + append data:
   observed length right after Get and bytes visible after the append *)
| CPool (stale : list N) (data : list N) (got_len : Z) (seen : list N)
(* logger look-ups: (name, identity class of the Logger returned; classes numbered in order of
   first appearance) *)
| CReg (obs : list (Z * Z))
(* look-ups of the same fresh names by several goroutines behind a barrier, then the same
   names again sequentially: the distinct (name, logger) pairs seen, and for every distinct
   logger whether options applied through the registry reached it *)
| CRegApply (obs : list (Z * Z)) (reached : list bool)
(* the nested mode after FAULTS (streams that ended on an error path: tampered document, consumer
   closing the pipe early, failing source, ...): class of every fault run against its own solo
   run, then as CNest *)
| CNestF (faults : list cls) (ps : list pdesc) (nests : list nest) (obs : list cls)
(* byteslicepool: a sequence of Get / append / Resize / Put by several users of one pool and what
   the acting user saw through its slice after each *)
| CPoolSeq (ops : list pop) (seen : list (list N)).

Definition pool_model (stale data : list N) : Z * list N :=
  let ev := [BGet 0 (length stale) None; BAppend 0 stale; BPut 0; BGet 1 0 (Some 0)] in
  match brun Fixed 0 (binit (fun _ _ => 0%N)) ev with
  | Some s =>
      let l := match b_held s 1 with Some sl => Z.of_nat (sl_len sl) | None => (-1)%Z end in
      match bstep Fixed 0 s (BAppend 1 data) with
      | Some s' => (l, visible s' 1)
      | None => (l, [])
      end
  | None => ((-1)%Z, [])
  end.

Definition oracle (c : case) : bool :=
  match c with
  | CNest _ _ obs => all_same_b obs
  | CObs obs => all_same_b obs
  | CPool stale data got_len seen => (got_len =? 0)%Z && eqb_listN seen data
  | CReg obs => same_name_same_logger obs
  | CRegApply obs reached => same_name_same_logger obs && forallb (fun b : bool => b) reached
  | CNestF faults _ _ obs => all_same_b (faults ++ obs)
  | CPoolSeq ops seen => pool_seq_ok_b [] ops seen
  end.

(* the pool model on a recorded sequence: what the acting user sees after each operation
   (C08_byteslicepool_exact: independent of sync.Pool's choices as long as nobody shrinks) *)
Definition bev_of (o : pop) : list bevent :=
  match o with
  | PGet u c => [BGet (Z.to_nat u) (Z.to_nat c) None]
  | PAppend u d => [BAppend (Z.to_nat u) d]
  | PResize u n => [BResize (Z.to_nat u) (Z.to_nat n)]
  | PPut u => [BPut (Z.to_nat u)]
  | PCheck _ => []
  end.

Fixpoint pool_seq_model (pre : list bevent) (ops : list pop) : list (list N) * bool :=
  match ops with
  | [] => ([], false)
  | o :: ops' =>
      let u := Z.to_nat (user_of o) in
      let before := appended u pre [] in
      let pre' := pre ++ bev_of o in
      let shrink := match o with PResize _ n => (Z.to_nat n <? length before) | _ => false end in
      let '(rest, sh) := pool_seq_model pre' ops' in
      (appended u pre' [] :: rest, shrink || sh)
  end.

Fixpoint eqb_seen (a b : list (list N)) : bool :=
  match a, b with
  | [], [] => true
  | x :: a', y :: b' => eqb_listN x y && eqb_seen a' b'
  | _, _ => false
  end.

(* the registry model (sequential get-or-create, justified for every interleaving by
   C08_registry_linearizable) on the observed sequence of names: logger k is the k-th created *)
Definition reg_model (ns : list Z) : list Z :=
  let '(_, _, res) := seq_registry (fun t => nth t ns 0%Z) (seq 0 (length ns)) [] 0 [] in
  map (fun p : nat * logger => Z.of_nat (snd p)) res.

(* the premises of C08_predict_fixed_all_same, decided on the recorded pipelines: every program
   obeys the discipline and fits the fuel of the evaluation; and the solo trace the classes are
   computed against is the solo result of the theorems (C08_solo_trace_is_solo_result) *)
Definition nest_premises_b (ps : list pdesc) : bool :=
  forallb (fun i => let p := progs_of Fixed ps i in
                    safe_prog p && (length p <=? 4000)
                    && (if i <? 2 then eqb_trace (solo_trace p) (solo_result p) else true))
          (seq 0 (2 * length ps)).

Definition model_agrees (v : variant) (c : case) : bool :=
  match c with
  | CNest ps nests obs => (negb (is_fixed v) || nest_premises_b ps) && eqb_clss (predict v ps nests) obs
  | CObs _ => true
  | CPool stale data got_len seen =>
      let '(l, vis) := pool_model stale data in (l =? got_len)%Z && eqb_listN vis seen
  | CReg obs => eqb_listZ (reg_model (map fst obs)) (map snd obs)
  | CRegApply obs _ => eqb_listZ (reg_model (map fst obs)) (map snd obs)
  | CNestF _ ps nests obs => (negb (is_fixed v) || nest_premises_b ps) && eqb_clss (predict v ps nests) obs
  | CPoolSeq ops seen =>
      let '(m, shrink) := pool_seq_model [] ops in
      shrink || eqb_seen m seen     (* after a shrink what is seen depends on sync.Pool's choice *)
  end.

(* 0 = agree and oracle holds; 1 = model and implementation differ; 2 = the implementation's
   observed behaviour violates the spec *)
Definition check_case (c : case) : Z :=
  if negb (oracle c) then 2 else if negb (model_agrees Fixed c) then 1 else 0.

Definition run_cases (cs : list (Z * case)) : list (Z * Z) := failures check_case cs.

(* the Original model on the witness nesting: B runs inside A's UnwrapKeyFn *)
Definition witness_ps : list pdesc :=
  [mkPD 200 [65;65;65;65;65;65;65;65]%N 64 32; mkPD 210 [66;66;66;66;66]%N 64 32].
Definition witness_nests : list nest := [mkN true KUnwrap 0 [1%Z]].

Example witness_original : predict Original witness_ps witness_nests = [ErrSig; Same].
Proof. vm_compute. reflexivity. Qed.
Example witness_fixed : predict Fixed witness_ps witness_nests = [Same; Same].
Proof. vm_compute. reflexivity. Qed.

Example reg_model_ex : reg_model [5; 7; 5; 9; 7]%Z = [0; 1; 0; 2; 1]%Z.
Proof. vm_compute. reflexivity. Qed.

Example pool_seq_ex :
  pool_seq_model [] [PGet 1 8; PAppend 1 [17; 18]%N; PPut 1; PGet 2 0; PResize 2 3; PAppend 2 [33]%N; PGet 1 0; PCheck 2]
  = ([[]; [17; 18]; []; []; [0; 0; 0]; [0; 0; 0; 33]; []; [0; 0; 0; 33]]%N, false).
Proof. vm_compute. reflexivity. Qed.
