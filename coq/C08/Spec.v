(* C08 — the property, written from its text (properties.jsonl, id C08):

   "Operations on independent objects - separate Encrypt/Decrypt streams, separate keys and
    messages, separate parsers, loggers and byte-slice pools - give the same results when run
    concurrently in one process as when run alone [...].  Package-level shared state (the
    encryption buffer pool, logger registry, default cron parser, pooled byte slices) never
    carries one caller's bytes into another caller's result or failure."

   The vocabulary (states, schedules, what an operation observes) comes from Model.v; the
   predicates below do not look at how the operations are programmed. *)
From Kit Require Export C08.Model.

(* Same results concurrently as alone: in EVERY schedule, what operation i has observed is what
   it observes after the same number of its own actions with nothing else in the process. *)
Definition noninterfering (progs : opid -> list instr) : Prop :=
  forall es s i, run (init_state progs) es = Some s ->
    exists t, run_alone (progs i) (count i es) = Some t /\ result s i = result t 0.

(* No carrying of bytes through the pool: a pooled buffer that an operation still references
   cannot be handed to anybody else (it is not in the pool) and nobody else references it. *)
Definition exclusive (s : state) : Prop :=
  forall i b, referenced s i b ->
    ~ In b (pool s) /\ forall j, referenced s j b -> j = i.

(* Logger registry: NewLogger behaves like one get-or-create executed atomically per call, in
   some order of the calls (here: the order [order]); [seq_registry] is that sequential
   behaviour, returning the logger each caller got. *)
Fixpoint seq_registry (names : nat -> name) (order : list nat)
         (m : list (name * logger)) (nx : logger) (acc : list (nat * logger))
  : list (name * logger) * logger * list (nat * logger) :=
  match order with
  | [] => (m, nx, acc)
  | t :: rest =>
      match lookup (names t) m with
      | Some l => seq_registry names rest m nx (acc ++ [(t, l)])
      | None => seq_registry names rest ((names t, nx) :: m) (S nx) (acc ++ [(t, nx)])
      end
  end.

(* what the harness observes of one pipeline / look-up, relative to its run alone *)
Inductive cls :=
| Same            (* result identical to the solo result (and to the known plaintext) *)
| Differs         (* completed, but with different bytes *)
| ErrSig          (* failed with ErrDecryptionSignature although the solo run succeeded *)
| ErrOther        (* failed otherwise although the solo run succeeded *)
| Panicked.

Definition is_same (c : cls) : bool := match c with Same => true | _ => false end.

(* the observations of one run satisfy the property iff every result equals its solo result *)
Definition all_same (obs : list cls) : Prop := Forall (fun c => c = Same) obs.
Definition all_same_b (obs : list cls) : bool := forallb is_same obs.

(* byteslicepool: through the slice it got, a caller sees only zeroes or bytes it wrote itself
   since its Get - whatever was in memory before and whatever other callers did with the pool
   (including shrinking a slice before putting it back). *)
Definition no_carry (mincap : nat) : Prop :=
  forall h0 es s t x, brun Fixed mincap (binit h0) es = Some s ->
                      In x (visible s t) -> x = 0%N \/ In x (written es (fun _ => []) t).

(* ... and, as long as no caller shrinks its slice, exactly the bytes it appended, with zeroes
   where it grew the slice with Resize (both before and after the fix). *)
Definition exact_when_growing (v : variant) (mincap : nat) : Prop :=
  forall h0 es s t, brun v mincap (binit h0) es = Some s -> grows_only v mincap (binit h0) es ->
                    visible s t = appended t es [].

(* observations of look-ups: same name <-> same logger *)
Fixpoint same_name_same_logger (obs : list (Z * Z)) : bool :=
  match obs with
  | [] => true
  | (n, l) :: rest =>
      forallb (fun p : Z * Z => Bool.eqb (fst p =? n)%Z (snd p =? l)%Z) rest
      && same_name_same_logger rest
  end.

(* the declarative reading of the same: for any two look-ups, equal names <-> same Logger *)
Definition reg_consistent (obs : list (Z * Z)) : Prop :=
  ForallOrdPairs (fun a p : Z * Z => fst p = fst a <-> snd p = snd a) obs.

(* options applied through the registry reach every logger a caller was given *)
Definition all_reached (r : list bool) : Prop := Forall (fun b => b = true) r.

(* byteslicepool sequences over the whole API by several users: after every operation the acting
   user sees only zeroes or bytes it appended itself since its Get; a fresh Get shows nothing *)
(* [PCheck u]: no call at all - user u looks again at the slice it is still holding *)
Inductive pop :=
| PGet (u cap : Z) | PAppend (u : Z) (d : list N) | PResize (u n : Z) | PPut (u : Z) | PCheck (u : Z).

Definition user_of (o : pop) : Z :=
  match o with PGet u _ | PAppend u _ | PResize u _ | PPut u | PCheck u => u end.

Definition wget (w : list (Z * list N)) (u : Z) : list N :=
  match find (fun p : Z * list N => (fst p =? u)%Z) w with Some p => snd p | None => [] end.

Definition wnext (w : list (Z * list N)) (o : pop) : list (Z * list N) :=
  match o with
  | PGet u _ => (u, []) :: w
  | PAppend u d => (u, wget w u ++ d) :: w
  | _ => w
  end.

Fixpoint pool_seq_ok (w : list (Z * list N)) (ops : list pop) (seen : list (list N)) : Prop :=
  match ops, seen with
  | [], [] => True
  | o :: ops', sn :: seen' =>
      let w' := wnext w o in
      (match o with PGet _ _ | PPut _ => sn = [] | _ => True end) /\
      (forall x, In x sn -> x = 0%N \/ In x (wget w' (user_of o))) /\
      pool_seq_ok w' ops' seen'
  | _, _ => False
  end.

Fixpoint pool_seq_ok_b (w : list (Z * list N)) (ops : list pop) (seen : list (list N)) : bool :=
  match ops, seen with
  | [], [] => true
  | o :: ops', sn :: seen' =>
      let w' := wnext w o in
      (match o with PGet _ _ | PPut _ => match sn with [] => true | _ => false end | _ => true end)
      && forallb (fun x => (x =? 0)%N || existsb (N.eqb x) (wget w' (user_of o))) sn
      && pool_seq_ok_b w' ops' seen'
  | _, _ => false
  end.

(* an operation has executed its whole program *)
Definition finished (s : state) (i : opid) : Prop := prog (ops s i) = [].

(* THE result of a program alone in the process: everything it observes when it runs to its end
   (one action per instruction) with nothing else around *)
Definition solo_result (p : list instr) : list (list N) :=
  match run_alone p (length p) with Some t => result t 0 | None => [] end.
