(* C08 — progress and termination of the pooled-buffer operations, the COMPLETE result of an
   operation in any schedule, and the tie between these statements and the functions the
   correspondence check evaluates (Check.solo_trace, Check.predict). *)
From Kit Require Import C08.Model C08.Spec C08.Check C08.Proofs.
From Coq Require Import Lia Arith.

(* ---------------------------------------------------------------------------------------- *)
(* one step: the acting operation pops one instruction, the others are untouched *)

Lemma step_own s i c s' :
  step s (i, c) = Some s' -> exists ins, prog (ops s i) = ins :: prog (ops s' i).
Proof.
  unfold step. cbn [fst snd]. intro H.
  destruct (prog (ops s i)) as [|ins rest] eqn:Ep; [discriminate|].
  exists ins. f_equal.
  destruct ins;
    try (destruct (cur (ops s i)) as [b|]; [|discriminate]);
    try (destruct (choose s c) as [[b1 pl] nx]);
    try (destruct x);
    inversion H; subst; cbn [ops]; rewrite upd_same; reflexivity.
Qed.

Lemma step_other s i j c s' : step s (j, c) = Some s' -> i <> j -> ops s' i = ops s i.
Proof.
  unfold step. cbn [fst snd]. intros H N.
  destruct (prog (ops s j)) as [|ins rest]; [discriminate|].
  destruct ins;
    try (destruct (cur (ops s j)) as [b|]; [|discriminate]);
    try (destruct (choose s c) as [[b1 pl] nx]);
    inversion H; subst; cbn [ops]; apply upd_other; exact N.
Qed.

Lemma step_finished s i c : finished s i -> step s (i, c) = None.
Proof. unfold finished, step. cbn [fst]. intros ->. reflexivity. Qed.

(* progress: a disciplined operation that has not finished can ALWAYS take its next action,
   whatever the other operations are doing and whatever the pool holds *)
Lemma progress s i c : Inv s -> ~ finished s i -> exists s', step s (i, c) = Some s'.
Proof.
  intros I Hnf. unfold finished in Hnf. unfold step. cbn [fst snd].
  destruct (inv_ok s I i) as [Hsafe _].
  destruct (prog (ops s i)) as [|ins rest] eqn:Ep; [contradiction Hnf; reflexivity|].
  assert (Hcur : forall rest', heldb (ops s i) && rest' = true -> exists b, cur (ops s i) = Some b).
  { intros r H. apply andb_true_iff in H. destruct H as [H _]. unfold heldb in H.
    destruct (cur (ops s i)) as [b|]; [exists b; reflexivity | discriminate]. }
  destruct ins; cbn [safe] in Hsafe.
  - destruct (choose s c) as [[b pl] nx]. eexists. reflexivity.
  - rewrite <- !andb_assoc in Hsafe. destruct (Hcur _ Hsafe) as [b ->]. eexists. reflexivity.
  - discriminate.
  - rewrite <- !andb_assoc in Hsafe. destruct (Hcur _ Hsafe) as [b ->]. eexists. reflexivity.
  - rewrite <- !andb_assoc in Hsafe. destruct (Hcur _ Hsafe) as [b ->]. eexists. reflexivity.
  - rewrite <- !andb_assoc in Hsafe. destruct (Hcur _ Hsafe) as [b ->]. eexists. reflexivity.
  - eexists. reflexivity.
  - rewrite <- !andb_assoc in Hsafe. destruct (Hcur _ Hsafe) as [b ->]. eexists. reflexivity.
  - rewrite <- !andb_assoc in Hsafe. destruct (Hcur _ Hsafe) as [b ->]. eexists. reflexivity.
  - eexists. reflexivity.
Qed.

(* the number of actions an operation can take is the length of its program *)
Lemma steps_accounted es : forall s s' i,
  run s es = Some s' -> length (prog (ops s' i)) + count i es = length (prog (ops s i)).
Proof.
  induction es as [|[j c] es IH]; intros s s' i H; cbn [run] in H.
  - inversion H; subst. cbn. lia.
  - destruct (step s (j, c)) as [s1|] eqn:E; [|discriminate].
    rewrite count_cons. specialize (IH s1 s' i H).
    destruct (j =? i) eqn:Eji.
    + apply Nat.eqb_eq in Eji. subst j. destruct (step_own s i c s1 E) as [ins Hp].
      rewrite Hp. cbn [length]. lia.
    + apply Nat.eqb_neq in Eji. rewrite (step_other s i j c s1 E) in IH by congruence. exact IH.
Qed.

Theorem steps_bounded progs es s i :
  run (init_state progs) es = Some s ->
  length (prog (ops s i)) + count i es = length (progs i).
Proof. intro H. exact (steps_accounted es _ _ i H). Qed.

(* ---------------------------------------------------------------------------------------- *)
(* termination: alone, and inside any schedule *)

Lemma alone_safe p : safe_prog p = true ->
  forall i, safe_prog ((fun i => if i =? 0 then p else []) i) = true.
Proof. intros H i. cbn. destruct (i =? 0); [exact H | reflexivity]. Qed.

Lemma run_alone_completes k : forall t,
  Inv t -> length (prog (ops t 0)) = k ->
  exists t', run_alone_from t k = Some t' /\ finished t' 0 /\ Inv t'.
Proof.
  induction k as [|k IH]; intros t I Hk; cbn [run_alone_from].
  - exists t. split; [reflexivity|]. split; [|exact I].
    unfold finished. destruct (prog (ops t 0)); [reflexivity | discriminate].
  - assert (Hnf : ~ finished t 0) by (unfold finished; intro E; rewrite E in Hk; discriminate).
    destruct (progress t 0 None I Hnf) as [t1 E1].
    destruct (step_own t 0 None t1 E1) as [ins Hp].
    destruct (IH t1) as [t' Ht'].
    + eapply Inv_step; eassumption.
    + rewrite Hp in Hk. cbn in Hk. lia.
    + exists t'. assert (E2 : step t (0, None) = Some t1) by exact E1.
      unfold opid, bufid in *. rewrite E2. exact Ht'.
Qed.

Theorem solo_terminates p : safe_prog p = true ->
  exists t, run_alone p (length p) = Some t /\ finished t 0.
Proof.
  intro H. unfold run_alone.
  destruct (run_alone_completes (length p) (alone p)) as [t [H1 [H2 _]]].
  - apply Inv_init. apply alone_safe. exact H.
  - reflexivity.
  - exists t. split; assumption.
Qed.

(* from ANY reachable state, operation i alone can be driven to its end (nobody can block it) *)
Theorem can_always_finish progs es s i :
  (forall j, safe_prog (progs j) = true) -> run (init_state progs) es = Some s ->
  exists es' s', run s es' = Some s' /\ finished s' i /\
                 count i es' = length (prog (ops s i)).
Proof.
  intros Hs Hr. assert (I : Inv s) by (eapply Inv_run; [apply Inv_init; exact Hs | exact Hr]).
  clear Hr. remember (length (prog (ops s i))) as k eqn:Hk. revert s I Hk.
  induction k as [|k IH]; intros s I Hk.
  - exists [], s. split; [reflexivity|]. split; [|reflexivity].
    unfold finished. destruct (prog (ops s i)); [reflexivity | discriminate].
  - assert (Hnf : ~ finished s i) by (unfold finished; intro E; rewrite E in Hk; discriminate).
    destruct (progress s i None I Hnf) as [s1 E1].
    destruct (step_own s i None s1 E1) as [ins Hp].
    destruct (IH s1) as [es' [s' [H1 [H2 H3]]]].
    + eapply Inv_step; eassumption.
    + rewrite Hp in Hk. cbn in Hk. lia.
    + exists ((i, None) :: es'), s'. split; [cbn [run]; rewrite E1; exact H1|]. split; [exact H2|].
      rewrite count_cons, Nat.eqb_refl. rewrite H3. reflexivity.
Qed.

(* ---------------------------------------------------------------------------------------- *)
(* the COMPLETE result: whenever an operation has finished, in whatever schedule, what it has
   observed is its solo result *)

Theorem completed_result progs es s i :
  (forall j, safe_prog (progs j) = true) -> run (init_state progs) es = Some s ->
  finished s i -> result s i = solo_result (progs i).
Proof.
  intros Hs Hr Hf.
  destruct (noninterference progs Hs es s i Hr) as [t [Ht Hres]].
  pose proof (steps_bounded progs es s i Hr) as Hc. unfold finished in Hf. rewrite Hf in Hc.
  cbn in Hc. rewrite Hc in Ht. unfold solo_result. rewrite Ht. exact Hres.
Qed.

(* ---------------------------------------------------------------------------------------- *)
(* the functions of Check.v *)

Lemma run_op_reach f : forall s i, exists es, run s es = Some (run_op f s i).
Proof.
  induction f as [|f IH]; intros s i; cbn [run_op].
  - exists []. reflexivity.
  - destruct (step s (i, lifo s)) as [s1|] eqn:E.
    + destruct (IH s1 i) as [es H]. exists ((i, lifo s) :: es). cbn [run]. rewrite E. exact H.
    + exists []. reflexivity.
Qed.

Lemma run_op_done f : forall s i,
  Inv s -> length (prog (ops s i)) <= f -> finished (run_op f s i) i.
Proof.
  induction f as [|f IH]; intros s i I Hl; cbn [run_op].
  - unfold finished. destruct (prog (ops s i)); [reflexivity | cbn in Hl; lia].
  - destruct (step s (i, lifo s)) as [s1|] eqn:E.
    + destruct (step_own s i _ s1 E) as [ins Hp]. apply IH; [eapply Inv_step; eassumption|].
      rewrite Hp in Hl. cbn in Hl. lia.
    + destruct (prog (ops s i)) as [|ins rest] eqn:Ep; [exact Ep|].
      exfalso. assert (Hnf : ~ finished s i) by (unfold finished; rewrite Ep; discriminate).
      destruct (progress s i (lifo s) I Hnf) as [s' E']. congruence.
Qed.

(* what the harness-side checker computes as "the solo trace" (LIFO pool, fuel 4000) IS the solo
   result of the theorems *)
Theorem solo_trace_is_solo_result p :
  safe_prog p = true -> length p <= 4000 -> solo_trace p = solo_result p.
Proof.
  intros Hs Hl. unfold solo_trace.
  set (progs := fun i : nat => if i =? 0 then p else []).
  assert (Hsafe : forall j, safe_prog (progs j) = true) by (apply alone_safe; exact Hs).
  destruct (run_op_reach 4000 (alone p) 0) as [es Hes].
  change (alone p) with (init_state progs) in *.
  assert (Hf : finished (run_op 4000 (init_state progs) 0) 0).
  { apply run_op_done; [apply Inv_init; exact Hsafe | exact Hl]. }
  exact (completed_result progs es _ 0 Hsafe Hes Hf).
Qed.

(* non-vacuity: the witness operations on the fixed tree *)
Example progress_nonvacuous :
  let p := compile Fixed (ODecrypt (mkH [[1;2;3;4;5;6]%N] 1 2 4 2) []) in
  safe_prog p = true /\ length p = 12 /\ solo_trace p = [[2;3]; [2;3]; [5;6]]%N /\
  solo_result p = [[2;3]; [2;3]; [5;6]]%N.
Proof. vm_compute. repeat split; reflexivity. Qed.

(* ---------------------------------------------------------------------------------------- *)
(* Check.predict: the nested schedules the correspondence check evaluates are schedules of the
   event system, every operation in them runs to its end, hence the model's prediction for the
   current tree is "Same" for every pipeline — by the theorems, not by evaluation. *)

Definition reaching (F : state -> state) : Prop := forall s, exists es, run s es = Some (F s).

Lemma run_app es1 : forall s es2,
  run s (es1 ++ es2) = match run s es1 with Some s1 => run s1 es2 | None => None end.
Proof.
  induction es1 as [|e es1 IH]; intros s es2; cbn [app run]; [reflexivity|].
  destruct (step s e); [apply IH | reflexivity].
Qed.

Lemma reaching_comp F G : reaching F -> reaching G -> reaching (fun s => G (F s)).
Proof.
  intros HF HG s. destruct (HF s) as [e1 H1]. destruct (HG (F s)) as [e2 H2].
  exists (e1 ++ e2). rewrite run_app, H1. exact H2.
Qed.

Lemma reaching_fold {A} (f : state -> A -> state) (l : list A) :
  (forall a, reaching (fun s => f s a)) -> reaching (fun s => fold_left f l s).
Proof.
  intro Hf. induction l as [|a l IH]; intro s; cbn [fold_left].
  - exists []. reflexivity.
  - destruct (Hf a s) as [e1 H1]. destruct (IH (f s a)) as [e2 H2].
    exists (e1 ++ e2). rewrite run_app, H1. exact H2.
Qed.

Lemma reaching_run_pipe p : reaching (fun s => run_pipe s p).
Proof.
  unfold run_pipe. apply (reaching_comp (fun s => run_op 4000 s (2 * p)) (fun s => run_op 4000 s (2 * p + 1)));
    intro s; apply run_op_reach.
Qed.

Definition nested_at (here : list nest) (s : state) : state :=
  fold_left (fun st n => fold_left (fun st' p => run_pipe st' (Z.to_nat p)) (n_pipes n) st) here s.

Lemma reaching_nested here : reaching (nested_at here).
Proof.
  unfold nested_at. apply reaching_fold. intro n. apply reaching_fold. intro p. apply reaching_run_pipe.
Qed.

Lemma finished_stable es : forall s s' j, finished s j -> run s es = Some s' -> finished s' j.
Proof.
  induction es as [|[k c] es IH]; intros s s' j Hf H; cbn [run] in H.
  - inversion H; subst. exact Hf.
  - destruct (step s (k, c)) as [s1|] eqn:E; [|discriminate].
    apply (IH s1 s' j); [|exact H].
    destruct (Nat.eq_dec j k) as [->|N].
    + rewrite (step_finished s k c Hf) in E. discriminate.
    + unfold finished. rewrite (step_other s j k c s1 E N). exact Hf.
Qed.

Lemma prog_shrinks es s s' j : run s es = Some s' -> length (prog (ops s' j)) <= length (prog (ops s j)).
Proof. intro H. pose proof (steps_accounted es s s' j H). lia. Qed.

Lemma run_outer_reach f : forall s a isdec nests cw cu cs cc,
  exists es, run s es = Some (run_outer f s a isdec nests cw cu cs cc).
Proof.
  induction f as [|f IH]; intros s a isdec nests cw cu cs cc; cbn [run_outer].
  - exists []. reflexivity.
  - destruct (step s (a, lifo s)) as [s1|] eqn:E; [|exists []; reflexivity].
    assert (Hgo : forall s2 cw' cu' cs' cc', (exists e2, run s1 e2 = Some s2) ->
              exists es, run s es = Some (run_outer f s2 a isdec nests cw' cu' cs' cc')).
    { intros s2 cw' cu' cs' cc' [e2 H2]. destruct (IH s2 a isdec nests cw' cu' cs' cc') as [e3 H3].
      exists ((a, lifo s) :: e2 ++ e3). cbn [run]. rewrite E, run_app, H2. exact H3. }
    destruct (next_cb (ops s a)) as [c|].
    + match goal with |- context [fold_left _ ?h s1] => pose proof (reaching_nested h s1) as Hn end.
      unfold nested_at in Hn. destruct c; apply Hgo; exact Hn.
    + apply Hgo. exists []. reflexivity.
Qed.

Lemma run_outer_done f : forall s a isdec nests cw cu cs cc,
  Inv s -> length (prog (ops s a)) <= f ->
  finished (run_outer f s a isdec nests cw cu cs cc) a.
Proof.
  induction f as [|f IH]; intros s a isdec nests cw cu cs cc I Hl; cbn [run_outer].
  - unfold finished. destruct (prog (ops s a)); [reflexivity | cbn in Hl; lia].
  - destruct (step s (a, lifo s)) as [s1|] eqn:E.
    + destruct (step_own s a _ s1 E) as [ins Hp].
      assert (I1 : Inv s1) by (eapply Inv_step; eassumption).
      assert (Hgo : forall s2 cw' cu' cs' cc', (exists e2, run s1 e2 = Some s2) ->
                finished (run_outer f s2 a isdec nests cw' cu' cs' cc') a).
      { intros s2 cw' cu' cs' cc' [e2 H2]. apply IH; [eapply Inv_run; eassumption|].
        pose proof (prog_shrinks e2 s1 s2 a H2). rewrite Hp in Hl. cbn in Hl. lia. }
      destruct (next_cb (ops s a)) as [c|].
      * match goal with |- context [fold_left _ ?h s1] => pose proof (reaching_nested h s1) as Hn end.
        unfold nested_at in Hn. destruct c; apply Hgo; exact Hn.
      * apply Hgo. exists []. reflexivity.
    + destruct (prog (ops s a)) as [|ins rest] eqn:Ep; [exact Ep|].
      exfalso. assert (Hnf : ~ finished s a) by (unfold finished; rewrite Ep; discriminate).
      destruct (progress s a (lifo s) I Hnf) as [s' E']. congruence.
Qed.

Lemma run_pipe_done s p :
  Inv s -> (forall j, length (prog (ops s j)) <= 4000) ->
  finished (run_pipe s p) (2 * p) /\ finished (run_pipe s p) (2 * p + 1).
Proof.
  intros I Hl. unfold run_pipe.
  destruct (run_op_reach 4000 s (2 * p)) as [e1 H1].
  set (s1 := run_op 4000 s (2 * p)) in *.
  assert (F1 : finished s1 (2 * p)) by (apply run_op_done; [exact I | apply Hl]).
  assert (I1 : Inv s1) by (eapply Inv_run; eassumption).
  destruct (run_op_reach 4000 s1 (2 * p + 1)) as [e2 H2]. split.
  - eapply finished_stable; eassumption.
  - apply run_op_done; [exact I1|]. pose proof (prog_shrinks e1 s s1 (2 * p + 1) H1).
    specialize (Hl (2 * p + 1)). lia.
Qed.

Lemma fold_run_pipe_done l : forall s,
  Inv s -> (forall j, length (prog (ops s j)) <= 4000) ->
  forall p, In p l -> finished (fold_left run_pipe l s) (2 * p) /\ finished (fold_left run_pipe l s) (2 * p + 1).
Proof.
  induction l as [|a l IH]; intros s I Hl p Hin; [destruct Hin|]. cbn [fold_left].
  destruct (reaching_run_pipe a s) as [e1 H1].
  assert (I1 : Inv (run_pipe s a)) by (eapply Inv_run; eassumption).
  assert (Hl1 : forall j, length (prog (ops (run_pipe s a) j)) <= 4000).
  { intro j. pose proof (prog_shrinks e1 s _ j H1). specialize (Hl j). lia. }
  destruct (in_dec Nat.eq_dec p l) as [Hl'|Hn].
  - apply IH; assumption.
  - destruct Hin as [->|Hin]; [|contradiction].
    destruct (run_pipe_done s p I Hl) as [F1 F2].
    destruct (reaching_fold run_pipe l reaching_run_pipe (run_pipe s p)) as [e2 H2].
    split; eapply finished_stable; eassumption.
Qed.

Lemma eqb_trace_refl x : eqb_trace x x = true.
Proof.
  induction x as [|a x IH]; cbn [eqb_trace]; [reflexivity|].
  rewrite IH, andb_true_r. apply eqb_listN_spec. reflexivity.
Qed.

Theorem predict_fixed_all_same ps nests :
  (forall i, safe_prog (progs_of Fixed ps i) = true) ->
  (forall i, length (progs_of Fixed ps i) <= 4000) ->
  predict Fixed ps nests = repeat Same (length ps).
Proof.
  intros Hs Hl. unfold predict, run_case.
  remember (progs_of Fixed ps) as progs eqn:Eprogs.
  remember (init_state progs) as s0 eqn:Es0.
  remember (run_outer 4000 s0 0 false nests 0 0 0 0) as s1 eqn:Es1.
  remember (run_outer 4000 s1 1 true nests 0 0 0 0) as s2 eqn:Es2.
  remember (fold_left run_pipe (seq 1 (length ps - 1)) s2) as s3 eqn:Es3.
  destruct (run_outer_reach 4000 s0 0 false nests 0 0 0 0) as [e1 H1]. rewrite <- Es1 in H1.
  destruct (run_outer_reach 4000 s1 1 true nests 0 0 0 0) as [e2 H2]. rewrite <- Es2 in H2.
  destruct (reaching_fold run_pipe (seq 1 (length ps - 1)) reaching_run_pipe s2) as [e3 H3].
  rewrite <- Es3 in H3.
  assert (I0 : Inv s0) by (subst s0; apply Inv_init; exact Hs).
  assert (I1 : Inv s1) by (eapply Inv_run; eassumption).
  assert (I2 : Inv s2) by (eapply Inv_run; eassumption).
  assert (Hp0 : forall j, prog (ops s0 j) = progs j) by (intro j; subst s0; reflexivity).
  assert (H12 : run s0 (e1 ++ e2) = Some s2) by (rewrite run_app, H1; exact H2).
  assert (Hall : run s0 ((e1 ++ e2) ++ e3) = Some s3) by (rewrite run_app, H12; exact H3).
  assert (Hlen1 : forall j, length (prog (ops s1 j)) <= 4000).
  { intro j. pose proof (prog_shrinks e1 s0 s1 j H1) as Hsh. rewrite Hp0 in Hsh.
    specialize (Hl j). lia. }
  assert (Hlen2 : forall j, length (prog (ops s2 j)) <= 4000).
  { intro j. pose proof (prog_shrinks e2 s1 s2 j H2) as Hsh. specialize (Hlen1 j). lia. }
  assert (Hfin : forall p, p < length ps -> finished s3 (2 * p) /\ finished s3 (2 * p + 1)).
  { intros p Hp. destruct p as [|p].
    - split.
      + apply (finished_stable (e2 ++ e3) s1); [|rewrite run_app, H2; exact H3].
        rewrite Es1. apply run_outer_done; [exact I0|]. rewrite Hp0. apply Hl.
      + apply (finished_stable e3 s2); [|exact H3].
        rewrite Es2. apply run_outer_done; [exact I1 | apply Hlen1].
    - rewrite Es3. apply (fold_run_pipe_done _ s2 I2 Hlen2). apply in_seq. lia. }
  assert (Hcls : forall p, In p (seq 0 (length ps)) -> pipe_class Fixed ps s3 p = Same).
  { intros p Hp. apply in_seq in Hp. destruct (Hfin p) as [F1 F2]; [lia|].
    unfold pipe_class. rewrite <- Eprogs. rewrite Es0 in Hall.
    rewrite (completed_result progs _ s3 (2 * p) Hs Hall F1).
    rewrite (completed_result progs _ s3 (2 * p + 1) Hs Hall F2).
    rewrite !solo_trace_is_solo_result by (try apply Hs; apply Hl).
    unfold op_class. rewrite !eqb_trace_refl. reflexivity. }
  replace (repeat Same (length ps)) with (repeat Same (length (seq 0 (length ps))))
    by (rewrite seq_length; reflexivity).
  revert Hcls. generalize (seq 0 (length ps)). clear. intros l Hcls.
  induction l as [|a l IH]; cbn [map length repeat]; [reflexivity|].
  rewrite Hcls by (left; reflexivity). f_equal. apply IH. intros p Hp. apply Hcls. right. exact Hp.
Qed.

Lemma nest_premises_sound ps : nest_premises_b ps = true ->
  (forall i, safe_prog (progs_of Fixed ps i) = true) /\ (forall i, length (progs_of Fixed ps i) <= 4000).
Proof.
  unfold nest_premises_b. rewrite forallb_forall. intro H.
  assert (Hi : forall i, safe_prog (progs_of Fixed ps i) = true /\ length (progs_of Fixed ps i) <= 4000).
  { intro i. destruct (lt_dec i (2 * length ps)) as [Hlt|Hge].
    - specialize (H i). rewrite in_seq in H. specialize (H (conj (Nat.le_0_l i) Hlt)). cbn zeta in H.
      apply andb_true_iff in H. destruct H as [H _]. apply andb_true_iff in H. destruct H as [H1 H2].
      split; [exact H1 | apply Nat.leb_le; exact H2].
    - unfold progs_of. assert (E : nth_error ps (i / 2) = None).
      { apply nth_error_None. apply Nat.div_le_lower_bound; lia. }
      rewrite E. split; [reflexivity | cbn; lia]. }
  split; intro i; apply Hi.
Qed.

(* the form the correspondence check uses: premises decided per recorded case *)
Theorem predict_fixed_checked ps nests :
  nest_premises_b ps = true -> predict Fixed ps nests = repeat Same (length ps).
Proof.
  intro H. destruct (nest_premises_sound ps H) as [H1 H2]. apply predict_fixed_all_same; assumption.
Qed.

Example nest_premises_witness : nest_premises_b witness_ps = true.
Proof. vm_compute. reflexivity. Qed.
